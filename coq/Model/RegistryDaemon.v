(* Model of the responder side of the daemon (src/service_daemon.rs): register_service /
   send_unsolicited_response, prepare_announce, announce_service_on_intf, probing_handler,
   exec_command_register_resend, conflict_handler, handle_query (status guards, tiebreaking
   call, answers), unregister_service / exec_command_unregister(_resend), cleanup, and one
   loop iteration of Zeroconf::run restricted to these commands.

   Not modelled (no observable effect in histories without browse / resolve_hostname calls
   and with a constant interface table): the record cache, query retransmissions, the IP
   check, packet splitting above 8972 bytes.
   Time stands still inside an iteration.  External nondeterminism is an input: the jitter
   values drawn by fastrand (in draw order), the iteration order of `my_intfs` (the order of
   d_intfs), arriving datagrams.  Definitions only. *)
From Coq Require Import List NArith Bool.
From Mdns Require Import Bytes Rec ParamsRegistry Names Registry WireOut.
Import ListNotations.
Open Scope N_scope.

(* ---- interfaces and services ------------------------------------------------------------------ *)

Record ifaddr : Type := mkIA { ia_ip : bytes; ia_mask : bytes }.   (* 4 octets = IPv4, 16 = IPv6 *)
Record intf : Type := mkIntf { if_index : N; if_name : bytes; if_addrs : list ifaddr }.

Inductive status := SProbing | SAnnounced.

Record svc : Type := mkSvc {
  s_ty : bytes;               (* "_t._tcp.local." *)
  s_sub : option bytes;       (* "_s._sub._t._tcp.local." *)
  s_full : bytes;             (* escaped instance name + "." + type, original spelling *)
  s_host : bytes;
  s_addrs : list bytes;       (* HashSet<IpAddr>: octets *)
  s_port : N;
  s_txt : bytes;              (* generate_txt() *)
  s_probe : bool;             (* requires_probe *)
  s_status : list (N * status);
  s_auto : bool }.            (* addr_auto: addresses follow the interface table *)

Fixpoint nget {V} (k : N) (l : list (N * V)) : option V :=
  match l with [] => None | (k', v) :: t => if k =? k' then Some v else nget k t end.
Fixpoint nset {V} (k : N) (v : V) (l : list (N * V)) : list (N * V) :=
  match l with
  | [] => [(k, v)]
  | (k', v') :: t => if k =? k' then (k, v) :: t else (k', v') :: nset k v t
  end.

Definition set_status (i : N) (st : status) (s : svc) : svc :=
  mkSvc (s_ty s) (s_sub s) (s_full s) (s_host s) (s_addrs s) (s_port s) (s_txt s) (s_probe s)
        (nset i st (s_status s)) (s_auto s).
Definition set_addrs (a : list bytes) (s : svc) : svc :=
  mkSvc (s_ty s) (s_sub s) (s_full s) (s_host s) a (s_port s) (s_txt s) (s_probe s) (s_status s) (s_auto s).
Definition announced_on (i : N) (s : svc) : bool :=
  match nget i (s_status s) with Some SAnnounced => true | _ => false end.

(* valid_ip_on_intf: same family and same network under the interface's netmask *)
Fixpoint masked_eq (a b m : bytes) : bool :=
  match a, b, m with
  | x :: a', y :: b', k :: m' => (N.land x k =? N.land y k) && masked_eq a' b' m'
  | [], [], [] => true
  | _, _, _ => false
  end.
Definition valid_ip_on_intf (addr : bytes) (ia : ifaddr) : bool :=
  Bool.eqb (is_v4 addr) (is_v4 (ia_ip ia)) && masked_eq addr (ia_ip ia) (ia_mask ia).

(* ServiceInfo::get_addrs_on_my_intf_v4 / _v6 *)
Definition addrs_on_intf (s : svc) (i : intf) (v4 : bool) : list bytes :=
  filter (fun a => Bool.eqb (is_v4 a) v4 && existsb (valid_ip_on_intf a) (if_addrs i)) (s_addrs s).

(* MyIntf::next_ifaddr_v4 / _v6 is Some *)
Definition intf_has_family (i : intf) (v4 : bool) : bool :=
  existsb (fun ia => Bool.eqb (is_v4 (ia_ip ia)) v4) (if_addrs i).

(* ---- outgoing messages and observable outputs --------------------------------------------------- *)

Record omsg : Type := mkOut {
  o_resp : bool;                       (* FLAGS_QR_RESPONSE | FLAGS_AA, or a query *)
  o_q : list (bytes * N);
  o_an : list rr; o_ns : list rr; o_ar : list rr }.   (* r_name = the name written on the wire *)

Inductive dest := Mcast | Ucast (ip : bytes) (port : N).

Inductive out : Type :=
| OSend (ifidx : N) (v4 : bool) (d : dest) (m : omsg)
| OAnnounce (name : bytes) (detail : option (bytes * bytes))   (* DaemonEvent::Announce; Some (host, intf) *)
| ONameChange (orig new : bytes) (ty : N) (ifname : bytes)     (* DaemonEvent::NameChange *)
| ORespond (ifname : bytes)                                    (* DaemonEvent::Respond *)
| OReply (ch : bytes) (ok : bool)                              (* UnregisterStatus::OK / NotFound *)
| OIp (added : bool) (ip : bytes)                              (* DaemonEvent::IpAdd / IpDel *)
| OExit.

Definition wire_rr (p : prec) : rr :=
  mkRR (p_name p) (r_type (p_rr p)) (r_class (p_rr p)) (r_flush (p_rr p)) (r_ttl (p_rr p)) (r_data (p_rr p)).

Definition addr_type (a : bytes) : N := if is_v4 a then TY_A else TY_AAAA.

(* ---- commands kept in `retransmissions` ------------------------------------------------------------- *)

(* one row of the OS interface table: one address of one interface *)
Record osrow : Type := mkRow { os_name : bytes; os_index : N; os_ip : bytes; os_mask : bytes }.

(* IfKind, the forms used in the histories *)
Inductive ifkind : Type := KAll | KV4 | KV6 | KName (n : bytes) | KUnsupported.
Definition kind_matches (k : ifkind) (r : osrow) : bool :=
  match k with
  | KAll => true
  | KV4 => is_v4 (os_ip r)
  | KV6 => negb (is_v4 (os_ip r))
  | KName n => beq n (os_name r)
  | KUnsupported => false
  end.

Inductive cmd : Type :=
| RegisterResend (full : bytes) (ifidx : N)
| UnregisterResend (pkt : omsg) (ifidx : N) (v4 : bool).

Record dstate : Type := mkD {
  d_intfs : list intf;                 (* my_intfs, in its (unspecified) iteration order *)
  d_regs : list (N * registry);        (* dns_registry_map *)
  d_svcs : list (bytes * svc);         (* my_services, keyed by the lower-cased full name *)
  d_retrans : list (N * cmd);
  d_mon : bool;                        (* a monitor channel is registered *)
  d_dead : bool;
  d_os : list osrow;                   (* the OS interface table (my_ip_interfaces_inner), in table order *)
  d_sel : list (ifkind * bool) }.      (* if_selections: enable_interface / disable_interface so far *)

Definition rows_of (ifs : list intf) : list osrow :=
  flat_map (fun i => map (fun a => mkRow (if_name i) (if_index i) (ia_ip a) (ia_mask a)) (if_addrs i)) ifs.

(* the daemon starts with every row of the OS table bound; `os` = the table in its own order *)
Definition d_init_os (ifs : list intf) (os : list osrow) : dstate := mkD ifs [] [] [] false false os [].
Definition d_init (ifs : list intf) : dstate := d_init_os ifs (rows_of ifs).

Definition get_reg (st : dstate) (i : N) : registry :=
  match nget i (d_regs st) with Some r => r | None => reg_new end.

Definition draw (js : list N) : N * list N := match js with j :: t => (j, t) | [] => (0, []) end.

Definition mon (st_mon : bool) (o : list out) : list out := if st_mon then o else [].

(* ---- prepare_announce ------------------------------------------------------------------------------------ *)

Definition with_change (rg : registry) (key : bytes) (p : prec) : prec :=
  match aget key (rg_changes rg) with Some n => set_new_name n p | None => p end.

Definition srv_rec (rg : registry) (s : svc) : prec :=
  with_change rg (s_full s)
    (mkP (mkRR (s_full s) TY_SRV class_in true dns_host_ttl
               (RSrv 0 0 (s_port s) (resolve_name rg (s_host s)))) None 0).
Definition txt_rec (rg : registry) (s : svc) : prec :=
  with_change rg (s_full s)
    (mkP (mkRR (s_full s) TY_TXT class_in true dns_other_ttl (RTxt (s_txt s))) None 0).
Definition addr_rec (rg : registry) (s : svc) (i : intf) (a : bytes) : prec :=
  with_change rg (s_host s)
    (mkP (mkRR (s_host s) (addr_type a) class_in true dns_host_ttl (RAddr a)) None (if_index i)).

Definition ptr_rrs (s : svc) (ttl : N) (target : bytes) : list rr :=
  mkRR (s_ty s) TY_PTR class_in false ttl (RPtr target)
  :: match s_sub s with
     | Some sb => [mkRR sb TY_PTR class_in false ttl (RPtr target)]
     | None => []
     end.

(* the `!requires_probe || is_probing_done(..)` test for a list of records, left to right *)
Fixpoint probe_records (rg : registry) (s : svc) (create : N) (recs : list prec) : registry * bool :=
  match recs with
  | [] => (rg, true)
  | r :: t =>
    if s_probe s then
      let (rg1, ok) := is_probing_done rg r (s_full s) create in
      let (rg2, ok2) := probe_records rg1 s create t in
      (rg2, ok && ok2)
    else probe_records rg s create t
  end.

Definition announce_records (rg : registry) (s : svc) (i : intf) (v4 : bool) : list prec :=
  srv_rec rg s :: txt_rec rg s :: map (addr_rec rg s i) (addrs_on_intf s i v4).

Definition prepare_announce (s : svc) (i : intf) (rg : registry) (v4 : bool) (now : N) (js : list N)
  : registry * option omsg * list N :=
  match addrs_on_intf s i v4 with
  | [] => (rg, None, js)
  | _ =>
    let (j, js') := draw js in
    let recs := announce_records rg s i v4 in
    let (rg', ok) := probe_records rg s (now + j) recs in
    if ok then
      (rg', Some (mkOut true [] (ptr_rrs s dns_other_ttl (resolve_name rg (s_full s)) ++ map wire_rr recs) [] []), js')
    else (rg', None, js')
  end.

(* announce_service_on_intf for IPv4 and then IPv6 *)
Definition announce_both (s : svc) (i : intf) (rg : registry) (now : N) (js : list N)
  : registry * list out * bool * list N :=
  let '(rg1, m4, js1) := prepare_announce s i rg true now js in
  let '(rg2, m6, js2) := prepare_announce s i rg1 false now js1 in
  let o4 := match m4 with Some m => [OSend (if_index i) true Mcast m] | None => [] end in
  let o6 := match m6 with Some m => [OSend (if_index i) false Mcast m] | None => [] end in
  (rg2, o4 ++ o6, match m4, m6 with None, None => false | _, _ => true end, js2).

(* ---- register_service / send_unsolicited_response ------------------------------------------------------------ *)

Fixpoint register_intfs (ifs : list intf) (s : svc) (regs : list (N * registry)) (now : N) (js : list N)
  : svc * list (N * registry) * list out * list N (* announced interfaces *) * list N :=
  match ifs with
  | [] => (s, regs, [], [], js)
  | i :: t =>
    let rg := match nget (if_index i) regs with Some r => r | None => reg_new end in
    let '(rg', os, ann, js1) := announce_both s i rg now js in
    let s1 := set_status (if_index i) (if ann then SAnnounced else SProbing) s in
    let '(s2, regs2, os2, anns, js2) := register_intfs t s1 (nset (if_index i) rg' regs) now js1 in
    (s2, regs2, os ++ os2, (if ann then [if_index i] else []) ++ anns, js2)
  end.

Definition sput (k : bytes) (s : svc) (l : list (bytes * svc)) : list (bytes * svc) := aset k s l.

(* if_selections applied to one row of the OS table: selected by default, the last matching
   selection decides *)
Definition row_selected (sel : list (ifkind * bool)) (r : osrow) : bool :=
  fold_left (fun acc kb => if kind_matches (fst kb) r then snd kb else acc) sel true.

Definition add_ip (a : bytes) (l : list bytes) : list bytes := if mem a l then l else l ++ [a].
Definition del_ip (a : bytes) (l : list bytes) : list bytes := filter (fun x => negb (beq x a)) l.

(* register_service for an addr_auto service: insert_ipaddr for every selected row *)
Definition auto_addrs (st : dstate) (s : svc) : svc :=
  if s_auto s
  then set_addrs (fold_left (fun l r => if row_selected (d_sel st) r then add_ip (os_ip r) l else l) (d_os st) (s_addrs s)) s
  else s.

Definition register_service (st : dstate) (s0 : svc) (now : N) (js : list N) : dstate * list out * list N :=
  let s := auto_addrs st s0 in
  let '(s', regs, os, anns, js') := register_intfs (d_intfs st) s (d_regs st) now js in
  let ev := match anns with [] => [] | _ => mon (d_mon st) [OAnnounce (s_full s) None] end in
  let rt := map (fun i => (now + announce_repeat_register, RegisterResend (s_full s) i)) anns in
  (mkD (d_intfs st) regs (sput (lower (s_full s)) s' (d_svcs st)) (d_retrans st ++ rt) (d_mon st) (d_dead st) (d_os st) (d_sel st),
   os ++ ev, js').

(* ---- exec_command_register_resend ---------------------------------------------------------------------------------- *)

Definition find_intf (st : dstate) (i : N) : option intf :=
  find (fun x => if_index x =? i) (d_intfs st).

Definition register_resend (st : dstate) (full : bytes) (i : N) (now : N) (js : list N)
  : dstate * list out * list N :=
  match aget (lower full) (d_svcs st), nget i (d_regs st), find_intf st i with
  | Some s, Some rg, Some itf =>
    let '(rg', os, ann, js') := announce_both s itf rg now js in
    if ann then
      let ev := mon (d_mon st) [OAnnounce (resolve_name rg' full)
                                          (Some (resolve_name rg' (s_host s), if_name itf))] in
      (mkD (d_intfs st) (nset i rg' (d_regs st)) (sput (lower full) (set_status i SAnnounced s) (d_svcs st))
           (d_retrans st) (d_mon st) (d_dead st) (d_os st) (d_sel st), os ++ ev, js')
    else
      (mkD (d_intfs st) (nset i rg' (d_regs st)) (d_svcs st) (d_retrans st) (d_mon st) (d_dead st) (d_os st) (d_sel st), os, js')
  | _, _, _ => (st, [], js)
  end.

(* ---- unregister_service: the goodbye packet ----------------------------------------------------------------------------- *)

(* the names are those most recently announced on the interface: resolved through its registry *)
Definition goodbye_msg (rg : registry) (s : svc) (addrs : list bytes) : omsg :=
  let full := resolve_name rg (s_full s) in
  let host := resolve_name rg (s_host s) in
  mkOut true []
    (ptr_rrs s 0 full
     ++ [mkRR full TY_SRV class_in true 0 (RSrv 0 0 (s_port s) host);
         mkRR full TY_TXT class_in true 0 (RTxt (s_txt s))]
     ++ map (fun a => mkRR host (addr_type a) class_in true 0 (RAddr a)) addrs)
    [] [].

(* one family on one interface: the packet if it is sent *)
Definition goodbye_on (st : dstate) (s : svc) (i : intf) (v4 : bool) : option omsg :=
  match addrs_on_intf s i v4 with
  | [] => None
  | addrs => Some (goodbye_msg (get_reg st (if_index i)) s addrs)
  end.

(* only on interfaces where the service is in the announced state *)
Definition goodbyes_of (st : dstate) (s : svc) : list (N * bool * omsg) :=
  flat_map (fun i =>
    if announced_on (if_index i) s then
      (match goodbye_on st s i true with Some m => [(if_index i, true, m)] | None => [] end)
      ++ (match goodbye_on st s i false with Some m => [(if_index i, false, m)] | None => [] end)
    else []) (d_intfs st).

Definition send_of (g : N * bool * omsg) : out := let '(i, v4, m) := g in OSend i v4 Mcast m.

(* exec_command_unregister (first execution; `repeating` is never true for this command) *)
Definition resend_of (now : N) (g : N * bool * omsg) : N * cmd :=
  let '(i, v4, m) := g in
  (now + (if v4 then goodbye_repeat_v4 else goodbye_repeat_v6), UnregisterResend m i v4).

(* fix d685fcf: after the goodbyes, every interface registry forgets the entries only this service
   owns: probing, active and name_changes under its registered full name and under the name it
   currently has there (HashMap::remove = every entry with that key) *)
Definition forget_name (n : bytes) (rg : registry) : registry :=
  mkReg (filter (fun kv => negb (beq (fst kv) n)) (rg_probing rg))
        (filter (fun kv => negb (beq (fst kv) n)) (rg_active rg))
        (filter (fun kv => negb (beq (fst kv) n)) (rg_changes rg)).
Definition forget_service (full : bytes) (rg : registry) : registry :=
  let current := resolve_name rg full in forget_name current (forget_name full rg).
Definition forget_regs (full : bytes) (regs : list (N * registry)) : list (N * registry) :=
  map (fun kr => (fst kr, forget_service full (snd kr))) regs.

Definition unregister (st : dstate) (name_lower ch : bytes) (now : N) : dstate * list out :=
  match aget name_lower (d_svcs st) with
  | None => (st, [OReply ch false])
  | Some s =>
    let gs := goodbyes_of st s in
    let rt := map (resend_of now) gs in
    (mkD (d_intfs st) (forget_regs (s_full s) (d_regs st)) (adel name_lower (d_svcs st)) (d_retrans st ++ rt)
         (d_mon st) (d_dead st) (d_os st) (d_sel st),
     map send_of gs ++ [OReply ch true])
  end.

(* exec_command_unregister_resend: the saved packet again, through the interface it belongs to *)
Definition unregister_resend (st : dstate) (m : omsg) (i : N) (v4 : bool) : list out :=
  match find_intf st i with
  | Some itf => if intf_has_family itf v4 then [OSend i v4 Mcast m] else []
  | None => []
  end.

(* cleanup: goodbyes for every service, once; then the thread exits *)
Definition cleanup (st : dstate) : dstate * list out :=
  (mkD (d_intfs st) (d_regs st) [] [] (d_mon st) true (d_os st) (d_sel st),
   flat_map (fun ks => map send_of (goodbyes_of st (snd ks))) (d_svcs st) ++ [OExit]).

(* ---- probing_handler ---------------------------------------------------------------------------------------------------------- *)

Definition probe_query (qs : list (bytes * list prec)) : omsg :=
  mkOut false (map (fun q => (fst q, TY_ANY)) qs) [] (flat_map (fun q => map wire_rr (snd q)) qs) [].

Fixpoint announce_waiting (waiting : list bytes) (itf : intf) (rg : registry) (svcs : list (bytes * svc))
         (now : N) (js : list N) (m : bool)
  : registry * list (bytes * svc) * list out * list (N * cmd) * list N :=
  match waiting with
  | [] => (rg, svcs, [], [], js)
  | w :: t =>
    match aget (lower w) svcs with
    | None => announce_waiting t itf rg svcs now js m
    | Some s =>
      if announced_on (if_index itf) s then announce_waiting t itf rg svcs now js m
      else
        let '(rg1, os, ann, js1) := announce_both s itf rg now js in
        if ann then
          let ev := mon m [OAnnounce (resolve_name rg1 w)
                                     (Some (resolve_name rg1 (s_host s), if_name itf))] in
          let svcs1 := sput (lower w) (set_status (if_index itf) SAnnounced s) svcs in
          let '(rg2, svcs2, os2, rt2, js2) := announce_waiting t itf rg1 svcs1 now js1 m in
          (rg2, svcs2, os ++ ev ++ os2,
           (announce_repeat_probing now, RegisterResend (s_full s) (if_index itf)) :: rt2, js2)
        else
          let '(rg2, svcs2, os2, rt2, js2) := announce_waiting t itf rg1 svcs now js1 m in
          (rg2, svcs2, os ++ os2, rt2, js2)
    end
  end.

Fixpoint probing_intfs (ifs : list intf) (st : dstate) (now : N) (js : list N) : dstate * list out * list N :=
  match ifs with
  | [] => (st, [], js)
  | itf :: t =>
    match nget (if_index itf) (d_regs st) with
    | None => probing_intfs t st now js
    | Some rg =>
      let '(rg1, qs, evs, waiting) := probe_step rg now in
      let q := probe_query qs in
      let sends :=
        match qs with
        | [] => []
        | _ => (if intf_has_family itf true then [OSend (if_index itf) true Mcast q] else [])
               ++ (if intf_has_family itf false then [OSend (if_index itf) false Mcast q] else [])
        end in
      let nev := mon (d_mon st)
                     (map (fun e => let '(o, n, ty) := e in ONameChange o n ty (if_name itf)) evs) in
      let '(rg2, svcs2, os2, rt2, js2) :=
        announce_waiting waiting itf rg1 (d_svcs st) now js (d_mon st) in
      let st1 := mkD (d_intfs st) (nset (if_index itf) rg2 (d_regs st)) svcs2 (d_retrans st ++ rt2)
                     (d_mon st) (d_dead st) (d_os st) (d_sel st) in
      let '(st2, os3, js3) := probing_intfs t st1 now js2 in
      (st2, sends ++ nev ++ os2 ++ os3, js3)
    end
  end.

Definition probing_handler (st : dstate) (now : N) (js : list N) : dstate * list out * list N :=
  probing_intfs (d_intfs st) st now js.

(* ---- incoming datagrams -------------------------------------------------------------------------------------------------------------- *)

Record dgram : Type := mkDg {
  g_if : N; g_v4 : bool; g_src : bytes; g_port : N;
  g_resp : bool;
  g_q : list (bytes * N);
  g_an : list rr; g_ns : list rr; g_ar : list rr }.

(* conflict_handler *)
Fixpoint conflict_answers (rg : registry) (answers : list rr) (now : N) (js : list N) : registry * list N :=
  match answers with
  | [] => (rg, js)
  | a :: t =>
    if conflict_applies rg a then
      let (j, js') := draw js in
      conflict_answers (apply_conflict rg a (now + j)) t now js'
    else conflict_answers rg t now js
  end.

Definition handle_response (st : dstate) (g : dgram) (now : N) (js : list N) : dstate * list N :=
  match find_intf st (g_if g), nget (g_if g) (d_regs st) with
  | Some _, Some rg =>
    (* a TTL of 0 in a response is read as 1 by the decoder (the record lives one more second),
       so no incoming record is expired on arrival: goodbye records take part in the conflict check *)
    let (rg', js') := conflict_answers rg (g_an g) now js in
    (mkD (d_intfs st) (nset (g_if g) rg' (d_regs st)) (d_svcs st) (d_retrans st) (d_mon st) (d_dead st) (d_os st) (d_sel st), js')
  | _, _ => (st, js)
  end.

(* known-answer suppression: DnsRecordExt::suppressed_by *)
(* (the cache-flush bit is not part of the record's identity here) *)
Definition suppressed (g : dgram) (a : prec) : bool :=
  existsb (fun o =>
             matches a (mkP (mkRR (r_name o) (r_type o) (r_class o) (r_flush (p_rr a)) (r_ttl o) (r_data o))
                            None (g_if g))
             && (r_ttl (p_rr a) / 2 <? r_ttl o)) (g_an g).

Definition META_QUERY : bytes :=
  [95;115;101;114;118;105;99;101;115;46;95;100;110;115;45;115;100;46;95;117;100;112;46;108;111;99;97;108;46].

Definition opt_beq (o : option bytes) (b : bytes) : bool :=
  match o with Some x => beq x b | None => false end.

(* answers and additionals contributed by one question *)
Definition add_all (g : dgram) (recs : list prec) : list rr :=
  map wire_rr (filter (fun r => negb (suppressed g r)) recs).

(* answers, additionals, and the service types already listed for the meta query *)
Definition answer_ptr_question (st : dstate) (g : dgram) (itf : intf) (rg : registry) (qn : bytes)
  : list rr * list rr :=
  fst (fold_left
    (fun (accs : (list rr * list rr) * list bytes) ks =>
       let '(acc, seen) := accs in
       let s := snd ks in
       if negb (announced_on (g_if g) s) then accs
       else if beq qn (s_ty s) || opt_beq (s_sub s) qn then
         match addrs_on_intf s itf (g_v4 g) with
         | [] => accs
         | addrs =>
           let full := resolve_name rg (s_full s) in
           let host := resolve_name rg (s_host s) in
           let ptr := mkP (mkRR (s_ty s) TY_PTR class_in false dns_other_ttl (RPtr full)) None 0 in
           if suppressed g ptr then accs
           else
             ((fst acc ++ [wire_rr ptr],
               snd acc
               ++ (match s_sub s with
                   | Some sb => [mkRR sb TY_PTR class_in false dns_other_ttl (RPtr full)]
                   | None => [] end)
               ++ [mkRR full TY_SRV class_in true dns_host_ttl (RSrv 0 0 (s_port s) host);
                   mkRR full TY_TXT class_in true dns_other_ttl (RTxt (s_txt s))]
               ++ map (fun a => mkRR host (addr_type a) class_in true dns_host_ttl (RAddr a)) addrs), seen)
         end
       else if beq qn META_QUERY then
         if mem (s_ty s) seen then accs     (* one PTR per service type *)
         else ((fst acc ++ add_all g [mkP (mkRR qn TY_PTR class_in false dns_other_ttl (RPtr (s_ty s))) None 0], snd acc),
               s_ty s :: seen)
       else accs)
    (d_svcs st) (([], []), [])).

Definition answer_addr_question (st : dstate) (g : dgram) (itf : intf) (rg : registry) (qn : bytes) (qt : N)
  : list rr :=
  flat_map
    (fun ks =>
       let s := snd ks in
       if negb (announced_on (g_if g) s) then []
       else
         let host := resolve_name rg (s_host s) in
         if beq (lower host) (lower qn) then
           let addrs := (if (qt =? TY_A) || (qt =? TY_ANY) then addrs_on_intf s itf true else [])
                        ++ (if (qt =? TY_AAAA) || (qt =? TY_ANY) then addrs_on_intf s itf false else []) in
           add_all g (map (fun a => mkP (mkRR host (addr_type a) class_in true dns_host_ttl (RAddr a))
                                        None (if_index itf)) addrs)
         else [])
    (d_svcs st).

(* the service is found by its current (possibly renamed) full name; SRV target and the owner of
   the address additionals are the host name it currently holds *)
Definition answer_instance_question (st : dstate) (g : dgram) (itf : intf) (rg : registry) (qn : bytes) (qt : N)
  : list rr * list rr :=
  match find (fun ks => beq (lower (resolve_name rg (s_full (snd ks)))) (lower qn)) (d_svcs st) with
  | None => ([], [])
  | Some (_, s) =>
    if negb (announced_on (g_if g) s) then ([], [])
    else
      match addrs_on_intf s itf (g_v4 g) with
      | [] => ([], [])
      | addrs =>
        let host := resolve_name rg (s_host s) in
        let srv := mkP (mkRR qn TY_SRV class_in true dns_host_ttl (RSrv 0 0 (s_port s) host)) None 0 in
        let srv_wanted := (qt =? TY_SRV) || (qt =? TY_ANY) in
        let srv_added := srv_wanted && negb (suppressed g srv) in
        ((if srv_added then [wire_rr srv] else [])
         ++ (if (qt =? TY_TXT) || (qt =? TY_ANY)
             then add_all g [mkP (mkRR qn TY_TXT class_in true dns_other_ttl (RTxt (s_txt s))) None 0]
             else []),
         if (qt =? TY_SRV) && srv_added
         then map (fun a => mkRR host (addr_type a) class_in true dns_host_ttl (RAddr a)) addrs
         else [])
      end
  end.

(* the tiebreaking call of handle_query *)
Definition tiebreak_question (rg : registry) (g : dgram) (qn : bytes) (qt : N) (now : N) : registry :=
  if (qt =? TY_ANY) && negb (match g_ns g with [] => true | _ => false end)
  then apply_tiebreak rg qn (filter (fun r => beq (r_name r) qn) (g_ns g)) now
  else rg.

Fixpoint handle_questions (st : dstate) (g : dgram) (itf : intf) (rg : registry) (qs : list (bytes * N)) (now : N)
  : registry * list rr * list rr :=
  match qs with
  | [] => (rg, [], [])
  | (qn, qt) :: t =>
    if qt =? TY_PTR then
      let (an, ar) := answer_ptr_question st g itf rg qn in
      let '(rg', an2, ar2) := handle_questions st g itf rg t now in
      (rg', an ++ an2, ar ++ ar2)
    else
      let rg1 := tiebreak_question rg g qn qt now in
      let an_a := if (qt =? TY_A) || (qt =? TY_AAAA) || (qt =? TY_ANY)
                  then answer_addr_question st g itf rg1 qn qt else [] in
      let (an_i, ar_i) := answer_instance_question st g itf rg1 qn qt in
      let '(rg', an2, ar2) := handle_questions st g itf rg1 t now in
      (rg', an_a ++ an_i ++ an2, ar_i ++ ar2)
  end.

Definition clear_flush (r : rr) : rr := mkRR (r_name r) (r_type r) (r_class r) false (r_ttl r) (r_data r).

Definition MDNS_PORT : N := 5353.

Definition handle_query (st : dstate) (g : dgram) (now : N) : dstate * list out :=
  match nget (g_if g) (d_regs st), find_intf st (g_if g) with
  | Some rg, Some itf =>
    let '(rg', an, ar) := handle_questions st g itf rg (g_q g) now in
    let st' := mkD (d_intfs st) (nset (g_if g) rg' (d_regs st)) (d_svcs st) (d_retrans st) (d_mon st) (d_dead st) (d_os st) (d_sel st) in
    match an with
    | [] => (st', [])
    | _ =>
      let m := if g_port g =? MDNS_PORT then mkOut true [] an [] ar
               else mkOut true (g_q g) (map clear_flush an) [] (map clear_flush ar) in
      let d := if g_port g =? MDNS_PORT then Mcast else Ucast (g_src g) (g_port g) in
      (st', OSend (g_if g) (g_v4 g) d m :: mon (d_mon st) [ORespond (if_name itf)])
    end
  | _, _ => (st, [])
  end.

(* handle_read: interface lookup, disabled-family drop, dispatch *)
Definition handle_dgram (st : dstate) (g : dgram) (now : N) (js : list N) : dstate * list out * list N :=
  match find_intf st (g_if g) with
  | None => (st, [], js)
  | Some itf =>
    if negb (intf_has_family itf (g_v4 g)) then (st, [], js)
    else if g_resp g then let (st', js') := handle_response st g now js in (st', [], js')
    else let (st', os) := handle_query st g now in (st', os, js)
  end.

Fixpoint handle_dgrams (st : dstate) (gs : list dgram) (now : N) (js : list N) : dstate * list out * list N :=
  match gs with
  | [] => (st, [], js)
  | g :: t =>
    let '(st1, os1, js1) := handle_dgram st g now js in
    let '(st2, os2, js2) := handle_dgrams st1 t now js1 in
    (st2, os1 ++ os2, js2)
  end.

(* ---- API calls (commands) ---------------------------------------------------------------------------------------------------------------- *)

(* ---- enable_interface / disable_interface: apply_intf_selections --------------------------------------------------------------------- *)

Fixpoint nremove {V} (k : N) (l : list (N * V)) : list (N * V) :=
  match l with [] => [] | (k', v) :: t => if k =? k' then t else (k', v) :: nremove k t end.

Definition has_addr (i : intf) (ip : bytes) : bool := existsb (fun a => beq (ia_ip a) ip) (if_addrs i).

(* add_interface, when the row brings a new address: every addr_auto service gets the address
   and is announced / starts probing on the row's family; an announcement made here is repeated one
   second later (RegisterResend; no Announce event is raised here) *)
Fixpoint add_row_services (svcs : list (bytes * svc)) (itf : intf) (rg : registry) (ip : bytes)
         (now : N) (js : list N) : list (bytes * svc) * registry * list out * list (N * cmd) * list N :=
  match svcs with
  | [] => ([], rg, [], [], js)
  | (k, s) :: t =>
    if s_auto s then
      let s1 := set_addrs (add_ip ip (s_addrs s)) s in
      let '(rg1, m, js1) := prepare_announce s1 itf rg (is_v4 ip) now js in
      let s2 := set_status (if_index itf) (match m with Some _ => SAnnounced | None => SProbing end) s1 in
      let o := match m with Some msg => [OSend (if_index itf) (is_v4 ip) Mcast msg] | None => [] end in
      let rt := match m with
                | Some _ => [(now + announce_repeat_add_interface, RegisterResend (s_full s) (if_index itf))]
                | None => [] end in
      let '(t', rg2, os2, rt2, js2) := add_row_services t itf rg1 ip now js1 in
      ((k, s2) :: t', rg2, o ++ os2, rt ++ rt2, js2)
    else
      let '(t', rg2, os2, rt2, js2) := add_row_services t itf rg ip now js in
      ((k, s) :: t', rg2, os2, rt2, js2)
  end.

Definition add_interface (st : dstate) (r : osrow) (now : N) (js : list N) : dstate * list out * list N :=
  let idx := os_index r in
  let a := mkIA (os_ip r) (os_mask r) in
  match find_intf st idx with
  | Some itf0 =>
    if has_addr itf0 (os_ip r) then (st, [], js)
    else
      let itf := mkIntf idx (if_name itf0) (if_addrs itf0 ++ [a]) in
      let intfs := map (fun i => if if_index i =? idx then itf else i) (d_intfs st) in
      let '(svcs, rg, os, rt, js') := add_row_services (d_svcs st) itf (get_reg st idx) (os_ip r) now js in
      (mkD intfs (nset idx rg (d_regs st)) svcs (d_retrans st ++ rt) (d_mon st) (d_dead st) (d_os st) (d_sel st),
       os ++ mon (d_mon st) [OIp true (os_ip r)], js')
  | None =>
    let itf := mkIntf idx (os_name r) [a] in
    let '(svcs, rg, os, rt, js') := add_row_services (d_svcs st) itf (get_reg st idx) (os_ip r) now js in
    (mkD (d_intfs st ++ [itf]) (nset idx rg (d_regs st)) svcs (d_retrans st ++ rt) (d_mon st) (d_dead st) (d_os st) (d_sel st),
     os ++ mon (d_mon st) [OIp true (os_ip r)], js')
  end.

(* del_interface_addr: the address leaves the interface; the last address takes the interface and
   its registry with it; addr_auto services lose the address (and IpDel is reported) only if no
   interface the daemon still has holds that IP (fix 0f7c6ac) *)
Definition del_interface_addr (st : dstate) (r : osrow) : dstate * list out :=
  let idx := os_index r in
  match find_intf st idx with
  | None => (st, [])
  | Some itf0 =>
    if negb (has_addr itf0 (os_ip r)) then (st, [])
    else
      let addrs := filter (fun a => negb (beq (ia_ip a) (os_ip r))) (if_addrs itf0) in
      let intfs' := match addrs with
                    | [] => filter (fun i => negb (if_index i =? idx)) (d_intfs st)
                    | _ => map (fun i => if if_index i =? idx then mkIntf idx (if_name itf0) addrs else i) (d_intfs st)
                    end in
      let regs' := match addrs with [] => nremove idx (d_regs st) | _ => d_regs st end in
      let held := existsb (fun i => has_addr i (os_ip r)) intfs' in
      let svcs := if held then d_svcs st
                  else map (fun ks => (fst ks, if s_auto (snd ks) then set_addrs (del_ip (os_ip r) (s_addrs (snd ks))) (snd ks)
                                               else snd ks)) (d_svcs st) in
      let ev := if held then [] else mon (d_mon st) [OIp false (os_ip r)] in
      (mkD intfs' regs' svcs (d_retrans st) (d_mon st) (d_dead st) (d_os st) (d_sel st), ev)
  end.

Fixpoint apply_rows (st : dstate) (rows : list osrow) (now : N) (js : list N) : dstate * list out * list N :=
  match rows with
  | [] => (st, [], js)
  | r :: t =>
    let '(st1, os1, js1) :=
      if row_selected (d_sel st) r then add_interface st r now js
      else let (st', os') := del_interface_addr st r in (st', os', js) in
    let '(st2, os2, js2) := apply_rows st1 t now js1 in
    (st2, os1 ++ os2, js2)
  end.

(* enable_interface(kinds) / disable_interface(kinds) *)
Definition select_interfaces (st : dstate) (enable : bool) (kinds : list ifkind) (now : N) (js : list N)
  : dstate * list out * list N :=
  let st1 := mkD (d_intfs st) (d_regs st) (d_svcs st) (d_retrans st) (d_mon st) (d_dead st) (d_os st)
                 (d_sel st ++ map (fun k => (k, enable)) kinds) in
  apply_rows st1 (d_os st1) now js.

Inductive call : Type :=
| CRegister (s : svc)
| CUnregister (name ch : bytes)      (* name as passed by the caller; ServiceDaemon::unregister lower-cases it *)
| CMonitor
| CShutdown
| CIfSel (enable : bool) (kinds : list ifkind)     (* enable_interface / disable_interface *)
| COther.                            (* a command without effect on the responder state *)

(* one command; the boolean says that it was Exit (the commands behind it are dropped) *)
Definition exec_call (st : dstate) (c : call) (now : N) (js : list N) : dstate * list out * list N * bool :=
  match c with
  | CShutdown => let (st', os) := cleanup st in (st', os, js, true)
  | CRegister s => let '(st1, os1, js1) := register_service st s now js in (st1, os1, js1, false)
  | CUnregister n ch => let (st1, os1) := unregister st (lower n) ch now in (st1, os1, js, false)
  | CMonitor =>
    (mkD (d_intfs st) (d_regs st) (d_svcs st) (d_retrans st) true (d_dead st) (d_os st) (d_sel st), [], js, false)
  | CIfSel en kinds => let '(st1, os1, js1) := select_interfaces st en kinds now js in (st1, os1, js1, false)
  | COther => (st, [], js, false)
  end.

Fixpoint exec_calls (st : dstate) (cs : list call) (now : N) (js : list N) : dstate * list out * list N :=
  match cs with
  | [] => (st, [], js)
  | c :: t =>
    let '(st1, os1, js1, stop) := exec_call st c now js in
    if stop then (st1, os1, js1)
    else let '(st2, os2, js2) := exec_calls st1 t now js1 in (st2, os1 ++ os2, js2)
  end.

(* ---- due retransmissions ---------------------------------------------------------------------------------------------------------------------- *)

Fixpoint run_due (st : dstate) (due : list (N * cmd)) (now : N) (js : list N) : dstate * list out * list N :=
  match due with
  | [] => (st, [], js)
  | (_, c) :: t =>
    let '(st1, os1, js1) :=
      match c with
      | RegisterResend full i => register_resend st full i now js
      | UnregisterResend m i v4 => (st, unregister_resend st m i v4, js)
      end in
    let '(st2, os2, js2) := run_due st1 t now js1 in
    (st2, os1 ++ os2, js2)
  end.

Definition retransmit (st : dstate) (now : N) (js : list N) : dstate * list out * list N :=
  let due := filter (fun e => fst e <=? now) (d_retrans st) in
  let rest := filter (fun e => negb (fst e <=? now)) (d_retrans st) in
  run_due (mkD (d_intfs st) (d_regs st) (d_svcs st) rest (d_mon st) (d_dead st) (d_os st) (d_sel st)) due now js.

(* ---- one loop iteration --------------------------------------------------------------------------------------------------------------------------- *)

Record iter : Type := mkIter {
  it_now : N;
  it_dgrams : list dgram;      (* delivered before this iteration's processing, in delivery order *)
  it_calls : list call;
  it_jitter : list N }.

(* A name that cannot be written (a label of 64 bytes or more) trips assert!(s.len() < 64)
   in write_utf8 on the daemon thread: the thread dies at that send. *)
Definition name_ok (n : bytes) : bool := forallb (fun l => blen l <? 64) (name_labels n).
Definition rdata_ok (d : rdata) : bool :=
  match d with
  | RPtr a => name_ok a
  | RSrv _ _ _ h => name_ok h
  | _ => true
  end.
Definition rr_ok (r : rr) : bool := name_ok (r_name r) && rdata_ok (r_data r).
Definition msg_ok (m : omsg) : bool :=
  forallb (fun q => name_ok (fst q)) (o_q m) && forallb rr_ok (o_an m) && forallb rr_ok (o_ns m)
  && forallb rr_ok (o_ar m).

(* outputs up to the first send that panics *)
Fixpoint cut_at_panic (os : list out) : list out * bool :=
  match os with
  | [] => ([], false)
  | OSend i v d m :: t =>
    if msg_ok m then let (r, p) := cut_at_panic t in (OSend i v d m :: r, p) else ([], true)
  | o :: t => let (r, p) := cut_at_panic t in (o :: r, p)
  end.

Inductive ending := Running | Exited | Panicked.

Definition iterate (st : dstate) (it : iter) : dstate * list out * ending * list N :=
  if d_dead st then (st, [], Exited, it_jitter it)
  else
    let now := it_now it in
    let g4 := filter (fun g => g_v4 g) (it_dgrams it) in
    let g6 := filter (fun g => negb (g_v4 g)) (it_dgrams it) in
    let '(st1, os1, js1) := handle_dgrams st (g4 ++ g6) now (it_jitter it) in
    let '(st2, os2, js2) := exec_calls st1 (it_calls it) now js1 in
    if d_dead st2 then
      let (os, p) := cut_at_panic (os1 ++ os2) in
      (st2, os, if p then Panicked else Exited, js2)
    else
      let '(st3, os3, js3) := retransmit st2 now js2 in
      let '(st4, os4, js4) := probing_handler st3 now js3 in
      let (os, p) := cut_at_panic (os1 ++ os2 ++ os3 ++ os4) in
      if p then (mkD (d_intfs st4) (d_regs st4) (d_svcs st4) (d_retrans st4) (d_mon st4) true (d_os st4) (d_sel st4), os, Panicked, js4)
      else (st4, os, Running, js4).

Fixpoint run (st : dstate) (its : list iter) : list (list out * ending * list N) :=
  match its with
  | [] => []
  | it :: t => let '(st', os, e, js) := iterate st it in (os, e, js) :: run st' t
  end.

(* the earliest time at which this daemon has responder work to do *)
Definition opt_min (a b : option N) : option N :=
  match a, b with
  | Some x, Some y => Some (N.min x y)
  | Some x, None => Some x
  | None, y => y
  end.
Definition due_work (st : dstate) : option N :=
  fold_left (fun acc e => opt_min acc (Some (fst e))) (d_retrans st)
    (fold_left (fun acc ir => opt_min acc (reg_due (snd ir))) (d_regs st) None).
