(* Common definitions of the `hostres` group (C17, C20): names, the record lifetime arithmetic
   used by the cache (src/dns_parser.rs DnsRecord), canonical ordering of unordered outputs.
   Definitions only.  Every number and comparison comes from Gen/ParamsHostres.v (regenerated
   from the Rust sources); Proofs/HostresPinned.v pins them to the property texts. *)
From Coq Require Import List NArith Bool.
From Mdns Require Import Bytes ParamsHostres.
Import ListNotations.
Open Scope N_scope.

Definition name := bytes.            (* dotted presentation as the crate's decoder builds it *)

(* u64 arithmetic: `saturating_add` *)
Definition u64_max : N := 18446744073709551615.
Definition sat_add (a b : N) : N := N.min (a + b) u64_max.

(* ---- record lifetime: get_expiration_time(created, ttl, percent) -------------------------- *)
Definition exp_time (created ttl percent : N) : N := created + hp_expiration_delta ttl percent.

Record life := mkLife { l_ttl : N; l_created : N; l_expires : N; l_refresh : N }.

(* DnsRecord::new at time `now` (created = current_time_millis()) *)
Definition life_new (now ttl : N) : life :=
  mkLife ttl now (exp_time now ttl hp_new_expire_percent) (exp_time now ttl hp_new_refresh_percent).

(* DnsRecord::reset_ttl(other) where other = life_new now ttl *)
Definition life_reset (now ttl : N) : life :=
  let e := exp_time now ttl hp_reset_expire_percent in
  mkLife ttl now e (if hp_reset_full_refresh ttl then exp_time now ttl hp_reset_refresh_percent else e).

Definition life_expired (now : N) (l : life) : bool := hp_is_expired now (l_expires l).
Definition life_expires_soon (now : N) (l : life) : bool := hp_expires_soon now (l_expires l).
Definition life_refresh_due (now : N) (l : life) : bool := hp_refresh_due now (l_refresh l).

(* refresh_no_more: refresh := created + ttl at 100 % (NOT `expires`, which a cache flush may
   have shortened) *)
Definition life_no_more (l : life) : life :=
  mkLife (l_ttl l) (l_created l) (l_expires l) (exp_time (l_created l) (l_ttl l) hp_no_more_percent).

(* set_expire *)
Definition life_set_expire (e : N) (l : life) : life :=
  mkLife (l_ttl l) (l_created l) e (l_refresh l).

(* refresh_maybe: Some l' when due (and not expired), with the refresh mark advanced
   80 -> 85 -> 90 -> 95 -> 100 *)
Definition life_refresh_maybe (now : N) (l : life) : option life :=
  if life_expired now l || negb (life_refresh_due now l) then None
  else
    let at_ p := exp_time (l_created l) (l_ttl l) p in
    let r := l_refresh l in
    let r' := if r =? at_ hp_maybe_80 then at_ hp_maybe_85
              else if r =? at_ hp_maybe_85 then at_ hp_maybe_90
              else if r =? at_ hp_maybe_90 then at_ hp_maybe_95
              else at_ hp_no_more_percent in
    Some (mkLife (l_ttl l) (l_created l) (l_expires l) r').

(* the decoder records TTL 0 of a response as 1 (read_rr_records) *)
Definition wire_ttl (ttl : N) : N := if hp_ttl_is_goodbye ttl then hp_goodbye_ttl else ttl.

(* RR types *)
Definition ty_A : N := 1.
Definition ty_PTR : N := 12.
Definition ty_TXT : N := 16.
Definition ty_AAAA : N := 28.
Definition ty_SRV : N := 33.
Definition ty_NSEC : N := 47.
Definition is_addr_ty (t : N) : bool := (t =? ty_A) || (t =? ty_AAAA).

(* ip_address_rr_type: the question type of a refresh query follows the address family *)
Definition addr_qtype (a : bytes) : N := if Nat.eqb (length a) 4 then ty_A else ty_AAAA.

(* ---- association lists keyed by names (Rust HashMap<String, _>) -------------------------- *)
Fixpoint aget {A} (k : name) (m : list (name * A)) : option A :=
  match m with
  | [] => None
  | (k', v) :: t => if beq k k' then Some v else aget k t
  end.

(* insert or replace in place *)
Fixpoint aset {A} (k : name) (v : A) (m : list (name * A)) : list (name * A) :=
  match m with
  | [] => [(k, v)]
  | (k', v') :: t => if beq k k' then (k, v) :: t else (k', v') :: aset k v t
  end.

Fixpoint adel {A} (k : name) (m : list (name * A)) : list (name * A) :=
  match m with
  | [] => []
  | (k', v') :: t => if beq k k' then adel k t else (k', v') :: adel k t
  end.

Definition ahas {A} (k : name) (m : list (name * A)) : bool :=
  match aget k m with Some _ => true | None => false end.

(* ---- canonical order for outputs whose order comes from a HashMap / HashSet ------------------ *)
Fixpoint lex_leb (a b : bytes) : bool :=
  match a, b with
  | [], _ => true
  | _ :: _, [] => false
  | x :: a', y :: b' => if x <? y then true else if y <? x then false else lex_leb a' b'
  end.

Section Sort.
  Context {A : Type} (leb : A -> A -> bool).
  Fixpoint insert_sorted (x : A) (l : list A) : list A :=
    match l with
    | [] => [x]
    | y :: t => if leb x y then x :: l else y :: insert_sorted x t
    end.
  Definition isort (l : list A) : list A := fold_right insert_sorted [] l.
End Sort.

(* an address as reported to the user: (address bytes, interface index) *)
Definition saddr : Type := (bytes * N)%type.
Definition saddr_eqb (a b : saddr) : bool := beq (fst a) (fst b) && (snd a =? snd b).
Definition saddr_leb (a b : saddr) : bool :=
  if beq (fst a) (fst b) then snd a <=? snd b else lex_leb (fst a) (fst b).
Fixpoint saddr_mem (a : saddr) (l : list saddr) : bool :=
  match l with [] => false | x :: t => saddr_eqb a x || saddr_mem a t end.
(* insertion into a HashSet<ScopedIp> *)
Definition saddr_add (a : saddr) (l : list saddr) : list saddr := if saddr_mem a l then l else l ++ [a].

Fixpoint saddrs_leb (a b : list saddr) : bool :=
  match a, b with
  | [], _ => true
  | _ :: _, [] => false
  | x :: a', y :: b' => if saddr_eqb x y then saddrs_leb a' b' else saddr_leb x y
  end.
