(* Model of the probing / conflict registry (src/service_info.rs: Probe, DnsRegistry;
   src/service_daemon.rs: check_probing, handle_expired_probes, conflict_handler's body;
   src/dns_parser.rs: DnsRecordExt::compare / compare_rdata / matches / rrdata_match).

   Records are Rec.rr (owner name as given to the constructor = DnsEntry.name) plus the
   optional new name set by conflict resolution and, for address records, the interface id.
   HashMap / HashSet containers are association lists / duplicate-free lists; wherever the
   Rust iterates one of them the order is unspecified, and the observable outputs are
   compared after sorting (see tools/props/c07.py `canon`).
   Definitions only. *)
From Coq Require Import List NArith Bool.
From Mdns Require Import Bytes Rec ParamsRegistry Names.
Import ListNotations.
Open Scope N_scope.

(* ---- DnsRecordExt::compare ------------------------------------------------------------ *)

(* <[u8] as Ord>::cmp and <str as Ord>::cmp: lexicographic on bytes, a proper prefix is Less *)
Fixpoint cmp_bytes (a b : bytes) : comparison :=
  match a, b with
  | [], [] => Eq
  | [], _ :: _ => Lt
  | _ :: _, [] => Gt
  | x :: a', y :: b' => match x ?= y with Eq => cmp_bytes a' b' | c => c end
  end.

Definition lex (c1 c2 : comparison) : comparison := match c1 with Eq => c2 | _ => c1 end.

(* IpAddr: 4 octets = V4, otherwise V6.  derive(Ord) on the enum: V4 < V6, then the octets. *)
Definition is_v4 (o : bytes) : bool := Nat.eqb (length o) 4.
Definition cmp_addr (a b : bytes) : comparison :=
  match is_v4 a, is_v4 b with
  | true, false => Lt
  | false, true => Gt
  | _, _ => cmp_bytes a b
  end.

(* compare_rdata of each record struct; a different struct on the other side (downcast
   fails) gives Greater. SRV compares priority, weight, port as big-endian byte pairs
   (= numerically) and then the host STRING. *)
Definition compare_rdata (a b : rdata) : comparison :=
  match a, b with
  | RAddr x, RAddr y => cmp_addr x y
  | RPtr x, RPtr y => cmp_bytes x y
  | RSrv p w o h, RSrv p' w' o' h' =>
      lex (p ?= p') (lex (w ?= w') (lex (o ?= o') (cmp_bytes h h')))
  | RTxt x, RTxt y => cmp_bytes x y
  | RHinfo c o, RHinfo c' o' => lex (cmp_bytes c c') (cmp_bytes o o')
  | RNsec n b, RNsec n' b' => lex (cmp_bytes n n') (cmp_bytes b b')
  | _, _ => Gt
  end.

(* class (without the cache-flush bit), then type, then rdata *)
Definition compare_rr (a b : rr) : comparison :=
  lex (r_class a ?= r_class b) (lex (r_type a ?= r_type b) (compare_rdata (r_data a) (r_data b))).

(* which Rust struct a record is *)
Inductive kind := KAddr | KPtr | KSrv | KTxt | KHinfo | KNsec.
Definition kind_of (d : rdata) : kind :=
  match d with
  | RAddr _ => KAddr | RPtr _ => KPtr | RSrv _ _ _ _ => KSrv | RTxt _ => KTxt
  | RHinfo _ _ => KHinfo | RNsec _ _ => KNsec
  end.
Definition kind_eqb (a b : kind) : bool :=
  match a, b with
  | KAddr, KAddr | KPtr, KPtr | KSrv, KSrv | KTxt, KTxt | KHinfo, KHinfo | KNsec, KNsec => true
  | _, _ => false
  end.
(* the struct the decoder (and the daemon) uses for an RR type *)
Definition kind_of_type (t : N) : option kind :=
  if (t =? TY_A) || (t =? TY_AAAA) then Some KAddr
  else if (t =? TY_PTR) || (t =? TY_CNAME) then Some KPtr
  else if t =? TY_SRV then Some KSrv
  else if t =? TY_TXT then Some KTxt
  else if t =? TY_HINFO then Some KHinfo
  else if t =? TY_NSEC then Some KNsec
  else None.
Definition well_typed (r : rr) : bool :=
  match kind_of_type (r_type r) with
  | Some k => kind_eqb k (kind_of (r_data r))
  | None => false
  end.

(* ---- Probe::tiebreaking ------------------------------------------------------------------ *)

(* the loop over the first min(len) pairs, then the lengths *)
Fixpoint tb_cmp (mine theirs : list rr) : comparison :=
  match mine, theirs with
  | [], [] => Eq
  | [], _ :: _ => Lt
  | _ :: _, [] => Gt
  | a :: m, b :: t => match compare_rr a b with Eq => tb_cmp m t | c => c end
  end.

(* ---- records held by the registry ---------------------------------------------------------- *)

Record prec : Type := mkP {
  p_rr : rr;                 (* r_name = DnsEntry.name (the name the record was created with) *)
  p_new : option bytes;      (* DnsRecord.new_name *)
  p_if : N }.                (* DnsAddress.interface_id.index (0 for other records) *)

(* DnsRecord::get_name *)
Definition p_name (p : prec) : bytes :=
  match p_new p with Some n => n | None => r_name (p_rr p) end.

(* DnsRecord::set_new_name *)
Definition set_new_name (n : bytes) (p : prec) : prec :=
  mkP (p_rr p) (if beq n (r_name (p_rr p)) then None else Some n) (p_if p).

(* DnsEntry equality (derive(PartialEq)): name, type, class, cache-flush *)
Definition entry_eq (a b : rr) : bool :=
  beq (r_name a) (r_name b) && (r_type a =? r_type b) && (r_class a =? r_class b)
  && Bool.eqb (r_flush a) (r_flush b).

Definition rrdata_match (a b : rr) : bool := beq_rdata (r_data a) (r_data b).

(* DnsRecordExt::matches; addresses also compare the interface id *)
Definition matches (a b : prec) : bool :=
  rrdata_match (p_rr a) (p_rr b) && entry_eq (p_rr a) (p_rr b)
  && match r_data (p_rr a) with RAddr _ => p_if a =? p_if b | _ => true end.

(* ---- association lists keyed by names ------------------------------------------------------ *)

Section AList.
  Context {V : Type}.
  Fixpoint aget (k : bytes) (l : list (bytes * V)) : option V :=
    match l with
    | [] => None
    | (k', v) :: t => if beq k k' then Some v else aget k t
    end.
  Fixpoint aset (k : bytes) (v : V) (l : list (bytes * V)) : list (bytes * V) :=
    match l with
    | [] => [(k, v)]
    | (k', v') :: t => if beq k k' then (k, v) :: t else (k', v') :: aset k v t
    end.
  Fixpoint adel (k : bytes) (l : list (bytes * V)) : list (bytes * V) :=
    match l with
    | [] => []
    | (k', v') :: t => if beq k k' then t else (k', v') :: adel k t
    end.
End AList.

Definition set_add (x : bytes) (l : list bytes) : list bytes := if mem x l then l else l ++ [x].
Definition set_union (a b : list bytes) : list bytes := fold_left (fun acc x => set_add x acc) b a.

(* ---- Probe ------------------------------------------------------------------------------------ *)

Record probe : Type := mkProbe {
  pb_records : list prec;
  pb_waiting : list bytes;     (* HashSet<String>: original full names of waiting services *)
  pb_start : N;
  pb_next : N }.

Definition probe_new (start : N) : probe := mkProbe [] [] start start.

(* Probe::insert_record: binary search for (class, type); among records with an equal key
   the position is unspecified in Rust (the model puts the new record after them). *)
Definition rec_key_le (a b : prec) : bool :=
  (r_class (p_rr a) <? r_class (p_rr b))
  || ((r_class (p_rr a) =? r_class (p_rr b)) && (r_type (p_rr a) <=? r_type (p_rr b))).
Fixpoint insert_record (r : prec) (l : list prec) : list prec :=
  match l with
  | [] => [r]
  | x :: t => if rec_key_le x r then x :: insert_record r t else r :: l
  end.

(* Probe::tiebreaking; `incoming` = the authority records of the message whose name is the
   probe's name, in message order *)
Definition tiebreak (p : probe) (incoming : list rr) (now : N) : probe :=
  if tiebreak_not_started (pb_start p) now then p
  else match tb_cmp (map p_rr (pb_records p)) incoming with
       | Lt => mkProbe (pb_records p) (pb_waiting p) (tiebreak_defer_start now) (tiebreak_defer_next now)
       | _ => p
       end.

(* ---- DnsRegistry --------------------------------------------------------------------------------- *)

Record registry : Type := mkReg {
  rg_probing : list (bytes * probe);
  rg_active : list (bytes * list prec);
  rg_changes : list (bytes * bytes) }.

Definition reg_new : registry := mkReg [] [] [].

Definition resolve_name (rg : registry) (n : bytes) : bytes :=
  match aget n (rg_changes rg) with Some m => m | None => n end.

Definition in_active (rg : registry) (ans : prec) : bool :=
  match aget (p_name ans) (rg_active rg) with
  | Some rs => existsb (matches ans) rs
  | None => false
  end.

(* DnsRegistry::is_probing_done *)
Definition is_probing_done (rg : registry) (ans : prec) (svc : bytes) (start : N) : registry * bool :=
  if in_active rg ans then (rg, true)
  else
    let nm := p_name ans in
    let pb := match aget nm (rg_probing rg) with Some p => p | None => probe_new start end in
    let recs := if existsb (matches ans) (pb_records pb) then pb_records pb
                else insert_record ans (pb_records pb) in
    let pb' := mkProbe recs (set_add svc (pb_waiting pb)) (pb_start pb) (pb_next pb) in
    (mkReg (aset nm pb' (rg_probing rg)) (rg_active rg) (rg_changes rg), false).

(* check_probing: (probes after the step, questions with their authority records, names of
   finished probes) *)
Fixpoint check_probes (ps : list (bytes * probe)) (now : N)
  : list (bytes * probe) * list (bytes * list prec) * list bytes :=
  match ps with
  | [] => ([], [], [])
  | (n, p) :: t =>
    let '(ps', qs, ex) := check_probes t now in
    if probe_due (pb_next p) now then
      if probe_expired (pb_start p) now then ((n, p) :: ps', qs, n :: ex)
      else ((n, mkProbe (pb_records p) (pb_waiting p) (pb_start p) (probe_next_send now)) :: ps',
            (n, pb_records p) :: qs, ex)
    else ((n, p) :: ps', qs, ex)
  end.

(* DnsNameChange events: (original name, new name, rr type) *)
Definition name_event : Type := (bytes * bytes * N)%type.

Definition name_events_of (recs : list prec) : list name_event :=
  flat_map (fun r => match p_new r with
                     | Some n => [(r_name (p_rr r), n, r_type (p_rr r))]
                     | None => [] end) recs.

(* handle_expired_probes for one finished probe name *)
Definition expire_one (rg : registry) (name : bytes) : registry * list name_event * list bytes :=
  match aget name (rg_probing rg) with
  | None => (rg, [], [])
  | Some pb =>
    let probing := adel name (rg_probing rg) in
    let changes := fold_left (fun ch r => match p_new r with
                                          | Some n => aset name n ch
                                          | None => ch end) (pb_records pb) (rg_changes rg) in
    match pb_records pb with
    | [] => (mkReg probing (rg_active rg) changes, [], [])
    | _ =>
      let active := match aget name (rg_active rg) with
                    | Some rs => aset name (rs ++ pb_records pb) (rg_active rg)
                    | None => aset name (pb_records pb) (rg_active rg)
                    end in
      (mkReg probing active changes, name_events_of (pb_records pb), pb_waiting pb)
    end
  end.

Fixpoint expire_all (rg : registry) (names : list bytes) : registry * list name_event * list bytes :=
  match names with
  | [] => (rg, [], [])
  | n :: t =>
    let '(rg1, ev1, w1) := expire_one rg n in
    let '(rg2, ev2, w2) := expire_all rg1 t in
    (rg2, ev1 ++ ev2, set_union w1 w2)
  end.

(* one pass of the probing handler over a registry (check_probing + handle_expired_probes) *)
Definition probe_step (rg : registry) (now : N)
  : registry * list (bytes * list prec) * list name_event * list bytes :=
  let '(ps, qs, ex) := check_probes (rg_probing rg) now in
  let '(rg', evs, waiting) := expire_all (mkReg ps (rg_active rg) (rg_changes rg)) ex in
  (rg', qs, evs, waiting).

(* ---- DnsRegistry::update_hostname ------------------------------------------------------------------- *)

Definition srv_with_host (orig : bytes) (r : prec) : bool :=
  (r_type (p_rr r) =? TY_SRV)
  && match r_data (p_rr r) with RSrv _ _ _ h => beq h orig | _ => false end.

Definition srv_set_host (h : bytes) (r : prec) : prec :=
  match r_data (p_rr r) with
  | RSrv p w o _ =>
    mkP (mkRR (r_name (p_rr r)) (r_type (p_rr r)) (r_class (p_rr r)) (r_flush (p_rr r))
              (r_ttl (p_rr r)) (RSrv p w o h)) (p_new r) (p_if r)
  | _ => r
  end.

Definition update_hostname (rg : registry) (orig new_name : bytes) (probe_time : N) : registry * bool :=
  let found_p := flat_map (fun np => filter (srv_with_host orig) (pb_records (snd np))) (rg_probing rg) in
  let found_a := flat_map (fun nr => filter (srv_with_host orig) (snd nr)) (rg_active rg) in
  let probing1 := map (fun np => (fst np,
                        mkProbe (filter (fun r => negb (srv_with_host orig r)) (pb_records (snd np)))
                                (pb_waiting (snd np)) (pb_start (snd np)) (pb_next (snd np))))
                      (rg_probing rg) in
  let active1 := map (fun nr => (fst nr, filter (fun r => negb (srv_with_host orig r)) (snd nr)))
                     (rg_active rg) in
  fold_left
    (fun (acc : registry * bool) r0 =>
       let r := srv_set_host new_name r0 in
       let '(rg1, added) := acc in
       let nm := p_name r in
       match aget nm (rg_probing rg1) with
       | Some p =>
         let p' := mkProbe (insert_record r (pb_records p)) (pb_waiting p) probe_time probe_time in
         (mkReg (aset nm p' (rg_probing rg1)) (rg_active rg1) (rg_changes rg1), added)
       | None =>
         let p' := mkProbe [r] [] probe_time probe_time in
         (mkReg (aset nm p' (rg_probing rg1)) (rg_active rg1) (rg_changes rg1), true)
       end)
    (found_p ++ found_a)
    (mkReg probing1 active1 (rg_changes rg), false).

(* ---- conflict_handler, for one answer of an incoming response --------------------------------------- *)

Definition is_addr_type (t : N) : bool := (t =? TY_A) || (t =? TY_AAAA).

(* Does the loop body reach the jitter draw for this answer?  (A probe with the answer's name
   exists, and - for address answers - no probing record has the same type, class, rdata.) *)
Definition conflict_applies (rg : registry) (ans : rr) : bool :=
  match aget (r_name ans) (rg_probing rg) with
  | None => false
  | Some pb =>
    negb (is_addr_type (r_type ans)
          && existsb (fun r => (r_type (p_rr r) =? r_type ans) && (r_class (p_rr r) =? r_class ans)
                               && rrdata_match (p_rr r) ans) (pb_records pb))
  end.

Definition conflicting (ans : rr) (r : prec) : bool :=
  (r_type (p_rr r) =? r_type ans) && (r_class (p_rr r) =? r_class ans)
  && negb (rrdata_match (p_rr r) ans).

Definition renamed (name : bytes) (r : prec) : prec :=
  set_new_name (if is_addr_type (r_type (p_rr r)) then hostname_change name else name_change name) r.

Definition conflict_one (rg : registry) (ans : rr) (create_time : N) : registry :=
  let name := r_name ans in
  match aget name (rg_probing rg) with
  | None => rg
  | Some pb =>
    let new_records := map (renamed name) (filter (conflicting ans) (pb_records pb)) in
    let pb0 := mkProbe (filter (fun r => negb (conflicting ans r)) (pb_records pb))
                       (pb_waiting pb) (pb_start pb) (pb_next pb) in
    let rg0 := mkReg (aset name pb0 (rg_probing rg)) (rg_active rg) (rg_changes rg) in
    fold_left
      (fun rg1 r =>
         let (rg2, _) := update_hostname rg1 name (p_name r) create_time in
         let changes := aset (r_name (p_rr r)) (p_name r) (rg_changes rg2) in
         let nm := p_name r in
         let p := match aget nm (rg_probing rg2) with Some p => p | None => probe_new create_time end in
         let p' := mkProbe (insert_record r (pb_records p)) (set_union (pb_waiting p) (pb_waiting pb))
                           (pb_start p) (pb_next p) in
         mkReg (aset nm p' (rg_probing rg2)) (rg_active rg2) changes)
      new_records rg0
  end.

(* the earliest time at which the registry has probing work to do *)
Definition reg_due (rg : registry) : option N :=
  fold_left (fun acc np => match acc with
                           | None => Some (pb_next (snd np))
                           | Some m => Some (N.min m (pb_next (snd np))) end)
            (rg_probing rg) None.

(* ---- the registry as a machine: operations at given times, and what an observer sees ------------------
   (statement vocabulary of Props/C07.v; the daemon model performs exactly these operations on the
   registry of an interface) *)

Inductive rop : Type :=
| OTick                                             (* check_probing + handle_expired_probes *)
| OJoin (r : prec) (svc : bytes) (j : N)            (* is_probing_done with start_time = now + j *)
| OTiebreak (qn : bytes) (incoming : list rr)       (* Probe::tiebreaking for a question name *)
| OConflict (ans : rr) (j : N).                     (* conflict_handler for one answer, create_time = now + j *)

(* one probing pass: registry afterwards, names a probe query was sent for, names activated *)
Definition tick_names (rg : registry) (now : N) : registry * list bytes * list bytes :=
  let '(ps, qs, ex) := check_probes (rg_probing rg) now in
  let '(rg', _, _) := expire_all (mkReg ps (rg_active rg) (rg_changes rg)) ex in
  (rg', map fst qs, ex).

Definition apply_tiebreak (rg : registry) (qn : bytes) (incoming : list rr) (now : N) : registry :=
  match aget qn (rg_probing rg) with
  | Some pb => mkReg (aset qn (tiebreak pb incoming now) (rg_probing rg)) (rg_active rg) (rg_changes rg)
  | None => rg
  end.

Definition apply_conflict (rg : registry) (ans : rr) (create_time : N) : registry :=
  if conflict_applies rg ans then conflict_one rg ans create_time else rg.

Definition apply_op (rg : registry) (now : N) (o : rop) : registry * list bytes * list bytes :=
  match o with
  | OTick => tick_names rg now
  | OJoin r svc j => (fst (is_probing_done rg r svc (now + j)), [], [])
  | OTiebreak qn incoming => (apply_tiebreak rg qn incoming now, [], [])
  | OConflict ans j => (apply_conflict rg ans (now + j), [], [])
  end.

(* trace: per operation its time, the names probed, the names activated *)
Fixpoint run_ops (rg : registry) (ops : list (N * rop)) : list (N * list bytes * list bytes) :=
  match ops with
  | [] => []
  | (now, o) :: t => let '(rg', qs, ex) := apply_op rg now o in (now, qs, ex) :: run_ops rg' t
  end.

Fixpoint final_reg (rg : registry) (ops : list (N * rop)) : registry :=
  match ops with
  | [] => rg
  | (now, o) :: t => final_reg (fst (fst (apply_op rg now o))) t
  end.

(* times never go back *)
Fixpoint times_from (t : N) (ops : list (N * rop)) : Prop :=
  match ops with
  | [] => True
  | (t', _) :: r => t <= t' /\ times_from t' r
  end.

Definition is_conflict (o : rop) : bool := match o with OConflict _ _ => true | _ => false end.

(* every probe query for `n` and every activation of `n` comes at least 250 ms after the previous
   probe query for `n` (`last`: time of the previous one, if any).  Handling a conflicting
   response starts the count afresh: conflict resolution restarts probes at now + 0..250
   (new names, and since the fix for C07-host-rename-skips-reprobe also the probe of an SRV
   record whose target host was renamed). *)
Fixpoint spaced_250 (n : bytes) (last : option N) (ops : list (N * rop))
         (tr : list (N * list bytes * list bytes)) : Prop :=
  match ops, tr with
  | (_, o) :: ops', (t, qs, ex) :: tr' =>
    (mem n qs = true \/ mem n ex = true -> match last with Some l => l + 250 <= t | None => True end)
    /\ spaced_250 n (if is_conflict o then None else if mem n qs then Some t else last) ops' tr'
  | _, _ => True
  end.

(* consecutive elements at least 250 apart *)
Fixpoint gaps_250 (l : list N) : Prop :=
  match l with
  | a :: ((b :: _) as t) => a + 250 <= b /\ gaps_250 t
  | _ => True
  end.

Definition probe_times (n : bytes) (tr : list (N * list bytes * list bytes)) : list N :=
  flat_map (fun e => let '(t, qs, _) := e in if mem n qs then [t] else []) tr.
Definition activation_times (n : bytes) (tr : list (N * list bytes * list bytes)) : list N :=
  flat_map (fun e => let '(t, _, ex) := e in if mem n ex then [t] else []) tr.

(* a schedule of probing passes that is never late for the probe of `n`: every pass happens no
   later than that probe's next_send *)
Fixpoint never_late_for (n : bytes) (rg : registry) (ts : list N) : Prop :=
  match ts with
  | [] => True
  | t :: r =>
    match aget n (rg_probing rg) with Some p => t <= pb_next p | None => True end
    /\ never_late_for n (fst (fst (tick_names rg t))) r
  end.

Definition ticks (ts : list N) : list (N * rop) := map (fun t => (t, OTick)) ts.
