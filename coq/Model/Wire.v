(* Model of the wire decoder DnsIncoming::new (src/dns_parser.rs), following the Rust step by
   step.  `data` is the datagram, offsets are N.  Every place where Rust indexes or slices
   is either guarded by the same test as in the Rust or returns Panic.
   Definitions only; proofs are in Proofs/WireProofs.v. *)
From Coq Require Import List NArith Bool.
From Mdns Require Import Res Bytes Utf8 Rec WireOut.
Import ListNotations.
Open Scope N_scope.

Definition len (d : bytes) : N := N.of_nat (length d).

(* data[off] : panics when out of range *)
Definition byte_at (d : bytes) (off : N) : res N :=
  match nth_error d (N.to_nat off) with Some b => Ok b | None => Panic end.

(* &data[off .. off+n] : panics when out of range *)
Definition slice (d : bytes) (off n : N) : res bytes :=
  if off + n <=? len d then Ok (firstn (N.to_nat n) (skipn (N.to_nat off) d)) else Panic.

Definition u16_of (b0 b1 : N) : N := b0 * 256 + b1.

(* u16_from_be_slice(&data[off..off+2]) *)
Definition u16_at (d : bytes) (off : N) : res N :=
  let? s := slice d off 2 in
  match s with [b0; b1] => Ok (u16_of b0 b1) | _ => Panic end.

Definition u32_at (d : bytes) (off : N) : res N :=
  let? s := slice d off 4 in
  match s with
  | [b0; b1; b2; b3] => Ok (((b0 * 256 + b1) * 256 + b2) * 256 + b3)
  | _ => Panic
  end.

(* ---- read_name ---------------------------------------------------------------------- *)

Inductive lab_result : Type :=
| LEnd (name : bytes) (next : N)                 (* terminating zero; next = offset after it *)
| LPtr (name : bytes) (next : N) (target : N)    (* compression pointer found *)
| LErr
| LFuel.

(* One run of labels starting at offset `off`; `rest` is the datagram from `off` on.
   Follows the loop body of read_name up to (not including) the jump. *)
Fixpoint rn_labels (fuel : nat) (rest : bytes) (off : N) (acc : bytes) : lab_result :=
  match fuel with
  | O => LFuel
  | S f =>
    match rest with
    | [] => LErr                                         (* offset >= data.len() *)
    | l :: tl =>
      if l =? 0 then LEnd acc (off + 1)
      else if N.land l 192 =? 0 then
        (* ending = offset + 1 + length; ending > data.len() -> Err *)
        if Nat.ltb (length tl) (N.to_nat l) then LErr
        else
          let lab := firstn (N.to_nat l) tl in
          if utf8_valid lab
          then rn_labels f (skipn (N.to_nat l) tl) (off + 1 + l) (acc ++ lab ++ [46])
          else LErr
      else if N.land l 192 =? 192 then
        match tl with
        | [] => LErr                                     (* slice.len() < 2 *)
        | b1 :: _ => LPtr acc (off + 2) (N.land l 63 * 256 + b1)
        end
      else LErr                                          (* 0x40 / 0x80: invalid length *)
    end
  end.

(* The whole loop.  `limit`: a pointer must be strictly below it (initially the start of the
   name, afterwards the previous pointer target - the fix for D2); `ret`: self.offset as set
   by the first pointer (at_end). *)
Fixpoint read_name_from (jumps : nat) (d : bytes) (off limit : N) (acc : bytes)
    (ret : option N) : res (bytes * N) :=
  match jumps with
  | O => OutOfFuel
  | S j =>
    let rest := skipn (N.to_nat off) d in
    match rn_labels (S (length rest)) rest off acc with
    | LFuel => OutOfFuel
    | LErr => Err
    | LEnd name next => Ok (name, match ret with Some r => r | None => next end)
    | LPtr name next target =>
      if limit <=? target then Err
      else read_name_from j d target target name
             (Some (match ret with Some r => r | None => next end))
    end
  end.

Definition read_name_raw (d : bytes) (off : N) : res (bytes * N) :=
  read_name_from (S (length d)) d off off [] None.

(* name_labels_fit (src/dns_parser.rs): every label the ENCODER would split the dotted text
   into (trailing dot stripped, RFC 6763 escapes honoured: WireOut.name_labels) is at most 63
   bytes.  read_name rejects names that do not fit (fix 35da75b): such a name could not be
   sent again (follow-up query, known answer) without tripping the label assertion. *)
Definition name_fits (name : bytes) : bool :=
  forallb (fun l => blen l <? 64) (name_labels name).

Definition read_name (d : bytes) (off : N) : res (bytes * N) :=
  let? (name, o) := read_name_raw d off in
  if name_fits name then Ok (name, o) else Err.

(* ---- primitive readers (each returns the value and the new offset) --------------------- *)

Definition read_u16 (d : bytes) (off : N) : res (N * N) :=
  if len d - off <? 2 then (if off <=? len d then Err else Panic)   (* &data[off..] panics if off > len *)
  else let? v := u16_at d off in Ok (v, off + 2).

Definition read_vec (d : bytes) (off n : N) : res (bytes * N) :=
  if len d <? off + n then Err
  else let? s := slice d off n in Ok (s, off + n).

Definition read_string (d : bytes) (off n : N) : res (bytes * N) :=
  if len d <? off + n then Err
  else let? s := slice d off n in
       if utf8_valid s then Ok (s, off + n) else Err.

(* read_char_string, with the bounds check added by the fix for D1 *)
Definition read_char_string (d : bytes) (off : N) : res (bytes * N) :=
  if len d <=? off then Err
  else let? l := byte_at d off in read_string d (off + 1) l.

Definition read_type_bitmap (d : bytes) (off : N) : res (bytes * N) :=
  if len d <? off + 2 then Err
  else
    let? block := byte_at d off in
    if negb (block =? 0) then Err
    else
      let? blen := byte_at d (off + 1) in
      if negb ((1 <=? blen) && (blen <=? 32)) then Err
      else
        let e := off + 2 + blen in
        if len d <? e then Err
        else let? s := slice d (off + 2) blen in Ok (s, e).

(* ---- questions ------------------------------------------------------------------------ *)

Definition CLASS_MASK : N := 32767.
Definition class_of (c : N) : N := N.land c CLASS_MASK.
Definition flush_of (c : N) : bool := negb (N.land c 32768 =? 0).

Fixpoint read_questions (fuel : nat) (count : N) (d : bytes) (off : N)
    : res (list question * N) :=
  if count =? 0 then Ok ([], off)
  else match fuel with
  | O => OutOfFuel
  | S f =>
    let? (name, off1) := read_name d off in
    if len d - off1 <? 4 then (if off1 <=? len d then Err else Panic)
    else
      let? ty := u16_at d off1 in
      let? cl := u16_at d (off1 + 2) in
      if known_type ty then
        let? (qs, off2) := read_questions f (count - 1) d (off1 + 4) in
        Ok (mkQ name ty (class_of cl) (flush_of cl) :: qs, off2)
      else Err
  end.

(* ---- resource records ------------------------------------------------------------------ *)

(* RDATA of one record of known type `ty`, starting at `off`, RDLENGTH `rdlen`.
   None = type without a decoder (ANY): skipped like an unknown type. *)
Definition read_rdata (d : bytes) (ty off rdlen : N) : res (option rdata * N) :=
  if (ty =? TY_CNAME) || (ty =? TY_PTR) then
    let? (alias, o) := read_name d off in Ok (Some (RPtr alias), o)
  else if ty =? TY_TXT then
    let? (t, o) := read_vec d off rdlen in Ok (Some (RTxt t), o)
  else if ty =? TY_SRV then
    let? (p, o1) := read_u16 d off in
    let? (w, o2) := read_u16 d o1 in
    let? (po, o3) := read_u16 d o2 in
    let? (h, o4) := read_name d o3 in
    Ok (Some (RSrv p w po h), o4)
  else if ty =? TY_HINFO then
    let? (cpu, o1) := read_char_string d off in
    let? (os, o2) := read_char_string d o1 in
    Ok (Some (RHinfo cpu os), o2)
  else if ty =? TY_A then
    if len d <? off + 4 then Err
    else let? s := slice d off 4 in Ok (Some (RAddr s), off + 4)
  else if ty =? TY_AAAA then
    if len d <? off + 16 then Err
    else let? s := slice d off 16 in Ok (Some (RAddr s), off + 16)
  else if ty =? TY_NSEC then
    let? (nx, o1) := read_name d off in
    let? (bm, o2) := read_type_bitmap d o1 in
    Ok (Some (RNsec nx bm), o2)
  else Ok (None, off + rdlen).

Definition read_one_rr (d : bytes) (is_response : bool) (off : N) : res (option rr * N) :=
  let? (name, off1) := read_name d off in
  if len d - off1 <? 10 then (if off1 <=? len d then Err else Panic)
  else
    let? ty := u16_at d off1 in
    let? cl := u16_at d (off1 + 2) in
    let? ttl0 := u32_at d (off1 + 4) in
    let ttl := if (ttl0 =? 0) && is_response then 1 else ttl0 in
    let? rdlen := u16_at d (off1 + 8) in
    let off2 := off1 + 10 in
    let next := off2 + rdlen in
    if len d <? next then Err
    else
      let? (rd, off3) :=
        (if known_type ty then read_rdata d ty off2 rdlen else Ok (None, off2 + rdlen)) in
      if off3 =? next then
        Ok (match rd with
            | Some x => Some (mkRR name ty (class_of cl) (flush_of cl) ttl x)
            | None => None
            end, next)
      else Err.

Fixpoint read_rrs (fuel : nat) (count : N) (d : bytes) (is_response : bool) (off : N)
    : res (list rr * N) :=
  if count =? 0 then Ok ([], off)
  else match fuel with
  | O => OutOfFuel
  | S f =>
    let? (r, off1) := read_one_rr d is_response off in
    let? (rs, off2) := read_rrs f (count - 1) d is_response off1 in
    Ok (match r with Some x => x :: rs | None => rs end, off2)
  end.

(* ---- DnsIncoming::new ------------------------------------------------------------------ *)

Definition decode (d : bytes) : res msg :=
  if len d <? 12 then Err
  else
    let? id := u16_at d 0 in
    let? flags := u16_at d 2 in
    let? nq := u16_at d 4 in
    let? nan := u16_at d 6 in
    let? nns := u16_at d 8 in
    let? nar := u16_at d 10 in
    let is_response := N.land flags 32768 =? 32768 in
    let fuel := S (length d) in
    let? (qs, o1) := read_questions fuel nq d 12 in
    let? (an, o2) := read_rrs fuel nan d is_response o1 in
    let? (ns, o3) := read_rrs fuel nns d is_response o2 in
    let? (ar, _) := read_rrs fuel nar d is_response o3 in
    Ok (mkMsg id flags nq nan nns nar qs an ns ar).
