(* C17: the property text as a reference machine, and the checker chk_C17.

   The specification keeps ONE table of open searches.  A search is everything the property
   text attributes to a `resolve_hostname` call: the name (compared in lower case), the
   caller's spelling (used in SearchStarted and in the questions), the channel, the deadline
   (start + timeout, saturating) and the time and gap of its next A+AAAA query.  When a search
   ends - stop, replacement by a new resolve of the same name, or deadline - everything ends
   with it; in particular no question is asked at or after the deadline.
   (The code keeps two tables, `hostname_resolvers` and `retransmissions`, see HostresModel.v;
   Proofs/HostresRefine.v shows that they stay in step on every well-formed history; `late_at`
   below names the situation in which they did not before the repair a4675d4.)

   The address cache is the part of the specification that follows RFC 6762 as the crate
   implements it (TTL, goodbye = 1 s, cache-flush = 1 s, one refresh at 80 %): the cache
   functions of HostresModel.v are used as they are; their properties are proved separately
   (Proofs/HostresCacheProofs.v).
   Definitions only. *)
From Coq Require Import List NArith Bool.
From Mdns Require Import Bytes ParamsHostres HostresBase HostresModel.
Import ListNotations.
Open Scope N_scope.

Record search := mkSearch {
  sk_key : name;                 (* lower-cased host name *)
  sk_host : name;                (* as the caller spelled it *)
  sk_chan : N;
  sk_deadline : option N;
  sk_next : option (N * N);      (* next query time, delay (s) to use after it *)
  (* bookkeeping that no output depends on; the schedule theorems are stated with it *)
  sk_start : N;                  (* time of the resolve_hostname call *)
  sk_timeout : option N;         (* the timeout given *)
  sk_sent : nat;                 (* A+AAAA queries sent so far *)
  sk_last : N }.                 (* time of the last one *)

Record sst := mkSst { ss_cache : cache; ss_searches : list search; ss_open : list N }.
Definition sst0 : sst := mkSst [] [] [].

Definition res_of (k : search) : resolver := mkRes (sk_key k) (sk_chan k) (sk_deadline k).
Definition res_view (s : sst) : list resolver := map res_of (ss_searches s).

Fixpoint find_search (k : name) (l : list search) : option search :=
  match l with
  | [] => None
  | x :: t => if beq k (sk_key x) then Some x else find_search k t
  end.
Fixpoint set_search (x : search) (l : list search) : list search :=
  match l with
  | [] => [x]
  | y :: t => if beq (sk_key x) (sk_key y) then x :: t else y :: set_search x t
  end.
Definition del_search (k : name) (l : list search) : list search :=
  filter (fun x => negb (beq k (sk_key x))) l.

(* the schedule: after a query at `now` with gap `delay`, the next one is at now + delay s
   (gap doubled, capped at one hour), unless that would be at or after the deadline *)
Definition next_after (now delay : N) (deadline : option N) : option (N * N) :=
  let t := now + delay * hp_host_delay_unit_ms in
  let d' := N.min (hp_host_next_delay delay hp_host_max_delay) hp_host_max_delay in
  match deadline with
  | Some dl => if hp_host_rearm t dl then Some (t, d') else None
  | None => Some (t, d')
  end.

(* 1 responses *)
Definition sp_responses (now : N) (s : sst) (ms : list msg) : sst * list (N * ev) :=
  let '(c, e) := respond_all now (res_view s) (ss_cache s) ms in
  (mkSst c (ss_searches s) (ss_open s), e).

(* 2 deadlines: SearchTimeout, SearchStopped, and the search is over *)
Definition sk_timed_out (now : N) (k : search) : bool :=
  match sk_deadline k with Some d => hp_deadline_reached now d | None => false end.
Definition sp_timeouts (now : N) (s : sst) : sst * list (N * ev) :=
  (mkSst (ss_cache s) (filter (fun k => negb (sk_timed_out now k)) (ss_searches s)) (ss_open s),
   flat_map (fun k => [(sk_chan k, ETimeout (sk_key k)); (sk_chan k, EStopped (sk_key k))])
            (filter (sk_timed_out now) (ss_searches s))).

(* 3 calls *)
Definition sp_call (now : N) (s : sst) (c : call) : sst * list (N * ev) * list query :=
  match c with
  | CResolve host timeout chan =>
    let k := lower host in
    let dl := option_map (sat_add now) timeout in
    let x := mkSearch k host chan dl (next_after now hp_host_first_delay dl) now timeout 1 now in
    (mkSst (ss_cache s) (set_search x (ss_searches s)) (ss_open s ++ [chan]),
     (chan, EStarted host)
       :: map (fun g => (chan, EFound (fst g) (snd g))) (addresses_for_host (ss_cache s) host),
     [host_query host])
  | CStop host =>
    let k := lower host in
    match find_search k (ss_searches s) with
    | None => (s, [], [])
    | Some x => (mkSst (ss_cache s) (del_search k (ss_searches s)) (ss_open s),
                 [(sk_chan x, EStopped k)], [])
    end
  end.
Definition sp_calls (now : N) (s : sst) (cs : list call) : sst * list (N * ev) * list query :=
  fold_left (fun acc c => let '(s0, e0, q0) := acc in
                          let '(s', e, q) := sp_call now s0 c in (s', e0 ++ e, q0 ++ q))
            cs (s, [], []).

(* 4 scheduled queries of the open searches *)
Definition sk_due (now : N) (k : search) : bool :=
  match sk_next k with Some (t, _) => hp_rerun_due now t | None => false end.
Definition sk_fire (now : N) (k : search) : search :=
  match sk_next k with
  | Some (t, d) =>
    if hp_rerun_due now t
    then mkSearch (sk_key k) (sk_host k) (sk_chan k) (sk_deadline k) (next_after now d (sk_deadline k))
                  (sk_start k) (sk_timeout k) (S (sk_sent k)) now
    else k
  | None => k
  end.
Definition sp_sends (now : N) (s : sst) : sst * list (N * ev) * list query :=
  (mkSst (ss_cache s) (map (sk_fire now) (ss_searches s)) (ss_open s),
   map (fun k => (sk_chan k, EStarted (sk_host k))) (filter (sk_due now) (ss_searches s)),
   map (fun k => host_query (sk_host k)) (filter (sk_due now) (ss_searches s))).

(* 5 refresh, 6 eviction: the cache functions of the model, over the open searches *)
Definition sp_refresh (now : N) (s : sst) : sst * list query :=
  let '(c, q) := refresh_all now (res_view s) (ss_cache s) in (mkSst c (ss_searches s) (ss_open s), q).
Definition sp_evict (now : N) (s : sst) : sst * list (N * ev) :=
  let '(c, e) := evict_all now (res_view s) (ss_cache s) in (mkSst c (ss_searches s) (ss_open s), e).

(* 7 a channel is closed when its search is over *)
Definition sk_holds (s : sst) (c : N) : bool := existsb (fun k => sk_chan k =? c) (ss_searches s).
Definition sp_closed (s : sst) : sst * list (N * ev) :=
  (mkSst (ss_cache s) (ss_searches s) (filter (sk_holds s) (ss_open s)),
   map (fun c => (c, EClosed)) (filter (fun c => negb (sk_holds s c)) (ss_open s))).

Definition sp_step (s : sst) (i : iter) : sst * out :=
  let now := it_now i in
  let '(s1, e1) := sp_responses now s (it_msgs i) in
  let '(s2, e2) := sp_timeouts now s1 in
  let '(s3, e3, q3) := sp_calls now s2 (it_calls i) in
  let '(s4, e4, q4) := sp_sends now s3 in
  let '(s5, q5) := sp_refresh now s4 in
  let '(s6, e6) := sp_evict now s5 in
  let '(s7, e7) := sp_closed s6 in
  (s7, mkOut now (e1 ++ e2 ++ e3 ++ e4 ++ e6 ++ e7) (q3 ++ q4 ++ q5)).

Fixpoint sp_run_from (s : sst) (h : list iter) : list out :=
  match h with
  | [] => []
  | i :: t => let '(s', o) := sp_step s i in o :: sp_run_from s' t
  end.
Definition sp_run (h : list iter) : list out := sp_run_from sst0 h.

(* ---- the situation in which the code and the property text parted ways before a4675d4 ---- *)
(* an iteration is late for a search when its deadline has come while its next query is still
   pending (the query time is before the deadline, so the daemon did not run in between) *)
Definition sk_late (now : N) (k : search) : bool :=
  sk_timed_out now k && match sk_next k with Some _ => true | None => false end.
Definition late_at (s : sst) (i : iter) : bool := existsb (sk_late (it_now i)) (ss_searches s).
Fixpoint late_from (s : sst) (h : list iter) : bool :=
  match h with
  | [] => false
  | i :: t => late_at s i || late_from (fst (sp_step s i)) t
  end.
Definition late (h : list iter) : bool := late_from sst0 h.

(* ---- well-formed histories ------------------------------------------------------------------ *)
(* times do not go backwards; every resolve call gets a fresh channel *)
Fixpoint times_ok (prev : N) (h : list iter) : bool :=
  match h with
  | [] => true
  | i :: t => (prev <=? it_now i) && times_ok (it_now i) t
  end.
Definition chans_of_calls (cs : list call) : list N :=
  flat_map (fun c => match c with CResolve _ _ ch => [ch] | CStop _ => [] end) cs.
Fixpoint nodupb (l : list N) : bool :=
  match l with
  | [] => true
  | x :: t => negb (existsb (N.eqb x) t) && nodupb t
  end.
Definition wf_hist (h : list iter) : bool :=
  times_ok 0 h && nodupb (flat_map (fun i => chans_of_calls (it_calls i)) h).

(* ---- comparison of an observed trace with the expected one -------------------------------- *)
Fixpoint saddr_list_eqb (a b : list saddr) : bool :=
  match a, b with
  | [], [] => true
  | x :: a', y :: b' => saddr_eqb x y && saddr_list_eqb a' b'
  | _, _ => false
  end.

Definition ev_eqb (a b : ev) : bool :=
  match a, b with
  | EStarted x, EStarted y => beq x y
  | EFound x s, EFound y t => beq x y && saddr_list_eqb s t
  | ERemoved x s, ERemoved y t => beq x y && saddr_list_eqb s t
  | ETimeout x, ETimeout y => beq x y
  | EStopped x, EStopped y => beq x y
  | EClosed, EClosed => true
  | _, _ => false
  end.

Fixpoint evs_eqb (a b : list ev) : bool :=
  match a, b with
  | [], [] => true
  | x :: a', y :: b' => ev_eqb x y && evs_eqb a' b'
  | _, _ => false
  end.

(* events of one channel, in canonical form *)
Definition chan_events (c : N) (l : list (N * ev)) : list ev :=
  sort_runs (map (fun x => canon_ev (snd x)) (filter (fun x => fst x =? c) l)).

Definition events_match (exp obs : list (N * ev)) : bool :=
  forallb (fun c => evs_eqb (chan_events c exp) (chan_events c obs))
          (map fst exp ++ map fst obs).

Fixpoint q_eqb (a b : query) : bool :=
  match a, b with
  | [], [] => true
  | x :: a', y :: b' => beq (fst x) (fst y) && (snd x =? snd y) && q_eqb a' b'
  | _, _ => false
  end.
(* multiset equality of the query messages of one iteration *)
Fixpoint remove_q (q : query) (l : list query) : option (list query) :=
  match l with
  | [] => None
  | x :: t => if q_eqb q x then Some t
              else match remove_q q t with Some t' => Some (x :: t') | None => None end
  end.
Fixpoint queries_match (exp obs : list query) : bool :=
  match exp with
  | [] => match obs with [] => true | _ => false end
  | q :: t => match remove_q q obs with Some obs' => queries_match t obs' | None => false end
  end.

Definition out_match (exp obs : out) : bool :=
  (o_now exp =? o_now obs) && events_match (o_events exp) (o_events obs)
  && queries_match (o_queries exp) (o_queries obs).

Fixpoint outs_match (exp obs : list out) : bool :=
  match exp, obs with
  | [], [] => true
  | x :: e', y :: o' => out_match x y && outs_match e' o'
  | _, _ => false
  end.

(* THE CHECKER: the observed trace (one record per iteration: time, hostname events per channel,
   A/AAAA query messages) is what the property text prescribes for this history *)
Definition chk_C17 (h : list iter) (obs : list out) : bool := outs_match (sp_run h) obs.

(* the daemon asked to be woken no later than the next thing the searches need *)
Definition wake_ok (s : st) (wake : option N) : bool :=
  match due_times s with
  | [] => true
  | l => match wake with
         | None => false
         | Some w => forallb (fun d => w <=? d) l
         end
  end.
Fixpoint wakes_ok_from (s : st) (h : list (iter * option N)) : bool :=
  match h with
  | [] => true
  | (i, w) :: t => let s' := fst (step s i) in wake_ok s' w && wakes_ok_from s' t
  end.
Definition wakes_ok (h : list (iter * option N)) : bool := wakes_ok_from st0 h.
