(* The iteration of the daemon model (Model/RegistryDaemon.v) read as a sequence of MICRO-STEPS:
   one datagram, one call (one row of the interface table for enable/disable_interface), one due
   retransmission, the probing pass over one interface.  `iter_states st it` lists the state after
   each micro-step, in order; names in packets resolve through the registry of THAT state.
   Definitions only (statement vocabulary of Props/C09.v, history theorems). *)
From Coq Require Import List NArith Bool.
From Mdns Require Import Bytes Rec ParamsRegistry Names Registry WireOut RegistryDaemon.
Import ListNotations.
Open Scope N_scope.

Fixpoint st_dgrams (st : dstate) (gs : list dgram) (now : N) (js : list N) : list dstate :=
  match gs with
  | [] => []
  | g :: t => let '(st1, _, js1) := handle_dgram st g now js in st1 :: st_dgrams st1 t now js1
  end.

Fixpoint st_rows (st : dstate) (rows : list osrow) (now : N) (js : list N) : list dstate :=
  match rows with
  | [] => []
  | r :: t =>
    let '(st1, _, js1) :=
      if row_selected (d_sel st) r then add_interface st r now js
      else let (st', os') := del_interface_addr st r in (st', os', js) in
    st1 :: st_rows st1 t now js1
  end.

Definition st_call (st : dstate) (c : call) (now : N) (js : list N) : list dstate :=
  match c with
  | CIfSel en kinds =>
    let st1 := mkD (d_intfs st) (d_regs st) (d_svcs st) (d_retrans st) (d_mon st) (d_dead st) (d_os st)
                   (d_sel st ++ map (fun k => (k, en)) kinds) in
    st1 :: st_rows st1 (d_os st1) now js
  | _ => [fst (fst (fst (exec_call st c now js)))]
  end.

Fixpoint st_calls (st : dstate) (cs : list call) (now : N) (js : list N) : list dstate :=
  match cs with
  | [] => []
  | c :: t =>
    let '(st1, _, js1, stop) := exec_call st c now js in
    st_call st c now js ++ (if stop then [] else st_calls st1 t now js1)
  end.

Fixpoint st_due (st : dstate) (due : list (N * cmd)) (now : N) (js : list N) : list dstate :=
  match due with
  | [] => []
  | (_, c) :: t =>
    let '(st1, _, js1) :=
      match c with
      | RegisterResend full i => register_resend st full i now js
      | UnregisterResend m i v4 => (st, unregister_resend st m i v4, js)
      end in
    st1 :: st_due st1 t now js1
  end.

(* the probing pass, interface by interface (the state after each interface's pass) *)
Fixpoint st_probing (ifs : list intf) (st : dstate) (now : N) (js : list N) : list dstate :=
  match ifs with
  | [] => []
  | itf :: t =>
    match nget (if_index itf) (d_regs st) with
    | None => st_probing t st now js
    | Some rg =>
      let '(rg1, qs, evs, waiting) := probe_step rg now in
      let '(rg2, svcs2, os2, rt2, js2) := announce_waiting waiting itf rg1 (d_svcs st) now js (d_mon st) in
      let st1 := mkD (d_intfs st) (nset (if_index itf) rg2 (d_regs st)) svcs2 (d_retrans st ++ rt2)
                     (d_mon st) (d_dead st) (d_os st) (d_sel st) in
      st1 :: st_probing t st1 now js2
    end
  end.

(* the states after the micro-steps of one iteration *)
Definition iter_states (st : dstate) (it : iter) : list dstate :=
  if d_dead st then []
  else
    let now := it_now it in
    let g4 := filter (fun g => g_v4 g) (it_dgrams it) in
    let g6 := filter (fun g => negb (g_v4 g)) (it_dgrams it) in
    let '(st1, _, js1) := handle_dgrams st (g4 ++ g6) now (it_jitter it) in
    let '(st2, _, js2) := exec_calls st1 (it_calls it) now js1 in
    st_dgrams st (g4 ++ g6) now (it_jitter it) ++ st_calls st1 (it_calls it) now js1
    ++ (if d_dead st2 then []
        else
          let due := filter (fun e => fst e <=? now) (d_retrans st2) in
          let rest := filter (fun e => negb (fst e <=? now)) (d_retrans st2) in
          let st2' := mkD (d_intfs st2) (d_regs st2) (d_svcs st2) rest (d_mon st2) (d_dead st2) (d_os st2) (d_sel st2) in
          let '(st3, _, js3) := retransmit st2 now js2 in
          st_due st2' due now js2 ++ st_probing (d_intfs st3) st3 now js3).

(* ---- what the daemon may say for a registered service --------------------------------------------------
   `ch` = the name changes (original -> current name) of the registry of the interface *)
Definition resolve (ch : list (bytes * bytes)) (n : bytes) : bytes :=
  match aget n ch with Some m => m | None => n end.

Definition chg (st : dstate) (i : N) : list (bytes * bytes) := rg_changes (get_reg st i).

Definition rec_of (ch : list (bytes * bytes)) (s : svc) (r : rr) : Prop :=
  let full := resolve ch (s_full s) in
  let host := resolve ch (s_host s) in
  (r_data r = RPtr full /\ (r_name r = s_ty s \/ Some (r_name r) = s_sub s))
  \/ (r_name r = META_QUERY /\ r_data r = RPtr (s_ty s))
  \/ (lower (r_name r) = lower full /\ r_data r = RSrv 0 0 (s_port s) host)
  \/ (lower (r_name r) = lower full /\ r_data r = RTxt (s_txt s))
  \/ (exists a, In a (s_addrs s) /\ r_name r = host /\ r_data r = RAddr a).

(* keys registered by the calls of an iteration *)
Definition registered_keys (cs : list call) : list bytes :=
  flat_map (fun c => match c with CRegister s => [lower (s_full s)] | _ => [] end) cs.
