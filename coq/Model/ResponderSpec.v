(* Specification of the responder, written from the text of property C06 (not from the code):
   which records a query must be answered with, in which section, with which values, to which
   destination.  `spec text_quirks` is the text; the places where the code as it is deviates
   from the text are switches of the record `quirks`, so that `spec code_quirks` describes the
   code (theorem model_is_spec_code) and every deviation is a named, decidable class.
   chk_C06 is the executable checker used both in the theorems and as the monitor on the
   implementation's packets.  Definitions only; proofs are in Proofs/ResponderProofs.v. *)
From Coq Require Import List NArith Bool Permutation.
From Mdns Require Import Res Bytes Rec Intf Responder.
Import ListNotations.
Open Scope N_scope.

(* ---- deviations of the code from the text (each is a finding, see known/C06.json) -------- *)
Record quirks : Type := mkQuirks {
  k_sub_answer : bool;     (* subtype question: type PTR as answer, subtype PTR only as additional *)
  k_family : bool          (* "has an address on the link" and the additional address records
                              consider only the IP family the query came over *)
}.
(* Repaired in /repo since the first build (they were switches of this record): meta-query PTR
   once per service (7c97a89), SRV target / additional owner after a host rename and lookup of a
   renamed mixed-case instance (76fe236), id of legacy unicast responses (fbfe50b). *)

Definition text_quirks : quirks := mkQuirks false false.
Definition code_quirks : quirks := mkQuirks true true.

(* ---- records with the literal values of the property text ---------------------------------- *)
Definition sp_ptr (name alias : bytes) : rr := mkRR name 12 1 false 4500 (RPtr alias).
Definition sp_srv (name : bytes) (port : N) (host : bytes) : rr := mkRR name 33 1 true 120 (RSrv 0 0 port host).
Definition sp_txt (name txt : bytes) : rr := mkRR name 16 1 true 4500 (RTxt txt).
Definition sp_addr (name : bytes) (a : ip) : rr :=
  mkRR name (if is_v4 a then 1 else 28) 1 true 120 (RAddr (ip_octets a)).

(* names are compared case-insensitively (ASCII) *)
Definition ci_eq (a b : bytes) : bool := beq (lower a) (lower b).

(* known-answer suppression (C10): a known answer for the same record (name, type, class, rdata;
   the cache-flush bit is not part of the identity) whose TTL is more than half of mine *)
Definition same_record (a b : rr) : bool :=
  beq (r_name a) (r_name b) && (r_type a =? r_type b) && (r_class a =? r_class b)
  && beq_rdata (r_data a) (r_data b).
Definition known (m : msg) (mine : rr) : bool :=
  existsb (fun theirs => same_record mine theirs && (r_ttl mine / 2 <? r_ttl theirs)) (m_answers m).
Definition unknown (m : msg) (l : list rr) : list rr := filter (fun r => negb (known m r)) l.

Section Spec.
Variable k : quirks.
Variable nc : list (bytes * bytes).      (* name_changes of the receiving interface's registry *)
Variable intf : myintf.                  (* the receiving interface *)
Variable m : msg.                        (* the query *)
Variable v4t : bool.                     (* the query came over IPv4 *)
Variable entries : list entry.           (* the registered services with their status on intf *)

(* current names of a service on this interface (after conflict renames) *)
Definition cur_inst (s : service) : bytes := resolve_name nc (s_fullname s).
Definition cur_host (s : service) : bytes := resolve_name nc (s_host s).

(* the service's addresses inside one of the receiving interface's subnets *)
Definition link_addrs (s : service) : list ip :=
  filter (fun a => (if k_family k then Bool.eqb (is_v4 a) v4t else true) && addr_on_intf intf a) (s_addrs s).
Definition link_v4 (s : service) : list ip := filter (fun a => is_v4 a && addr_on_intf intf a) (s_addrs s).
Definition link_v6 (s : service) : list ip := filter (fun a => negb (is_v4 a) && addr_on_intf intf a) (s_addrs s).

(* a service is answered for iff it is announced on this interface and has an address on the link *)
Definition answerable (e : entry) : bool :=
  is_announced (e_status e) && negb (is_nil (link_addrs (e_svc e))).

(* the additionals a PTR answer for service s brings: SRV, TXT, addresses *)
Definition svc_additionals (s : service) : list rr :=
  [sp_srv (cur_inst s) (s_port s) (cur_host s); sp_txt (cur_inst s) (s_txt s)]
  ++ map (sp_addr (cur_host s)) (link_addrs s).

Definition with_additionals (answer : rr) (adds : list rr) : list rr * list rr :=
  if known m answer then ([], []) else ([answer], adds).

Definition is_sub (s : service) (name : bytes) : bool :=
  match s_sub s with Some v => beq v name | None => false end.
Definition sub_ptr (s : service) : list rr :=
  match s_sub s with Some v => [sp_ptr v (cur_inst s)] | None => [] end.

(* PTR question on a service type or subtype *)
Definition spec_ptr_entry (q : question) (e : entry) : list rr * list rr :=
  let s := e_svc e in
  if answerable e then
    if beq (q_name q) (s_ty s) then
      with_additionals (sp_ptr (s_ty s) (cur_inst s)) (sub_ptr s ++ svc_additionals s)
    else if is_sub s (q_name q) then
      if k_sub_answer k
      then with_additionals (sp_ptr (s_ty s) (cur_inst s)) (sub_ptr s ++ svc_additionals s)
      else with_additionals (sp_ptr (q_name q) (cur_inst s)) (svc_additionals s)
    else ([], [])
  else ([], []).

(* PTR question on "_services._dns-sd._udp.local.": one PTR per announced service type *)
Definition meta_entry (e : entry) : bool :=
  is_announced (e_status e) && negb (matches_type_or_subtype (e_svc e) META_QUERY).
Definition meta_types : list bytes := map (fun e => s_ty (e_svc e)) (filter meta_entry entries).
Definition spec_meta (q : question) : list rr :=
  if beq (q_name q) META_QUERY then
    unknown m (map (sp_ptr (q_name q)) (nodup (list_eq_dec N.eq_dec) meta_types))
  else [].

(* A / AAAA / ANY question on the host name *)
Definition spec_addr_entry (q : question) (e : entry) : list rr :=
  let s := e_svc e in
  let t := q_type q in
  if is_announced (e_status e) && ci_eq (q_name q) (cur_host s) then
    unknown m (map (sp_addr (cur_host s))
                   ((if (t =? 1) || (t =? 255) then link_v4 s else [])
                    ++ (if (t =? 28) || (t =? 255) then link_v6 s else [])))
  else [].

(* SRV / TXT / ANY question on the instance name *)
Definition inst_match (q : question) (e : entry) : bool := ci_eq (q_name q) (cur_inst (e_svc e)).

Definition spec_inst_entry (q : question) (e : entry) : list rr * list rr :=
  let s := e_svc e in
  let t := q_type q in
  let srv := sp_srv (q_name q) (s_port s) (cur_host s) in
  if inst_match q e && answerable e then
    (unknown m ((if (t =? 33) || (t =? 255) then [srv] else [])
                ++ (if (t =? 16) || (t =? 255) then [sp_txt (q_name q) (s_txt s)] else [])),
     (* RFC 6763 12.2 (the text is silent): the SRV answer to an SRV question brings the
        address records *)
     if (t =? 33) && negb (known m srv) then map (sp_addr (cur_host s)) (link_addrs s) else [])
  else ([], []).

Definition spec_question (q : question) : list rr * list rr :=
  if q_type q =? 12 then
    (flat_map (fun e => fst (spec_ptr_entry q e)) entries ++ spec_meta q,
     flat_map (fun e => snd (spec_ptr_entry q e)) entries)
  else
    (flat_map (spec_addr_entry q) entries ++ flat_map (fun e => fst (spec_inst_entry q e)) entries,
     flat_map (fun e => snd (spec_inst_entry q e)) entries).

Definition spec_answers : list rr := flat_map (fun q => fst (spec_question q)) (m_questions m).
Definition spec_additionals : list rr := flat_map (fun q => snd (spec_question q)) (m_questions m).
End Spec.

Definition legacy (inp : hq_input) : bool := negb (h_src_port inp =? 5353).

Definition spec (k : quirks) (inp : hq_input) : option packet :=
  let nc := h_name_changes inp in
  let intf := h_intf inp in
  let m := h_msg inp in
  let v4t := is_v4 (h_src_ip inp) in
  let answers := spec_answers k nc intf m v4t (h_services inp) in
  let additionals := spec_additionals k nc intf m v4t (h_services inp) in
  if is_nil answers then None
  else if negb (family_enabled intf v4t) then None      (* no address of that family to send from *)
  else
    Some (mkPacket
            (if legacy inp then DUnicast (h_src_ip inp) (h_src_port inp) else DMulticast v4t)
            (mi_index intf)
            (if legacy inp then m_id m else 0)
            33792                                        (* QR | AA *)
            (if legacy inp then map (fun q => (q_name q, q_type q)) (m_questions m) else [])
            (if legacy inp then map clear_flush answers else answers)
            (if legacy inp then map clear_flush additionals else additionals)).

(* ---- equality of reactions up to the order of records inside a section --------------------- *)
Definition packet_equiv (p q : packet) : Prop :=
  p_dest p = p_dest q /\ p_if p = p_if q /\ p_id p = p_id q /\ p_flags p = p_flags q /\
  p_questions p = p_questions q /\
  Permutation (p_answers p) (p_answers q) /\ Permutation (p_additionals p) (p_additionals q).

Definition reaction_equiv (a b : option packet) : Prop :=
  match a, b with
  | None, None => True
  | Some p, Some q => packet_equiv p q
  | _, _ => False
  end.

(* ---- comparing packets: sections are multisets, owner names compare case-insensitively ---- *)

Definition rr_eq_dec : forall a b : rr, {a = b} + {a <> b}.
Proof.
  assert (Hb : forall x y : bytes, {x = y} + {x <> y}) by (apply list_eq_dec; apply N.eq_dec).
  assert (Hd : forall x y : rdata, {x = y} + {x <> y}) by (decide equality; apply N.eq_dec).
  decide equality; try apply N.eq_dec; try apply Bool.bool_dec.
Defined.

Definition mset_eqb (a b : list rr) : bool :=
  forallb (fun x => Nat.eqb (count_occ rr_eq_dec a x) (count_occ rr_eq_dec b x)) (a ++ b).

Definition norm_rr (r : rr) : rr :=
  mkRR (lower (r_name r)) (r_type r) (r_class r) (r_flush r) (r_ttl r) (r_data r).

Definition dest_eqb (a b : dest) : bool :=
  match a, b with
  | DMulticast x, DMulticast y => Bool.eqb x y
  | DUnicast x p, DUnicast y q => ip_eqb x y && (p =? q)
  | _, _ => false
  end.

Fixpoint questions_eqb (a b : list (bytes * N)) : bool :=
  match a, b with
  | [], [] => true
  | (n, t) :: a', (n', t') :: b' => ci_eq n n' && (t =? t') && questions_eqb a' b'
  | _, _ => false
  end.

Definition packet_eqb (p q : packet) : bool :=
  dest_eqb (p_dest p) (p_dest q) && (p_if p =? p_if q) && (p_id p =? p_id q) && (p_flags p =? p_flags q)
  && questions_eqb (p_questions p) (p_questions q)
  && mset_eqb (map norm_rr (p_answers p)) (map norm_rr (p_answers q))
  && mset_eqb (map norm_rr (p_additionals p)) (map norm_rr (p_additionals q)).

Definition opt_packet_eqb (p q : option packet) : bool :=
  match p, q with
  | None, None => true
  | Some x, Some y => packet_eqb x y
  | _, _ => false
  end.

(* The checker of C06: the observed reaction to a query is what the text prescribes. *)
Definition chk_C06 (inp : hq_input) (observed : option packet) : bool :=
  opt_packet_eqb observed (spec text_quirks inp).

(* observed reaction explained by the text plus the listed deviations *)
Definition explained_by (ks : quirks) (inp : hq_input) (observed : option packet) : bool :=
  opt_packet_eqb observed (spec ks inp).

(* ---- hypotheses of the theorems ------------------------------------------------------------ *)

(* services as the public API creates them *)
Definition wf_service (s : service) : bool :=
  (s_host_ttl s =? 120) && (s_other_ttl s =? 4500) && (s_priority s =? 0) && (s_weight s =? 0).

Fixpoint nodup_b (l : list bytes) : bool :=
  match l with
  | [] => true
  | x :: t => negb (mem x t) && nodup_b t
  end.

(* no two services answer to the same (renamed, lower-cased) instance name *)
Definition wf_input (inp : hq_input) : bool :=
  forallb (fun e => wf_service (e_svc e)) (h_services inp)
  && nodup_b (map (fun e => lower (resolve_name (h_name_changes inp) (s_fullname (e_svc e)))) (h_services inp)).

(* inputs outside every deviation class: there the code does what the text says *)
Definition clean (inp : hq_input) : bool :=
  let v4t := is_v4 (h_src_ip inp) in
  let qs := m_questions (h_msg inp) in
  let ann := filter (fun e => is_announced (e_status e)) (h_services inp) in
  (* no PTR question for the subtype of an announced service *)
  forallb (fun q => negb (q_type q =? 12) || forallb (fun e => negb (is_sub (e_svc e) (q_name q))) ann) qs
  (* every on-link address of an announced service has the family of the transport *)
  && forallb (fun e => forallb (fun a => negb (addr_on_intf (h_intf inp) a) || Bool.eqb (is_v4 a) v4t)
                               (s_addrs (e_svc e))) ann.
