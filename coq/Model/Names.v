(* Model of the renaming functions used by conflict resolution
   (src/service_daemon.rs: name_change, hostname_change) on UTF-8 byte strings.
   All patterns the Rust searches for (" (", ')', '-', '.', '+', digits) are ASCII, so
   byte-level search is exact (UTF-8 continuation bytes are >= 0x80) and every slice
   boundary the Rust computes is a character boundary (no slicing panic possible).
   Definitions only. *)
From Coq Require Import List NArith Bool.
From Mdns Require Import Bytes ParamsRegistry.
Import ListNotations.
Open Scope N_scope.

Definition C_DOT : N := 46.
Definition C_SP : N := 32.
Definition C_LP : N := 40.
Definition C_RP : N := 41.
Definition C_HY : N := 45.
Definition C_PLUS : N := 43.
Definition C_BSL : N := 92.

(* original.split('.') : the first piece, and the remainder starting at the first '.'
   (empty if there is none).  parts.join(".") with the first piece replaced by `n` is
   n ++ remainder. *)
Fixpoint split_first (s : bytes) : bytes * bytes :=
  match s with
  | [] => ([], [])
  | c :: t => if c =? C_DOT then ([], s) else let (a, r) := split_first t in (c :: a, r)
  end.

(* str::rfind of a two-byte pattern: (text before the LAST match, text after it) *)
Fixpoint rsplit2 (a b : N) (s : bytes) : option (bytes * bytes) :=
  match s with
  | [] => None
  | x :: t =>
    match rsplit2 a b t with
    | Some (p, q) => Some (x :: p, q)
    | None =>
      match t with
      | y :: t' => if (x =? a) && (y =? b) then Some ([], t') else None
      | [] => None
      end
    end
  end.

(* str::rfind of one byte *)
Fixpoint rsplit1 (a : N) (s : bytes) : option (bytes * bytes) :=
  match s with
  | [] => None
  | x :: t =>
    match rsplit1 a t with
    | Some (p, q) => Some (x :: p, q)
    | None => if x =? a then Some ([], t) else None
    end
  end.

(* str::find of one byte: (text before the FIRST match, text after it) *)
Fixpoint find1 (a : N) (s : bytes) : option (bytes * bytes) :=
  match s with
  | [] => None
  | x :: t => if x =? a then Some ([], t)
              else match find1 a t with Some (p, q) => Some (x :: p, q) | None => None end
  end.

Definition is_digit (c : N) : bool := (48 <=? c) && (c <=? 57).

Definition digits_val (ds : bytes) : N := fold_left (fun acc d => acc * 10 + (d - 48)) ds 0.

(* <u32 as FromStr>::from_str: optional single leading '+', then one or more ASCII digits
   (leading zeros allowed), value <= u32::MAX.  A '-' is an invalid digit for an unsigned
   type; "" and "+" are errors. *)
Definition parse_u32 (s : bytes) : option N :=
  let ds := match s with
            | c :: t => if c =? C_PLUS then t else s
            | [] => []
            end in
  match ds with
  | [] => None
  | _ => if forallb is_digit ds
         then let v := digits_val ds in if v <=? 4294967295 then Some v else None
         else None
  end.

(* Display of an unsigned number: decimal, no leading zeros. *)
Fixpoint dec_fuel (fuel : nat) (n : N) (acc : bytes) : bytes :=
  match fuel with
  | O => acc
  | S f => let acc' := (48 + n mod 10) :: acc in
           if n <? 10 then acc' else dec_fuel f (n / 10) acc'
  end.
Definition dec (n : N) : bytes := dec_fuel 40 n [].

(* number.checked_add(1) on a u32: Some unless the result exceeds u32::MAX *)
Definition name_suffix_can_increment (n : N) : bool := n + name_suffix_step <=? 4294967295.
Definition host_suffix_can_increment (n : N) : bool := n + host_suffix_step <=? 4294967295.

(* The first LABEL of a presentation-format name ends at the first dot that is not escaped by a
   backslash ("\." is a literal dot inside a label, "\\" a literal backslash).
   fn split_first_label(name) -> (first label as written, rest starting with that dot) *)
Fixpoint split_first_label (s : bytes) : bytes * bytes :=
  match s with
  | [] => ([], [])
  | c :: t =>
    if c =? C_DOT then ([], s)
    else if c =? C_BSL then
      match t with
      | n :: t' => let (a, r) := split_first_label t' in (c :: n :: a, r)
      | [] => ([c], [])
      end
    else let (a, r) := split_first_label t in (c :: a, r)
  end.

(* length of the label on the wire: escapes removed *)
Fixpoint unescaped_len (s : bytes) : N :=
  match s with
  | [] => 0
  | c :: t =>
    if c =? C_BSL then
      match t with
      | n :: t' => if (n =? C_DOT) || (n =? C_BSL) then 1 + unescaped_len t' else 1 + unescaped_len t
      | [] => 1
      end
    else 1 + unescaped_len t
  end.


Definition is_cont (b : N) : bool := (128 <=? b) && (b <=? 191).   (* UTF-8 continuation byte *)

(* while !base.is_char_boundary(end) { end -= 1 } *)
Fixpoint back_boundary (fuel : nat) (base : bytes) (e : nat) : nat :=
  match fuel with
  | O => e
  | S f =>
    if Nat.eqb e (length base) then e
    else match e with
         | O => O
         | S e' => match nth_error base e with
                   | Some c => if is_cont c then back_boundary f base e' else e
                   | None => e
                   end
         end
  end.

Fixpoint lead_bsl (l : bytes) : nat :=
  match l with c :: t => if c =? C_BSL then S (lead_bsl t) else O | [] => O end.

(* fn label_with_suffix(base, suffix): base shortened (on a character boundary, not inside an
   escape sequence) so that base + suffix fits into 63 bytes *)
Definition label_with_suffix (base suffix : bytes) : bytes :=
  let e0 := Nat.min (length base) (63 - length suffix) in
  let e := back_boundary e0 base e0 in
  let kept := firstn e base in
  let kept' := if Nat.ltb e (length base) && Nat.odd (lead_bsl (rev kept)) then removelast kept else kept in
  kept' ++ suffix.

(* fn name_change(original: &str) -> String *)
Definition name_change (orig : bytes) : bytes :=
  let (first, rest) := split_first_label orig in
  let dflt := label_with_suffix first [C_SP; C_LP; 50; C_RP] in
  let newn :=
    match rsplit2 C_SP C_LP first with
    | Some (base, q) =>
      match find1 C_RP q with
      | Some (num, []) =>
        match parse_u32 num with
        | Some n => if name_suffix_can_increment n
                    then label_with_suffix base ([C_SP; C_LP] ++ dec (n + name_suffix_step) ++ [C_RP])
                    else dflt
        | None => dflt
        end
      | _ => dflt
      end
    | None => dflt
    end in
  newn ++ rest.

(* fn hostname_change(original: &str) -> String *)
Definition hostname_change (orig : bytes) : bytes :=
  let (first, rest) := split_first_label orig in
  let dflt := label_with_suffix first [C_HY; 50] in
  let newn :=
    match rsplit1 C_HY first with
    | Some (base, num) =>
      match parse_u32 num with
      | Some n => if host_suffix_can_increment n
                  then label_with_suffix base ([C_HY] ++ dec (n + host_suffix_step))
                  else dflt
      | None => dflt
      end
    | None => dflt
    end in
  newn ++ rest.

(* ---- what the property asks of a rename --------------------------------------------------
   (split_first_label and unescaped_len are defined above.) *)
(* A rename is well-formed for `orig` when only the first label changed (everything from the
   first unescaped dot on is kept) and the new first label still fits a DNS label. *)
Definition rename_keeps_rest (orig new : bytes) : bool :=
  beq (snd (split_first_label orig)) (snd (split_first_label new)).
Definition first_label_encodable (name : bytes) : bool :=
  unescaped_len (fst (split_first_label name)) <? 64.
Definition rename_ok (orig new : bytes) : bool :=
  rename_keeps_rest orig new && first_label_encodable new && negb (beq orig new).
