(* A model of the daemon restricted to what property C18 observes: the interface table
   (my_intfs, if_selections, add_interface, del_interface_addr, apply_intf_selections,
   check_ip_changes with its schedule), registration / unregistration / re-announcement of
   services that need no probing (explicit or automatic addresses), the reaction to queries
   (Responder.handle_datagram), and the cache as far as interfaces matter (records with the
   interface they were learned on, browse events, removal of an interface).
   One call of `iterate` is one iteration of Zeroconf::run at virtual time `now`:
   datagrams, commands, due retransmissions, IP check - in that order, as in the Rust.
   Not modelled (and removed from the observation by the projection): queries the daemon sends
   (browse schedule, resolve retries, refresh), probing (services are registered with
   requires_probe = false), monitor events other than IpAdd / IpDel, SearchStarted events,
   record expiry (histories are much shorter than the TTLs used).
   Definitions only. *)
From Coq Require Import List NArith Bool.
From Mdns Require Import Res Bytes Rec Wire Intf IntfCache Responder ParamsResponder.
Import ListNotations.
Open Scope N_scope.

(* ---- my_intfs ---------------------------------------------------------------------------------- *)

Fixpoint intf_get (idx : N) (l : list myintf) : option myintf :=
  match l with
  | [] => None
  | i :: t => if mi_index i =? idx then Some i else intf_get idx t
  end.
Fixpoint intf_put (x : myintf) (l : list myintf) : list myintf :=
  match l with
  | [] => [x]
  | i :: t => if mi_index i =? mi_index x then x :: t else i :: intf_put x t
  end.
Definition intf_remove (idx : N) (l : list myintf) : list myintf :=
  filter (fun i => negb (mi_index i =? idx)) l.

Definition has_ifaddr (a : ifaddr) (l : list ifaddr) : bool := existsb (ifaddr_eqb a) l.
Definition del_ifaddr (a : ifaddr) (l : list ifaddr) : list ifaddr := filter (fun x => negb (ifaddr_eqb a x)) l.

(* the table Zeroconf::new builds from the interfaces present at start *)
Definition initial_intfs (tbl : list iface) : list myintf :=
  fold_left (fun acc i =>
               match intf_get (i_index i) acc with
               | Some m => if has_ifaddr (i_addr i) (mi_addrs m) then acc
                           else intf_put (mkMyIntf (mi_name m) (mi_index m) (mi_addrs m ++ [i_addr i])) acc
               | None => acc ++ [mkMyIntf (i_name i) (i_index i) [i_addr i]]
               end) tbl [].

(* ---- services ---------------------------------------------------------------------------------- *)

Record dsvc : Type := mkDsvc { ds_svc : service; ds_auto : bool; ds_status : list (N * status) }.

Fixpoint status_get (idx : N) (l : list (N * status)) : status :=
  match l with
  | [] => Unknown
  | (i, s) :: t => if i =? idx then s else status_get idx t
  end.
Fixpoint status_set (idx : N) (s : status) (l : list (N * status)) : list (N * status) :=
  match l with
  | [] => [(idx, s)]
  | (i, s0) :: t => if i =? idx then (i, s) :: t else (i, s0) :: status_set idx s t
  end.

Definition with_addrs (s : service) (addrs : list ip) : service :=
  mkService (s_ty s) (s_sub s) (s_fullname s) (s_host s) addrs (s_port s) (s_host_ttl s) (s_other_ttl s)
            (s_priority s) (s_weight s) (s_txt s).
Definition has_ip (a : ip) (l : list ip) : bool := existsb (ip_eqb a) l.
Definition add_ip (a : ip) (l : list ip) : list ip := if has_ip a l then l else l ++ [a].
Definition del_ip (a : ip) (l : list ip) : list ip := filter (fun x => negb (ip_eqb a x)) l.

(* insert_ipaddr / remove_ipaddr for services with addr_auto (supported_intfs = [All],
   link-local-only off: every address is accepted) *)
Definition svc_insert_ip (a : ip) (d : dsvc) : dsvc :=
  if ds_auto d then mkDsvc (with_addrs (ds_svc d) (add_ip a (s_addrs (ds_svc d)))) true (ds_status d) else d.
Definition svc_remove_ip (a : ip) (d : dsvc) : dsvc :=
  if ds_auto d then mkDsvc (with_addrs (ds_svc d) (del_ip a (s_addrs (ds_svc d)))) true (ds_status d) else d.

(* ---- packets the daemon sends on its own --------------------------------------------------------- *)

Definition RESPONSE_FLAGS : N := N.lor flags_qr_response flags_aa.

(* prepare_announce for a service that needs no probing, without renames *)
Definition announce_records (s : service) (addrs : list ip) : list rr :=
  [ptr_record (s_ty s) (s_other_ttl s) (s_fullname s)]
  ++ match s_sub s with Some sub => [ptr_record sub (s_other_ttl s) (s_fullname s)] | None => [] end
  ++ [srv_record (s_fullname s) s (s_host s); txt_record (s_fullname s) s]
  ++ map (addr_record (s_host s) s) addrs.

(* announce_service_on_intf with the socket of the given family *)
Definition announce_on (s : service) (intf : myintf) (v4 : bool) : option packet :=
  let ia := intf_addrs_of v4 s intf in
  if is_nil ia then None
  else if family_enabled intf v4
       then Some (mkPacket (DMulticast v4) (mi_index intf) wire_id_when_multicast RESPONSE_FLAGS []
                           (announce_records s ia) [])
       else None.

Definition set_ttl (ttl : N) (r : rr) : rr := mkRR (r_name r) (r_type r) (r_class r) (r_flush r) ttl (r_data r).

(* unregister_service: the goodbye packet *)
Definition goodbye_on (s : service) (intf : myintf) (v4 : bool) : option packet :=
  match announce_on s intf v4 with
  | Some p => Some (mkPacket (p_dest p) (p_if p) (p_id p) (p_flags p) [] (map (set_ttl 0) (p_answers p)) [])
  | None => None
  end.

Definition opt_list {A} (o : option A) : list A := match o with Some x => [x] | None => [] end.

(* The interface a packet is seen to leave on.  IPv6: the index given to set_multicast_if_v6.
   IPv4: set_multicast_if_v4 names an ADDRESS; the packet leaves on the interface that owns this
   address in the OS table of the moment (0 = no interface owns it any more).  Between a change
   of the OS table and the next IP check this can differ from the interface the daemon means. *)
Definition dest_is_v4 (p : packet) : bool :=
  match p_dest p with DMulticast v4 => v4 | DUnicast a _ => is_v4 a end.
Definition egress_if (os : list iface) (intf : myintf) (v4 : bool) : N :=
  if v4 then
    match find (fun a => is_v4 (ia_ip a)) (mi_addrs intf) with
    | Some a => match find (fun i => ip_eqb (i_ip i) (ia_ip a)) os with Some i => i_index i | None => 0 end
    | None => 0
    end
  else mi_index intf.
Definition reroute (os : list iface) (intf : myintf) (p : packet) : packet :=
  mkPacket (p_dest p) (egress_if os intf (dest_is_v4 p)) (p_id p) (p_flags p) (p_questions p) (p_answers p)
           (p_additionals p).

(* ---- observations -------------------------------------------------------------------------------- *)

Inductive obs : Type :=
| OSent (p : packet)
| OIpAdd (a : ip)
| OIpDel (a : ip)
| OFound (ty inst : bytes)
| OResolved (ty inst host : bytes) (port : N) (addrs : list (ip * N))   (* address, interface learned on *)
| ORemoved (ty inst : bytes).

(* ---- state ---------------------------------------------------------------------------------------- *)

Inductive rcmd : Type :=
| RRegisterResend (key : bytes) (idx : N)
| RUnregisterResend (p : packet) (idx : N) (v4 : bool).

Record dstate : Type := mkD {
  d_os : list iface;                 (* what the OS reports *)
  d_intfs : list myintf;             (* my_intfs *)
  d_regs : list N;                   (* interfaces that have a DnsRegistry *)
  d_sels : list selection;           (* if_selections *)
  d_svcs : list (bytes * dsvc);      (* my_services, keyed by the lower-cased full name *)
  d_cache : cache;
  d_browsed : list bytes;            (* service_queriers *)
  d_resolved : list bytes;           (* resolved *)
  d_interval : N;                    (* ip_check_interval, ms *)
  d_next_check : N;                  (* next_ip_check *)
  d_retrans : list (N * rcmd) }.

Definition initial_state (t0 : N) (tbl : list iface) : dstate :=
  let intfs := initial_intfs tbl in
  mkD tbl intfs (map mi_index intfs) [] [] empty_cache [] [] ip_check_default_millis
      (t0 + ip_check_default_millis) [].

Definition upd_svcs (f : list (bytes * dsvc) -> list (bytes * dsvc)) (d : dstate) : dstate :=
  mkD (d_os d) (d_intfs d) (d_regs d) (d_sels d) (f (d_svcs d)) (d_cache d) (d_browsed d) (d_resolved d)
      (d_interval d) (d_next_check d) (d_retrans d).
Definition map_svcs (f : dsvc -> dsvc) (d : dstate) : dstate :=
  upd_svcs (map (fun kv => (fst kv, f (snd kv)))) d.
Definition set_intfs (l : list myintf) (regs : list N) (d : dstate) : dstate :=
  mkD (d_os d) l regs (d_sels d) (d_svcs d) (d_cache d) (d_browsed d) (d_resolved d)
      (d_interval d) (d_next_check d) (d_retrans d).
Definition set_cache (c : cache) (resolved : list bytes) (d : dstate) : dstate :=
  mkD (d_os d) (d_intfs d) (d_regs d) (d_sels d) (d_svcs d) c (d_browsed d) resolved
      (d_interval d) (d_next_check d) (d_retrans d).

Definition memN (x : N) (l : list N) : bool := existsb (N.eqb x) l.
Definition addN (x : N) (l : list N) : list N := if memN x l then l else l ++ [x].

(* ---- resolving from the cache ---------------------------------------------------------------------- *)

Fixpoint tget (k : bytes) (t : table) : list crec :=
  match t with
  | [] => []
  | (k', v) :: t' => if beq k' k then v else tget k t'
  end.

(* resolve_service_from_cache + is_valid: host and port of the first SRV record, the addresses of
   that host; valid iff host and addresses are non-empty *)
Definition resolve_from_cache (c : cache) (ty inst : bytes) : option obs :=
  match tget inst (c_srv c) with
  | r :: _ =>
    match r_data (c_rr r) with
    | RSrv _ _ port host =>
      let addrs := flat_map (fun a => match r_data (c_rr a) with
                                      | RAddr o => [(if Nat.eqb (length o) 4 then V4 (n_of_octets o) else V6 (n_of_octets o),
                                                     ii_index (c_src a))]
                                      | _ => [] end) (tget (lower host) (c_addr c)) in
      if is_nil host || is_nil addrs then None else Some (OResolved ty inst host port addrs)
    | _ => None
    end
  | [] => None
  end.

(* resolve_updated_instances: the resolved set is read as it was before the loop; instances that
   became unresolvable are reported under every browsed name pointing to them and leave the set
   after the loop, the resolved ones enter it *)
Definition resolve_updated (d : dstate) (updated : list bytes) : dstate * list obs :=
  let c := d_cache d in
  let cands := flat_map (fun kv =>
                 if mem (fst kv) (d_browsed d)
                 then flat_map (fun r => match alias_of r with
                                         | Some inst => if mem inst updated then [(fst kv, inst)] else []
                                         | None => [] end) (snd kv)
                 else []) (c_ptr c) in
  let '(now_resolved, no_longer, out) :=
    fold_left (fun (acc : list bytes * list bytes * list obs) (ti : bytes * bytes) =>
                 let '(now_resolved, no_longer, out) := acc in
                 let '(ty, inst) := ti in
                 match resolve_from_cache c ty inst with
                 | Some ev => (add_set inst now_resolved, no_longer, out ++ [ev])
                 | None =>
                   if mem inst (d_resolved d)
                   then (now_resolved, add_set inst no_longer, out ++ [ORemoved ty inst])
                   else (now_resolved, no_longer, out)
                 end) cands ([], [], []) in
  (set_cache c (union_set (filter (fun x => negb (mem x no_longer)) (d_resolved d)) now_resolved) d, out).

(* notify_service_removal *)
Definition notify_removed (d : dstate) (removed : list (bytes * list bytes)) : list obs :=
  flat_map (fun kv => if mem (fst kv) (d_browsed d) then map (ORemoved (fst kv)) (snd kv) else []) removed.

(* get_instances_on_host: first SRV record of an instance names exactly this host *)
Definition instances_on_host (c : cache) (host : bytes) : list bytes :=
  flat_map (fun kv => match snd kv with
                      | r :: _ => match srv_host_of r with Some h => if beq h host then [fst kv] else [] | None => [] end
                      | [] => [] end) (c_srv c).

(* ---- handle_response (the message is "for us": its first PTR answer is for a browsed type) ------- *)

Definition is_new (c : cache) (r : rr) (src : intf_id) : bool :=
  let t := r_type r in
  let records := if t =? TY_PTR then tget (r_name r) (c_ptr c)
                 else if t =? TY_SRV then tget (r_name r) (c_srv c)
                 else if t =? TY_TXT then tget (r_name r) (c_txt c)
                 else if (t =? TY_A) || (t =? TY_AAAA) then tget (lower (r_name r)) (c_addr c)
                 else [] in
  ((t =? TY_PTR) || (t =? TY_SRV) || (t =? TY_TXT) || (t =? TY_A) || (t =? TY_AAAA))
  && negb (existsb (fun a => crec_matches a r src) records).

Definition for_us (d : dstate) (m : msg) : bool :=
  (* the loop over the answers: a PTR of a browsed type decides "yes" at once (break), a PTR of
     another type turns the assumption to "no" *)
  fst (fold_left (fun acc r => match acc with
                               | (_, true) => acc
                               | (v, false) => if r_type r =? TY_PTR
                                               then if mem (r_name r) (d_browsed d) then (true, true) else (false, false)
                                               else acc
                               end) (m_answers m) (true, false)).

Definition handle_response (d : dstate) (intf : myintf) (m : msg) : dstate * list obs :=
  if negb (for_us d m) then (d, [])   (* generated histories only inject responses that are for us *)
  else
    let src := mkIntfId (mi_name intf) (mi_index intf) in
    let '(c, found, changes) :=
      fold_left (fun acc r =>
                   let '(c, found, changes) := acc in
                   if is_new c r src then
                     let c' := cache_insert c r src in
                     if (r_type r =? TY_PTR) && (1 <? r_ttl r) then
                       match r_data r with
                       | RPtr alias => (c', found ++ (if mem (r_name r) (d_browsed d) then [OFound (r_name r) alias] else []),
                                        changes ++ [(TY_PTR, alias)])
                       | _ => (c', found, changes)
                       end
                     else (c', found, changes ++ [(r_type r, r_name r)])
                   else (c, found, changes))
                (m_answers m ++ m_authorities m ++ m_additionals m) (d_cache d, [], []) in
    let updated := fold_left (fun acc ch =>
                                let '(t, name) := ch in
                                if (t =? TY_A) || (t =? TY_AAAA) then union_set acc (instances_on_host c name)
                                else add_set name acc) changes [] in
    let '(d', evs) := resolve_updated (set_cache c (d_resolved d) d) updated in
    (d', found ++ evs).

Definition add_retrans (r : list (N * rcmd)) (d : dstate) : dstate :=
  mkD (d_os d) (d_intfs d) (d_regs d) (d_sels d) (d_svcs d) (d_cache d) (d_browsed d) (d_resolved d)
      (d_interval d) (d_next_check d) (d_retrans d ++ r).

(* ---- add_interface / del_interface_addr / apply_intf_selections ------------------------------------ *)

Definition add_interface (now : N) (d : dstate) (i : iface) : dstate * list obs :=
  let idx := i_index i in
  let '(intfs', new_addr) :=
    match intf_get idx (d_intfs d) with
    | Some m => if has_ifaddr (i_addr i) (mi_addrs m) then (d_intfs d, false)
                else (intf_put (mkMyIntf (mi_name m) idx (mi_addrs m ++ [i_addr i])) (d_intfs d), true)
    | None => (d_intfs d ++ [mkMyIntf (i_name i) idx [i_addr i]], true)
    end in
  if negb new_addr then (d, [])
  else
    let d1 := set_intfs intfs' (addN idx (d_regs d)) d in
    match intf_get idx intfs' with
    | None => (d1, [])
    | Some my_intf =>
      let v4 := is_v4 (i_ip i) in
      (* services with automatic addresses take the new address and are announced on the
         socket of its family *)
      let '(svcs', sent, resend) :=
        fold_left (fun (acc : list (bytes * dsvc) * list obs * list (N * rcmd)) (kv : bytes * dsvc) =>
                     let '(svcs, sent, resend) := acc in
                     let ds := snd kv in
                     if ds_auto ds then
                       let ds1 := svc_insert_ip (i_ip i) ds in
                       match announce_on (ds_svc ds1) my_intf v4 with
                       | Some p => (svcs ++ [(fst kv, mkDsvc (ds_svc ds1) true (status_set idx Announced (ds_status ds1)))],
                                    sent ++ [OSent (reroute (d_os d) my_intf p)],
                                    (* announced a second time one second later *)
                                    resend ++ [(now + 1000, RRegisterResend (fst kv) idx)])
                       | None => (svcs ++ [(fst kv, mkDsvc (ds_svc ds1) true (status_set idx Probing (ds_status ds1)))],
                                  sent, resend)
                       end
                     else (svcs ++ [kv], sent, resend)) (d_svcs d1) ([], [], []) in
      (add_retrans resend (upd_svcs (fun _ => svcs') d1), sent ++ [OIpAdd (i_ip i)])
    end.

(* has_ip_in_my_intfs (0f7c6ac): some held entry, whatever the interface and the prefix length,
   has this IP *)
Definition holds_ip (l : list myintf) (a : ip) : bool :=
  existsb (fun m => existsb (fun x => ip_eqb (ia_ip x) a) (mi_addrs m)) l.

Definition del_interface_addr (d : dstate) (i : iface) : dstate * list obs :=
  let idx := i_index i in
  match intf_get idx (d_intfs d) with
  | None => (d, [])
  | Some m =>
    if has_ifaddr (i_addr i) (mi_addrs m) then
      let addrs' := del_ifaddr (i_addr i) (mi_addrs m) in
      let m' := mkMyIntf (mi_name m) idx addrs' in
      let d1 :=
        if is_nil addrs' then
          set_cache (remove_addrs_on_disabled_intf (d_cache d) idx TBoth) (d_resolved d)
                    (set_intfs (intf_remove idx (d_intfs d)) (filter (fun x => negb (x =? idx)) (d_regs d)) d)
        else
          let v4 := is_v4 (i_ip i) in
          let d0 := set_intfs (intf_put m' (d_intfs d)) (d_regs d) d in
          if negb (family_enabled m' v4)
          then set_cache (remove_addrs_on_disabled_intf (d_cache d) idx (if v4 then TV4 else TV6)) (d_resolved d) d0
          else d0 in
      (* the IP is gone (IpDel, withdrawn from the auto-address services) only if no other held
         entry still has it *)
      if holds_ip (d_intfs d1) (i_ip i) then (d1, [])
      else (map_svcs (svc_remove_ip (i_ip i)) d1, [OIpDel (i_ip i)])
    else (d, [])
  end.

Definition apply_intf_selections (now : N) (d : dstate) (tbl : list iface) : dstate * list obs :=
  fold_left (fun (acc : dstate * list obs) (im : iface * bool) =>
               let '(st, out) := acc in
               let '(st', o) := if snd im then add_interface now st (fst im) else del_interface_addr st (fst im) in
               (st', out ++ o))
            (combine tbl (selection_marks apply_selection_default (d_sels d) tbl)) (d, []).

(* ---- check_ip_changes -------------------------------------------------------------------------------- *)

Definition os_has (tbl : list iface) (idx : N) (a : ifaddr) : bool :=
  existsb (fun i => (i_index i =? idx) && ifaddr_eqb (i_addr i) a) tbl.
Definition os_has_index (tbl : list iface) (idx : N) : bool := existsb (fun i => i_index i =? idx) tbl.

Definition check_ip_changes (now : N) (d : dstate) : dstate * list obs :=
  let tbl := d_os d in
  (* addresses that vanished, interfaces left without any address *)
  let kept := map (fun m => mkMyIntf (mi_name m) (mi_index m)
                               (filter (fun a => os_has tbl (mi_index m) a) (mi_addrs m))) (d_intfs d) in
  (* an address that is still held on another entry (moved and taken up there by an enable /
     disable call, other prefix length, two interfaces) has not gone away; the entry of an
     interface that no longer exists is already empty in `kept` *)
  let deleted_ips := filter (fun a => negb (holds_ip kept a))
                       (flat_map (fun m => map ia_ip (filter (fun a => negb (os_has tbl (mi_index m) a)) (mi_addrs m)))
                                 (d_intfs d)) in
  let deleted_intfs := filter (fun m => is_nil (mi_addrs m)) kept in
  let d1 := set_intfs kept (d_regs d) d in
  (* del_ip for every vanished address *)
  let d2 := fold_left (fun st a => map_svcs (svc_remove_ip a) st) deleted_ips d1 in
  let ev_del := map OIpDel deleted_ips in
  (* interfaces that are gone: forget what was learned on them *)
  let '(d3, ev_cache) :=
    fold_left (fun (acc : dstate * list obs) (m : myintf) =>
                 let '(st, out) := acc in
                 let st1 := set_intfs (intf_remove (mi_index m) (d_intfs st)) (d_regs st) st in
                 let rmv := remove_records_on_intf (d_cache st1) (mkIntfId (mi_name m) (mi_index m)) in
                 let st2 := set_cache (rm_cache rmv) (d_resolved st1) st1 in
                 let ev1 := notify_removed st2 (rm_removed rmv) in
                 let '(st3, ev2) := resolve_updated st2 (rm_modified rmv) in
                 (st3, out ++ ev1 ++ ev2)) deleted_intfs (d2, []) in
  let '(d4, ev_apply) := apply_intf_selections now d3 tbl in
  (d4, ev_del ++ ev_cache ++ ev_apply).

(* ---- datagrams ---------------------------------------------------------------------------------------- *)

Record dgram : Type := mkDgram { dg_if : N; dg_src : ip; dg_port : N; dg_data : bytes }.

Definition entries_on (d : dstate) (idx : N) : list entry :=
  map (fun kv => mkEntry (fst kv) (ds_svc (snd kv)) (status_get idx (ds_status (snd kv)))) (d_svcs d).

(* handle_read *)
Definition handle_dgram (d : dstate) (g : dgram) : dstate * list obs :=
  match intf_get (dg_if g) (d_intfs d) with
  | None => (d, [])
  | Some intf =>
    if negb (family_enabled intf (is_v4 (dg_src g))) then (d, [])
    else match decode (dg_data g) with
         | Ok m =>
           if N.land (m_flags m) 32768 =? 0 then
             if memN (dg_if g) (d_regs d)
             then (d, map (fun p => OSent (reroute (d_os d) intf p))
                          (opt_list (handle_query (mkHq (entries_on d (dg_if g)) [] intf m (dg_src g) (dg_port g)))))
             else (d, [])
           else handle_response d intf m
         | _ => (d, [])
         end
  end.

(* ---- commands ------------------------------------------------------------------------------------------ *)

Inductive call : Type :=
| CEnable (ks : list ifkind)
| CDisable (ks : list ifkind)
| CRegister (s : service) (auto : bool)
| CUnregister (key : bytes)
| CSetInterval (secs : N)
| CBrowse (ty : bytes).

Fixpoint svc_put (k : bytes) (v : dsvc) (l : list (bytes * dsvc)) : list (bytes * dsvc) :=
  match l with
  | [] => [(k, v)]
  | (k', v') :: t => if beq k' k then (k, v) :: t else (k', v') :: svc_put k v t
  end.
Fixpoint svc_get (k : bytes) (l : list (bytes * dsvc)) : option dsvc :=
  match l with
  | [] => None
  | (k', v) :: t => if beq k' k then Some v else svc_get k t
  end.

(* register_service: automatic addresses, send_unsolicited_response, insertion *)
Definition do_register (now : N) (d : dstate) (s : service) (auto : bool) : dstate * list obs :=
  let s1 := if auto
            then with_addrs s (fold_left (fun acc i => add_ip (i_ip i) acc) (selected_intfs (d_sels d) (d_os d)) (s_addrs s))
            else s in
  let key := lower (s_fullname s1) in
  let '(status, sent, resend) :=
    fold_left (fun (acc : list (N * status) * list obs * list (N * rcmd)) (intf : myintf) =>
                 let '(status, sent, resend) := acc in
                 let p4 := announce_on s1 intf true in
                 let p6 := announce_on s1 intf false in
                 let pk := opt_list p4 ++ opt_list p6 in
                 if is_nil pk
                 then (status_set (mi_index intf) Probing status, sent, resend)
                 else (status_set (mi_index intf) Announced status,
                       sent ++ map (fun p => OSent (reroute (d_os d) intf p)) pk,
                       resend ++ [(now + 1000, RRegisterResend key (mi_index intf))]))
              (d_intfs d) ([], [], []) in
  let regs := fold_left (fun acc intf => addN (mi_index intf) acc) (d_intfs d) (d_regs d) in
  let d1 := set_intfs (d_intfs d) regs d in
  (add_retrans resend (upd_svcs (svc_put key (mkDsvc s1 auto status)) d1), sent).

Definition do_unregister (now : N) (d : dstate) (key : bytes) : dstate * list obs :=
  match svc_get key (d_svcs d) with
  | None => (d, [])
  | Some ds =>
    let '(sent, resend) :=
      fold_left (fun (acc : list obs * list (N * rcmd)) (intf : myintf) =>
                   let '(sent, resend) := acc in
                   (* nothing to withdraw where the service was never announced *)
                   if negb (is_announced (status_get (mi_index intf) (ds_status ds))) then acc else
                   let p4 := goodbye_on (ds_svc ds) intf true in
                   let p6 := goodbye_on (ds_svc ds) intf false in
                   (sent ++ map (fun p => OSent (reroute (d_os d) intf p)) (opt_list p4 ++ opt_list p6),
                    resend ++ map (fun p => (now + 120, RUnregisterResend p (mi_index intf) true)) (opt_list p4)
                           ++ map (fun p => (now + 120, RUnregisterResend p (mi_index intf) false)) (opt_list p6)))
                (d_intfs d) ([], []) in
    (add_retrans resend (upd_svcs (filter (fun kv => negb (beq (fst kv) key))) d), sent)
  end.

(* browse: the cached instances of the type are reported to the new listener *)
Definition do_browse (d : dstate) (ty : bytes) : dstate * list obs :=
  let c := d_cache d in
  let '(resolved, out) :=
    fold_left (fun (acc : list bytes * list obs) (r : crec) =>
                 let '(resolved, out) := acc in
                 match alias_of r with
                 | Some inst =>
                   match resolve_from_cache c ty inst with
                   | Some ev => (add_set inst resolved, out ++ [OFound ty inst; ev])
                   | None => (resolved, out ++ [OFound ty inst])
                   end
                 | None => acc
                 end) (tget ty (c_ptr c)) (d_resolved d, []) in
  (mkD (d_os d) (d_intfs d) (d_regs d) (d_sels d) (d_svcs d) c (add_set ty (d_browsed d)) resolved
       (d_interval d) (d_next_check d) (d_retrans d), out).

Definition do_call (now : N) (d : dstate) (c : call) : dstate * list obs :=
  match c with
  | CEnable ks =>
    let sels := push_selections (d_sels d) ks true (d_os d) in
    apply_intf_selections now (mkD (d_os d) (d_intfs d) (d_regs d) sels (d_svcs d) (d_cache d) (d_browsed d) (d_resolved d)
                               (d_interval d) (d_next_check d) (d_retrans d)) (d_os d)
  | CDisable ks =>
    let sels := push_selections (d_sels d) ks false (d_os d) in
    apply_intf_selections now (mkD (d_os d) (d_intfs d) (d_regs d) sels (d_svcs d) (d_cache d) (d_browsed d) (d_resolved d)
                               (d_interval d) (d_next_check d) (d_retrans d)) (d_os d)
  | CRegister s auto => do_register now d s auto
  | CUnregister key => do_unregister now d key
  | CSetInterval secs =>
    (mkD (d_os d) (d_intfs d) (d_regs d) (d_sels d) (d_svcs d) (d_cache d) (d_browsed d) (d_resolved d)
         (secs * 1000) (d_next_check d) (d_retrans d), [])
  | CBrowse ty => do_browse d ty
  end.

(* ---- retransmissions ------------------------------------------------------------------------------------ *)

Definition do_retrans (d : dstate) (c : rcmd) : dstate * list obs :=
  match c with
  | RRegisterResend key idx =>
    match svc_get key (d_svcs d), intf_get idx (d_intfs d) with
    | Some ds, Some intf =>
      if memN idx (d_regs d) then
        let pk := opt_list (announce_on (ds_svc ds) intf true) ++ opt_list (announce_on (ds_svc ds) intf false) in
        if is_nil pk then (d, [])
        else (upd_svcs (svc_put key (mkDsvc (ds_svc ds) (ds_auto ds) (status_set idx Announced (ds_status ds)))) d,
              map (fun p => OSent (reroute (d_os d) intf p)) pk)
      else (d, [])
    | _, _ => (d, [])
    end
  | RUnregisterResend p idx v4 =>
    match intf_get idx (d_intfs d) with
    | Some intf =>
      (* exec_command_unregister_resend: the saved packet leaves through the interface it was built for *)
      if family_enabled intf v4 then (d, [OSent (reroute (d_os d) intf p)]) else (d, [])
    | None => (d, [])
    end
  end.

(* ---- one iteration of the run loop ------------------------------------------------------------------------ *)

Record step : Type := mkStep {
  st_now : N;
  st_os : option (list iface);        (* the OS interface table changes before this iteration *)
  st_dgrams : list dgram;
  st_calls : list call }.

Definition run_list {A} (f : dstate -> A -> dstate * list obs) (l : list A) (d : dstate) : dstate * list obs :=
  fold_left (fun (acc : dstate * list obs) (x : A) => let '(st, out) := acc in let '(st', o) := f st x in (st', out ++ o))
            l (d, []).

Definition iterate (d : dstate) (s : step) : dstate * list obs :=
  let now := st_now s in
  let d0 := match st_os s with
            | Some tbl => mkD tbl (d_intfs d) (d_regs d) (d_sels d) (d_svcs d) (d_cache d) (d_browsed d) (d_resolved d)
                              (d_interval d) (d_next_check d) (d_retrans d)
            | None => d end in
  (* the IPv4 socket is drained first, then the IPv6 socket *)
  let dgs := filter (fun g => is_v4 (dg_src g)) (st_dgrams s) ++ filter (fun g => negb (is_v4 (dg_src g))) (st_dgrams s) in
  let '(d1, o1) := run_list handle_dgram dgs d0 in
  let '(d2, o2) := run_list (do_call now) (st_calls s) d1 in
  (* retransmissions whose time has come, in list order; the others stay *)
  let due := filter (fun r => fst r <=? now) (d_retrans d2) in
  let rest := filter (fun r => negb (fst r <=? now)) (d_retrans d2) in
  let d2' := mkD (d_os d2) (d_intfs d2) (d_regs d2) (d_sels d2) (d_svcs d2) (d_cache d2) (d_browsed d2) (d_resolved d2)
                 (d_interval d2) (d_next_check d2) rest in
  let '(d3, o3) := run_list (fun st r => do_retrans st (snd r)) due d2' in
  (* the periodic IP check *)
  let set_next n st := mkD (d_os st) (d_intfs st) (d_regs st) (d_sels st) (d_svcs st) (d_cache st) (d_browsed st)
                           (d_resolved st) (d_interval st) n (d_retrans st) in
  let '(d4, o4) :=
    if d_interval d3 =? 0 then (set_next 0 d3, [])
    else if d_next_check d3 =? 0 then (set_next (now + d_interval d3) d3, [])
    else if ip_check_due now (d_next_check d3) then check_ip_changes now (set_next (now + d_interval d3) d3)
    else (d3, []) in
  (d4, o1 ++ o2 ++ o3 ++ o4).

(* a history: the observations of every iteration *)
Fixpoint run (d : dstate) (steps : list step) : list (list obs) :=
  match steps with
  | [] => []
  | s :: t => let '(d', o) := iterate d s in o :: run d' t
  end.
