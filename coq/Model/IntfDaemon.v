(* A model of the daemon restricted to what property C18 observes: the interface table
   (my_intfs, if_selections, add_interface, del_interface_addr, apply_intf_selections,
   check_ip_changes with its schedule), registration / unregistration / re-announcement of
   services that need no probing (explicit or automatic addresses), the reaction to queries
   (Responder.handle_datagram), and the cache as far as interfaces matter (records with the
   interface they were learned on, browse events, removal of an interface).
   One call of `iterate` is one iteration of Zeroconf::run at virtual time `now`:
   datagrams, commands, due retransmissions, IP check - in that order, as in the Rust.
   Not modelled (and removed from the observation by the projection): queries the daemon sends
   (browse schedule, resolve retries, refresh), probing (services are registered with
   requires_probe = false), monitor events other than IpAdd / IpDel, SearchStarted events,
   record expiry (histories are much shorter than the TTLs used).
   Definitions only. *)
From Coq Require Import List NArith Bool.
From Mdns Require Import Res Bytes Rec Wire Intf IntfCache Responder ParamsResponder.
Import ListNotations.
Open Scope N_scope.

(* ---- my_intfs ---------------------------------------------------------------------------------- *)

Fixpoint intf_get (idx : N) (l : list myintf) : option myintf :=
  match l with
  | [] => None
  | i :: t => if mi_index i =? idx then Some i else intf_get idx t
  end.
Fixpoint intf_put (x : myintf) (l : list myintf) : list myintf :=
  match l with
  | [] => [x]
  | i :: t => if mi_index i =? mi_index x then x :: t else i :: intf_put x t
  end.
Definition intf_remove (idx : N) (l : list myintf) : list myintf :=
  filter (fun i => negb (mi_index i =? idx)) l.

Definition has_ifaddr (a : ifaddr) (l : list ifaddr) : bool := existsb (ifaddr_eqb a) l.
Definition del_ifaddr (a : ifaddr) (l : list ifaddr) : list ifaddr := filter (fun x => negb (ifaddr_eqb a x)) l.

(* the table Zeroconf::new builds from the interfaces present at start *)
Definition initial_intfs (tbl : list iface) : list myintf :=
  fold_left (fun acc i =>
               match intf_get (i_index i) acc with
               | Some m => if has_ifaddr (i_addr i) (mi_addrs m) then acc
                           else intf_put (mkMyIntf (mi_name m) (mi_index m) (mi_addrs m ++ [i_addr i])) acc
               | None => acc ++ [mkMyIntf (i_name i) (i_index i) [i_addr i]]
               end) tbl [].

(* ---- services ---------------------------------------------------------------------------------- *)

Record dsvc : Type := mkDsvc { ds_svc : service; ds_auto : bool; ds_status : list (N * status) }.

Fixpoint status_get (idx : N) (l : list (N * status)) : status :=
  match l with
  | [] => Unknown
  | (i, s) :: t => if i =? idx then s else status_get idx t
  end.
Fixpoint status_set (idx : N) (s : status) (l : list (N * status)) : list (N * status) :=
  match l with
  | [] => [(idx, s)]
  | (i, s0) :: t => if i =? idx then (i, s) :: t else (i, s0) :: status_set idx s t
  end.

Definition with_addrs (s : service) (addrs : list ip) : service :=
  mkService (s_ty s) (s_sub s) (s_fullname s) (s_host s) addrs (s_port s) (s_host_ttl s) (s_other_ttl s)
            (s_priority s) (s_weight s) (s_txt s).
Definition has_ip (a : ip) (l : list ip) : bool := existsb (ip_eqb a) l.
Definition add_ip (a : ip) (l : list ip) : list ip := if has_ip a l then l else l ++ [a].
Definition del_ip (a : ip) (l : list ip) : list ip := filter (fun x => negb (ip_eqb a x)) l.

(* insert_ipaddr / remove_ipaddr for services with addr_auto (supported_intfs = [All],
   link-local-only off: every address is accepted) *)
Definition svc_insert_ip (a : ip) (d : dsvc) : dsvc :=
  if ds_auto d then mkDsvc (with_addrs (ds_svc d) (add_ip a (s_addrs (ds_svc d)))) true (ds_status d) else d.
Definition svc_remove_ip (a : ip) (d : dsvc) : dsvc :=
  if ds_auto d then mkDsvc (with_addrs (ds_svc d) (del_ip a (s_addrs (ds_svc d)))) true (ds_status d) else d.

(* ---- packets the daemon sends on its own --------------------------------------------------------- *)

Definition RESPONSE_FLAGS : N := N.lor flags_qr_response flags_aa.

(* prepare_announce for a service that needs no probing, without renames *)
Definition announce_records (s : service) (addrs : list ip) : list rr :=
  [ptr_record (s_ty s) (s_other_ttl s) (s_fullname s)]
  ++ match s_sub s with Some sub => [ptr_record sub (s_other_ttl s) (s_fullname s)] | None => [] end
  ++ [srv_record (s_fullname s) s (s_host s); txt_record (s_fullname s) s]
  ++ map (addr_record (s_host s) s) addrs.

(* announce_service_on_intf with the socket of the given family *)
Definition announce_on (s : service) (intf : myintf) (v4 : bool) : option packet :=
  let ia := intf_addrs_of v4 s intf in
  if is_nil ia then None
  else if family_enabled intf v4
       then Some (mkPacket (DMulticast v4) (mi_index intf) wire_id_when_multicast RESPONSE_FLAGS []
                           (announce_records s ia) [])
       else None.

Definition set_ttl (ttl : N) (r : rr) : rr := mkRR (r_name r) (r_type r) (r_class r) (r_flush r) ttl (r_data r).

(* unregister_service: the goodbye packet *)
Definition goodbye_on (s : service) (intf : myintf) (v4 : bool) : option packet :=
  match announce_on s intf v4 with
  | Some p => Some (mkPacket (p_dest p) (p_if p) (p_id p) (p_flags p) [] (map (set_ttl 0) (p_answers p)) [])
  | None => None
  end.

Definition opt_list {A} (o : option A) : list A := match o with Some x => [x] | None => [] end.

(* ---- observations -------------------------------------------------------------------------------- *)

Inductive obs : Type :=
| OSent (p : packet)
| OIpAdd (a : ip)
| OIpDel (a : ip)
| OFound (ty inst : bytes)
| OResolved (ty inst host : bytes) (port : N) (addrs : list (ip * N))   (* address, interface learned on *)
| ORemoved (ty inst : bytes).

(* ---- state ---------------------------------------------------------------------------------------- *)

Inductive rcmd : Type :=
| RRegisterResend (key : bytes) (idx : N)
| RUnregisterResend (p : packet) (idx : N) (v4 : bool).

Record dstate : Type := mkD {
  d_os : list iface;                 (* what the OS reports *)
  d_intfs : list myintf;             (* my_intfs *)
  d_regs : list N;                   (* interfaces that have a DnsRegistry *)
  d_sels : list selection;           (* if_selections *)
  d_svcs : list (bytes * dsvc);      (* my_services, keyed by the lower-cased full name *)
  d_cache : cache;
  d_browsed : list bytes;            (* service_queriers *)
  d_resolved : list bytes;           (* resolved *)
  d_interval : N;                    (* ip_check_interval, ms *)
  d_next_check : N;                  (* next_ip_check *)
  d_retrans : list (N * rcmd) }.

Definition initial_state (t0 : N) (tbl : list iface) : dstate :=
  let intfs := initial_intfs tbl in
  mkD tbl intfs (map mi_index intfs) [] [] empty_cache [] [] ip_check_default_millis
      (t0 + ip_check_default_millis) [].

Definition upd_svcs (f : list (bytes * dsvc) -> list (bytes * dsvc)) (d : dstate) : dstate :=
  mkD (d_os d) (d_intfs d) (d_regs d) (d_sels d) (f (d_svcs d)) (d_cache d) (d_browsed d) (d_resolved d)
      (d_interval d) (d_next_check d) (d_retrans d).
Definition map_svcs (f : dsvc -> dsvc) (d : dstate) : dstate :=
  upd_svcs (map (fun kv => (fst kv, f (snd kv)))) d.
Definition set_intfs (l : list myintf) (regs : list N) (d : dstate) : dstate :=
  mkD (d_os d) l regs (d_sels d) (d_svcs d) (d_cache d) (d_browsed d) (d_resolved d)
      (d_interval d) (d_next_check d) (d_retrans d).
Definition set_cache (c : cache) (resolved : list bytes) (d : dstate) : dstate :=
  mkD (d_os d) (d_intfs d) (d_regs d) (d_sels d) (d_svcs d) c (d_browsed d) resolved
      (d_interval d) (d_next_check d) (d_retrans d).

Definition memN (x : N) (l : list N) : bool := existsb (N.eqb x) l.
Definition addN (x : N) (l : list N) : list N := if memN x l then l else l ++ [x].

(* ---- resolving from the cache ---------------------------------------------------------------------- *)

Fixpoint tget (k : bytes) (t : table) : list crec :=
  match t with
  | [] => []
  | (k', v) :: t' => if beq k' k then v else tget k t'
  end.

(* resolve_service_from_cache + is_valid: host and port of the first SRV record, the addresses of
   that host; valid iff host and addresses are non-empty *)
Definition resolve_from_cache (c : cache) (ty inst : bytes) : option obs :=
  match tget inst (c_srv c) with
  | r :: _ =>
    match r_data (c_rr r) with
    | RSrv _ _ port host =>
      let addrs := flat_map (fun a => match r_data (c_rr a) with
                                      | RAddr o => [(if Nat.eqb (length o) 4 then V4 (n_of_octets o) else V6 (n_of_octets o),
                                                     ii_index (c_src a))]
                                      | _ => [] end) (tget (lower host) (c_addr c)) in
      if is_nil host || is_nil addrs then None else Some (OResolved ty inst host port addrs)
    | _ => None
    end
  | [] => None
  end.

(* resolve_updated_instances *)
Definition resolve_updated (d : dstate) (updated : list bytes) : dstate * list obs :=
  let c := d_cache d in
  let cands := flat_map (fun kv =>
                 if mem (fst kv) (d_browsed d)
                 then flat_map (fun r => match alias_of r with
                                         | Some inst => if mem inst updated then [(fst kv, inst)] else []
                                         | None => [] end) (snd kv)
                 else []) (c_ptr c) in
  fold_left (fun acc ti =>
               let '(st, out) := acc in
               let '(ty, inst) := ti in
               match resolve_from_cache c ty inst with
               | Some ev => (set_cache c (add_set inst (d_resolved st)) st, out ++ [ev])
               | None =>
                 if mem inst (d_resolved st)
                 then (set_cache c (filter (fun x => negb (beq x inst)) (d_resolved st)) st, out ++ [ORemoved ty inst])
                 else (st, out)
               end) cands (d, []).

(* notify_service_removal *)
Definition notify_removed (d : dstate) (removed : list (bytes * list bytes)) : list obs :=
  flat_map (fun kv => if mem (fst kv) (d_browsed d) then map (ORemoved (fst kv)) (snd kv) else []) removed.

(* get_instances_on_host: first SRV record of an instance names exactly this host *)
Definition instances_on_host (c : cache) (host : bytes) : list bytes :=
  flat_map (fun kv => match snd kv with
                      | r :: _ => match srv_host_of r with Some h => if beq h host then [fst kv] else [] | None => [] end
                      | [] => [] end) (c_srv c).

(* ---- handle_response (the message is "for us": its first PTR answer is for a browsed type) ------- *)

Definition is_new (c : cache) (r : rr) (src : intf_id) : bool :=
  let t := r_type r in
  let records := if t =? TY_PTR then tget (r_name r) (c_ptr c)
                 else if t =? TY_SRV then tget (r_name r) (c_srv c)
                 else if t =? TY_TXT then tget (r_name r) (c_txt c)
                 else if (t =? TY_A) || (t =? TY_AAAA) then tget (lower (r_name r)) (c_addr c)
                 else [] in
  ((t =? TY_PTR) || (t =? TY_SRV) || (t =? TY_TXT) || (t =? TY_A) || (t =? TY_AAAA))
  && negb (existsb (fun a => crec_matches a r src) records).

Definition for_us (d : dstate) (m : msg) : bool :=
  (* the loop over the answers: a PTR of a browsed type decides "yes" at once (break), a PTR of
     another type turns the assumption to "no" *)
  fst (fold_left (fun acc r => match acc with
                               | (_, true) => acc
                               | (v, false) => if r_type r =? TY_PTR
                                               then if mem (r_name r) (d_browsed d) then (true, true) else (false, false)
                                               else acc
                               end) (m_answers m) (true, false)).

Definition handle_response (d : dstate) (intf : myintf) (m : msg) : dstate * list obs :=
  if negb (for_us d m) then (d, [])   (* generated histories only inject responses that are for us *)
  else
    let src := mkIntfId (mi_name intf) (mi_index intf) in
    let '(c, found, changes) :=
      fold_left (fun acc r =>
                   let '(c, found, changes) := acc in
                   if is_new c r src then
                     let c' := cache_insert c r src in
                     if (r_type r =? TY_PTR) && (1 <? r_ttl r) then
                       match r_data r with
                       | RPtr alias => (c', found ++ (if mem (r_name r) (d_browsed d) then [OFound (r_name r) alias] else []),
                                        changes ++ [(TY_PTR, alias)])
                       | _ => (c', found, changes)
                       end
                     else (c', found, changes ++ [(r_type r, r_name r)])
                   else (c, found, changes))
                (m_answers m ++ m_authorities m ++ m_additionals m) (d_cache d, [], []) in
    let updated := fold_left (fun acc ch =>
                                let '(t, name) := ch in
                                if (t =? TY_A) || (t =? TY_AAAA) then union_set acc (instances_on_host c name)
                                else add_set name acc) changes [] in
    let '(d', evs) := resolve_updated (set_cache c (d_resolved d) d) updated in
    (d', found ++ evs).
