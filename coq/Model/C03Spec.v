(* C03 as an executable checker over (delivery history, observed events).

   A delivery = one resource record of a response datagram that the daemon accepted for
   processing (known interface, enabled address family, decodable, QR bit set), with the virtual
   time of the loop iteration that read it and the receiving interface.  Records are what the
   crate's decoder (Model/Wire.v, tied to the RFC 1035 reference parser by C02) reads: TTL 0
   of a response is already 1.

   chk_C03 says, for every ServiceResolved observed in the iteration at time `now`:
     - host is not empty and there is at least one address;
     - host/port are those of a delivered SRV record of that instance that is JUSTIFIED at `now`;
     - every (address, interface) pair is that of a justified A/AAAA record received on that
       interface whose owner equals the host up to ASCII case;
     - the TXT properties are empty or decode from a justified TXT record of that instance.
   A delivery d is justified at `now` if it is live (now + 1000 < t_d + 1000 * ttl_d, so a
   goodbye, stored with TTL 1, never is) and it is
     - either delivered in the current iteration (the order of events and deliveries inside
       one iteration is not observable),
     - or the LAST delivery of its record identity (DnsRecordExt::matches: name, type, class,
       cache-flush bit, rdata, for addresses the interface) in the earlier iterations - a later
       goodbye or TTL update of the same record supersedes it - and no later earlier-iteration
       delivery with the cache-flush bit for the same name/type/class (addresses: same
       interface) arrived more than one second after it (RFC 6762 10.2 displacement).
   Definitions only. *)
From Coq Require Import List NArith Bool.
From Mdns Require Import Res Bytes Rec Wire Txt Cache Browser.
Import ListNotations.
Open Scope N_scope.

Record dlv : Type := mkDlv { dl_t : N; dl_if : N; dl_rr : rr }.

Definition msg_records (m : msg) : list rr := m_answers m ++ m_authorities m ++ m_additionals m.

Definition dgram_dlvs (ifs : iftab) (now : N) (d : dgram) : list dlv :=
  match accepted_msg ifs d with
  | Some m => map (mkDlv now (d_if d)) (msg_records m)
  | None => []
  end.

Definition iter_dlvs (ifs : iftab) (it : iter) : list dlv :=
  flat_map (dgram_dlvs ifs (i_now it)) (deliveries_in_order (i_dgrams it)).

(* more than one second of TTL left at `now` *)
Definition live_dlv (d : dlv) (now : N) : bool := now + 1000 <? dl_t d + 1000 * r_ttl (dl_rr d).

Definition same_key (d d' : dlv) : bool := rr_matches (dl_rr d) (dl_if d) (dl_rr d') (dl_if d').

Definition kind_eqb (a b : option kind) : bool :=
  match a, b with
  | Some KPtr, Some KPtr | Some KSrv, Some KSrv | Some KTxt, Some KTxt
  | Some KAddr, Some KAddr | Some KNsec, Some KNsec => true
  | _, _ => false
  end.

(* the bucket a record is filed in: kind of its type and key (owner name; lower-cased for addresses) *)
Definition same_bucket (a b : rr) : bool :=
  match kind_of_type (r_type a), kind_of_type (r_type b) with
  | Some ka, Some kb => kind_eqb (Some ka) (Some kb) && beq (key_of ka (r_name a)) (key_of kb (r_name b))
  | _, _ => false
  end.

(* f (cache-flush bit set) displaces d: same bucket, type and class, for addresses the same
   interface, and f arrived more than one second after d *)
Definition displaces (f d : dlv) : bool :=
  r_flush (dl_rr f) && same_bucket (dl_rr f) (dl_rr d)
  && (r_type (dl_rr f) =? r_type (dl_rr d)) && (r_class (dl_rr f) =? r_class (dl_rr d))
  && (if is_addr_type (r_type (dl_rr f)) then dl_if f =? dl_if d else true)
  && (dl_t d + 1000 <? dl_t f).

Fixpoint just_prev (sel : dlv -> bool) (now : N) (l : list dlv) : bool :=
  match l with
  | [] => false
  | d :: rest =>
    (sel d && live_dlv d now && negb (existsb (fun d' => same_key d d' || displaces d' d) rest))
    || just_prev sel now rest
  end.

Definition justified (prev cur : list dlv) (now : N) (sel : dlv -> bool) : bool :=
  existsb (fun d => sel d && live_dlv d now) cur || just_prev sel now prev.

Definition opt_beq (a b : option bytes) : bool :=
  match a, b with
  | None, None => true
  | Some x, Some y => beq x y
  | _, _ => false
  end.

Fixpoint props_beq (a b : list prop) : bool :=
  match a, b with
  | [], [] => true
  | (k, v) :: a', (k', v') :: b' => beq k k' && opt_beq v v' && props_beq a' b'
  | _, _ => false
  end.

(* rr_host / rr_port / rr_octets / rr_text read the rdata of an SRV / address / TXT record
   (Model/Cache.v); the decoder only produces SRV records with SRV rdata etc. *)
Definition sel_srv (inst host : bytes) (port : N) (d : dlv) : bool :=
  (r_type (dl_rr d) =? TY_SRV) && beq (r_name (dl_rr d)) inst
  && beq (rr_host (dl_rr d)) host && (rr_port (dl_rr d) =? port).

Definition sel_addr (host ip : bytes) (ifx : N) (d : dlv) : bool :=
  is_addr_type (r_type (dl_rr d)) && beq (lower (r_name (dl_rr d))) (lower host)
  && beq (rr_octets (dl_rr d)) ip && (dl_if d =? ifx).

Definition sel_txt (inst : bytes) (ps : list prop) (d : dlv) : bool :=
  (r_type (dl_rr d) =? TY_TXT) && beq (r_name (dl_rr d)) inst
  && props_beq (txt_props (rr_text (dl_rr d))) ps.

Definition resolved_ok (prev cur : list dlv) (now : N) (r : resolved) : bool :=
  negb (is_nil (rs_host r)) && negb (is_nil (rs_addrs r))
  && justified prev cur now (sel_srv (rs_name r) (rs_host r) (rs_port r))
  && forallb (fun a => justified prev cur now (sel_addr (rs_host r) (fst a) (snd a))) (rs_addrs r)
  && (is_nil (rs_txt r) || justified prev cur now (sel_txt (rs_name r) (rs_txt r))).

Definition out_ok (prev cur : list dlv) (now : N) (x : out) : bool :=
  match x with
  | OEvt _ (EResolved r) => resolved_ok prev cur now r
  | _ => true
  end.

Fixpoint chk_C03_from (ifs : iftab) (prev : list dlv) (h : list iter) (tr : list (list out)) : bool :=
  match h, tr with
  | [], [] => true
  | it :: h', o :: tr' =>
    let cur := iter_dlvs ifs it in
    forallb (out_ok prev cur (i_now it)) o && chk_C03_from ifs (prev ++ cur) h' tr'
  | _, _ => false
  end.

Definition chk_C03 (ifs : iftab) (h : list iter) (tr : list (list out)) : bool :=
  chk_C03_from ifs [] h tr.

(* histories the property quantifies over: virtual time does not run backwards *)
Fixpoint times_mono (last : N) (h : list iter) : bool :=
  match h with
  | [] => true
  | it :: t => (last <=? i_now it) && times_mono (i_now it) t
  end.

Definition wf_history (h : list iter) : bool := times_mono 0 h.

(* ---- "... as the network LAST advertised it" (clause added in round 6) ------------------------------------

   host / port of a ServiceResolved are those of the SRV record of the instance that was received
   most recently among those that are still current (live, not superseded by a later delivery of
   the same record, not displaced by a later cache-flush delivery); its TXT properties are those of
   the most recently received current TXT record (none current: no properties).  "Received" refers
   to the order of the deliveries: iteration, datagram, position in the message.
   Two things are not observable and make the clause a set of admissible answers:
   - the deliveries of the current iteration that precede the event: SOME prefix of them (the
     same for SRV and TXT);
   - whether a record of a response that is "not for us" (its answer section has PTR records, none
     of a browsed name) was stored: such a record is stored only when its owner already has
     records of that kind.  So every current not-for-us delivery after the last current for-us
     delivery is admissible too, and when no for-us delivery is current "no TXT" is admissible;
   - which records a stop_browse dropped (prev_after below). *)
Definition fdlv := (bool * dlv)%type.      (* for-us flag, delivery *)

Fixpoint last_cands (sel : dlv -> bool) (now : N) (l : list fdlv) : list dlv * bool :=
  match l with
  | [] => ([], false)
  | (fu, d) :: rest =>
    let '(cs, closed) := last_cands sel now rest in
    if closed then (cs, true)
    else if sel d && live_dlv d now
            && negb (existsb (fun d' => same_key d (snd d') || displaces (snd d') d) rest)
         then (d :: cs, fu) else (cs, false)
  end.

Definition sel_srv_of (inst : bytes) (d : dlv) : bool :=
  (r_type (dl_rr d) =? TY_SRV) && beq (r_name (dl_rr d)) inst.

Definition sel_txt_of (inst : bytes) (d : dlv) : bool :=
  (r_type (dl_rr d) =? TY_TXT) && beq (r_name (dl_rr d)) inst.

Fixpoint inits {A} (l : list A) : list (list A) :=
  match l with
  | [] => [[]]
  | x :: t => [] :: map (cons x) (inits t)
  end.

Definition view_last_ok (view : list fdlv) (now : N) (r : resolved) : bool :=
  existsb (fun d => beq (rr_host (dl_rr d)) (rs_host r) && (rr_port (dl_rr d) =? rs_port r))
          (fst (last_cands (sel_srv_of (rs_name r)) now view))
  && (let '(cs, closed) := last_cands (sel_txt_of (rs_name r)) now view in
      existsb (fun d => props_beq (txt_props (rr_text (dl_rr d))) (rs_txt r)) cs
      || (negb closed && is_nil (rs_txt r))).

Definition resolved_last_ok (prev cur : list fdlv) (now : N) (r : resolved) : bool :=
  existsb (fun pre => view_last_ok (prev ++ pre) now r) (inits cur).

Definition out_last_ok (prev cur : list fdlv) (now : N) (x : out) : bool :=
  match x with
  | OEvt _ (EResolved r) => resolved_last_ok prev cur now r
  | _ => true
  end.

Definition dgram_fdlvs (ifs : iftab) (q : list (bytes * N)) (now : N) (d : dgram) : list fdlv :=
  match accepted_msg ifs d with
  | Some m => map (fun r => (for_us q (m_answers m), mkDlv now (d_if d) r)) (msg_records m)
  | None => []
  end.

Definition iter_fdlvs (ifs : iftab) (q : list (bytes * N)) (it : iter) : list fdlv :=
  flat_map (dgram_fdlvs ifs q (i_now it)) (deliveries_in_order (i_dgrams it)).

(* the browsed names after the calls of an iteration (the datagrams come first) *)
Definition q_after (q : list (bytes * N)) (calls : list call) : list (bytes * N) :=
  fold_left (fun q0 cl => match cl with
                          | CBrowse ty ch => q_set ty ch q0
                          | CStop ty => q_remove ty q0
                          | _ => q0
                          end) calls q.

(* stop_browse drops the SRV / TXT / address records of the instances of the stopped name; which
   ones is not tracked here: after a stop_browse every earlier delivery counts as possibly dropped
   (like a record of a not-for-us response) *)
Definition prev_after (prev cur : list fdlv) (calls : list call) : list fdlv :=
  if existsb (fun cl => match cl with CStop _ => true | _ => false end) calls
  then map (fun x => (false, snd x)) (prev ++ cur) else prev ++ cur.

Fixpoint chk_C03_last_from (ifs : iftab) (q : list (bytes * N)) (prev : list fdlv) (h : list iter)
    (tr : list (list out)) : bool :=
  match h, tr with
  | [], [] => true
  | it :: h', o :: tr' =>
    let cur := iter_fdlvs ifs q it in
    forallb (out_last_ok prev cur (i_now it)) o
    && chk_C03_last_from ifs (q_after q (i_calls it)) (prev_after prev cur (i_calls it)) h' tr'
  | _, _ => false
  end.

Definition chk_C03_last (ifs : iftab) (h : list iter) (tr : list (list out)) : bool :=
  chk_C03_last_from ifs [] [] h tr.
