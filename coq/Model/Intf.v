(* Interfaces, addresses, subnets and interface selection
   (src/service_daemon.rs: IfKind::matches, resolve_addr_to_index, selected_intfs,
    apply_intf_selections; src/service_info.rs: MyIntf, valid_ip_on_intf,
    get_addrs_on_my_intf_v4/v6).
   Definitions only; proofs are in Proofs/IntfProofs.v.

   An IPv4 address is the number u32::from(addr) (< 2^32), an IPv6 address is u128::from(addr)
   (< 2^128); a netmask is a number of the same width.  Names are UTF-8 byte strings. *)
From Coq Require Import List NArith Bool.
From Mdns Require Import Bytes ParamsResponder.
Import ListNotations.
Open Scope N_scope.

Inductive ip : Type :=
| V4 (a : N)
| V6 (a : N).

Definition is_v4 (a : ip) : bool := match a with V4 _ => true | V6 _ => false end.
Definition is_v6 (a : ip) : bool := negb (is_v4 a).

Definition ip_eqb (a b : ip) : bool :=
  match a, b with
  | V4 x, V4 y => x =? y
  | V6 x, V6 y => x =? y
  | _, _ => false
  end.

(* if_addrs::IfAddr: an address of an interface together with its netmask (same family). *)
Record ifaddr : Type := mkIfAddr { ia_ip : ip; ia_mask : N }.

Definition ifaddr_eqb (x y : ifaddr) : bool := ip_eqb (ia_ip x) (ia_ip y) && (ia_mask x =? ia_mask y).

(* valid_ip_on_intf: `addr` is in the network of `if_addr`.
   (IpAddr::V4, IfAddr::V4): u32::from(addr) & netmask == u32::from(if.ip) & netmask;
   (V6, V6): the same on u128; mixed families: false. *)
Definition valid_ip_on_intf (addr : ip) (x : ifaddr) : bool :=
  match addr, ia_ip x with
  | V4 a, V4 i => subnet_test_v4 (N.land a (ia_mask x)) (N.land i (ia_mask x))
  | V6 a, V6 i => subnet_test_v6 (N.land a (ia_mask x)) (N.land i (ia_mask x))
  | _, _ => false
  end.

(* MyIntf: one entry of Zeroconf::my_intfs (key = index). `mi_addrs` is a HashSet in Rust:
   duplicate-free, iteration order unspecified. *)
Record myintf : Type := mkMyIntf { mi_name : bytes; mi_index : N; mi_addrs : list ifaddr }.

Definition has_v4 (i : myintf) : bool := existsb (fun x => is_v4 (ia_ip x)) (mi_addrs i).   (* next_ifaddr_v4().is_some() *)
Definition has_v6 (i : myintf) : bool := existsb (fun x => is_v6 (ia_ip x)) (mi_addrs i).

(* ServiceInfo::get_addrs_on_my_intf_v4 / _v6 over the service's address set *)
Definition addr_on_intf (i : myintf) (a : ip) : bool := existsb (valid_ip_on_intf a) (mi_addrs i).
Definition addrs_on_intf_v4 (addrs : list ip) (i : myintf) : list ip :=
  filter (fun a => is_v4 a && addr_on_intf i a) addrs.
Definition addrs_on_intf_v6 (addrs : list ip) (i : myintf) : list ip :=
  filter (fun a => is_v6 a && addr_on_intf i a) addrs.

(* ---- the OS interface table and IfKind ------------------------------------------------- *)

(* if_addrs::Interface as the daemon sees it: one entry per (interface, address); index is
   always Some(index) in the simulated table. *)
Record iface : Type := mkIface { i_name : bytes; i_index : N; i_addr : ifaddr }.

Definition i_ip (i : iface) : ip := ia_ip (i_addr i).

Definition iface_eqb (x y : iface) : bool :=
  beq (i_name x) (i_name y) && (i_index x =? i_index y) && ifaddr_eqb (i_addr x) (i_addr y).

(* IpAddr::is_loopback: 127.0.0.0/8, ::1 *)
Definition ip_is_loopback (a : ip) : bool :=
  match a with
  | V4 n => N.shiftr n 24 =? 127
  | V6 n => n =? 1
  end.

(* every constructor of IfKind except Predicate (a user closure) *)
Inductive ifkind : Type :=
| KAll | KIPv4 | KIPv6
| KName (n : bytes)
| KAddr (a : ip)
| KLoopbackV4 | KLoopbackV6
| KIndexV4 (idx : N) | KIndexV6 (idx : N).

(* IfKind::matches *)
Definition kind_matches (k : ifkind) (i : iface) : bool :=
  match k with
  | KAll => true
  | KIPv4 => is_v4 (i_ip i)
  | KIPv6 => is_v6 (i_ip i)
  | KName n => beq n (i_name i)
  | KAddr a => ip_eqb a (i_ip i)
  | KLoopbackV4 => ip_is_loopback (i_ip i) && is_v4 (i_ip i)
  | KLoopbackV6 => ip_is_loopback (i_ip i) && is_v6 (i_ip i)
  | KIndexV4 idx => (i_index i =? idx) && is_v4 (i_ip i)
  | KIndexV6 idx => (i_index i =? idx) && is_v6 (i_ip i)
  end.

(* resolve_addr_to_index: at call time an Addr(ip) selection is turned into IndexV4/IndexV6 of
   the first interface of the current table that carries the address; otherwise it stays. *)
Definition resolve_addr_to_index (k : ifkind) (tbl : list iface) : ifkind :=
  match k with
  | KAddr a =>
    match find (fun i => ip_eqb (i_ip i) a) tbl with
    | Some i => if is_v4 a then KIndexV4 (i_index i) else KIndexV6 (i_index i)
    | None => k
    end
  | _ => k
  end.

(* IfSelection { if_kind, selected } *)
Definition selection : Type := (ifkind * bool)%type.

(* The inner loop `for i in 0..intf_count { if kind.matches(&interfaces[i]) { sel[i] = selected } }` *)
Fixpoint mark_one (s : selection) (tbl : list iface) (marks : list bool) : list bool :=
  match tbl, marks with
  | i :: tbl', m :: marks' => (if kind_matches (fst s) i then snd s else m) :: mark_one s tbl' marks'
  | _, _ => []
  end.

(* The outer loop over self.if_selections, starting from vec![true; intf_count] *)
Definition selection_marks (default : bool) (sels : list selection) (tbl : list iface) : list bool :=
  fold_left (fun marks s => mark_one s tbl marks) sels (repeat default (length tbl)).

Fixpoint pick_marked {A} (l : list A) (marks : list bool) : list A :=
  match l, marks with
  | x :: l', m :: marks' => if m then x :: pick_marked l' marks' else pick_marked l' marks'
  | _, _ => []
  end.

(* Zeroconf::selected_intfs (a HashSet in Rust: order unspecified, duplicates merged) *)
Definition selected_intfs (sels : list selection) (tbl : list iface) : list iface :=
  pick_marked tbl (selection_marks selection_default sels tbl).

(* ---- specification side: "the last matching selection wins, default enabled" ------------ *)

Definition last_match (sels : list selection) (i : iface) : bool :=
  match find (fun s : selection => kind_matches (fst s) i) (rev sels) with
  | Some s => snd s
  | None => true
  end.

(* enable_interface / disable_interface: push the kinds (Addr resolved against the table of the
   moment of the call), in call order *)
Definition push_selections (sels : list selection) (kinds : list ifkind) (enabled : bool)
    (tbl : list iface) : list selection :=
  sels ++ map (fun k => (resolve_addr_to_index k tbl, enabled)) kinds.
