(* Model of the wire encoder (src/dns_parser.rs): DnsOutPacket::parse_escaped_name,
   write_name, write_record, DnsOutgoing::to_packets.

   The Rust builds a packet by appending to one Vec and patching two places afterwards
   (RDLENGTH placeholder, the 12 header bytes).  Name writing never reads the buffer, only
   its length and the compression table, so the model is written in append-only form: every
   writer returns the bytes it contributes, given the absolute position `pos` at which they
   will be placed.  Definitions only. *)
From Coq Require Import List NArith Bool.
From Mdns Require Import Res Bytes Utf8 Rec.
Import ListNotations.
Open Scope N_scope.

Definition MAX_MSG : N := 8972.
Definition DOT : N := 46.
Definition BSL : N := 92.

Definition blen (b : bytes) : N := N.of_nat (length b).

(* ---- parse_escaped_name (on UTF-8 bytes; '.' and '\' are ASCII so this is exact) ------- *)

Definition push_label (cur : bytes) (acc : list bytes) : list bytes :=
  match cur with [] => acc | _ => cur :: acc end.

Fixpoint pen (s cur : bytes) (acc : list bytes) : list bytes :=
  match s with
  | [] => rev (push_label cur acc)
  | c :: t =>
    if c =? BSL then
      match t with
      | n :: t' =>
        if (n =? DOT) || (n =? BSL) then pen t' (cur ++ [n]) acc
        else pen t (cur ++ [c]) acc
      | [] => pen t (cur ++ [c]) acc
      end
    else if c =? DOT then pen t [] (push_label cur acc)
    else pen t (cur ++ [c]) acc
  end.

Definition parse_escaped_name (s : bytes) : list bytes := pen s [] [].

(* name.strip_suffix('.') *)
Definition strip_dot (s : bytes) : bytes :=
  match rev s with
  | c :: r => if c =? DOT then rev r else s
  | [] => s
  end.

Definition name_labels (name : bytes) : list bytes := parse_escaped_name (strip_dot name).

(* ---- compression table ------------------------------------------------------------------
   Rust: HashMap<String, u16> keyed by the remaining labels joined with '.', each label
   escaped (after the fix for D4) so that the key determines the label list.  The model keys
   the table by the label list itself; `key_string` reproduces the Rust key for printing. *)
Definition labels := list bytes.
Definition table := list (labels * N).

Fixpoint labels_beq (a b : labels) : bool :=
  match a, b with
  | [], [] => true
  | x :: a', y :: b' => beq x y && labels_beq a' b'
  | _, _ => false
  end.

Fixpoint lookup (k : labels) (t : table) : option N :=
  match t with
  | [] => None
  | (k', v) :: t' => if labels_beq k k' then Some v else lookup k t'
  end.

Definition escape_label (l : bytes) : bytes :=
  flat_map (fun c => if (c =? DOT) || (c =? BSL) then [BSL; c] else [c]) l.

Fixpoint join_dots (ls : list bytes) : bytes :=
  match ls with
  | [] => []
  | [l] => l
  | l :: t => l ++ DOT :: join_dots t
  end.

Definition key_string (ls : labels) : bytes := join_dots (map escape_label ls).

(* ---- primitive writers ------------------------------------------------------------------ *)

Definition u16_bytes (v : N) : bytes := [(v / 256) mod 256; v mod 256].
Definition u32_bytes (v : N) : bytes :=
  [(v / 16777216) mod 256; (v / 65536) mod 256; (v / 256) mod 256; v mod 256].

(* write_name's loop over the labels.  `pos` = self.size() when the first byte is written.
   Offsets are stored `as u16`; a pointer is `offset | 0xC000`. *)
Fixpoint write_labels (t : table) (pos : N) (ls : labels) : res (bytes * table) :=
  match ls with
  | [] => Ok ([0], t)
  | l :: rest =>
    match lookup ls t with
    | Some off => Ok (u16_bytes (N.lor off 49152), t)
    | None =>
      if 64 <=? blen l then Panic                         (* assert!(s.len() < 64) *)
      else
        let t1 := (ls, pos mod 65536) :: t in
        let? (bs, t2) := write_labels t1 (pos + 1 + blen l) rest in
        Ok (blen l :: l ++ bs, t2)
    end
  end.

Definition write_name (t : table) (pos : N) (name : bytes) : res (bytes * table) :=
  write_labels t pos (name_labels name).

(* ---- records ----------------------------------------------------------------------------- *)

(* a record object handed to the encoder: wire fields, the conflict-resolution new name,
   and its creation time (for the remaining-TTL form) *)
Record orec : Type := mkORec { or_rr : rr; or_newname : option bytes; or_created : N }.

Definition or_name (r : orec) : bytes :=
  match or_newname r with Some n => n | None => r_name (or_rr r) end.

(* DnsRecordExt::write for each record kind *)
Definition write_rdata (t : table) (pos : N) (rd : rdata) : res (bytes * table) :=
  match rd with
  | RAddr o => Ok (o, t)
  | RPtr alias => write_name t pos alias
  | RSrv p w po h =>
    let? (nb, t') := write_name t (pos + 6) h in
    Ok (u16_bytes p ++ u16_bytes w ++ u16_bytes po ++ nb, t')
  | RTxt x => Ok (x, t)
  | RHinfo c o => Ok (c ++ o, t)          (* sic: no length prefixes *)
  | RNsec n b => Ok (n ++ b, t)           (* sic: next domain written as raw text *)
  end.

(* get_remaining_ttl(now): u64 subtraction (panics on underflow with overflow checks),
   then `as u32` *)
Definition remaining_ttl (created ttl now : N) : res N :=
  let e := created + ttl * 1000 in
  if e <? now then Panic else Ok (((e - now) / 1000) mod 4294967296).

Definition class_bits (r : rr) : N :=
  if r_flush r then N.lor (r_class r) 32768 else r_class r.

(* write_record: Some (bytes, table) if the packet still fits, None (rolled back: nothing
   written, names of this record forgotten - the fix for D3) otherwise.
   `pos` = packet size before the record. *)
Definition write_record (t : table) (pos : N) (r : orec) (now : N)
    : res (option (bytes * table)) :=
  let? (nb, t1) := write_name t pos (or_name r) in
  let? ttl := (if now =? 0 then Ok (r_ttl (or_rr r))
               else remaining_ttl (or_created r) (r_ttl (or_rr r)) now) in
  let fixed := u16_bytes (r_type (or_rr r)) ++ u16_bytes (class_bits (or_rr r)) ++ u32_bytes ttl in
  let rd_pos := pos + blen nb + 10 in
  let? (rd, t2) := write_rdata t1 rd_pos (r_data (or_rr r)) in
  let bs := nb ++ fixed ++ u16_bytes (blen rd mod 65536) ++ rd in
  if MAX_MSG <? pos + blen bs
  then Ok None
  else Ok (Some (bs, t2)).

(* the table after a rollback: entries at or beyond the truncation point are dropped *)
Definition rollback_table (t : table) (start : N) : table :=
  filter (fun e => snd e <? start) t.

(* ---- DnsOutgoing ------------------------------------------------------------------------- *)

Record outgoing : Type := mkOut {
  og_flags : N; og_id : N; og_multicast : bool;
  og_questions : list (bytes * N);          (* name, qtype; class is always IN *)
  og_answers : list (orec * N);             (* record, `now` for the remaining-TTL form *)
  og_authorities : list orec;
  og_additionals : list orec }.

(* packet under construction: body (bytes after the 12-byte header), table *)
Record pkt : Type := mkPkt { p_body : bytes; p_table : table }.
Definition p_size (p : pkt) : N := 12 + blen (p_body p).
Definition empty_pkt : pkt := mkPkt [] [].

Definition header_bytes (id flags q a ns ar : N) : bytes :=
  u16_bytes id ++ u16_bytes flags ++ u16_bytes q ++ u16_bytes a ++ u16_bytes ns ++ u16_bytes ar.

Definition finish (p : pkt) (id flags q a ns ar : N) : bytes :=
  header_bytes id flags q a ns ar ++ p_body p.

Definition write_question (p : pkt) (q : bytes * N) : res pkt :=
  let? (nb, t) := write_name (p_table p) (p_size p) (fst q) in
  Ok (mkPkt (p_body p ++ nb ++ u16_bytes (snd q) ++ u16_bytes 1) t).

Fixpoint write_questions (p : pkt) (qs : list (bytes * N)) : res pkt :=
  match qs with
  | [] => Ok p
  | q :: t => let? p' := write_question p q in write_questions p' t
  end.

(* packet.write_record(...) as a state transformer: new packet, and whether it was written *)
Definition put_record (p : pkt) (r : orec) (now : N) : res (pkt * bool) :=
  let? w := write_record (p_table p) (p_size p) r now in
  match w with
  | Some (bs, t) => Ok (mkPkt (p_body p ++ bs) t, true)
  | None => Ok (mkPkt (p_body p) (rollback_table (p_table p) (p_size p)), false)
  end.

Fixpoint put_answers (p : pkt) (rs : list (orec * N)) (cnt : N) : res (pkt * N) :=
  match rs with
  | [] => Ok (p, cnt)
  | (r, now) :: t =>
    let? (p', ok) := put_record p r now in
    put_answers p' t (if ok then cnt + 1 else cnt)
  end.

Fixpoint put_auths (p : pkt) (rs : list orec) (cnt : N) : res (pkt * N) :=
  match rs with
  | [] => Ok (p, cnt)
  | r :: t =>
    let? (p', ok) := put_record p r 0 in
    put_auths p' t (if ok then cnt + 1 else cnt)
  end.

(* the loop over the additionals, with the TC continuation for queries.
   done: finished packets (in order); p: current packet; q a ns ar: its counts *)
Fixpoint put_addls (is_response : bool) (id flags : N) (done : list (bytes * table)) (p : pkt)
    (q a ns ar : N) (rs : list orec) : res (list (bytes * table) * pkt * (N * N * N * N)) :=
  match rs with
  | [] => Ok (done, p, (q, a, ns, ar))
  | r :: t =>
    let? (p', ok) := put_record p r 0 in
    if ok then put_addls is_response id flags done p' q a ns (ar + 1) t
    else if is_response then Ok (done, p', (q, a, ns, ar))       (* break *)
    else
      (* finish the current packet with TC, start a new one with this record *)
      let fin := finish p' id (N.lor flags 512) q a ns ar in
      let? (p2, ok2) := put_record empty_pkt r 0 in
      put_addls is_response id flags (done ++ [(fin, p_table p')]) p2 0 0 0 (if ok2 then 1 else 0) t
  end.

(* every packet together with its final compression table (DnsOutPacket.names) *)
Definition to_packets_tables (m : outgoing) : res (list (bytes * table)) :=
  let id := if og_multicast m then 0 else og_id m in
  let is_response := N.land (og_flags m) 32768 =? 32768 in
  let? p0 := write_questions empty_pkt (og_questions m) in
  let qcount := N.of_nat (length (og_questions m)) mod 65536 in
  let? (p1, a) := put_answers p0 (og_answers m) 0 in
  let? (p2, ns) := put_auths p1 (og_authorities m) 0 in
  let? (done, p3, cnts) := put_addls is_response id (og_flags m) [] p2 qcount a ns 0 (og_additionals m) in
  let '(q', a', ns', ar') := cnts in
  Ok (done ++ [(finish p3 id (og_flags m) q' a' ns' ar', p_table p3)]).

Definition to_packets (m : outgoing) : res (list bytes) :=
  let? l := to_packets_tables m in Ok (map fst l).
