(* List-based model of the parts of DnsCache (src/dns_cache.rs) that depend on the interface a
   record was learned on: DnsRecordIntf { record, src_intf }, remove_records_on_intf,
   remove_addrs_on_disabled_intf, and the insertion rule of add_or_update that decides which
   interface a record is attributed to.  HashMaps are association lists with unique keys in
   insertion order (their iteration order is unspecified in Rust: results are compared as sets).
   Definitions only; proofs are in Proofs/IntfCacheProofs.v. *)
From Coq Require Import List NArith Bool.
From Mdns Require Import Bytes Rec.
Import ListNotations.
Open Scope N_scope.

(* InterfaceId { name, index } *)
Record intf_id : Type := mkIntfId { ii_name : bytes; ii_index : N }.
Definition intf_id_eqb (a b : intf_id) : bool := beq (ii_name a) (ii_name b) && (ii_index a =? ii_index b).

(* DnsRecordIntf: for address records DnsAddress.interface_id is the same interface *)
Record crec : Type := mkCrec { c_rr : rr; c_src : intf_id }.

Definition table : Type := list (bytes * list crec).

Record cache : Type := mkCache {
  c_ptr : table;     (* keyed by ty_domain *)
  c_srv : table;     (* keyed by instance fullname *)
  c_txt : table;     (* keyed by instance fullname *)
  c_addr : table;    (* keyed by lower-cased host name *)
  c_nsec : table }.

Definition empty_cache : cache := mkCache [] [] [] [] [].

Definition alias_of (r : crec) : option bytes :=
  match r_data (c_rr r) with RPtr a => Some a | _ => None end.
Definition srv_host_of (r : crec) : option bytes :=
  match r_data (c_rr r) with RSrv _ _ _ h => Some h | _ => None end.

Definition on_intf (id : intf_id) (r : crec) : bool := intf_id_eqb (c_src r) id.

(* records.retain(|r| r.src_intf != intf_id) for every key *)
Definition strip (id : intf_id) (t : table) : table :=
  map (fun kv => (fst kv, filter (fun r => negb (on_intf id r)) (snd kv))) t.
(* map.retain(|_, records| !records.is_empty()) *)
Definition prune (t : table) : table :=
  filter (fun kv => match snd kv with [] => false | _ => true end) t.
(* keys whose record list lost something *)
Definition touched (id : intf_id) (t : table) : list bytes :=
  map fst (filter (fun kv => existsb (on_intf id) (snd kv)) t).

Definition add_set (x : bytes) (l : list bytes) : list bytes := if mem x l then l else l ++ [x].
Definition union_set (a b : list bytes) : list bytes := fold_left (fun acc x => add_set x acc) b a.

(* the PTR part of remove_records_on_intf for one ty_domain: the instances that had a PTR learned
   on `id` and have none left afterwards *)
Definition instances_on_intf (id : intf_id) (records : list crec) : list bytes :=
  fold_left (fun acc r => if on_intf id r then match alias_of r with Some a => add_set a acc | None => acc end else acc)
            records [].
Definition has_alias (records : list crec) (inst : bytes) : bool :=
  existsb (fun r => match alias_of r with Some a => beq a inst | None => false end) records.
Definition removed_of (id : intf_id) (records : list crec) : list bytes :=
  let rest := filter (fun r => negb (on_intf id r)) records in
  filter (fun inst => negb (has_alias rest inst)) (instances_on_intf id records).

Record removal : Type := mkRemoval {
  rm_cache : cache;
  rm_removed : list (bytes * list bytes);   (* ty_domain -> fully removed instances (PTR gone) *)
  rm_modified : list bytes }.               (* instances that lost records but still have a PTR *)

Definition remove_records_on_intf (c : cache) (id : intf_id) : removal :=
  let removed := filter (fun kv => match snd kv with [] => false | _ => true end)
                        (map (fun kv => (fst kv, removed_of id (snd kv))) (c_ptr c)) in
  let ptr' := prune (strip id (c_ptr c)) in
  let all_removed := concat (map snd removed) in
  let srv0 := filter (fun kv => negb (mem (fst kv) all_removed)) (c_srv c) in
  let txt0 := filter (fun kv => negb (mem (fst kv) all_removed)) (c_txt c) in
  let mod1 := touched id srv0 in
  let srv' := prune (strip id srv0) in
  let mod2 := union_set mod1 (touched id txt0) in
  let txt' := prune (strip id txt0) in
  let affected_hosts := touched id (c_addr c) in
  let addr' := prune (strip id (c_addr c)) in
  let by_host := map fst (filter (fun kv => existsb (fun r => match srv_host_of r with
                                                               | Some h => mem (lower h) affected_hosts
                                                               | None => false end) (snd kv)) srv') in
  let mod3 := union_set mod2 by_host in
  let nsec' := prune (strip id (c_nsec c)) in
  mkRemoval (mkCache ptr' srv' txt' addr' nsec') removed mod3.

(* IpType::V4 / V6 / BOTH *)
Inductive ip_type : Type := TV4 | TV6 | TBoth.
Definition type_in (t : ip_type) (rtype : N) : bool :=
  match t with
  | TV4 => rtype =? TY_A
  | TV6 => rtype =? TY_AAAA
  | TBoth => (rtype =? TY_A) || (rtype =? TY_AAAA)
  end.

(* remove_addrs_on_disabled_intf: drops the address records of the given family whose
   DnsAddress.interface_id.index is the disabled index; keys stay (even when empty) *)
Definition remove_addrs_on_disabled_intf (c : cache) (if_index : N) (t : ip_type) : cache :=
  mkCache (c_ptr c) (c_srv c) (c_txt c)
    (map (fun kv => (fst kv, filter (fun r => negb ((ii_index (c_src r) =? if_index) && type_in t (r_type (c_rr r))))
                                     (snd kv))) (c_addr c))
    (c_nsec c).

(* ---- insertion (add_or_update without TTL / cache-flush bookkeeping) ------------------------ *)

(* DnsRecordExt::matches: rdata and DnsEntry equal; address records also compare the interface *)
Definition crec_matches (a : crec) (r : rr) (src : intf_id) : bool :=
  beq (r_name (c_rr a)) (r_name r) && (r_type (c_rr a) =? r_type r) && (r_class (c_rr a) =? r_class r)
  && Bool.eqb (r_flush (c_rr a)) (r_flush r) && beq_rdata (r_data (c_rr a)) (r_data r)
  && (if (r_type r =? TY_A) || (r_type r =? TY_AAAA) then intf_id_eqb (c_src a) src else true).

Fixpoint upsert (key : bytes) (f : list crec -> list crec) (t : table) : table :=
  match t with
  | [] => [(key, f [])]
  | (k, v) :: t' => if beq k key then (k, f v) :: t' else (k, v) :: upsert key f t'
  end.

(* a record that matches an existing one only refreshes it (the first interface keeps the
   attribution); otherwise it is inserted in front *)
Definition insert_rec (r : rr) (src : intf_id) (records : list crec) : list crec :=
  if existsb (fun a => crec_matches a r src) records then records else mkCrec r src :: records.

Definition cache_insert (c : cache) (r : rr) (src : intf_id) : cache :=
  let t := r_type r in
  if t =? TY_PTR then mkCache (upsert (r_name r) (insert_rec r src) (c_ptr c)) (c_srv c) (c_txt c) (c_addr c) (c_nsec c)
  else if t =? TY_SRV then mkCache (c_ptr c) (upsert (r_name r) (insert_rec r src) (c_srv c)) (c_txt c) (c_addr c) (c_nsec c)
  else if t =? TY_TXT then mkCache (c_ptr c) (c_srv c) (upsert (r_name r) (insert_rec r src) (c_txt c)) (c_addr c) (c_nsec c)
  else if (t =? TY_A) || (t =? TY_AAAA)
  then mkCache (c_ptr c) (c_srv c) (c_txt c) (upsert (lower (r_name r)) (insert_rec r src) (c_addr c)) (c_nsec c)
  else c.
