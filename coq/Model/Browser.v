(* Model of the browser side of the daemon (src/service_daemon.rs): one daemon, a static
   interface table, no registered services, no hostname resolvers, accept_unsolicited off.
   One loop iteration of Zeroconf::run =
     read the delivered datagrams (IPv4 socket first, then IPv6): handle_read -> handle_response
     commands (browse / stop_browse / verify / get_metrics) in order
     retransmissions that are due (Resolve = follow-up queries, Verify resend)
     refresh_active_services
     evict_expired_services -> ServiceRemoved;  evict_expired_addr -> resolve_updated_instances.
   Not modelled (outside C03-C05, excluded from the projection): SearchStarted/SearchStopped,
   the browse query and its retransmission chain, PTR-type questions, known answers inside
   queries, the timer heap (the requested wake-up is checked by the monitors against the due
   times, not predicted).
   Outputs are in emission order; `canon` puts one iteration's outputs in the canonical order
   in which they are compared with the implementation (hash iteration order is unspecified).
   Definitions only. *)
From Coq Require Import List NArith Bool.
From Mdns Require Import Res Bytes Rec Wire Txt ParamsBrowser Cache.
Import ListNotations.
Open Scope N_scope.

(* ---- observable outputs ------------------------------------------------------------------------ *)

Record resolved : Type := mkResolved {
  rs_ty : bytes;
  rs_sub : option bytes;
  rs_name : bytes;
  rs_host : bytes;
  rs_port : N;
  rs_addrs : list (bytes * N);     (* (address octets, interface index) pairs *)
  rs_txt : list prop }.

Inductive event : Type :=
| EFound (ty inst : bytes)
| EResolved (r : resolved)
| ERemoved (ty inst : bytes).

Definition ev_inst (e : event) : bytes :=
  match e with EFound _ i => i | EResolved r => rs_name r | ERemoved _ i => i end.

Inductive out : Type :=
| OEvt (ch : N) (e : event)
| OQuery (qs : list (bytes * N))            (* the questions of one query packet *)
| OMetrics (ch : N) (counts : list N).      (* cached ptr, srv, txt, addr, nsec, subtype *)

(* ---- inputs -------------------------------------------------------------------------------------- *)

Inductive call : Type :=
| CBrowse (ty : bytes) (ch : N)
| CStop (ty : bytes)
| CVerify (inst : bytes) (timeout : N)
| CMetrics (ch : N).

Record dgram : Type := mkDgram { d_if : N; d_v4 : bool; d_data : bytes }.

Record iter : Type := mkIter { i_now : N; i_dgrams : list dgram; i_calls : list call }.

(* interface table: index, has an IPv4 address, has an IPv6 address *)
Definition iftab := list (N * (bool * bool)).

Fixpoint if_lookup (t : iftab) (i : N) : option (bool * bool) :=
  match t with
  | [] => None
  | (j, f) :: r => if i =? j then Some f else if_lookup r i
  end.

(* ---- state ----------------------------------------------------------------------------------------- *)

Inductive rcmd : Type :=
| RResolve (inst : bytes) (try_count : N)
| RVerify (inst : bytes) (timeout : N).

Record st : Type := mkSt {
  s_cache : cache;
  s_q : list (bytes * N);            (* service_queriers: ty_domain -> channel *)
  s_pending : list bytes;            (* pending_resolves *)
  s_resolved : list bytes;           (* resolved *)
  s_retrans : list (N * rcmd) }.     (* retransmissions (Resolve / Verify only) *)

Definition init_st : st := mkSt empty_cache [] [] [] [].

Definition with_cache (s : st) (c : cache) : st :=
  mkSt c (s_q s) (s_pending s) (s_resolved s) (s_retrans s).

Fixpoint q_get (ty : bytes) (q : list (bytes * N)) : option N :=
  match q with
  | [] => None
  | (t, ch) :: r => if beq ty t then Some ch else q_get ty r
  end.

Fixpoint q_set (ty : bytes) (ch : N) (q : list (bytes * N)) : list (bytes * N) :=
  match q with
  | [] => [(ty, ch)]
  | (t, c) :: r => if beq ty t then (t, ch) :: r else (t, c) :: q_set ty ch r
  end.

Definition q_remove (ty : bytes) (q : list (bytes * N)) : list (bytes * N) :=
  filter (fun tc => negb (beq ty (fst tc))) q.

Definition set_add (x : bytes) (l : list bytes) : list bytes := if mem x l then l else l ++ [x].
Definition set_remove (x : bytes) (l : list bytes) : list bytes := filter (fun y => negb (beq x y)) l.

(* ---- resolve_service_from_cache ------------------------------------------------------------------- *)

Fixpoint mem_pair (p : bytes * N) (l : list (bytes * N)) : bool :=
  match l with
  | [] => false
  | (b, i) :: t => (beq (fst p) b && (snd p =? i)) || mem_pair p t
  end.

Fixpoint dedup_pairs (l : list (bytes * N)) (seen : list (bytes * N)) : list (bytes * N) :=
  match l with
  | [] => []
  | p :: t => if mem_pair p seen then dedup_pairs t seen else p :: dedup_pairs t (p :: seen)
  end.

Definition txt_props (text : bytes) : list prop :=
  match decode_txt_unique text with Ok ps => ps | _ => [] end.

Definition resolve_from_cache (c : cache) (now : N) (ty inst : bytes) : resolved :=
  let srv := match bm_get inst (c_srv c) with
             | Some b => find (fun e => negb (expires_soon e now)) b
             | None => None
             end in
  let host := match srv with Some e => srv_host e | None => [] end in
  let port := match srv with Some e => srv_port e | None => 0 end in
  let txt := match bm_get inst (c_txt c) with
             | Some b => match find (fun e => negb (expires_soon e now)) b with
                         | Some e => txt_props (txt_text e)
                         | None => []
                         end
             | None => []
             end in
  let addrs := match get_addr c host with
               | Some b => dedup_pairs (map (fun e => (addr_octets e, e_if e))
                                            (filter (fun e => negb (expires_soon e now)) b)) []
               | None => []
               end in
  mkResolved ty (sub_get inst (c_sub c)) inst host port addrs txt.

Definition is_nil {A} (l : list A) : bool := match l with [] => true | _ => false end.

(* ResolvedService::is_valid *)
Definition is_valid (r : resolved) : bool :=
  negb (is_nil (rs_ty r) || is_nil (rs_name r) || is_nil (rs_host r) || is_nil (rs_addrs r)).

(* ---- pending resolves, notify_service_removal ---------------------------------------------------- *)

Definition add_pending (s : st) (now : N) (inst : bytes) : st :=
  if mem inst (s_pending s) then s
  else mkSt (s_cache s) (s_q s) (s_pending s ++ [inst]) (s_resolved s)
            (s_retrans s ++ [(now + pending_wait, RResolve inst pending_first_try)]).

Definition mark_resolved (s : st) (inst : bytes) : st :=
  mkSt (s_cache s) (s_q s) (set_remove inst (s_pending s)) (set_add inst (s_resolved s)) (s_retrans s).

(* expired: (ty_domain, instance) pairs; every querier gets the instances of its type once *)
Definition notify_removal (q : list (bytes * N)) (expired : list (bytes * bytes)) : list out :=
  flat_map (fun tc =>
    map (fun i => OEvt (snd tc) (ERemoved (fst tc) i))
        (dedup (map snd (filter (fun ti => beq (fst ti) (fst tc)) expired)))) q.

(* ---- resolve_updated_instances -------------------------------------------------------------------- *)

(* the loop over the PTR records of one browsed ty_domain.
   Accumulators: events, resolved, unresolved, removed pairs; `rset` is self.resolved, read only
   inside the loop: an instance that became invalid is reported under EVERY browsed name
   pointing to it and leaves `resolved` after the loop (no_longer_resolved). *)
Fixpoint ru_ptrs (c : cache) (now : N) (ty : bytes) (ch : N) (updated : list bytes)
    (ptrs : bucket) (rset : list bytes)
    : list out * list bytes * list bytes * list (bytes * bytes) * list bytes :=
  match ptrs with
  | [] => ([], [], [], [], rset)
  | p :: rest =>
    let inst := alias_of (e_rr p) in
    if negb (expires_soon p now) && mem inst updated then
      let r := resolve_from_cache c now ty inst in
      if is_valid r then
        let '(o, res, unres, rem, rset') := ru_ptrs c now ty ch updated rest rset in
        (OEvt ch (EResolved r) :: o, inst :: res, unres, rem, rset')
      else
        let was := mem inst rset in
        let '(o, res, unres, rem, rset') := ru_ptrs c now ty ch updated rest rset in
        (o, res, inst :: unres, (if was then [(ty, inst)] else []) ++ rem, rset')
    else ru_ptrs c now ty ch updated rest rset
  end.

Fixpoint ru_types (c : cache) (now : N) (q : list (bytes * N)) (updated : list bytes)
    (ptr : bmap) (rset : list bytes)
    : list out * list bytes * list bytes * list (bytes * bytes) * list bytes :=
  match ptr with
  | [] => ([], [], [], [], rset)
  | (ty, ptrs) :: rest =>
    match q_get ty q with
    | None => ru_types c now q updated rest rset
    | Some ch =>
      let '(o1, res1, un1, rem1, rset1) := ru_ptrs c now ty ch updated ptrs rset in
      let '(o2, res2, un2, rem2, rset2) := ru_types c now q updated rest rset1 in
      (o1 ++ o2, res1 ++ res2, un1 ++ un2, rem1 ++ rem2, rset2)
    end
  end.

Definition resolve_updated (s : st) (now : N) (updated : list bytes) : st * list out :=
  match updated with
  | [] => (s, [])
  | _ =>
    let '(o, res, unres, rem, rset) :=
      ru_types (s_cache s) now (s_q s) updated (c_ptr (s_cache s)) (s_resolved s) in
    let s1 := mkSt (s_cache s) (s_q s) (s_pending s)
                   (fold_left (fun l i => set_remove i l) (map snd rem) rset) (s_retrans s) in
    let s2 := fold_left mark_resolved (dedup res) s1 in
    let s3 := fold_left (fun s i => add_pending s now i) (dedup unres) s2 in
    (s3, o ++ notify_removal (s_q s) rem)
  end.

(* ---- handle_response --------------------------------------------------------------------------------- *)

(* is_for_us: a PTR in the answer section decides; no PTR at all = for us *)
Fixpoint for_us_scan (q : list (bytes * N)) (answers : list rr) (acc : bool) : bool :=
  match answers with
  | [] => acc
  | a :: t =>
    if r_type a =? TY_PTR then
      match q_get (r_name a) q with
      | Some _ => true
      | None => for_us_scan q t false
      end
    else for_us_scan q t acc
  end.

Definition for_us (q : list (bytes * N)) (answers : list rr) : bool := for_us_scan q answers true.

(* the loop over all records of the message: cache, ServiceFound events, changes (type, name) *)
Fixpoint hr_records (c : cache) (now ifx : N) (q : list (bytes * N)) (fu : bool) (rs : list rr)
    : cache * list out * list (N * bytes) :=
  match rs with
  | [] => (c, [], [])
  | r :: rest =>
    let '(c1, res) := add_or_update c now ifx r fu in
    let '(o1, ch1) :=
      match res with
      | Some (e, true) =>
        if (e_type e =? TY_PTR) && found_ttl_guard (e_ttl e) then
          (match q_get (e_name e) q with
           | Some ch => [OEvt ch (EFound (e_name e) (alias_of (e_rr e)))]
           | None => []
           end, [(TY_PTR, alias_of (e_rr e))])
        else ([], [(e_type e, e_name e)])
      | _ => ([], [])
      end in
    let '(c2, o2, ch2) := hr_records c1 now ifx q fu rest in
    (c2, o1 ++ o2, ch1 ++ ch2)
  end.

Definition updated_of (c : cache) (changes : list (N * bytes)) : list bytes :=
  flat_map (fun tn =>
    let t := fst tn in
    if (t =? TY_PTR) || (t =? TY_SRV) || (t =? TY_TXT) then [snd tn]
    else if is_addr_type t then get_instances_on_host c (snd tn)
    else []) changes.

Definition handle_response (s : st) (now ifx : N) (m : msg) : st * list out :=
  let fu := for_us (s_q s) (m_answers m) in
  let '(c1, o1, changes) :=
    hr_records (s_cache s) now ifx (s_q s) fu (m_answers m ++ m_authorities m ++ m_additionals m) in
  let s1 := with_cache s c1 in
  let '(s2, o2) := resolve_updated s1 now (updated_of c1 changes) in
  (s2, o1 ++ o2).

(* handle_read: interface lookup, disabled-family drop, decode, dispatch *)
Definition is_response_msg (m : msg) : bool := N.land (m_flags m) 32768 =? 32768.

Definition accepted_msg (ifs : iftab) (d : dgram) : option msg :=
  match if_lookup ifs (d_if d) with
  | None => None
  | Some (has4, has6) =>
    if (if d_v4 d then has4 else has6) then
      match decode (d_data d) with
      | Ok m => if is_response_msg m then Some m else None
      | _ => None
      end
    else None
  end.

Definition handle_read (ifs : iftab) (s : st) (now : N) (d : dgram) : st * list out :=
  match accepted_msg ifs d with
  | Some m => handle_response s now (d_if d) m
  | None => (s, [])
  end.

(* ---- commands -------------------------------------------------------------------------------------------- *)

(* query_cache_for_service *)
Fixpoint qc_ptrs (c : cache) (now : N) (ty : bytes) (ch : N) (ptrs : bucket)
    : list out * list bytes * list bytes :=
  match ptrs with
  | [] => ([], [], [])
  | p :: rest =>
    let '(o, res, unres) := qc_ptrs c now ty ch rest in
    if expires_soon p now then (o, res, unres)
    else
      let inst := alias_of (e_rr p) in
      let r := resolve_from_cache c now ty inst in
      if is_valid r
      then (OEvt ch (EFound ty inst) :: OEvt ch (EResolved r) :: o, inst :: res, unres)
      else (OEvt ch (EFound ty inst) :: o, res, inst :: unres)
  end.

Definition exec_browse (s : st) (now : N) (ty : bytes) (ch : N) : st * list out :=
  let s1 := mkSt (s_cache s) (q_set ty ch (s_q s)) (s_pending s) (s_resolved s) (s_retrans s) in
  match bm_get ty (c_ptr (s_cache s)) with
  | None => (s1, [])
  | Some ptrs =>
    let '(o, res, unres) := qc_ptrs (s_cache s) now ty ch ptrs in
    let s2 := fold_left mark_resolved (dedup res) s1 in
    let s3 := fold_left (fun s i => add_pending s now i) (dedup unres) s2 in
    (s3, o)
  end.

Definition exec_stop (s : st) (ty : bytes) : st :=
  match q_get ty (s_q s) with
  | None => s
  | Some _ => mkSt (remove_service_type (s_cache s) ty) (q_remove ty (s_q s)) (s_pending s)
                   (s_resolved s) (s_retrans s)
  end.

Definition exec_verify (s : st) (now : N) (inst : bytes) (timeout : N) (repeating : bool)
    : st * list out :=
  let at_ := if repeating then None else Some (now + timeout) in
  let '(c1, qs) := service_verify_queries (s_cache s) inst at_ in
  match qs with
  | [] => (with_cache s c1, [])
  | _ =>
    let s1 := with_cache s c1 in
    (if repeating then s1
     else mkSt (s_cache s1) (s_q s1) (s_pending s1) (s_resolved s1)
               (s_retrans s1 ++ [(verify_resend_time now, RVerify inst timeout)]),
     [OQuery qs])
  end.

Definition metrics_of (c : cache) : list N :=
  [bm_count (c_ptr c); bm_count (c_srv c); bm_count (c_txt c); bm_count (c_addr c);
   bm_count (c_nsec c); N.of_nat (length (c_sub c))].

Definition exec_call (s : st) (now : N) (cl : call) : st * list out :=
  match cl with
  | CBrowse ty ch => exec_browse s now ty ch
  | CStop ty => (exec_stop s ty, [])
  | CVerify inst timeout => exec_verify s now inst timeout false
  | CMetrics ch => (s, [OMetrics ch (metrics_of (s_cache s))])
  end.

(* ---- retransmissions: Resolve (follow-up queries) and Verify resend ------------------------------- *)

Definition count_dots (name : bytes) : nat := length (filter (fun b => b =? 46) name).

(* name.split('.').count() >= 5 *)
Definition valid_instance_name (name : bytes) : bool :=
  valid_name_min_parts <=? N.of_nat (count_dots name) + 1.

(* query_unresolved: (query sent, the packet) *)
Definition query_unresolved (c : cache) (inst : bytes) : bool * list out :=
  if negb (valid_instance_name inst) then (false, [])
  else
    match bm_get inst (c_srv c) with
    | Some recs =>
      match find (fun e => match get_addr c (srv_host e) with None => true | Some _ => false end) recs with
      | Some e => (true, [OQuery [(srv_host e, TY_A); (srv_host e, TY_AAAA)]])
      | None => (false, [])
      end
    | None => (true, [OQuery [(inst, TY_ANY)]])
    end.

Definition exec_resolve (s : st) (now : N) (inst : bytes) (try_count : N) : st * list out :=
  (* fix 48ec5c0: follow-ups only while some cached PTR record points to the instance *)
  let '(sent, o) := if has_ptr_to (s_cache s) inst then query_unresolved (s_cache s) inst else (false, []) in
  if sent && retry_guard try_count max_try
  then (mkSt (s_cache s) (s_q s) (s_pending s) (s_resolved s)
             (s_retrans s ++ [(now + resolve_wait, RResolve inst (retry_next try_count))]), o)
  else (* the follow-up queries are over: a new round may start if it shows up again *)
       (mkSt (s_cache s) (s_q s) (set_remove inst (s_pending s)) (s_resolved s) (s_retrans s), o).

Definition exec_rcmd (s : st) (now : N) (c : rcmd) : st * list out :=
  match c with
  | RResolve inst n => exec_resolve s now inst n
  | RVerify inst timeout => exec_verify s now inst timeout true
  end.

Fixpoint run_cmds {C} (f : st -> N -> C -> st * list out) (s : st) (now : N) (l : list C) : st * list out :=
  match l with
  | [] => (s, [])
  | c :: t =>
    let '(s1, o1) := f s now c in
    let '(s2, o2) := run_cmds f s1 now t in
    (s2, o1 ++ o2)
  end.

(* the loop `while i < retransmissions.len()`: entries that are due (now >= next_time) are
   removed and executed in order; what they append is never due in the same pass *)
Definition run_retrans (s : st) (now : N) : st * list out :=
  let due := filter (fun tc => fst tc <=? now) (s_retrans s) in
  let keep := filter (fun tc => negb (fst tc <=? now)) (s_retrans s) in
  let s1 := mkSt (s_cache s) (s_q s) (s_pending s) (s_resolved s) keep in
  run_cmds exec_rcmd s1 now (map snd due).

(* ---- refresh_active_services --------------------------------------------------------------------------- *)

Fixpoint refresh_all (c : cache) (now : N) (q : list (bytes * N)) : cache * list out :=
  match q with
  | [] => (c, [])
  | (ty, _) :: rest =>
    let '(c1, qs) := refresh_type c ty now in
    let '(c2, o) := refresh_all c1 now rest in
    (c2, map (fun x => OQuery [x]) qs ++ o)
  end.

(* ---- eviction part of run ---------------------------------------------------------------------------------- *)

Fixpoint resolve_hosts (s : st) (now : N) (names : list bytes) : st * list out :=
  match names with
  | [] => (s, [])
  | h :: t =>
    let '(s1, o1) := resolve_updated s now (dedup (get_instances_on_host (s_cache s) h)) in
    let '(s2, o2) := resolve_hosts s1 now t in
    (s2, o1 ++ o2)
  end.

Definition evict (s : st) (now : N) : st * list out :=
  let '(c1, expired) := evict_services (s_cache s) now in
  let o1 := notify_removal (s_q s) expired in
  let '(c2, names) := evict_addr c1 now in
  let '(s2, o2) := resolve_hosts (with_cache s c2) now (dedup names) in
  (s2, o1 ++ o2).

(* ---- one loop iteration, a whole history ------------------------------------------------------------------ *)

Definition deliveries_in_order (ds : list dgram) : list dgram :=
  filter (fun d => d_v4 d) ds ++ filter (fun d => negb (d_v4 d)) ds.

Definition iterate (ifs : iftab) (s : st) (it : iter) : st * list out :=
  let now := i_now it in
  let '(s1, o1) := run_cmds (handle_read ifs) s now (deliveries_in_order (i_dgrams it)) in
  let '(s2, o2) := run_cmds exec_call s1 now (i_calls it) in
  let '(s3, o3) := run_retrans s2 now in
  let '(c4, o4) := refresh_all (s_cache s3) now (s_q s3) in
  let '(s5, o5) := evict (with_cache s3 c4) now in
  (s5, o1 ++ o2 ++ o3 ++ o4 ++ o5).

Fixpoint run_from (ifs : iftab) (s : st) (h : list iter) : list (list out) :=
  match h with
  | [] => []
  | it :: t => let '(s1, o) := iterate ifs s it in o :: run_from ifs s1 t
  end.

Definition run_history (ifs : iftab) (h : list iter) : list (list out) := run_from ifs init_st h.

(* ---- canonical form of one iteration's outputs -------------------------------------------------------

   events: per channel, stable sort by instance name (events of one instance keep their order:
   ServiceFound before ServiceResolved, ...); questions: the set of (name, type) asked. *)

Fixpoint bytes_leb (a b : bytes) : bool :=
  match a, b with
  | [], _ => true
  | _ :: _, [] => false
  | x :: a', y :: b' => if x <? y then true else if y <? x then false else bytes_leb a' b'
  end.

Fixpoint insert_ev (e : event) (l : list event) : list event :=
  match l with
  | [] => [e]
  | x :: t => if bytes_leb (ev_inst x) (ev_inst e) then x :: insert_ev e t else e :: x :: t
  end.

(* stable: an element is inserted after the elements that are <= it *)
Definition sort_events (l : list event) : list event := fold_left (fun acc e => insert_ev e acc) l [].

Definition events_of (ch : N) (o : list out) : list event :=
  flat_map (fun x => match x with OEvt c e => if c =? ch then [e] else [] | _ => [] end) o.

Fixpoint nodup_N (l : list N) : list N :=
  match l with
  | [] => []
  | x :: t => if existsb (N.eqb x) t then nodup_N t else x :: nodup_N t
  end.

Definition channels_of (o : list out) : list N :=
  nodup_N (flat_map (fun x => match x with OEvt c _ => [c] | _ => [] end) o).

Definition questions_of (o : list out) : list (bytes * N) :=
  flat_map (fun x => match x with OQuery qs => qs | _ => [] end) o.
