(* The statements of C19, C13 and C12 as executable checkers over (history, observed trace).
   They are the conclusions of the theorems in Props/C19.v, C13.v, C12.v and, extracted, the
   monitors applied to what the implementation did.

   The checkers know nothing of timers, heaps or retransmission lists.  They follow, per
   question (`wkey`) and per channel, a few words of state that the property texts speak
   about, with the LITERAL numbers of the texts (1 s, doubling, 3600 s, 1000 ms):
     - kstate: "a continuing search sent its last query at `c_last`, the next one is due
       `c_delay` seconds later, it ends at `c_deadline`";
     - cstate: "this channel is the current listener of a search (until ...)".  *)
From Coq Require Import List NArith Bool.
From Mdns Require Import Bytes Sched.
Import ListNotations.
Open Scope N_scope.

(* ------------------------------------------------------------------ well-formed histories *)
Fixpoint times_ok (t : N) (h : list iter) : bool :=
  match h with
  | [] => true
  | it :: h' => (t <=? i_now it) && times_ok (i_now it) h'
  end.

Fixpoint nodupN (l : list N) : bool :=
  match l with [] => true | x :: t => negb (memN x t) && nodupN t end.

Definition hist_chans (h : list iter) : list chan := flat_map (fun it => intro_chans (i_cmds it)) h.

Definition cmd_in_range (c : cmd) : bool :=
  match c with
  | CStart _ _ _ (Some t) _ => t <=? u64_max
  | CSetIp secs => secs <? 4294967296
  | _ => true
  end.

(* virtual times nondecreasing from t0 and below 2^63; one fresh channel per browse /
   resolve call (the API returns a new receiver each time); commands of the API's shapes *)
Definition wf_hist (t0 : N) (h : list iter) : bool :=
  times_ok t0 h && nodupN (hist_chans h)
  && forallb (fun it => (i_now it <? 9223372036854775808)
                        && forallb (fun c => wf_cmd c && cmd_in_range c) (i_cmds it)) h.

(* ------------------------------------------------------------------ questions on the wire *)
Definition wkey := (bool * name)%type.      (* host?, the name as written in the question *)
Definition wkey_okey (k : wkey) : okey := okey_of (fst k) (snd k).

Definition q_eqb (a b : question) : bool := beq (fst a) (fst b) && (snd a =? snd b).
Fixpoint pkt_eqb (a b : packet) : bool :=
  match a, b with
  | [], [] => true
  | x :: a', y :: b' => q_eqb x y && pkt_eqb a' b'
  | _, _ => false
  end.

Definition count_pkt (k : wkey) (sent : list packet) : nat :=
  length (filter (pkt_eqb (pkt (fst k) (snd k))) sent).

(* a PTR question alone (browse) or an A + AAAA pair for one name (hostname resolution) *)
Definition key_of_pkt (p : packet) : option wkey :=
  match p with
  | [(n, t)] => if t =? 12 then Some (false, n) else None
  | [(n, t); (n', t')] => if (t =? 1) && (t' =? 28) && beq n n' then Some (true, n) else None
  | _ => None
  end.

Definition hist_keys (h : list iter) : list wkey :=
  flat_map (fun it => flat_map (fun c => match c with CStart host nm _ _ _ => [(host, nm)] | _ => [] end)
                               (i_cmds it)) h.
Definition trace_keys (tr : list out) : list wkey :=
  flat_map (fun o => flat_map (fun p => match key_of_pkt p with Some k => [k] | None => [] end) (o_sent o)) tr.

Definition has_shutdown (cmds : list cmd) : bool :=
  existsb (fun c => match c with CShutdown => true | _ => false end) cmds.

(* one record per iteration that took place, the last one being the Exit iteration if any *)
Fixpoint shape_ok (h : list iter) (tr : list out) : bool :=
  match h, tr with
  | [], [] => true
  | it :: h', o :: tr' =>
      (o_now o =? i_now it) && Bool.eqb (o_exited o) (has_shutdown (i_cmds it))
      && (if o_exited o then match tr' with [] => true | _ => false end else shape_ok h' tr')
  | _, _ => false
  end.

(* ------------------------------------------------------------------ per-question schedule *)
Record chain := mkChain { c_last : N; c_delay : N; c_deadline : option N }.
Definition kstate := option chain.

Definition spec_next_delay (d : N) : N := N.min (2 * d) 3600.
Definition chain_due (c : chain) : N := c_last c + c_delay c * 1000.
(* a search with a deadline sends no query at or after it *)
Definition chain_goes_on (c : chain) : bool :=
  match c_deadline c with None => true | Some d => chain_due c <? d end.

Definition k_timeout (now : N) (st : kstate) : kstate :=
  match st with
  | Some c => match c_deadline c with Some d => if d <=? now then None else st | None => st end
  | None => None
  end.

(* effect of one API command on the search for question k: (state, queries sent at once) *)
Definition k_cmd (now : N) (k : wkey) (c : cmd) (st : kstate) : kstate * nat :=
  match c with
  | CStart host nm cache timeout _ =>
      if okey_eqb (okey_of host nm) (wkey_okey k)
      then if beq nm (snd k) && negb cache
           then (Some (mkChain now 1 (option_map (sat_add now) timeout)), 1%nat)   (* (re)started *)
           else (None, 0%nat)            (* replaced by a cache-only browse / another spelling *)
      else (st, 0%nat)
  | CStop host nm => if okey_eqb (okey_of host nm) (wkey_okey k) then (None, 0%nat) else (st, 0%nat)
  | CSetIp _ => (st, 0%nat)
  | CShutdown => (None, 0%nat)
  end.

Fixpoint k_cmds (now : N) (k : wkey) (cmds : list cmd) (st : kstate) : kstate * nat * bool :=
  match cmds with
  | [] => (st, 0%nat, false)
  | c :: rest =>
      match c with
      | CShutdown => (None, 0%nat, true)
      | _ => let '(st1, n1) := k_cmd now k c st in
             let '(st2, n2, halted) := k_cmds now k rest st1 in (st2, (n1 + n2)%nat, halted)
      end
  end.

(* the scheduled query: sent in the first iteration at or after its due time *)
Definition k_rerun (now : N) (st : kstate) : kstate * nat :=
  match st with
  | Some c => if (chain_due c <=? now) && chain_goes_on c
              then (Some (mkChain now (spec_next_delay (c_delay c)) (c_deadline c)), 1%nat)
              else (st, 0%nat)
  | None => (None, 0%nat)
  end.

(* (state after the iteration, queries sent at once by start calls, scheduled queries) *)
Definition k_iter (k : wkey) (it : iter) (st : kstate) : kstate * nat * nat :=
  let now := i_now it in
  let '(st2, n, halted) := k_cmds now k (i_cmds it) (k_timeout now st) in
  if halted then (None, n, 0%nat)
  else let '(st3, m) := k_rerun now st2 in (st3, n, m).

(* C19: in every iteration the number of queries for k is exactly: one per (re)start call, plus
   one if the running search's next query is due (gaps 1 s, 2 s, 4 s, ... 3600 s) *)
Fixpoint k_check (k : wkey) (h : list iter) (tr : list out) (st : kstate) : bool :=
  match h, tr with
  | it :: h', o :: tr' =>
      let '(st', n, m) := k_iter k it st in
      Nat.eqb (count_pkt k (o_sent o)) (n + m) && (if o_exited o then true else k_check k h' tr' st')
  | _, _ => true
  end.

(* C13 (silence): once the search for k is over - stopped, timed out, replaced, shut down -
   no query for k leaves, except those a start call of the same iteration sent at once *)
Fixpoint k_silent (k : wkey) (h : list iter) (tr : list out) (st : kstate) : bool :=
  match h, tr with
  | it :: h', o :: tr' =>
      let '(st', n, m) := k_iter k it st in
      (match st' with None => Nat.eqb (count_pkt k (o_sent o)) n | Some _ => true end)
      && (if o_exited o then true else k_silent k h' tr' st')
  | _, _ => true
  end.

Definition all_keys (h : list iter) (tr : list out) : list wkey := hist_keys h ++ trace_keys tr.
Definition pkts_shaped (tr : list out) : bool :=
  forallb (fun o => forallb (fun p => match key_of_pkt p with Some _ => true | None => false end) (o_sent o)) tr.

Definition chk_C19 (t0 : N) (h : list iter) (tr : list out) : bool :=
  match tr with
  | [] => false
  | o0 :: rest =>
      match o_sent o0 with [] => true | _ => false end
      && shape_ok h rest && pkts_shaped rest
      && forallb (fun k => k_check k h rest None) (all_keys h rest)
  end.

(* ------------------------------------------------------------------ per-channel protocol *)
Inductive cstate : Type :=
| CNotYet
| CCurrent (k : okey) (nm : name) (cache : bool) (dd : option N)
| CGone.

Definition ev_eqb (a b : event) : bool :=
  match a, b with
  | EStarted x, EStarted y => beq x y
  | EStopped x, EStopped y => beq x y
  | ETimeout x, ETimeout y => beq x y
  | EClosed, EClosed => true
  | _, _ => false
  end.
Fixpoint evs_eqb (a b : list event) : bool :=
  match a, b with
  | [], [] => true
  | x :: a', y :: b' => ev_eqb x y && evs_eqb a' b'
  | _, _ => false
  end.

Definition c_timeout (now : N) (cs : cstate) : cstate * list event :=
  match cs with
  | CCurrent k _ _ (Some d) => if d <=? now then (CGone, [ETimeout (snd k); EStopped (snd k)]) else (cs, [])
  | _ => (cs, [])
  end.

Definition c_cmd (now : N) (ch : chan) (c : cmd) (cs : cstate) : cstate * list event :=
  match c with
  | CStart host nm cache timeout ch' =>
      if ch' =? ch
      then (CCurrent (okey_of host nm) nm cache (option_map (sat_add now) timeout),
            EStarted nm :: (if cache then [EStopped nm] else []))
      else match cs with
           | CCurrent k _ _ _ => if okey_eqb (okey_of host nm) k then (CGone, []) else (cs, [])
           | _ => (cs, [])
           end
  | CStop host nm =>
      match cs with
      | CCurrent k _ _ _ => if okey_eqb (okey_of host nm) k then (CGone, [EStopped (snd k)]) else (cs, [])
      | _ => (cs, [])
      end
  | CSetIp _ => (cs, [])
  | CShutdown => match cs with CCurrent k _ _ _ => (CGone, [EStopped (snd k)]) | _ => (cs, []) end
  end.

Fixpoint c_cmds (now : N) (ch : chan) (cmds : list cmd) (cs : cstate) : cstate * list event :=
  match cmds with
  | [] => (cs, [])
  | c :: rest =>
      let '(cs1, e1) := c_cmd now ch c cs in
      match c with
      | CShutdown => (cs1, e1)
      | _ => let '(cs2, e2) := c_cmds now ch rest cs1 in (cs2, e1 ++ e2)
      end
  end.

(* events the history demands on channel ch in this iteration (a repeated SearchStarted of a
   retransmission is allowed after them while the search is current) *)
Definition c_iter (ch : chan) (it : iter) (cs : cstate) : cstate * list event :=
  let now := i_now it in
  let '(cs1, e1) := c_timeout now cs in
  let '(cs2, e2) := c_cmds now ch (i_cmds it) cs1 in (cs2, e1 ++ e2).

Definition events_on (ch : chan) (evs : list (chan * event)) : list event :=
  flat_map (fun ce => if fst ce =? ch then match snd ce with EClosed => [] | e => [e] end else []) evs.

Definition c_obs_ok (cs' : cstate) (expected observed : list event) : bool :=
  evs_eqb observed expected
  || match cs' with
     | CCurrent _ nm false _ => evs_eqb observed (expected ++ [EStarted nm])
     | _ => false
     end.

(* C13 (protocol): SearchStarted first; SearchStopped exactly when the search is stopped, timed
   out (after SearchTimeout) or shut down, once, and nothing after it; repeated SearchStarted
   only while the search is current *)
Fixpoint c_check (ch : chan) (h : list iter) (tr : list out) (cs : cstate) : bool :=
  match h, tr with
  | it :: h', o :: tr' =>
      let '(cs', expected) := c_iter ch it cs in
      c_obs_ok cs' expected (events_on ch (o_events o))
      && (if o_exited o then true else c_check ch h' tr' cs')
  | _, _ => true
  end.

Definition trace_chans (tr : list out) : list chan := flat_map (fun o => map fst (o_events o)) tr.

Definition chk_C13 (t0 : N) (h : list iter) (tr : list out) : bool :=
  match tr with
  | [] => false
  | o0 :: rest =>
      match o_sent o0, o_events o0 with [], [] => true | _, _ => false end
      && shape_ok h rest && pkts_shaped rest
      && forallb (fun ch => c_check ch h rest CNotYet) (hist_chans h ++ trace_chans rest)
      && forallb (fun k => k_silent k h rest None) (all_keys h rest)
  end.

(* ------------------------------------------------------------------ wake-ups *)
(* the interface check as the text has it: every `ival` ms, 0 = off *)
Definition ip_cmds (cmds : list cmd) (ival : N) : N :=
  fold_left (fun iv c => match c with CSetIp secs => secs * 1000 | _ => iv end) cmds ival.
Definition ip_step (now : N) (cmds : list cmd) (st : N * N) : N * N :=
  let iv := ip_cmds cmds (snd st) in
  let nx := fst st in
  if iv =? 0 then (0, iv)
  else if nx =? 0 then (now + iv, iv)
  else if nx <=? now then (now + iv, iv)
  else (nx, iv).

Definition chain_dues (st : kstate) : list N :=
  match st with
  | Some c => (if chain_goes_on c then [chain_due c] else [])
              ++ (match c_deadline c with Some d => [d] | None => [] end)
  | None => []
  end.

Definition wake_covers (wake : option N) (dues : list N) : bool :=
  match wake with
  | Some w => forallb (fun d => w <=? d) dues
  | None => match dues with [] => true | _ => false end
  end.

Definition zero_timeout (cmds : list cmd) : bool :=
  existsb (fun c => match c with CStart _ _ _ (Some t) _ => t =? 0 | _ => false end) cmds.

(* the wake-up requested after an iteration lies in the future; it may equal `now` only when a
   search with timeout 0 was started in this very iteration (its deadline is due at once) *)
Definition moves_on (now : N) (cmds : list cmd) (wake : option N) : bool :=
  match wake with
  | Some w => (now <? w) || ((w =? now) && zero_timeout cmds)
  | None => true
  end.

Fixpoint k_states (ks : list wkey) (it : iter) (sts : list kstate) : list kstate :=
  match ks, sts with
  | k :: ks', st :: sts' => fst (fst (k_iter k it st)) :: k_states ks' it sts'
  | _, _ => []
  end.

Fixpoint w_check (ks : list wkey) (h : list iter) (tr : list out) (sts : list kstate) (ip : N * N) : bool :=
  match h, tr with
  | it :: h', o :: tr' =>
      if o_exited o then true
      else
        let sts' := k_states ks it sts in
        let ip' := ip_step (i_now it) (i_cmds it) ip in
        wake_covers (o_wake o) (flat_map chain_dues sts' ++ (if snd ip' =? 0 then [] else [fst ip']))
        && moves_on (i_now it) (i_cmds it) (o_wake o)
        && w_check ks h' tr' sts' ip'
  | _, _ => true
  end.

(* C12: after every iteration the requested wake-up is no later than any pending scheduled
   query, resolver deadline or interface check, and it moves forward *)
Definition chk_C12 (t0 : N) (h : list iter) (tr : list out) : bool :=
  match tr with
  | [] => false
  | o0 :: rest =>
      wake_covers (o_wake o0) [t0 + 5000] && moves_on t0 [] (o_wake o0)
      && shape_ok h rest
      && let ks := hist_keys h in w_check ks h rest (map (fun _ => None) ks) (t0 + 5000, 5000)
  end.

(* ------------------------------------------------------------------ schedules *)
(* the timer-exact silent schedule: n iterations, each exactly at the requested wake-up, no
   API call, no datagram *)
Fixpoint silent_hist (s : state) (n : nat) : list iter :=
  match n with
  | O => []
  | S n' => if st_alive s
            then match min_list (st_timers s) with
                 | None => []
                 | Some w => mkIter w [] :: silent_hist (fst (iterate s (mkIter w []))) n'
                 end
            else []
  end.

(* the times at which question k left, with multiplicity *)
Definition ktimes (k : wkey) (tr : list out) : list N :=
  flat_map (fun o => repeat (o_now o) (count_pkt k (o_sent o))) tr.

(* the back-off ladder of the property text: delays 1, 2, 4, ... capped at 3600 s *)
Fixpoint dly (j : nat) : N := match j with O => 1 | S j' => spec_next_delay (dly j') end.
Fixpoint ladder (j : nat) : N := match j with O => 0 | S j' => ladder j' + dly j' * 1000 end.
