(* C20: the checker.  What the property allows at the moment of a get_metrics call is read off
   the SAME machine run under the acceptance rule the property asks for (policy PNeed: a record
   is cached only if an active search needs it when it arrives):
     - each of the five cache counters is at most the counter of the PNeed run;
     - the subtype map is at most the number of instances that cached subtype PTRs point to;
     - the timer heap is at most `timer_allow` of the PNeed state: when that state is quiet
       (nothing searched, queued or cached) only the pending interface check; otherwise
       2 + 3 * (cached records + active searches + queued retransmissions).
   When all searches are stopped and every TTL has passed the PNeed state is quiet, so the
   same inequalities say: six counters 0, timers within {next interface check}.
   Definitions only. *)
From Coq Require Import List NArith Bool.
From Mdns Require Import Bytes ParamsHostres HostresBase BoundedModel.
Import ListNotations.
Open Scope N_scope.

Definition cache_within (need obs : sample) : bool :=
  (m_ptr obs <=? m_ptr need) && (m_srv obs <=? m_srv need) && (m_txt obs <=? m_txt need)
  && (m_addr obs <=? m_addr need) && (m_nsec obs <=? m_nsec need).
Definition sub_within (need obs : sample) : bool := m_sub obs <=? m_sub_live need.
Definition timers_within (need obs : sample) : bool := m_timer obs <=? m_timer_allow need.

Definition sample_ok (need obs : sample) : bool :=
  cache_within need obs && sub_within need obs && timers_within need obs.

Fixpoint all2 {A} (f : A -> A -> bool) (a b : list A) : bool :=
  match a, b with
  | [], [] => true
  | x :: a', y :: b' => f x y && all2 f a' b'
  | _, _ => false
  end.

(* obs: the get_metrics answers observed, grouped per iteration of the history *)
Definition chk_with (f : sample -> sample -> bool) (t0 : N) (h : list biter) (obs : list (list sample)) : bool :=
  all2 (all2 f) (run PNeed t0 h) obs.

Definition chk_cache := chk_with cache_within.
Definition chk_sub := chk_with sub_within.
Definition chk_timers := chk_with timers_within.
Definition chk_C20 (t0 : N) (h : list biter) (obs : list (list sample)) : bool := chk_with sample_ok t0 h obs.

(* the seven reported numbers of two sample lists agree *)
Definition same_report (a b : sample) : bool :=
  (m_ptr a =? m_ptr b) && (m_srv a =? m_srv b) && (m_txt a =? m_txt b) && (m_addr a =? m_addr b)
  && (m_nsec a =? m_nsec b) && (m_sub a =? m_sub b) && (m_timer a =? m_timer b).
Definition predicted (t0 : N) (h : list biter) (obs : list (list sample)) : bool :=
  all2 (all2 same_report) (run PCode t0 h) obs.

(* times do not go backwards and start at or after t0 *)
Fixpoint btimes_ok (prev : N) (h : list biter) : bool :=
  match h with
  | [] => true
  | i :: t => (prev <=? bi_now i) && btimes_ok (bi_now i) t
  end.

(* ---- the deliveries a history's cache content is accounted to ---------------------------- *)
(* a delivery: time, interface, record.  Under PNeed a delivery is logged when an active search
   needs the record at the moment it arrives (`needed`, evaluated on the cache as it is then);
   under PCode every delivery is logged. *)
Definition deliv : Type := (N * N * brec)%type.
Definition acc_t : Type := (bcache * list N * list (N * name) * N)%type.
Definition acc_cache (a : acc_t) : bcache := fst (fst (fst a)).
Definition logged (pol : policy) (now : N) (q : list name) (res : list (name * option N)) (c : bcache) (r : brec) : bool :=
  match pol with PCode => true | PNeed => needed now q res c r end.

Fixpoint msg_log (pol : policy) (now : N) (fu : bool) (ifx : N) (q : list name) (res : list (name * option N))
         (rs : list brec) (acc : acc_t) : list deliv :=
  match rs with
  | [] => []
  | r :: t => (if logged pol now q res (acc_cache acc) r then [(now, ifx, r)] else [])
              ++ msg_log pol now fu ifx q res t (absorb pol now fu ifx q res acc r)
  end.
Fixpoint msgs_log (pol : policy) (now : N) (ms : list bmsg) (s : bst) : list deliv :=
  match ms with
  | [] => []
  | m :: t => msg_log pol now (is_for_us s m) (bm_if m) (b_queriers s) (b_resolvers s) (bm_recs m)
                      (b_cache s, [], [], b_excess s)
              ++ msgs_log pol now t (handle_response pol now s m)
  end.
Fixpoint hist_log (pol : policy) (s : bst) (h : list biter) : list deliv :=
  match h with
  | [] => []
  | i :: t => msgs_log pol (bi_now i) (bi_msgs i) s ++ hist_log pol (fst (step pol s i)) t
  end.
(* the needed (PNeed) / all (PCode) deliveries of a history that starts at t0 *)
Definition deliveries_of (pol : policy) (t0 : N) (h : list biter) : list deliv := hist_log pol (b_init t0) h.

Definition kind_eqb (a b : kind) : bool :=
  match a, b with
  | KPtr, KPtr | KSrv, KSrv | KTxt, KTxt | KAddr, KAddr | KNsec, KNsec | KNone, KNone => true
  | _, _ => false
  end.
(* a delivery of kind k whose TTL (0 counted as 1 s) has not run out at time T *)
Definition dlive (k : kind) (T : N) (d : deliv) : bool :=
  kind_eqb (kind_of (br_ty (snd d))) k && (T <? fst (fst d) + wire_ttl (br_ttl (snd d)) * 1000).
Definition live_count (k : kind) (T : N) (D : list deliv) : N := N.of_nat (length (filter (dlive k T) D)).

Fixpoint blast_time (prev : N) (h : list biter) : N :=
  match h with [] => prev | i :: t => blast_time (bi_now i) t end.
