(* An independent reference parser for DNS messages, written from RFC 1035 section 4 (not a
   model of the crate): names are label lists (no text presentation, no escaping, no UTF-8
   check); compression pointers must point strictly backwards (below the start of the name
   for the first pointer, below the previous target afterwards), which is what "a prior
   occurrence of the same name" (RFC 1035 4.1.4) permits.
   It is the specification side of C02 and the oracle of its monitor. *)
From Coq Require Import List NArith Bool.
From Mdns Require Import Bytes.
Import ListNotations.
Open Scope N_scope.

Definition rlabels := list bytes.

Inductive run_result : Type :=
| RunEnd (ls : rlabels) (next : N)
| RunPtr (ls : rlabels) (next : N) (target : N)
| RunBad.

(* one run of labels from `rest` (= datagram from offset `off`), fuel >= length rest + 1 *)
Fixpoint run (fuel : nat) (rest : bytes) (off : N) : run_result :=
  match fuel with
  | O => RunBad
  | S f =>
    match rest with
    | [] => RunBad
    | l :: tl =>
      if l =? 0 then RunEnd [] (off + 1)
      else if l <? 64 then
        if Nat.ltb (length tl) (N.to_nat l) then RunBad
        else
          match run f (skipn (N.to_nat l) tl) (off + 1 + l) with
          | RunEnd ls n => RunEnd (firstn (N.to_nat l) tl :: ls) n
          | RunPtr ls n t => RunPtr (firstn (N.to_nat l) tl :: ls) n t
          | RunBad => RunBad
          end
      else if 192 <=? l then
        match tl with
        | b1 :: _ => RunPtr [] (off + 2) ((l - 192) * 256 + b1)
        | [] => RunBad
        end
      else RunBad
    end
  end.

(* labels of the name at `off`, and the offset just after its encoding at `off` *)
Fixpoint ref_name_from (jumps : nat) (d : bytes) (off limit : N) : option (rlabels * N) :=
  match jumps with
  | O => None
  | S j =>
    let rest := skipn (N.to_nat off) d in
    match run (S (length rest)) rest off with
    | RunBad => None
    | RunEnd ls n => Some (ls, n)
    | RunPtr ls n t =>
      if limit <=? t then None
      else match ref_name_from j d t t with
           | Some (ls', _) => Some (ls ++ ls', n)
           | None => None
           end
    end
  end.

Definition ref_name (d : bytes) (off : N) : option (rlabels * N) :=
  ref_name_from (S (length d)) d off off.

(* ---- fixed-width fields ---- *)
Definition nth_byte (d : bytes) (off : N) : option N := nth_error d (N.to_nat off).

Definition ref_u16 (d : bytes) (off : N) : option N :=
  match nth_byte d off, nth_byte d (off + 1) with
  | Some a, Some b => Some (a * 256 + b)
  | _, _ => None
  end.

Definition ref_u32 (d : bytes) (off : N) : option N :=
  match ref_u16 d off, ref_u16 d (off + 2) with
  | Some a, Some b => Some (a * 65536 + b)
  | _, _ => None
  end.

Definition ref_bytes (d : bytes) (off n : N) : option bytes :=
  if off + n <=? N.of_nat (length d)
  then Some (firstn (N.to_nat n) (skipn (N.to_nat off) d)) else None.

(* ---- entries ---- *)
Inductive ref_rdata : Type :=
| FRaw (b : bytes)                                 (* A, AAAA, TXT, anything else *)
| FName (ls : rlabels)                             (* PTR, CNAME *)
| FSrv (priority weight port : N) (ls : rlabels).  (* SRV *)

Record ref_q : Type := mkRefQ { fq_name : rlabels; fq_type : N; fq_class : N }.
Record ref_rr : Type := mkRefRR {
  fr_name : rlabels; fr_type : N; fr_class : N (* 16 bits, cache-flush bit included *);
  fr_ttl : N; fr_data : ref_rdata }.

Definition ref_question (d : bytes) (off : N) : option (ref_q * N) :=
  match ref_name d off with
  | Some (ls, o) =>
    match ref_u16 d o, ref_u16 d (o + 2) with
    | Some ty, Some cl => Some (mkRefQ ls ty cl, o + 4)
    | _, _ => None
    end
  | None => None
  end.

Definition ref_rdata_at (d : bytes) (ty off rdlen : N) : option ref_rdata :=
  if (ty =? 12) || (ty =? 5) then
    match ref_name d off with
    | Some (ls, o) => if o =? off + rdlen then Some (FName ls) else None
    | None => None
    end
  else if ty =? 33 then
    match ref_u16 d off, ref_u16 d (off + 2), ref_u16 d (off + 4), ref_name d (off + 6) with
    | Some p, Some w, Some po, Some (ls, o) =>
      if o =? off + rdlen then Some (FSrv p w po ls) else None
    | _, _, _, _ => None
    end
  else match ref_bytes d off rdlen with Some b => Some (FRaw b) | None => None end.

Definition ref_record (d : bytes) (off : N) : option (ref_rr * N) :=
  match ref_name d off with
  | Some (ls, o) =>
    match ref_u16 d o, ref_u16 d (o + 2), ref_u32 d (o + 4), ref_u16 d (o + 8) with
    | Some ty, Some cl, Some ttl, Some rdlen =>
      match ref_rdata_at d ty (o + 10) rdlen with
      | Some rd => Some (mkRefRR ls ty cl ttl rd, o + 10 + rdlen)
      | None => None
      end
    | _, _, _, _ => None
    end
  | None => None
  end.

Fixpoint ref_questions (n : nat) (d : bytes) (off : N) : option (list ref_q * N) :=
  match n with
  | O => Some ([], off)
  | S k =>
    match ref_question d off with
    | Some (q, o) =>
      match ref_questions k d o with Some (qs, o') => Some (q :: qs, o') | None => None end
    | None => None
    end
  end.

Fixpoint ref_records (n : nat) (d : bytes) (off : N) : option (list ref_rr * N) :=
  match n with
  | O => Some ([], off)
  | S k =>
    match ref_record d off with
    | Some (r, o) =>
      match ref_records k d o with Some (rs, o') => Some (r :: rs, o') | None => None end
    | None => None
    end
  end.

Record ref_msg : Type := mkRefMsg {
  fm_id : N; fm_flags : N;
  fm_questions : list ref_q;
  fm_answers : list ref_rr; fm_authorities : list ref_rr; fm_additionals : list ref_rr }.

(* A datagram parses iff the four header counts are exactly the numbers of entries present
   and the entries use up the datagram exactly. *)
Definition ref_parse (d : bytes) : option ref_msg :=
  match ref_u16 d 0, ref_u16 d 2, ref_u16 d 4, ref_u16 d 6, ref_u16 d 8, ref_u16 d 10 with
  | Some id, Some fl, Some nq, Some na, Some nn, Some nr =>
    match ref_questions (N.to_nat nq) d 12 with
    | Some (qs, o1) =>
      match ref_records (N.to_nat na) d o1 with
      | Some (an, o2) =>
        match ref_records (N.to_nat nn) d o2 with
        | Some (ns, o3) =>
          match ref_records (N.to_nat nr) d o3 with
          | Some (ar, o4) =>
            if o4 =? N.of_nat (length d) then Some (mkRefMsg id fl qs an ns ar) else None
          | None => None
          end
        | None => None
        end
      | None => None
      end
    | None => None
    end
  | _, _, _, _, _, _ => None
  end.
