(* C10  Known answers suppress exactly what they should, on both sides.
   Only statements here; every proof is `exact <lemma>` (lemmas in Proofs/LifeProofs.v,
   Proofs/LifeCacheProofs.v, Proofs/LifeRespProofs.v).  Model: Model/Life.v (matches,
   suppressed_by_answer, add_answer, add_answer_with_additionals), Model/LifeCache.v
   (known_answers = get_known_answers + update_ttl), Model/LifeResp.v (answer assembly of
   handle_query); property text with literal numbers: Model/LifeSpec.v (same_record,
   suppress_spec), Model/LifeCacheSpec.v (ka_spec), Model/LifeResp.v (resp_spec). *)
From Coq Require Import List NArith Bool.
From Mdns Require Import Res Bytes Rec Life LifeSpec LifeCache LifeCacheSpec LifeResp
  LifeProofs LifeCacheProofs LifeRespProofs.
Import ListNotations.
Open Scope N_scope.

(* ---- the suppression relation ---- *)

(* The code's test `other.ttl > self.ttl / 2` (u32 integer division) is exactly
   2 * ttl(theirs) > ttl(mine): for odd TTLs too, exactly-half never suppresses. *)
Theorem C10_suppress_iff : forall mine tm theirs tt,
  suppressed_by_answer mine tm theirs tt = true <-> matches mine theirs = true /\ tm < 2 * tt.
Proof. exact suppress_iff. Qed.

(* above half suppresses; exactly half and below never do (e.g. mine = 5: 3 suppresses, 2 not) *)
Theorem C10_suppress_boundary : forall mine tm theirs tt,
  matches mine theirs = true ->
  (2 * tt > tm -> suppressed_by_answer mine tm theirs tt = true) /\
  (2 * tt <= tm -> suppressed_by_answer mine tm theirs tt = false).
Proof. exact suppress_boundary. Qed.

(* what `matches` compares: owner name byte for byte, type, class, CACHE-FLUSH BIT, record kind
   and RDATA, and for addresses the interface *)
Theorem C10_matches_iff : forall a b,
  matches a b = true <->
  i_data a = i_data b /\ i_name a = i_name b /\ i_type a = i_type b /\ i_class a = i_class b /\
  i_flush a = i_flush b /\ (is_addr_data (i_data a) = true -> i_if a = i_if b).
Proof. exact matches_iff. Qed.

(* the property's "same record (owner, type, class, RDATA)" does not include the cache-flush bit *)
Theorem C10_matches_vs_same_record : forall a b,
  matches a b = same_record a b && Bool.eqb (i_flush a) (i_flush b).
Proof. exact matches_same_record. Qed.

(* so the code agrees with the property text whenever the flush bits are equal ... *)
Theorem C10_suppress_agrees_with_text : forall mine tm theirs tt,
  i_flush mine = i_flush theirs ->
  suppressed_by_answer mine tm theirs tt = suppress_spec mine tm theirs tt.
Proof. exact suppress_agrees_with_spec. Qed.

(* ... and the full statement "suppressed iff same record and TTL above half" is FALSE of the
   code: a known answer without the cache-flush bit (the form RFC 6762 10.2 prescribes for
   known answers) never suppresses a unique record (SRV, TXT, A, AAAA).
   Full statement: forall mine tm theirs tt, suppressed_by_answer mine tm theirs tt = suppress_spec mine tm theirs tt. *)
Theorem C10_suppress_refuted :
  exists mine tm theirs tt,
    suppress_spec mine tm theirs tt = true /\ suppressed_by_answer mine tm theirs tt = false.
Proof. exact suppress_flush_refuted. Qed.

Theorem C10_flush_bit_differs_never_suppresses : forall mine tm theirs tt,
  i_flush mine <> i_flush theirs -> suppressed_by_answer mine tm theirs tt = false.
Proof. exact suppress_flush_bit_differs. Qed.

(* monitor theorem (record level) *)
Theorem C10_rel_monitor : forall mine tm theirs tt,
  i_flush mine = i_flush theirs ->
  chk_C10_rel mine tm theirs tt (matches mine theirs) (rrdata_match mine theirs)
    (suppressed_by_answer mine tm theirs tt) = true.
Proof. exact chk_C10_rel_sound. Qed.

(* ---- responder ---- *)

(* add_answer drops the answer iff some known answer of the query suppresses it *)
Theorem C10_add_answer_dropped_iff : forall kas out a,
  snd (add_answer kas out a) = false <->
  exists k, In k kas /\ matches (o_id a) (fst k) = true /\ o_ttl a < 2 * snd k.
Proof. exact add_answer_dropped_iff. Qed.

(* a suppressed PTR takes ALL its additionals with it; an unsuppressed one brings all of them *)
Theorem C10_ptr_and_additionals_together : forall kas out ptr adds,
  add_answer_with_additionals kas out true ptr adds =
  if suppressed_by (o_id ptr) (o_ttl ptr) kas
  then mkOut (out_answers out) (out_additionals out) (out_suppressed out + 1)
  else mkOut (out_answers out ++ [ptr]) (out_additionals out ++ adds) (out_suppressed out).
Proof. exact add_answer_with_additionals_spec. Qed.

(* the whole response to a query (any questions, any known answers): outside the two listed
   deviations it is exactly what the property prescribes - every unsuppressed candidate answer
   with the additionals it brings, nothing of a suppressed one, silence if nothing is left *)
Theorem C10_response_agrees_with_text : forall svcs qs kas,
  Forall (cand_agree kas) (flat_map (question_cands svcs) qs) ->
  resp_predict svcs qs kas = resp_spec svcs qs kas.
Proof. exact resp_agrees_with_text. Qed.

(* Full statement (forall svcs qs kas, resp_predict svcs qs kas = resp_spec svcs qs kas) is FALSE
   of the code, in two ways: *)
Theorem C10_response_srv_additionals_refuted :
  exists svcs qs kas, resp_predict svcs qs kas <> resp_spec svcs qs kas /\
    resp_predict svcs qs kas = Some ([sv_txt ex_svc], sv_addrs ex_svc) /\
    resp_spec svcs qs kas = Some ([sv_txt ex_svc], []).
Proof. exact resp_srv_additionals_refuted. Qed.

Theorem C10_response_flush_bit_refuted :
  exists svcs qs kas, resp_spec svcs qs kas = None /\ resp_predict svcs qs kas <> None.
Proof. exact resp_flush_bit_refuted. Qed.

(* ---- querier ---- *)

(* the known-answer list built for a question from the cache Vec: exactly the shared records
   that have not passed half of their life, each with TTL ttl - (now - created)/1000; the u32
   subtraction of update_ttl cannot underflow there (no Panic) *)
Theorem C10_known_answers_spec : forall (b : tbucket) now,
  Forall entry_ok b -> known_answers trec trec_ops b now = Ok (ka_spec b now).
Proof. exact known_answers_spec. Qed.

Theorem C10_known_answer_listed_only_if : forall (b : tbucket) now id ttl,
  In (id, ttl) (ka_spec b now) ->
  exists e, In e b /\ id = c_id e /\ i_flush id = false /\
            now <= t_created (c_t e) + 500 * t_ttl (c_t e) /\
            ttl = t_ttl (c_t e) - (now - t_created (c_t e)) / 1000 /\
            t_ttl (c_t e) - t_ttl (c_t e) / 2 <= ttl.
Proof. exact ka_spec_in. Qed.

Theorem C10_known_answer_listed_if : forall (b : tbucket) now e,
  In e b -> i_flush (c_id e) = false -> now <= t_created (c_t e) + 500 * t_ttl (c_t e) ->
  In (c_id e, t_ttl (c_t e) - (now - t_created (c_t e)) / 1000) (ka_spec b now).
Proof. exact ka_spec_complete. Qed.

(* update_ttl in general: panics exactly when more whole seconds have elapsed than the TTL *)
Theorem C10_update_ttl_panics_iff : forall r now,
  update_ttl r now = Panic <->
  t_created r < now /\ t_ttl r < ((now - t_created r) / 1000) mod U32.
Proof. exact update_ttl_panic_iff. Qed.

Theorem C10_update_ttl_safe_under_halflife : forall r now,
  t_ttl r < U32 -> now <= t_created r + 500 * t_ttl r ->
  update_ttl r now = Ok (set_ttl r (ka_ttl_spec (t_ttl r) (t_created r) now))
  /\ (now - t_created r) / 1000 <= t_ttl r / 2.
Proof. exact update_ttl_under_halflife. Qed.

(* ---- non-vacuity ---- *)
Example C10_example_boundary :
  let p := mkId [116;46] TY_PTR 1 false (RPtr [105;46]) 0 in
  suppressed_by_answer p 5 p 3 = true /\ suppressed_by_answer p 5 p 2 = false /\
  suppressed_by_answer p 4500 p 2251 = true /\ suppressed_by_answer p 4500 p 2250 = false.
Proof. repeat split; vm_compute; reflexivity. Qed.

Example C10_example_ptr_suppressed :
  resp_predict [ex_svc] [(ex_ty, TY_PTR)] [(o_id (sv_ptr ex_svc), 2251)] = None /\
  resp_predict [ex_svc] [(ex_ty, TY_PTR)] [(o_id (sv_ptr ex_svc), 2250)]
  = Some ([sv_ptr ex_svc], [sv_srv ex_svc; sv_txt ex_svc] ++ sv_addrs ex_svc).
Proof. exact resp_ptr_example. Qed.

Example C10_example_known_answers :
  let p (k : N) fl := mkId [116;46] TY_PTR 1 fl (RPtr [105; k; 46]) 0 in
  known_answers trec trec_ops
    [ mkC (p 1 false) (mkT 10 1000000 1010000 1008000);     (* 3.9 s old: listed with TTL 7 *)
      mkC (p 2 true)  (mkT 10 1000000 1010000 1008000);     (* unique: never listed *)
      mkC (p 3 false) (mkT 10 998000 1008000 1006000) ]     (* 5.9 s old of 10: past half life *)
    1003900
  = Ok [ (p 1 false, 7) ].
Proof. vm_compute. reflexivity. Qed.

Print Assumptions C10_suppress_iff.
Print Assumptions C10_suppress_boundary.
Print Assumptions C10_matches_iff.
Print Assumptions C10_matches_vs_same_record.
Print Assumptions C10_suppress_agrees_with_text.
Print Assumptions C10_suppress_refuted.
Print Assumptions C10_flush_bit_differs_never_suppresses.
Print Assumptions C10_rel_monitor.
Print Assumptions C10_add_answer_dropped_iff.
Print Assumptions C10_ptr_and_additionals_together.
Print Assumptions C10_response_agrees_with_text.
Print Assumptions C10_response_srv_additionals_refuted.
Print Assumptions C10_response_flush_bit_refuted.
Print Assumptions C10_known_answers_spec.
Print Assumptions C10_known_answer_listed_only_if.
Print Assumptions C10_known_answer_listed_if.
Print Assumptions C10_update_ttl_panics_iff.
Print Assumptions C10_update_ttl_safe_under_halflife.
