(* C10  Known answers suppress exactly what they should, on both sides.
   Only statements here; every proof is `exact <lemma>` (lemmas in Proofs/LifeProofs.v,
   Proofs/LifeCacheProofs.v, Proofs/LifeRespProofs.v).  Model: Model/Life.v (matches,
   suppressed_by_answer, add_answer, add_answer_with_additionals), Model/LifeCache.v
   (known_answers = get_known_answers + update_ttl), Model/LifeResp.v (answer assembly of
   handle_query); property text with literal numbers: Model/LifeSpec.v (same_record,
   suppress_spec), Model/LifeCacheSpec.v (ka_spec), Model/LifeResp.v (resp_spec). *)
From Coq Require Import List NArith Bool.
From Mdns Require Import Res Bytes Rec Life LifeSpec LifeCache LifeCacheSpec LifeResp
  LifeProofs LifeCacheProofs LifeRespProofs LifeKaHistProofs.
Import ListNotations.
Open Scope N_scope.

(* ---- the suppression relation ---- *)

(* "that same record (owner, type, class, RDATA)" = same_record (Model/LifeSpec.v): the
   cache-flush bit is not part of it; addresses are tied to their interface.
   suppressed_by_answer is EXACTLY the property text: same record and 2 * ttl(theirs) > ttl(mine);
   the code's `other.ttl > self.ttl / 2` (u32 integer division) is that, for odd TTLs too. *)
Theorem C10_suppress_iff : forall mine tm theirs tt,
  suppressed_by_answer mine tm theirs tt = true <-> same_record mine theirs = true /\ tm < 2 * tt.
Proof. exact suppress_iff. Qed.

Theorem C10_suppress_is_text : forall mine tm theirs tt,
  suppressed_by_answer mine tm theirs tt = suppress_spec mine tm theirs tt.
Proof. exact suppress_eq_spec. Qed.

(* above half suppresses; exactly half and below never do (e.g. mine = 5: 3 suppresses, 2 not) *)
Theorem C10_suppress_boundary : forall mine tm theirs tt,
  same_record mine theirs = true ->
  (2 * tt > tm -> suppressed_by_answer mine tm theirs tt = true) /\
  (2 * tt <= tm -> suppressed_by_answer mine tm theirs tt = false).
Proof. exact suppress_boundary. Qed.

(* what same_record compares: owner name byte for byte, type, class, record kind and RDATA, and
   for addresses the interface - never when the record differs *)
Theorem C10_same_record_iff : forall a b,
  same_record a b = true <->
  i_data a = i_data b /\ i_name a = i_name b /\ i_type a = i_type b /\ i_class a = i_class b /\
  (is_addr_data (i_data a) = true -> i_if a = i_if b).
Proof. exact same_record_iff. Qed.

(* `matches` (the cache's identity test) is same_record plus the cache-flush bit *)
Theorem C10_matches_vs_same_record : forall a b,
  matches a b = same_record a b && Bool.eqb (i_flush a) (i_flush b).
Proof. exact matches_same_record. Qed.

(* monitor theorem (record level), for all pairs of records *)
Theorem C10_rel_monitor : forall mine tm theirs tt,
  chk_C10_rel mine tm theirs tt (matches mine theirs) (rrdata_match mine theirs)
    (suppressed_by_answer mine tm theirs tt) = true.
Proof. exact chk_C10_rel_sound. Qed.

(* ---- responder ---- *)

(* add_answer drops the answer iff some known answer of the query suppresses it *)
Theorem C10_add_answer_dropped_iff : forall kas out a,
  snd (add_answer kas out a) = false <->
  exists k, In k kas /\ same_record (o_id a) (fst k) = true /\ o_ttl a < 2 * snd k.
Proof. exact add_answer_dropped_iff. Qed.

(* a suppressed PTR takes ALL its additionals with it; an unsuppressed one brings all of them *)
Theorem C10_ptr_and_additionals_together : forall kas out ptr adds,
  add_answer_with_additionals kas out true ptr adds =
  if suppressed_by (o_id ptr) (o_ttl ptr) kas
  then mkOut (out_answers out) (out_additionals out) (out_suppressed out + 1)
  else mkOut (out_answers out ++ [ptr]) (out_additionals out ++ adds) (out_suppressed out).
Proof. exact add_answer_with_additionals_spec. Qed.

(* the whole response to a query, for every set of services (with or without subtype), every
   question list and every known-answer list: exactly what the property prescribes - every
   unsuppressed candidate answer with the additionals it brings, nothing of a suppressed one
   (resp_spec: step_spec), silence if no answer is left *)
Theorem C10_response_is_text : forall svcs qs kas,
  resp_predict svcs qs kas = resp_spec svcs qs kas.
Proof. exact resp_is_text. Qed.

Theorem C10_suppressed_brings_nothing : forall kas out c,
  suppressed_spec (cd_answer c) kas = true ->
  out_answers (step_spec kas out c) = out_answers out /\
  out_additionals (step_spec kas out c) = out_additionals out.
Proof. exact suppressed_brings_nothing. Qed.

Theorem C10_unsuppressed_brings_all : forall kas out c,
  cd_has_addrs c = true -> suppressed_spec (cd_answer c) kas = false ->
  out_answers (step_spec kas out c) = out_answers out ++ [cd_answer c] /\
  out_additionals (step_spec kas out c) = out_additionals out ++ cd_adds c.
Proof. exact unsuppressed_brings_all. Qed.

(* ---- querier ---- *)

(* the known-answer list built for a question from the cache Vec: exactly the shared records
   that have not passed half of their life, each with TTL ttl - (now - created)/1000; the u32
   subtraction of update_ttl cannot underflow there (no Panic) *)
Theorem C10_known_answers_spec : forall (b : tbucket) now,
  Forall entry_ok b -> known_answers trec trec_ops b now = Ok (ka_spec b now).
Proof. exact known_answers_spec. Qed.

Theorem C10_known_answer_listed_only_if : forall (b : tbucket) now id ttl,
  In (id, ttl) (ka_spec b now) ->
  exists e, In e b /\ id = c_id e /\ i_flush id = false /\
            now <= t_created (c_t e) + 500 * t_ttl (c_t e) /\
            ttl = t_ttl (c_t e) - (now - t_created (c_t e)) / 1000 /\
            t_ttl (c_t e) - t_ttl (c_t e) / 2 <= ttl.
Proof. exact ka_spec_in. Qed.

Theorem C10_known_answer_listed_if : forall (b : tbucket) now e,
  In e b -> i_flush (c_id e) = false -> now <= t_created (c_t e) + 500 * t_ttl (c_t e) ->
  In (c_id e, t_ttl (c_t e) - (now - t_created (c_t e)) / 1000) (ka_spec b now).
Proof. exact ka_spec_complete. Qed.

(* The same over HISTORIES of the daemon-level model (the model C11_daemon_level_refinement is
   about): in every run, from every reachable cache, every query the model sends in an
   iteration - retransmitted browse / resolve queries and refresh queries alike - lists as known
   answers exactly ka_of_spec of the cache as it is once that iteration's records have been
   taken in: for each question the shared records cached under the question's key that have
   not passed half of their (possibly renewed) lifetime, each with its remaining TTL. *)
Theorem C10_history_known_answers : forall cfg steps obs,
  Forall step_ok steps -> model_run cfg steps = Ok obs ->
  Forall2 (fun s o => exists c c0, reach cfg c /\ ingest trec trec_ops c (ss_now s) (ss_recs s) = Ok c0 /\
             Forall (fun q => qd_answers q = ka_of_spec c0 (qd_questions q) (ss_now s)) (io_queries o)) steps obs.
Proof. exact model_run_known_answers. Qed.

Theorem C10_reachable_queries_known_answers : forall cfg c s c' o,
  reach cfg c -> step_ok s ->
  sim_iter trec trec_ops cfg c (ss_now s) (ss_nsb s) (ss_nsh s) (ss_recs s) = Ok (c', o) ->
  exists c0, ingest trec trec_ops c (ss_now s) (ss_recs s) = Ok c0 /\
             Forall (fun q => qd_answers q = ka_of_spec c0 (qd_questions q) (ss_now s)) (io_queries o).
Proof. exact reach_queries_good. Qed.

(* Full statement "never one with less than half of its lifetime left" is FALSE of the code
   (known finding C10-ka-shortened-record): a shared record flushed to expire in one second is
   still listed with the TTL computed from created/ttl (here: 1 s left of 10, listed with TTL 8). *)
Theorem C10_known_answers_shortened_refuted :
  exists (b : tbucket) now e ttl,
    In e b /\ In (c_id e, ttl) (ka_spec b now) /\
    t_expires (c_t e) < now + 500 * t_ttl (c_t e) /\ ttl = 8 /\ t_expires (c_t e) - now = 1000.
Proof. exact ka_shortened_refuted. Qed.

(* update_ttl in general: panics exactly when more whole seconds have elapsed than the TTL *)
Theorem C10_update_ttl_panics_iff : forall r now,
  update_ttl r now = Panic <->
  t_created r < now /\ t_ttl r < ((now - t_created r) / 1000) mod U32.
Proof. exact update_ttl_panic_iff. Qed.

Theorem C10_update_ttl_safe_under_halflife : forall r now,
  t_ttl r < U32 -> now <= t_created r + 500 * t_ttl r ->
  update_ttl r now = Ok (set_ttl r (ka_ttl_spec (t_ttl r) (t_created r) now))
  /\ (now - t_created r) / 1000 <= t_ttl r / 2.
Proof. exact update_ttl_under_halflife. Qed.

(* ---- non-vacuity ---- *)
Example C10_example_boundary :
  let p := mkId [116;46] TY_PTR 1 false (RPtr [105;46]) 0 in
  suppressed_by_answer p 5 p 3 = true /\ suppressed_by_answer p 5 p 2 = false /\
  suppressed_by_answer p 4500 p 2251 = true /\ suppressed_by_answer p 4500 p 2250 = false.
Proof. repeat split; vm_compute; reflexivity. Qed.

Example C10_example_ptr_suppressed :
  resp_predict [ex_svc] [(ex_ty, TY_PTR); (ex_name, TY_TXT)] [(o_id (sv_ptr ex_svc), 2251)]
  = Some ([sv_txt ex_svc], []) /\
  resp_predict [ex_svc] [(ex_ty, TY_PTR)] [(o_id (sv_ptr ex_svc), 2251)] = None /\
  resp_predict [ex_svc] [(ex_ty, TY_PTR)] [(o_id (sv_ptr ex_svc), 2250)]
  = Some ([sv_ptr ex_svc], sub_list ex_svc ++ [sv_srv ex_svc; sv_txt ex_svc] ++ sv_addrs ex_svc).
Proof. exact resp_ptr_suppressed_example. Qed.

Example C10_example_srv_without_flush_bit :
  resp_predict [ex_svc] [(ex_name, TY_SRV); (ex_name, TY_TXT)]
    [(mkId ex_name TY_SRV 1 false (RSrv 0 0 80 ex_host) 2, 100)] = Some ([sv_txt ex_svc], []).
Proof. exact resp_srv_example. Qed.

(* a browse of "t.": two shared PTR records (TTL 10 and 30) arrive; the browse query retransmitted
   3.9 s later lists both with their remaining TTLs, the one 5.9 s later only the second *)
Example C10_example_history :
  let p (k ttl : N) := (mkId [116;46] TY_PTR 1 false (RPtr [105; k; 46]) 2, ttl) in
  model_run (mkCfg (Some [116;46]) None)
    [ mkStep 1000000 1 0 [p 1 10; p 2 30]; mkStep 1003900 1 0 []; mkStep 1005900 1 0 [] ]
  = Ok [ mkIO [mkQD [([116;46], TY_PTR)] [(fst (p 2 0), 30); (fst (p 1 0), 10)]] [] [];
         mkIO [mkQD [([116;46], TY_PTR)] [(fst (p 2 0), 27); (fst (p 1 0), 7)]] [] [];
         mkIO [mkQD [([116;46], TY_PTR)] [(fst (p 2 0), 25)]] [] [] ].
Proof. vm_compute. reflexivity. Qed.

Example C10_example_known_answers :
  let p (k : N) fl := mkId [116;46] TY_PTR 1 fl (RPtr [105; k; 46]) 0 in
  known_answers trec trec_ops
    [ mkC (p 1 false) (mkT 10 1000000 1010000 1008000);     (* 3.9 s old: listed with TTL 7 *)
      mkC (p 2 true)  (mkT 10 1000000 1010000 1008000);     (* unique: never listed *)
      mkC (p 3 false) (mkT 10 998000 1008000 1006000) ]     (* 5.9 s old of 10: past half life *)
    1003900
  = Ok [ (p 1 false, 7) ].
Proof. vm_compute. reflexivity. Qed.

Print Assumptions C10_suppress_iff.
Print Assumptions C10_suppress_is_text.
Print Assumptions C10_suppress_boundary.
Print Assumptions C10_same_record_iff.
Print Assumptions C10_matches_vs_same_record.
Print Assumptions C10_rel_monitor.
Print Assumptions C10_add_answer_dropped_iff.
Print Assumptions C10_ptr_and_additionals_together.
Print Assumptions C10_response_is_text.
Print Assumptions C10_suppressed_brings_nothing.
Print Assumptions C10_unsuppressed_brings_all.
Print Assumptions C10_known_answers_spec.
Print Assumptions C10_known_answer_listed_only_if.
Print Assumptions C10_known_answer_listed_if.
Print Assumptions C10_history_known_answers.
Print Assumptions C10_reachable_queries_known_answers.
Print Assumptions C10_known_answers_shortened_refuted.
Print Assumptions C10_update_ttl_panics_iff.
Print Assumptions C10_update_ttl_safe_under_halflife.
