(* C12, registry layer: no time-driven work of the probing / announcing / goodbye layer is left
   overdue by an iteration, and everything pending is covered by the model's due work.
   Only statements here; every proof is `exact <lemma>` (Proofs/RegistryHistoryProofs.v,
   RegistryDaemonProofs.v).

   Model: Model/RegistryDaemon.v.  The model has no timer heap of its own: its wake-up request is
   due_work st = the minimum over the retransmission queue (announcement repeats = RegisterResend,
   goodbye repeats = UnregisterResend) and the next_send of every probe in every registry.  The
   wake-up the REAL daemon requests is held against due_work on every iteration of every generated
   history (chk_C07 code 34, chk_C09 code 4: requested wake-up <= due work).  What is proved here, for
   ALL histories of the model (any interface and OS tables, datagrams incl. responses, calls incl.
   enable/disable_interface, jitter values, iteration times):
     (a) coverage: a probe step / announcement repeat / goodbye repeat pending at time t implies
         due_work <= t  (every state);
     (b) no overdue work: after every iteration that leaves the daemon running, every queue entry is
         due after `now` and every probe of every interface the daemon has is due at `now` or later -
         each action is performed in the first iteration at or after its due time;
   so a daemon that is woken no later than due_work (the monitored clause) performs every action of
   this layer when due.  NOT modelled here: the timer heap itself (pushes and pops), the interface
   check, the spin clause (next wake-up in the future when nothing is due). *)
From Coq Require Import List NArith Bool.
From Mdns Require Import Bytes Rec ParamsRegistry Names WireOut Registry RegistryDaemon RegistrySpec
     RegistryParamsPinned RegistryProofs RegistryDaemonProofs RegistryLiftProofs RegistryHistoryProofs RegistryWitnesses
     RegistryWitnessProofs.
Import ListNotations.
Open Scope N_scope.

(* (a) coverage, queue entries: announcement repeats and goodbye repeats *)
Theorem C12R_due_work_covers_queue : forall st t c,
  In (t, c) (d_retrans st) -> exists d, due_work st = Some d /\ d <= t.
Proof. exact due_work_covers_retrans. Qed.

(* (a) coverage, probe steps (incl. the retry after a lost tie-break: it is the probe's next_send) *)
Theorem C12R_due_work_covers_probe : forall st k rg n p,
  nget k (d_regs st) = Some rg -> In (n, p) (rg_probing rg) -> exists d, due_work st = Some d /\ d <= pb_next p.
Proof. exact due_work_covers_probe. Qed.

(* (b) no overdue queue entry after an iteration (every state, hence every history) *)
Theorem C12R_no_overdue_queue_entry : forall st it st' os js,
  iterate st it = (st', os, Running, js) -> Forall (fun e => it_now it < fst e) (d_retrans st').
Proof. exact iterate_queue_future. Qed.

(* (b) no overdue probe step after an iteration, ALL HISTORIES (invariant behind it: in every
   registry of every reachable state the probing names are pairwise different) *)
Theorem C12R_no_overdue_probe_all_histories : forall ifs os its it st' outs js,
  iterate (run_state (d_init_os ifs os) its) it = (st', outs, Running, js) ->
  forall itf rg, In itf (d_intfs st') -> nget (if_index itf) (d_regs st') = Some rg -> probes_ge (it_now it) rg.
Proof. exact no_overdue_probe_all_histories. Qed.

Theorem C12R_probing_names_distinct_all_histories : forall ifs os its, regs_nodup (run_state (d_init_os ifs os) its).
Proof. exact regs_nodup_all_histories. Qed.

(* non-vacuity: on the unregister witness, after the iteration at +145 ms both probes are due at +395,
   after the announcement at +895 its repeat is queued for +1895, after the unregister at +2500 the
   goodbye repeat is queued for +2620 *)
Example C12R_example :
  next_sends (state_after w_unregister_ifs w_unregister_its 2) = [[1000395; 1000395]] /\
  next_sends (state_after w_unregister_ifs w_unregister_its 5) = [[]] /\
  queue_times (state_after w_unregister_ifs w_unregister_its 5) = [1001895] /\
  queue_times (state_after w_unregister_ifs w_unregister_its 7) = [1002620].
Proof.
  exact (conj (proj1 w_unregister_next_sends) (conj (proj2 w_unregister_next_sends)
        (conj (proj1 w_unregister_queue) (proj1 (proj2 w_unregister_queue))))).
Qed.

Print Assumptions C12R_due_work_covers_queue.
Print Assumptions C12R_due_work_covers_probe.
Print Assumptions C12R_no_overdue_queue_entry.
Print Assumptions C12R_no_overdue_probe_all_histories.
Print Assumptions C12R_probing_names_distinct_all_histories.
Print Assumptions C12R_example.
