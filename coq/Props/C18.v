(* C18  Each interface is its own link; nothing leaks or outlives its removal.
   Only statements here; every proof is `exact <lemma>` (Proofs/IntfProofs.v, IntfCacheProofs.v,
   IntfDaemonProofs.v, IntfHistoryProofs.v, IntfRemovalProofs.v, IntfCheckerProofs.v, ResponderProofs.v,
   C18Witness.v).

   Models: Model/Intf.v (IfKind::matches, resolve_addr_to_index, selected_intfs,
   valid_ip_on_intf, get_addrs_on_my_intf_v4/v6), Model/IntfCache.v (remove_records_on_intf,
   remove_addrs_on_disabled_intf over a list-based cache), Model/IntfDaemon.v (the daemon
   restricted to what C18 observes; validated against the Rust on every run),
   Model/C18Spec.v (chk_C18, the checker run on every trace). *)
From Coq Require Import List NArith Bool.
From Mdns Require Import Res Bytes Rec Intf IntfCache Responder ResponderSpec IntfDaemon C18Spec
     IntfProofs IntfCacheProofs IntfDaemonProofs ResponderProofs IntfHistoryProofs IntfRemovalProofs IntfCheckerProofs
     ResponderWitness C18Witness.
Import ListNotations.
Open Scope N_scope.

(* ---- enable / disable selections: the last match wins --------------------------------------------- *)

(* for ALL lists of selections (every IfKind constructor except Predicate) and ALL interface
   tables: the selected entries are those whose last matching selection enables them; an entry no
   selection matches is enabled *)
Theorem C18_selection_last_match_wins : forall sels tbl,
  selected_intfs sels tbl = filter (last_match sels) tbl.
Proof. exact selection_last_match_wins. Qed.

(* apply_intf_selections computes the same marks *)
Theorem C18_apply_marks_last_match : forall sels tbl,
  selection_marks ParamsResponder.apply_selection_default sels tbl = map (last_match sels) tbl.
Proof. exact apply_marks_last_match. Qed.

(* call order: a later enable / disable overrides the earlier ones exactly on the entries it matches *)
Theorem C18_later_call_overrides : forall sels k en i,
  last_match (sels ++ [(k, en)]) i = if kind_matches k i then en else last_match sels i.
Proof. exact last_match_snoc. Qed.

(* Addr(ip) is resolved when the call is made: to "that interface, that IP family" if the
   address is on an interface at that moment, and stays an address match otherwise *)
Theorem C18_addr_resolved_at_call_time : forall a tbl i,
  find (fun i => ip_eqb (i_ip i) a) tbl = Some i ->
  resolve_addr_to_index (KAddr a) tbl = if is_v4 a then KIndexV4 (i_index i) else KIndexV6 (i_index i).
Proof. exact resolve_addr_present. Qed.

Theorem C18_addr_unresolved_stays : forall a tbl,
  find (fun i => ip_eqb (i_ip i) a) tbl = None -> resolve_addr_to_index (KAddr a) tbl = KAddr a.
Proof. exact resolve_addr_absent. Qed.

(* the interface table: after apply_intf_selections an (interface, address) pair named by the
   table is held iff its last matching selection enables it; other pairs are untouched *)
Theorem C18_interface_table_after_apply : forall now d tbl idx a,
  let d' := fst (apply_intf_selections now d tbl) in
  held (d_intfs d') idx a =
  match find (fun e => key_is e idx a) (rev tbl) with
  | Some e => last_match (d_sels d) e
  | None => held (d_intfs d) idx a
  end
  /\ d_sels d' = d_sels d.
Proof. exact interface_table_after_apply. Qed.

(* ... and after every IP check the daemon holds EXACTLY the pairs of the OS table whose last
   matching selection enables them, whatever it held before and whenever the selections were
   made: selections also govern interfaces that show up later, and what disappeared is dropped *)
Theorem C18_interface_table_after_check : forall now d idx a,
  let d' := fst (check_ip_changes now d) in
  held (d_intfs d') idx a =
  match find (fun e => key_is e idx a) (rev (d_os d)) with
  | Some e => last_match (d_sels d) e
  | None => false
  end
  /\ d_sels d' = d_sels d /\ d_os d' = d_os d.
Proof. exact interface_table_after_check. Qed.

(* ---- subnets ----------------------------------------------------------------------------------------- *)

(* valid_ip_on_intf = equality under the netmask, for all addresses and all masks, IPv4 (32 bit)
   and IPv6 (128 bit): same family and agreement on every bit the mask selects *)
Theorem C18_valid_ip_is_equality_under_mask : forall a x,
  valid_ip_on_intf a x = true <->
  same_family a (ia_ip x) /\
  (forall n, N.testbit (ia_mask x) n = true -> N.testbit (ip_num a) n = N.testbit (ip_num (ia_ip x)) n).
Proof. exact valid_ip_on_intf_spec. Qed.

Theorem C18_valid_ip_prefix_v4 : forall a i p, p <= 32 -> a < 2 ^ 32 -> i < 2 ^ 32 ->
  valid_ip_on_intf (V4 a) (mkIfAddr (V4 i) (N.shiftl (N.ones p) (32 - p))) = true
  <-> N.shiftr a (32 - p) = N.shiftr i (32 - p).
Proof. exact valid_ip_prefix_v4. Qed.

Theorem C18_valid_ip_prefix_v6 : forall a i p, p <= 128 -> a < 2 ^ 128 -> i < 2 ^ 128 ->
  valid_ip_on_intf (V6 a) (mkIfAddr (V6 i) (N.shiftl (N.ones p) (128 - p))) = true
  <-> N.shiftr a (128 - p) = N.shiftr i (128 - p).
Proof. exact valid_ip_prefix_v6. Qed.

(* only_on_matching_subnet: get_addrs_on_my_intf_v4 / _v6 return exactly the service's addresses
   of that family that lie in a subnet of an address of the interface *)
Theorem C18_addrs_on_intf_v4 : forall addrs intf a,
  In a (addrs_on_intf_v4 addrs intf) <->
  In a addrs /\ is_v4 a = true /\ exists x, In x (mi_addrs intf) /\ valid_ip_on_intf a x = true.
Proof. exact addrs_on_intf_v4_spec. Qed.

Theorem C18_addrs_on_intf_v6 : forall addrs intf a,
  In a (addrs_on_intf_v6 addrs intf) <->
  In a addrs /\ is_v4 a = false /\ exists x, In x (mi_addrs intf) /\ valid_ip_on_intf a x = true.
Proof. exact addrs_on_intf_v6_spec. Qed.

(* announcements (also the repeated ones and those for a new address of a service with
   automatic addresses) leave on an interface only if the service has an address of the socket's
   family in one of its subnets, and carry only such addresses *)
Theorem C18_announcement_only_link_addresses : forall s intf v4 p,
  announce_on s intf v4 = Some p ->
  intf_addrs_of v4 s intf <> [] /\
  forall r o, In r (p_answers p) -> r_data r = RAddr o ->
    exists a x, In a (s_addrs s) /\ o = ip_octets a /\ is_v4 a = v4 /\
                In x (mi_addrs intf) /\ valid_ip_on_intf a x = true.
Proof. exact announcement_carries_link_addresses. Qed.

(* goodbyes likewise (they are sent only on interfaces where the service is Announced: the
   model's do_unregister, bd59ecc) *)
Theorem C18_goodbye_only_link_addresses : forall s intf v4 p,
  goodbye_on s intf v4 = Some p ->
  forall r o, In r (p_answers p) -> r_data r = RAddr o ->
    exists a x, In a (s_addrs s) /\ o = ip_octets a /\ is_v4 a = v4 /\
                In x (mi_addrs intf) /\ valid_ip_on_intf a x = true.
Proof. exact goodbye_carries_link_addresses. Qed.

(* and every address record of a response to a query (answers and additionals, all question
   types) is an address of a registered service inside a subnet of the receiving interface *)
Theorem C18_response_only_link_addresses : forall inp p,
  wf_input inp = true -> handle_query inp = Some p ->
  Forall (addr_rec_on_link inp) (p_answers p ++ p_additionals p).
Proof. exact response_carries_link_addresses. Qed.

(* ---- an interface disappears: remove_records_on_intf (intf_removal_spec) ------------------------------ *)

(* (1) an instance is reported removed under a type iff it had a PTR of that type learned on the
       interface and none learned elsewhere *)
Theorem C18_intf_removal_reports_removed : forall c id ty inst,
  (exists l, In (ty, l) (rm_removed (remove_records_on_intf c id)) /\ In inst l) <->
  exists records, In (ty, records) (c_ptr c) /\
    (exists r, In r records /\ on_intf id r = true /\ alias_of r = Some inst) /\
    (forall r, In r records -> alias_of r = Some inst -> on_intf id r = true).
Proof. exact removal_reports_removed. Qed.

(* (2) everything learned on the interface is gone; nothing else is, except the SRV / TXT records
       of the instances reported removed; no empty entries stay behind *)
Theorem C18_intf_removal_cache_contents : forall c id,
  let c' := rm_cache (remove_records_on_intf c id) in
  (forall k r, In_table (c_ptr c') k r <-> In_table (c_ptr c) k r /\ on_intf id r = false) /\
  (forall k r, In_table (c_srv c') k r <->
               In_table (c_srv c) k r /\ on_intf id r = false /\ mem k (removed_set c id) = false) /\
  (forall k r, In_table (c_txt c') k r <->
               In_table (c_txt c) k r /\ on_intf id r = false /\ mem k (removed_set c id) = false) /\
  (forall k r, In_table (c_addr c') k r <-> In_table (c_addr c) k r /\ on_intf id r = false) /\
  (forall k r, In_table (c_nsec c') k r <-> In_table (c_nsec c) k r /\ on_intf id r = false) /\
  (forall k v, In (k, v) (c_ptr c') \/ In (k, v) (c_srv c') \/ In (k, v) (c_txt c') \/
               In (k, v) (c_addr c') \/ In (k, v) (c_nsec c') -> v <> []).
Proof. exact removal_cache_contents. Qed.

(* (3) an instance is reported modified (resolved again with what is left) iff it is not
       reported removed and lost an SRV or TXT record learned on the interface, or a remaining SRV
       record of it points to a host that lost an address record learned on the interface *)
Theorem C18_intf_removal_reports_modified : forall c id inst,
  let rmv := remove_records_on_intf c id in
  In inst (rm_modified rmv) <->
  (mem inst (removed_set c id) = false /\
   exists v, (In (inst, v) (c_srv c) \/ In (inst, v) (c_txt c)) /\ existsb (on_intf id) v = true)
  \/ (exists v r h, In (inst, v) (c_srv (rm_cache rmv)) /\ In r v /\ srv_host_of r = Some h /\
                    exists w, In (lower h, w) (c_addr c) /\ existsb (on_intf id) w = true).
Proof. exact removal_reports_modified. Qed.

(* an interface or one of its IP families is disabled: exactly the address records of that
   family learned on it are dropped, nothing else changes *)
Theorem C18_disabled_family_addresses_dropped : forall c idx t,
  let c' := remove_addrs_on_disabled_intf c idx t in
  c_ptr c' = c_ptr c /\ c_srv c' = c_srv c /\ c_txt c' = c_txt c /\ c_nsec c' = c_nsec c /\
  map fst (c_addr c') = map fst (c_addr c) /\
  forall k r, In_table (c_addr c') k r <->
              In_table (c_addr c) k r /\
              ((ii_index (c_src r) =? idx) && type_in t (r_type (c_rr r))) = false.
Proof. exact disabled_family_addresses_dropped. Qed.

(* the attribution these statements are relative to: a PTR / SRV / TXT record heard again on
   another interface stays attributed to the interface it was first learned on *)
Theorem C18_record_keeps_first_interface : forall r src records a,
  In a records -> crec_matches a r src = true -> insert_rec r src records = records.
Proof. exact insert_keeps_first_attribution. Qed.

(* ---- whole histories (theorems over ALL histories of Model/IntfDaemon.v, by induction over the
        list of steps; definitions in Proofs/IntfHistoryProofs.v) ----------------------------------------

   A history is an initial OS table and a list of steps (each: optional new OS table, datagrams,
   calls enable / disable / register / unregister / set_ip_check_interval / browse, the time; the
   model adds the due retransmissions and the IP check).  Hypotheses:
     uniq_keys / wf_steps : the OS reports an (interface, address) pair at most once per table;
     known_class = false  : at no step does the OS report again a pair the daemon still holds and
                            the selections made meanwhile disable (finding C18-selection-while-absent).
   Inv seen d (the invariant): the OS table has unique keys; my_intfs has one entry per index;
   every held pair that the OS reports is enabled by its last matching selection; the OS table and
   every held pair are among the pairs reported so far (`seen`); every goodbye waiting for its
   repetition was built for its interface (family, and address records at home there).
   pkt_just seen os sels p (why a packet may leave): there are an interface entry `intf` and an
   address a of it with the family of the packet such that: if the OS table `os` reports
   (intf, a), its last matching selection in `sels` enables it; the packet leaves on `intf`
   (egress_if); every address record of the packet is `ip_octets x` for an address x lying in the
   subnet of an address the OS has reported for that interface (seen_rec); every address of
   `intf` is one the OS has reported for that interface.
   run_just: in every iteration every packet satisfies pkt_just with the OS table of that
   iteration and one of the selection lists in force during it (before / between / after its
   enable and disable calls). *)

(* the invariant holds initially and in every reachable state *)
Theorem C18_invariant_initial : forall t0 os0, uniq_keys os0 -> Inv os0 (initial_state t0 os0).
Proof. exact Inv_initial. Qed.

Theorem C18_invariant_reachable : forall steps seen d,
  Inv seen d -> wf_steps steps -> known_class d steps = false ->
  Inv (seen_after seen d steps) (state_after d steps).
Proof. exact invariant_reachable. Qed.

(* one step preserves it and emits only justified packets *)
Theorem C18_step_preserves_invariant : forall seen d s, Inv seen d ->
  (forall tbl, st_os s = Some tbl -> uniq_keys tbl /\ hazard d tbl = false) ->
  let cur := match st_os s with Some tbl => tbl | None => d_os d end in
  let seen' := add_seen seen cur in
  Inv seen' (fst (iterate d s)) /\
  Forall (obs_just seen' cur (sel_states (d_sels d) cur (st_calls s))) (snd (iterate d s)).
Proof. exact iterate_ok. Qed.

(* (1) every packet emitted in any history outside the known class leaves on an interface the
       daemon holds, of a family that interface has, enabled by the last matching selection (if
       the OS reports it), and carries only addresses of that link *)
Theorem C18_every_packet_justified : forall t0 os0 steps,
  uniq_keys os0 -> wf_steps steps -> known_class (initial_state t0 os0) steps = false ->
  run_just os0 (initial_state t0 os0) steps.
Proof. exact history_packets_justified. Qed.

(* the known class is not empty, and there the checker rejects the model's own trace *)
Theorem C18_known_class_witness :
  uniq_keysb os_w2 = true /\ wf_stepsb h_absent = true /\ known_class (initial_state t0 os_w2) h_absent = true.
Proof. exact h_absent_in_class. Qed.

Theorem C18_history_refuted_selection_while_absent :
  chk_C18 os_w2 (model_history t0 os_w2 h_absent) = false.
Proof. exact h_absent_refutes. Qed.

(* non-vacuity of (1): a history with three kinds of selections, automatic and fixed addresses, an
   interface that disappears and one that shows up later, and an unregistration meets the
   hypotheses (and emits packets and IpAdd / IpDel events: C18_history_example) *)
Example C18_history_hypotheses_example :
  uniq_keysb os_ok = true /\ wf_stepsb h_ok = true /\ known_class (initial_state t0 os_ok) h_ok = false.
Proof. exact h_ok_hyps. Qed.

(* the repeated goodbye (120 ms after unregister) leaves through the interface it was built for
   (repaired in /repo, 694086c): the witness history meets the hypotheses, is accepted by the
   checker, and its two repetitions leave on interfaces 2 and 3 *)
Example C18_goodbye_repeat_on_its_interface :
  (uniq_keysb os_w1 = true /\ wf_stepsb h_goodbye = true /\ known_class (initial_state t0 os_w1) h_goodbye = false) /\
  chk_C18 os_w1 (model_history t0 os_w1 h_goodbye) = true /\
  last_ifs (run (initial_state t0 os_w1) h_goodbye) = [2; 3].
Proof. exact (conj h_goodbye_hyps h_goodbye_checked). Qed.

(* (2) nothing outlives its removal: after an IP check, in ANY state (hence in every history), no
       record of the cache (PTR, SRV, TXT, address, NSEC) is attributed to an interface the check
       removed (held, none of its addresses reported any more) *)
Theorem C18_check_forgets_removed_interfaces : forall now d m, gone d m ->
  no_src (d_cache (fst (check_ip_changes now d))) (mkIntfId (mi_name m) (mi_index m)).
Proof. exact check_forgets_removed_interfaces. Qed.

(* non-vacuity of (2): three records learned on eth1; eth1 disappears; the check empties the cache
   and reports IpDel and ServiceRemoved *)
Example C18_removal_example :
  gone d_before_removal m_eth1 /\ cache_size (d_cache d_before_removal) = 3%nat /\
  cache_size (d_cache (fst (check_ip_changes (t0 + 1000) d_before_removal))) = 0%nat /\
  snd (check_ip_changes (t0 + 1000) d_before_removal)
  = [OIpDel (ip4 10 2 0 10); ORemoved (r_name ptr_peer) (r_name srv_peer)].
Proof. exact removal_example. Qed.

(* (3) the executable checker accepts every run of the model.  Hypotheses, all decidable:
       unique (interface, address) pairs per OS table (uniq_keys / wf_steps); hist_wf = every netmask
       fits its family (< 2^32 / < 2^128: the subnet test on the 4 / 16 octets of an address record
       equals the test on the address itself) and no IPv4 address is reported on two interfaces
       anywhere in the history (the IPv4 socket is told an ADDRESS, so the interface a packet is
       seen to leave on is the one the daemon means); the history is outside known_class
       (finding C18-selection-while-absent).  Covers every clause of chk_C18: packets (enabled
       interface and family, on-link address records), IpAdd / IpDel, the addresses of resolved
       instances (cache invariant: every cached address record belongs to an interface the daemon
       holds), the order of IpDel / IpAdd within an IP check, and the last word about an address. *)
Theorem C18_checker_accepts_every_run : forall t0 os0 steps,
  uniq_keys os0 -> wf_steps steps -> hist_wf os0 steps = true ->
  known_class (initial_state t0 os0) steps = false ->
  chk_C18 os0 (model_history t0 os0 steps) = true.
Proof. exact checker_accepts_every_run. Qed.

(* non-vacuity: the example histories satisfy hist_wf (the others are in C18_history_hypotheses_example
   and below), also the witness of the known class, which the checker rejects *)
Example C18_checker_hypotheses_example :
  hist_wf os_ok h_ok = true /\ hist_wf os_w1 h_goodbye = true /\ hist_wf os_mv h_moved = true /\
  hist_wf os_mv h_held = true /\ hist_wf os_x h_xfam = true /\ hist_wf os_w2 h_absent = true.
Proof. exact witnesses_hist_wf. Qed.
Example C18_checker_hypotheses_example2 :
  (uniq_keysb os_mv = true /\ wf_stepsb h_moved = true /\ known_class (initial_state t0 os_mv) h_moved = false) /\
  (wf_stepsb h_held = true /\ known_class (initial_state t0 os_mv) h_held = false) /\
  (uniq_keysb os_x = true /\ wf_stepsb h_xfam = true /\ known_class (initial_state t0 os_x) h_xfam = false).
Proof. exact more_hyps. Qed.

(* the IPv4 hypothesis is needed: the same IPv4 address on eth0 and eth1, eth0 disabled by name, a
   service announced (on eth1): the packet is seen to leave on interface 2 - the first owner of
   the address given to IP_MULTICAST_IF - which is disabled, and the checker rejects the model's
   own trace.  (On a real host the kernel chooses among the interfaces owning the address.) *)
Example C18_same_ipv4_on_two_interfaces_example :
  hist_wf os_dup h_dup = false /\ uniq_keysb os_dup = true /\ known_class (initial_state t0 os_dup) h_dup = false /\
  last_ifs (run (initial_state t0 os_dup) h_dup) = [2] /\
  chk_C18 os_dup (model_history t0 os_dup h_dup) = false.
Proof. exact h_dup_facts. Qed.

(* Non-vacuity: the checker accepts the model's trace of the example history, packets are sent and
   IpAdd / IpDel events are reported. *)
Example C18_history_example :
  chk_C18 os_ok (model_history t0 os_ok h_ok) = true /\
  (0 <? N.of_nat (count_sent (run (initial_state t0 os_ok) h_ok))) = true /\
  (0 <? N.of_nat (count_ipev (run (initial_state t0 os_ok) h_ok))) = true.
Proof. exact h_ok_checked. Qed.

(* An address that moves to another interface between two IP checks: the check withdraws it and
   then adds it again (IpDel before IpAdd), the service with automatic addresses keeps it and is
   announced with it on the new interface; the checker accepts this trace and rejects the one
   with the two events in the other order (the services would have lost an address the host has) *)
Example C18_moved_address_withdrawn_then_added :
  chk_C18 os_mv (model_history t0 os_mv h_moved) = true /\
  ip_events w_v6 (List.nth 1 (run (initial_state t0 os_mv) h_moved) []) = [OIpDel w_v6; OIpAdd w_v6] /\
  existsb (carries w_v6) (List.nth 2 (run (initial_state t0 os_mv) h_moved) []) = true /\
  chk_C18 os_mv (swap_second (model_history t0 os_mv h_moved)) = false.
Proof. exact h_moved_checked. Qed.

(* An interface with IPv4 only hears an announcement carrying the peer's A and AAAA records: both
   are reported with this interface.  After disable_interface(its name) a fresh browse finds the
   instance but reports no address of either family; the checker rejects the trace in which the
   addresses learned on the dropped interface are reported again *)
Example C18_dropped_interface_addresses_of_both_families_not_reported :
  let r := run (initial_state t0 os_x) h_xfam in
  chk_C18 os_x (model_history t0 os_x h_xfam) = true /\
  resolved_addrs (List.nth 1 r []) = [[(V6 (n_of_octets [253; 153; 0; 2; 0; 0; 0; 0; 0; 0; 0; 0; 0; 0; 6; 0]), 2); (ip4 198 18 2 60, 2)]] /\
  founds (List.nth 3 r []) = 1%nat /\ resolved_addrs (List.nth 3 r []) = [] /\
  chk_C18 os_x (stale_report (model_history t0 os_x h_xfam)) = false.
Proof. exact h_xfam_checked. Qed.

(* Repaired finding C18-del-of-held-address (0f7c6ac), former refutation, same history: an address
   moves to another interface, an enable call takes it up there before the IP check that drops
   the old entry (IpAdd, announced with it on eth1, iteration 3); the check (iteration 4) reports
   no IpDel because the address is still held, and the repeated announcement (iteration 5)
   carries it.  The checker accepts the trace and rejects the one of the old code, where the
   check reported IpDel as the last word about an address the OS table has on an enabled interface. *)
Example C18_address_held_elsewhere_is_kept :
  let r := run (initial_state t0 os_mv) h_held in
  ip_events w_v6 (List.nth 3 r []) = [OIpAdd w_v6] /\ existsb (carries w_v6) (List.nth 3 r []) = true /\
  ip_events w_v6 (List.nth 4 r []) = [] /\
  existsb (carries w_v6) (List.nth 5 r []) = true /\
  chk_C18 os_mv (model_history t0 os_mv h_held) = true /\
  chk_C18 os_mv (with_del (model_history t0 os_mv h_held)) = false.
Proof. exact h_held_checked. Qed.

Print Assumptions C18_selection_last_match_wins.
Print Assumptions C18_apply_marks_last_match.
Print Assumptions C18_later_call_overrides.
Print Assumptions C18_addr_resolved_at_call_time.
Print Assumptions C18_addr_unresolved_stays.
Print Assumptions C18_interface_table_after_apply.
Print Assumptions C18_interface_table_after_check.
Print Assumptions C18_valid_ip_is_equality_under_mask.
Print Assumptions C18_valid_ip_prefix_v4.
Print Assumptions C18_valid_ip_prefix_v6.
Print Assumptions C18_addrs_on_intf_v4.
Print Assumptions C18_addrs_on_intf_v6.
Print Assumptions C18_announcement_only_link_addresses.
Print Assumptions C18_goodbye_only_link_addresses.
Print Assumptions C18_response_only_link_addresses.
Print Assumptions C18_intf_removal_reports_removed.
Print Assumptions C18_intf_removal_cache_contents.
Print Assumptions C18_intf_removal_reports_modified.
Print Assumptions C18_disabled_family_addresses_dropped.
Print Assumptions C18_record_keeps_first_interface.
Print Assumptions C18_invariant_initial.
Print Assumptions C18_invariant_reachable.
Print Assumptions C18_step_preserves_invariant.
Print Assumptions C18_every_packet_justified.
Print Assumptions C18_known_class_witness.
Print Assumptions C18_history_refuted_selection_while_absent.
Print Assumptions C18_history_hypotheses_example.
Print Assumptions C18_goodbye_repeat_on_its_interface.
Print Assumptions C18_check_forgets_removed_interfaces.
Print Assumptions C18_removal_example.
Print Assumptions C18_history_example.
Print Assumptions C18_moved_address_withdrawn_then_added.
Print Assumptions C18_dropped_interface_addresses_of_both_families_not_reported.
Print Assumptions C18_address_held_elsewhere_is_kept.
Print Assumptions C18_checker_accepts_every_run.
Print Assumptions C18_checker_hypotheses_example.
Print Assumptions C18_checker_hypotheses_example2.
Print Assumptions C18_same_ipv4_on_two_interfaces_example.
