(* C12 for the cache layer: every piece of time-driven work on cached records has a timer.
   Only statements here; every proof is `exact <lemma>` (Proofs/LifeTimerProofs.v).
   Model: Model/LifeTimers.v = the daemon-level model of C11 (Model/LifeCache.v, the same Gallina
   text) instantiated with record operations that also keep, per cached record, the wake-up
   times the daemon pushes into its timer heap for it (handle_response: expiry and refresh time
   of every new or renewed record, now+1000 for every flushed one; refresh_active_services: the
   new refresh time of every record it refreshed; pop_timers_till(now) drops entries <= now).
   A history is any list of loop iterations: any clock values (non-decreasing, below 2^63), any
   received records (renewals, goodbyes = TTL 0 stored as 1, cache-flush), searches started
   and stopped at will (ts_cfg: the browse / resolver open after the iteration's commands;
   ts_stop: a browse stopped in it, with DnsCache::remove_service_type). *)
From Coq Require Import List NArith Bool.
From Mdns Require Import Res Bytes Rec Life LifeSpec LifeCache LifeTimers LifeTimerProofs.
Import ListNotations.
Open Scope N_scope.

(* due_work cfg c n (Model/LifeTimers.v): the expiry time of every record in a Vec eviction
   works on (its ServiceRemoved / AddressesRemoved, also the one-second expiry after a
   cache-flush or goodbye), and the pending refresh mark (80/85/90/95 %) of every record the
   refresh step works on - a mark already past means "at once".
   In EVERY reachable state (treach: induction over the history), whenever time-driven work is
   due at time t, the timer set holds an entry <= t (in fact t itself). *)
Theorem C12_cache_timers_cover_due_work : forall c n cfg t,
  treach c n cfg -> In t (due_work cfg c n) -> exists tau, In tau (timers c) /\ tau <= t.
Proof. exact timers_cover_due_work. Qed.

Theorem C12_cache_due_work_has_exact_timer : forall c n cfg t,
  treach c n cfg -> In t (due_work cfg c n) -> In t (timers c).
Proof. exact due_work_has_timer. Qed.

(* Granted the wake-up it asks for (the next iteration is not later than any timer), the daemon
   iterates no later than any due time: every refresh query and every removal event happens AT
   its due time, never later. *)
Theorem C12_cache_work_done_at_due_time : forall c n cfg s c' o t,
  treach c n cfg -> t_iter s c = Ok (c', o) ->
  (forall tau, In tau (timers c) -> ts_now s <= tau) ->
  In t (due_work cfg c n) -> ts_now s <= t.
Proof. exact next_iteration_not_late. Qed.

(* after every iteration nothing eviction works on is overdue *)
Theorem C12_cache_no_expired_record_left : forall c n cfg k b e,
  treach c n cfg -> In (k, b) c -> acted cfg k = true -> In e b -> n < l_expires e.
Proof. exact no_expired_left. Qed.

(* the timed model is the C11 model: on every history of the C11 model it evaluates exactly when
   that model does, with the same queries and removal events *)
Theorem C12_cache_timed_model_is_C11_model : forall cfg steps,
  Forall step_ok steps ->
  exists os oe, t_run [] (map (tstep_of cfg) steps) = Ok os /\ model_run cfg steps = Ok oe /\ Forall2 io_eq os oe.
Proof. exact timed_model_is_model. Qed.

(* ---- non-vacuity: browse "t." and resolver "h."; a PTR and an address (TTL 10) arrive, two
   seconds later a second address with the cache-flush bit; then a LATE wake-up at 93 % ---- *)
Definition ex_ptr := (mkId [116;46] TY_PTR 1 false (RPtr [105;46]) 2, 10).
Definition ex_a1 := (mkId [104;46] TY_A 1 true (RAddr [10;0;0;1]) 2, 10).
Definition ex_a2 := (mkId [104;46] TY_A 1 true (RAddr [10;0;0;2]) 2, 10).
Definition ex_cfg := mkCfg (Some [116;46]) (Some [104;46]).
Definition ex_s1 := mkTStep 1000000 1 1 [ex_ptr; ex_a1] ex_cfg None.
Definition ex_s2 := mkTStep 1002000 0 0 [ex_a2] ex_cfg None.
Definition ex_s3 := mkTStep 1009300 0 0 [] ex_cfg None.

Definition ex_c1 : lcache := Eval vm_compute in match t_iter ex_s1 [] with Ok (c, _) => c | _ => [] end.
Definition ex_c2 : lcache := Eval vm_compute in match t_iter ex_s2 ex_c1 with Ok (c, _) => c | _ => [] end.
Definition ex_c3 : lcache := Eval vm_compute in match t_iter ex_s3 ex_c2 with Ok (c, _) => c | _ => [] end.

Example C12_cache_example :
  treach ex_c2 1002000 ex_cfg /\ treach ex_c3 1009300 ex_cfg /\
  (* expiries of PTR, second address, flushed first address; 80 % marks of PTR and second address *)
  due_work ex_cfg ex_c2 1002000 = [1010000; 1012000; 1003000; 1008000; 1010000] /\
  timers ex_c2 = [1010000; 1008000; 1012000; 1010000; 1010000; 1008000; 1003000] /\
  (* after the late wake-up the PTR has taken one rung: its 85 % mark is overdue and has a timer *)
  due_work ex_cfg ex_c3 1009300 = [1010000; 1012000; 1008500; 1010000] /\
  timers ex_c3 = [1010000; 1008500; 1012000; 1010000].
Proof.
  assert (H1 : exists o, t_iter ex_s1 [] = Ok (ex_c1, o)) by (vm_compute; eauto).
  assert (H2 : exists o, t_iter ex_s2 ex_c1 = Ok (ex_c2, o)) by (vm_compute; eauto).
  assert (H3 : exists o, t_iter ex_s3 ex_c2 = Ok (ex_c3, o)) by (vm_compute; eauto).
  destruct H1 as [o1 H1], H2 as [o2 H2], H3 as [o3 H3].
  assert (Hok : forall p s, (p <=? ts_now s) = true -> (ts_now s <? B63) = true ->
                            Forall rec_ok (ts_recs s) -> tstep_ok p s).
  { intros p s A B C. split; [apply N.leb_le; exact A | split; [apply N.ltb_lt; exact B | exact C]]. }
  assert (Hrec : forall id t, (t <? U32) = true -> rec_ok (id, t)).
  { intros id t A. apply N.ltb_lt. exact A. }
  assert (R1 : treach ex_c1 1000000 ex_cfg).
  { apply (treach_step [] 0 ex_cfg ex_s1 ex_c1 o1 (treach_init ex_cfg)); [|exact H1].
    apply Hok; try reflexivity. constructor; [apply Hrec; reflexivity|]. constructor; [apply Hrec; reflexivity|constructor]. }
  assert (R2 : treach ex_c2 1002000 ex_cfg).
  { apply (treach_step ex_c1 1000000 ex_cfg ex_s2 ex_c2 o2 R1); [|exact H2]. apply Hok; try reflexivity.
    constructor; [apply Hrec; reflexivity|constructor]. }
  assert (R3 : treach ex_c3 1009300 ex_cfg).
  { apply (treach_step ex_c2 1002000 ex_cfg ex_s3 ex_c3 o3 R2); [|exact H3]. apply Hok; try reflexivity. constructor. }
  split; [exact R2|]. split; [exact R3|]. repeat split; vm_compute; reflexivity.
Qed.

Print Assumptions C12_cache_timers_cover_due_work.
Print Assumptions C12_cache_due_work_has_exact_timer.
Print Assumptions C12_cache_work_done_at_due_time.
Print Assumptions C12_cache_no_expired_record_left.
Print Assumptions C12_cache_timed_model_is_C11_model.
