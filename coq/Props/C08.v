(* C08  Name conflicts resolve to one winner and a consistent new name for the loser.
   Only statements here; every proof is `exact <lemma>`.

   Models: DnsRecordExt::compare / compare_rdata (Registry.compare_rr), Probe::tiebreaking
   (Registry.tb_cmp, tiebreak), name_change / hostname_change (Model/Names.v), the use of names in
   announcements (RegistryDaemon.prepare_announce).  Records are Rec.rr: class (without the
   cache-flush bit), type, rdata; `well_typed` = the rdata struct is the one the decoder and the
   daemon use for that type (A/AAAA address, PTR/CNAME pointer, SRV, TXT, HINFO, NSEC). *)
From Coq Require Import List NArith Bool.
From Mdns Require Import Bytes Rec ParamsRegistry Names WireOut Registry RegistryDaemon RegistrySpec
     RegistryTrace RegistryParamsPinned NamesProofs RegistryCmpProofs RegistryProofs RegistryDaemonProofs RegistryLiftProofs
     RegistryHistoryProofs RegistryDeferralProofs RegistryWitnesses RegistryWitnessProofs.
Import ListNotations.
Open Scope N_scope.

(* regenerated from the Rust on every run: tie-break only after the probe started
   (`start_time >= now` returns), the loser restarts at now + 1000, new probes after a conflict
   start at now + 0..250, the numeric suffix is increased by checked_add(1) *)
Theorem C08_constants :
  (forall start now, tiebreak_not_started start now = (now <=? start)) /\
  (forall now, tiebreak_defer_start now = now + 1000 /\ tiebreak_defer_next now = now + 1000) /\
  jitter_bound_conflict = 250 /\ name_suffix_step = 1 /\ host_suffix_step = 1.
Proof. exact c08_constants. Qed.

(* ---- the comparison: class, then type, then rdata -------------------------------------------- *)

(* Equal exactly on equal class, type and rdata (owner name and TTL do not take part) - all records. *)
Theorem C08_compare_refl_iff : forall a b,
  compare_rr a b = Eq <-> r_class a = r_class b /\ r_type a = r_type b /\ r_data a = r_data b.
Proof. exact compare_rr_eq. Qed.

(* Both sides reach opposite verdicts - all well-typed records. *)
Theorem C08_compare_antisym : forall a b,
  well_typed a = true -> well_typed b = true -> compare_rr a b = CompOpp (compare_rr b a).
Proof. exact compare_rr_antisym. Qed.

Theorem C08_compare_trans : forall a b c,
  well_typed a = true -> well_typed b = true -> well_typed c = true ->
  compare_rr a b = Lt -> compare_rr b c = Lt -> compare_rr a c = Lt.
Proof. exact compare_rr_trans. Qed.

(* The typing hypothesis is needed: compare_rdata answers Greater when the other record is a
   different Rust struct, so two ill-typed records of equal class and type are each "later". *)
Theorem C08_compare_antisym_without_typing_refuted :
  exists a b, r_class a = r_class b /\ r_type a = r_type b /\ compare_rr a b = Gt /\ compare_rr b a = Gt.
Proof. exact compare_rr_illtyped_refuted. Qed.

(* ---- simultaneous probes: record lists compared pairwise up to the shorter length, then by length - *)

Theorem C08_tiebreak_opposite : forall mine theirs,
  all_typed mine -> all_typed theirs ->
  (tb_cmp mine theirs = Lt <-> tb_cmp theirs mine = Gt) /\
  (tb_cmp mine theirs = Gt <-> tb_cmp theirs mine = Lt) /\
  (tb_cmp mine theirs = Eq <-> tb_cmp theirs mine = Eq).
Proof. exact tiebreak_opposite. Qed.

(* a draw only for the same data (class, type, rdata of every record, same number of records) *)
Theorem C08_tiebreak_equal_iff_same_data : forall mine theirs,
  tb_cmp mine theirs = Eq <-> map rr_key mine = map rr_key theirs.
Proof. exact tb_cmp_eq. Qed.

(* the loser - and only a prober whose probe has started - restarts one second later *)
Theorem C08_lost_defers_1s : forall p incoming now,
  pb_start p < now -> tb_cmp (map p_rr (pb_records p)) incoming = Lt ->
  tiebreak p incoming now = mkProbe (pb_records p) (pb_waiting p) (now + 1000) (now + 1000).
Proof. exact tiebreak_lost. Qed.

Theorem C08_winner_unaffected : forall p incoming now,
  tb_cmp (map p_rr (pb_records p)) incoming <> Lt -> tiebreak p incoming now = p.
Proof. exact tiebreak_not_lost. Qed.

Theorem C08_no_tiebreak_before_start : forall p incoming now,
  now <= pb_start p -> tiebreak p incoming now = p.
Proof. exact tiebreak_before_start. Qed.

(* ---- renaming, on all byte strings -------------------------------------------------------------- *)
(* plain x: no '.' and no '\' in x; starts_dot_or_empty r: r is "" or begins with '.';
   all_digits ds: ASCII digits; digits_val: their decimal value; dec n: n printed in decimal. *)

(* 'x.<rest>' -> 'x (2).<rest>' when x has no " (" *)
Theorem C08_name_change_fresh : forall x rest,
  plain x -> starts_dot_or_empty rest -> rsplit2 C_SP C_LP x = None -> (length x + 4 <= 63)%nat ->
  name_change (x ++ rest) = x ++ SUFFIX2 ++ rest.
Proof. exact name_change_fresh. Qed.

(* 'x (n).<rest>' -> 'x (n+1).<rest>' for every digit string n below u32::MAX, whatever x *)
Theorem C08_name_change_increment : forall x ds rest,
  plain x -> starts_dot_or_empty rest ->
  ds <> [] -> all_digits ds -> digits_val ds < 4294967295 -> (length x <= 20)%nat ->
  name_change (x ++ [C_SP; C_LP] ++ ds ++ [C_RP] ++ rest)
  = x ++ [C_SP; C_LP] ++ dec (digits_val ds + 1) ++ [C_RP] ++ rest.
Proof. exact name_change_increment. Qed.

(* at 4294967295 the number cannot grow: ' (2)' is appended instead (no overflow) *)
Theorem C08_name_change_at_u32_max : forall x ds rest,
  plain x -> starts_dot_or_empty rest ->
  ds <> [] -> all_digits ds -> digits_val ds = 4294967295 -> (length x + length ds + 7 <= 63)%nat ->
  name_change (x ++ [C_SP; C_LP] ++ ds ++ [C_RP] ++ rest)
  = x ++ [C_SP; C_LP] ++ ds ++ [C_RP] ++ SUFFIX2 ++ rest.
Proof. exact name_change_at_max. Qed.

(* 'x' -> 'x (2)' -> 'x (3)' *)
Theorem C08_name_change_twice : forall x rest,
  plain x -> starts_dot_or_empty rest -> rsplit2 C_SP C_LP x = None -> (length x <= 20)%nat ->
  name_change (name_change (x ++ rest)) = x ++ [C_SP; C_LP; 51; C_RP] ++ rest.
Proof. exact name_change_twice. Qed.

(* 'h.<rest>' -> 'h-2.<rest>' -> 'h-3.<rest>', 'h-n' -> 'h-(n+1)' *)
Theorem C08_hostname_change_fresh : forall x rest,
  plain x -> starts_dot_or_empty rest -> no_byte C_HY x -> (length x + 2 <= 63)%nat ->
  hostname_change (x ++ rest) = x ++ [C_HY; 50] ++ rest.
Proof. exact hostname_change_fresh. Qed.

Theorem C08_hostname_change_increment : forall x ds rest,
  plain x -> starts_dot_or_empty rest ->
  ds <> [] -> all_digits ds -> digits_val ds < 4294967295 -> (length x <= 20)%nat ->
  hostname_change (x ++ [C_HY] ++ ds ++ rest) = x ++ [C_HY] ++ dec (digits_val ds + 1) ++ rest.
Proof. exact hostname_change_increment. Qed.

Theorem C08_hostname_change_at_u32_max : forall x ds rest,
  plain x -> starts_dot_or_empty rest ->
  ds <> [] -> all_digits ds -> digits_val ds = 4294967295 -> (length x + length ds + 3 <= 63)%nat ->
  hostname_change (x ++ [C_HY] ++ ds ++ rest) = x ++ [C_HY] ++ ds ++ [C_HY; 50] ++ rest.
Proof. exact hostname_change_at_max. Qed.

Theorem C08_hostname_change_twice : forall x rest,
  plain x -> starts_dot_or_empty rest -> no_byte C_HY x -> (length x <= 20)%nat ->
  hostname_change (hostname_change (x ++ rest)) = x ++ [C_HY; 51] ++ rest.
Proof. exact hostname_change_twice. Qed.

(* the printed number reads back as itself (so counting continues from what was written) *)
Theorem C08_suffix_roundtrip : forall n, n <= 4294967295 -> parse_u32 (dec n) = Some n.
Proof. exact parse_dec. Qed.

(* STILL ENCODABLE, for EVERY input (formerly refuted): after either rename everything from the
   first UNESCAPED dot on is what it was (rename_keeps_rest) and the new first label - the text up to
   the first unescaped dot of the RESULT - is at most 63 bytes on the wire (first_label_encodable):
   label_with_suffix shortens the base, and the suffix closes any escape the cut left open. *)
Theorem C08_still_encodable : forall s,
  rename_keeps_rest s (name_change s) = true /\ first_label_encodable (name_change s) = true /\
  rename_keeps_rest s (hostname_change s) = true /\ first_label_encodable (hostname_change s) = true.
Proof. exact rename_encodable_all. Qed.

(* ... in terms of the text: what is put in front of the old rest is at most 63 bytes long *)
Theorem C08_renamed_label_text_63 : forall s,
  (exists nf, name_change s = nf ++ snd (split_first_label s) /\ (length nf <= 63)%nat) /\
  (exists nf, hostname_change s = nf ++ snd (split_first_label s) /\ (length nf <= 63)%nat).
Proof. exact rename_fits_both. Qed.

(* the inputs that used to break: a 60-byte instance label, a 62-byte host label, an escaped dot *)
Theorem C08_former_rename_witnesses :
  first_label_encodable (name_change (repeat 110 60 ++ [46; 95; 116; 46; 108; 111; 99; 97; 108; 46])) = true /\
  rename_keeps_rest (repeat 110 60 ++ [46; 95; 116; 46; 108; 111; 99; 97; 108; 46])
                    (name_change (repeat 110 60 ++ [46; 95; 116; 46; 108; 111; 99; 97; 108; 46])) = true /\
  first_label_encodable (hostname_change (repeat 104 62 ++ [46; 108; 111; 99; 97; 108; 46])) = true /\
  name_change [77;121;92;46;83;118;99;46;95;116;46;95;116;99;112;46;108;111;99;97;108;46]
  = [77;121;92;46;83;118;99;32;40;50;41;46;95;116;46;95;116;99;112;46;108;111;99;97;108;46].
Proof. exact rename_former_witnesses. Qed.

(* ---- names in packets after a rename ---------------------------------------------------------------- *)

(* Announcements use the current names: owner of SRV/TXT = resolved full name, owner of the
   address records = resolved host name (PTR target and SRV target likewise, by the shape of the
   packet in C07_announce_requires_active). *)
Theorem C08_announcement_names_resolved : forall rg s i v4,
  Forall (fun r => p_name r = resolve_name rg (s_full s) \/ p_name r = resolve_name rg (s_host s))
         (announce_records rg s i v4).
Proof. exact announce_names_resolved. Qed.

(* Goodbyes use the current names (formerly refuted): the goodbye packet IS the specification's
   packet with resolved = true - PTR target, SRV/TXT owner, SRV target, address owner resolved
   through the interface's registry. *)
Theorem C08_goodbye_names_resolved : forall rg s addrs, goodbye_msg rg s addrs = spec_goodbye_msg rg true s addrs.
Proof. exact goodbye_msg_is_spec. Qed.

(* Direct answers use the current names (formerly refuted): an instance question is answered
   only by the service whose CURRENT full name it names (letter case aside) ... *)
Theorem C08_direct_answer_current_name : forall st g itf rg qn qt,
  answer_instance_question st g itf rg qn qt <> ([], []) ->
  exists ks, In ks (d_svcs st) /\ lower (resolve_name rg (s_full (snd ks))) = lower qn.
Proof. exact instance_answer_current_name. Qed.

(* ... and the SRV target and the owner of the additional address records are the host name that
   service currently holds. *)
Theorem C08_direct_answer_current_host : forall st g itf rg qn qt an ar,
  answer_instance_question st g itf rg qn qt = (an, ar) ->
  exists host, (forall r, In r ar -> r_name r = host) /\
               (forall r p w o h, In r an -> r_data r = RSrv p w o h -> h = host) /\
               (an = [] /\ ar = [] \/ exists ks, In ks (d_svcs st) /\ host = resolve_name rg (s_host (snd ks))).
Proof. exact instance_answer_current_host. Qed.

(* the former witnesses (renamed instance + goodbye, renamed host + SRV question, 62-byte label +
   conflict, mixed-case instance + question for the old name) are accepted by chk_C08 now *)
Theorem C08_former_witnesses_accepted :
  self8 w_renamed_ifs w_renamed_its = [] /\ self8 w_hostrenamed_ifs w_hostrenamed_its = [] /\
  self8 w_longlabel_ifs w_longlabel_its = [] /\ self8 w_mixedcase_ifs w_mixedcase_its = [].
Proof. exact w_former_c08_accepted. Qed.

(* The length rule of the tie-break on the daemon model: a competing probe whose record list
   extends the daemon's own (equal on the common prefix) wins; the daemon's next probe query for the
   name comes one second later. *)
Theorem C08_prefix_loses_and_defers :
  self8 w_prefix_lost_ifs w_prefix_lost_its = [] /\
  wire_probe_times 2 n_inst (d_init w_prefix_lost_ifs) w_prefix_lost_its = [1000145; 1001300; 1001550; 1001800].
Proof. exact w_prefix_lost_defers. Qed.

(* "after a lost comparison it waits one second" is FALSE when a host-name conflict follows within
   that second: since fix 30a3832 update_hostname restarts the instance name's probe at now + 0..250
   (chk_C08 code 30; witness run on the real daemon: tie-break lost at +471 ms, instance name probed
   again at +696 ms). *)
Theorem C08_restart_cancels_deferral_refuted : only_known 30 (self8 w_skipreprobe_ifs w_skipreprobe_its).
Proof. exact w_skipreprobe_known8. Qed.

(* ---- round 7: clause 29 of chk_C08 over histories --------------------------------------------------------
   deferred n D rg = the probing names of rg are pairwise different and the probe for n exists with
   next_send >= D.  A lost tie-break at `now` leaves the probe deferred to now + 1000 ... *)
Theorem C08_lost_tiebreak_leaves_probe_deferred : forall rg qn incoming now pb,
  NoDup (keys (rg_probing rg)) -> aget qn (rg_probing rg) = Some pb ->
  tiebreak_not_started (pb_start pb) now = false -> tb_cmp (map p_rr (pb_records pb)) incoming = Lt ->
  deferred qn (now + 1000) (apply_tiebreak rg qn incoming now).
Proof. exact lost_tiebreak_defers. Qed.

(* ... and AFTER ANY HISTORY of the daemon model (responses, interface toggles, unregister - anything
   before), once the probe for n on interface k is deferred to D: through every sequence of
   iterations at times in [D - 1000, D) that bring only queries (competing probes, further lost
   tie-breaks included) and register / monitor / shutdown calls, NO probe query for n goes out on
   interface k.
   `_partial`: the iterations of that second are restricted to plain ones - no response datagram at
   all (not only the host-name conflict of the known class C08-host-rename-cancels-tiebreak-deferral,
   C08_restart_cancels_deferral_refuted), no enable/disable_interface, no unregister (a forgotten
   and re-registered name, or a re-created interface, legitimately starts a new probe at once). *)
Theorem C08_deferral_respected_partial : forall ifs os pre k n D its,
  NoDup (map if_index ifs) ->
  let st := run_state (d_init_os ifs os) pre in
  (exists p, aget n (rg_probing (get_reg st k)) = Some p /\ D <= pb_next p) ->
  Forall plain_iter its -> Forall (fun it => it_now it < D /\ D <= it_now it + 1000) its ->
  wire_probe_times k n st its = [].
Proof. exact deferral_respected_after_any_history. Qed.

(* side conditions that hold in every reachable state (used above): interface indexes pairwise
   different, probing names pairwise different in every registry *)
Theorem C08_interface_indexes_distinct_all_histories : forall ifs os, NoDup (map if_index ifs) ->
  forall its, NoDup (map if_index (d_intfs (run_state (d_init_os ifs os) its))).
Proof. exact intfs_nodup_all_histories. Qed.

(* non-vacuity on w_prefix_lost: after the lost tie-break at +300 ms the probe is due at +1300 ms;
   iterations at +500, +1000, +1299 ms send no probe query for the name, the one at +1300 ms does *)
Example C08_deferral_example :
  option_map pb_next (aget n_inst (rg_probing (get_reg (state_after w_prefix_lost_ifs w_prefix_lost_its 3) 2))) = Some 1001300 /\
  wire_probe_times 2 n_inst (state_after w_prefix_lost_ifs w_prefix_lost_its 3) [idle 1000500; idle 1001000; idle 1001299] = [] /\
  wire_probe_times 2 n_inst (state_after w_prefix_lost_ifs w_prefix_lost_its 3) [idle 1000500; idle 1001300] = [1001300].
Proof. exact w_prefix_lost_deferral. Qed.

(* A conflict or a lost tie-break never makes probe queries of one series come closer than 250 ms:
   that is C07_probe_spacing_all_schedules, whose operation sequences include OConflict and OTiebreak.

   NOT proved (validated by simulation, monitor c08_final): "two daemons claiming the same name
   over a loss-free link always end with exactly one of them holding the original name and both
   announced"; it stays FALSE for instance names with an escaped dot (known finding
   C08-escaped-dot-conflict-undetected).  Also not proved as a theorem over all histories: that
   chk_C08 accepts every run of the daemon model (the monitor is run on the model's own output for
   every generated history). *)

(* Non-vacuity: well-typed records that compare Less / Greater / Equal; a tie-break that is lost. *)
Example C08_compare_example :
  let a := mkRR [97] TY_SRV 1 true 120 (RSrv 0 0 80 [104]) in
  let b := mkRR [97] TY_SRV 1 true 120 (RSrv 0 0 81 [104]) in
  let t := mkRR [97] TY_TXT 1 true 4500 (RTxt [0]) in
  well_typed a = true /\ well_typed b = true /\ well_typed t = true /\
  compare_rr a b = Lt /\ compare_rr b a = Gt /\ compare_rr t a = Lt /\
  tb_cmp [t; a] [t; b] = Lt /\ tb_cmp [t; b] [t; a] = Gt /\ tb_cmp [t] [t; a] = Lt /\
  tiebreak (mkProbe [mkP t None 0; mkP a None 0] [] 1000 1250) [t; b] 1100
  = mkProbe [mkP t None 0; mkP a None 0] [] 2100 2100.
Proof. vm_compute. repeat split; reflexivity. Qed.

Print Assumptions C08_constants.
Print Assumptions C08_compare_refl_iff.
Print Assumptions C08_compare_antisym.
Print Assumptions C08_compare_trans.
Print Assumptions C08_compare_antisym_without_typing_refuted.
Print Assumptions C08_tiebreak_opposite.
Print Assumptions C08_tiebreak_equal_iff_same_data.
Print Assumptions C08_lost_defers_1s.
Print Assumptions C08_winner_unaffected.
Print Assumptions C08_no_tiebreak_before_start.
Print Assumptions C08_name_change_fresh.
Print Assumptions C08_name_change_increment.
Print Assumptions C08_name_change_at_u32_max.
Print Assumptions C08_name_change_twice.
Print Assumptions C08_hostname_change_fresh.
Print Assumptions C08_hostname_change_increment.
Print Assumptions C08_hostname_change_at_u32_max.
Print Assumptions C08_hostname_change_twice.
Print Assumptions C08_suffix_roundtrip.
Print Assumptions C08_still_encodable.
Print Assumptions C08_renamed_label_text_63.
Print Assumptions C08_former_rename_witnesses.
Print Assumptions C08_announcement_names_resolved.
Print Assumptions C08_goodbye_names_resolved.
Print Assumptions C08_direct_answer_current_name.
Print Assumptions C08_direct_answer_current_host.
Print Assumptions C08_former_witnesses_accepted.
Print Assumptions C08_prefix_loses_and_defers.
Print Assumptions C08_restart_cancels_deferral_refuted.
Print Assumptions C08_lost_tiebreak_leaves_probe_deferred.
Print Assumptions C08_deferral_respected_partial.
Print Assumptions C08_interface_indexes_distinct_all_histories.
Print Assumptions C08_deferral_example.
Print Assumptions C08_compare_example.
