(* C08 (work in progress) *)
From Coq Require Import List NArith Bool.
From Mdns Require Import ParamsRegistry RegistryParamsPinned.
Open Scope N_scope.
Theorem C08_constants : forall now, tiebreak_defer_start now = now + 1000 /\ tiebreak_defer_next now = now + 1000.
Proof. exact tiebreak_defer_pinned. Qed.
Print Assumptions C08_constants.
