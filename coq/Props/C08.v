(* C08  Name conflicts resolve to one winner and a consistent new name for the loser.
   Only statements here; every proof is `exact <lemma>`.

   Models: DnsRecordExt::compare / compare_rdata (Registry.compare_rr), Probe::tiebreaking
   (Registry.tb_cmp, tiebreak), name_change / hostname_change (Model/Names.v), the use of names in
   announcements (RegistryDaemon.prepare_announce).  Records are Rec.rr: class (without the
   cache-flush bit), type, rdata; `well_typed` = the rdata struct is the one the decoder and the
   daemon use for that type (A/AAAA address, PTR/CNAME pointer, SRV, TXT, HINFO, NSEC). *)
From Coq Require Import List NArith Bool.
From Mdns Require Import Bytes Rec ParamsRegistry Names WireOut Registry RegistryDaemon RegistrySpec
     RegistryParamsPinned NamesProofs RegistryCmpProofs RegistryProofs RegistryDaemonProofs
     RegistryWitnesses RegistryWitnessProofs.
Import ListNotations.
Open Scope N_scope.

(* regenerated from the Rust on every run: tie-break only after the probe started
   (`start_time >= now` returns), the loser restarts at now + 1000, new probes after a conflict
   start at now + 0..250, the numeric suffix is increased by checked_add(1) *)
Theorem C08_constants :
  (forall start now, tiebreak_not_started start now = (now <=? start)) /\
  (forall now, tiebreak_defer_start now = now + 1000 /\ tiebreak_defer_next now = now + 1000) /\
  jitter_bound_conflict = 250 /\ name_suffix_step = 1 /\ host_suffix_step = 1.
Proof. exact c08_constants. Qed.

(* ---- the comparison: class, then type, then rdata -------------------------------------------- *)

(* Equal exactly on equal class, type and rdata (owner name and TTL do not take part) - all records. *)
Theorem C08_compare_refl_iff : forall a b,
  compare_rr a b = Eq <-> r_class a = r_class b /\ r_type a = r_type b /\ r_data a = r_data b.
Proof. exact compare_rr_eq. Qed.

(* Both sides reach opposite verdicts - all well-typed records. *)
Theorem C08_compare_antisym : forall a b,
  well_typed a = true -> well_typed b = true -> compare_rr a b = CompOpp (compare_rr b a).
Proof. exact compare_rr_antisym. Qed.

Theorem C08_compare_trans : forall a b c,
  well_typed a = true -> well_typed b = true -> well_typed c = true ->
  compare_rr a b = Lt -> compare_rr b c = Lt -> compare_rr a c = Lt.
Proof. exact compare_rr_trans. Qed.

(* The typing hypothesis is needed: compare_rdata answers Greater when the other record is a
   different Rust struct, so two ill-typed records of equal class and type are each "later". *)
Theorem C08_compare_antisym_without_typing_refuted :
  exists a b, r_class a = r_class b /\ r_type a = r_type b /\ compare_rr a b = Gt /\ compare_rr b a = Gt.
Proof. exact compare_rr_illtyped_refuted. Qed.

(* ---- simultaneous probes: record lists compared pairwise up to the shorter length, then by length - *)

Theorem C08_tiebreak_opposite : forall mine theirs,
  all_typed mine -> all_typed theirs ->
  (tb_cmp mine theirs = Lt <-> tb_cmp theirs mine = Gt) /\
  (tb_cmp mine theirs = Gt <-> tb_cmp theirs mine = Lt) /\
  (tb_cmp mine theirs = Eq <-> tb_cmp theirs mine = Eq).
Proof. exact tiebreak_opposite. Qed.

(* a draw only for the same data (class, type, rdata of every record, same number of records) *)
Theorem C08_tiebreak_equal_iff_same_data : forall mine theirs,
  tb_cmp mine theirs = Eq <-> map rr_key mine = map rr_key theirs.
Proof. exact tb_cmp_eq. Qed.

(* the loser - and only a prober whose probe has started - restarts one second later *)
Theorem C08_lost_defers_1s : forall p incoming now,
  pb_start p < now -> tb_cmp (map p_rr (pb_records p)) incoming = Lt ->
  tiebreak p incoming now = mkProbe (pb_records p) (pb_waiting p) (now + 1000) (now + 1000).
Proof. exact tiebreak_lost. Qed.

Theorem C08_winner_unaffected : forall p incoming now,
  tb_cmp (map p_rr (pb_records p)) incoming <> Lt -> tiebreak p incoming now = p.
Proof. exact tiebreak_not_lost. Qed.

Theorem C08_no_tiebreak_before_start : forall p incoming now,
  now <= pb_start p -> tiebreak p incoming now = p.
Proof. exact tiebreak_before_start. Qed.

(* ---- renaming, on all byte strings -------------------------------------------------------------- *)
(* no_byte c s: the byte c does not occur in s; starts_dot_or_empty r: r is "" or begins with '.';
   all_digits ds: ASCII digits; digits_val: their decimal value; dec n: n printed in decimal. *)

(* 'x.<rest>' -> 'x (2).<rest>' when x has no " (" *)
Theorem C08_name_change_fresh : forall x rest,
  no_byte C_DOT x -> starts_dot_or_empty rest -> rsplit2 C_SP C_LP x = None ->
  name_change (x ++ rest) = x ++ SUFFIX2 ++ rest.
Proof. exact name_change_fresh. Qed.

(* 'x (n).<rest>' -> 'x (n+1).<rest>' for every digit string n below u32::MAX, whatever x *)
Theorem C08_name_change_increment : forall x ds rest,
  no_byte C_DOT x -> starts_dot_or_empty rest ->
  ds <> [] -> all_digits ds -> digits_val ds < 4294967295 ->
  name_change (x ++ [C_SP; C_LP] ++ ds ++ [C_RP] ++ rest)
  = x ++ [C_SP; C_LP] ++ dec (digits_val ds + 1) ++ [C_RP] ++ rest.
Proof. exact name_change_increment. Qed.

(* at 4294967295 the number cannot grow: ' (2)' is appended instead (no overflow) *)
Theorem C08_name_change_at_u32_max : forall x ds rest,
  no_byte C_DOT x -> starts_dot_or_empty rest ->
  ds <> [] -> all_digits ds -> digits_val ds = 4294967295 ->
  name_change (x ++ [C_SP; C_LP] ++ ds ++ [C_RP] ++ rest)
  = x ++ [C_SP; C_LP] ++ ds ++ [C_RP] ++ SUFFIX2 ++ rest.
Proof. exact name_change_at_max. Qed.

(* 'x' -> 'x (2)' -> 'x (3)' *)
Theorem C08_name_change_twice : forall x rest,
  no_byte C_DOT x -> starts_dot_or_empty rest -> rsplit2 C_SP C_LP x = None ->
  name_change (name_change (x ++ rest)) = x ++ [C_SP; C_LP; 51; C_RP] ++ rest.
Proof. exact name_change_twice. Qed.

(* 'h.<rest>' -> 'h-2.<rest>' -> 'h-3.<rest>', 'h-n' -> 'h-(n+1)' *)
Theorem C08_hostname_change_fresh : forall x rest,
  no_byte C_DOT x -> starts_dot_or_empty rest -> no_byte C_HY x ->
  hostname_change (x ++ rest) = x ++ [C_HY; 50] ++ rest.
Proof. exact hostname_change_fresh. Qed.

Theorem C08_hostname_change_increment : forall x ds rest,
  no_byte C_DOT x -> starts_dot_or_empty rest ->
  ds <> [] -> all_digits ds -> digits_val ds < 4294967295 ->
  hostname_change (x ++ [C_HY] ++ ds ++ rest) = x ++ [C_HY] ++ dec (digits_val ds + 1) ++ rest.
Proof. exact hostname_change_increment. Qed.

Theorem C08_hostname_change_at_u32_max : forall x ds rest,
  no_byte C_DOT x -> starts_dot_or_empty rest ->
  ds <> [] -> all_digits ds -> digits_val ds = 4294967295 ->
  hostname_change (x ++ [C_HY] ++ ds ++ rest) = x ++ [C_HY] ++ ds ++ [C_HY; 50] ++ rest.
Proof. exact hostname_change_at_max. Qed.

Theorem C08_hostname_change_twice : forall x rest,
  no_byte C_DOT x -> starts_dot_or_empty rest -> no_byte C_HY x ->
  hostname_change (hostname_change (x ++ rest)) = x ++ [C_HY; 51] ++ rest.
Proof. exact hostname_change_twice. Qed.

(* the printed number reads back as itself (so counting continues from what was written) *)
Theorem C08_suffix_roundtrip : forall n, n <= 4294967295 -> parse_u32 (dec n) = Some n.
Proof. exact parse_dec. Qed.

(* both functions only rewrite the text before the first '.' *)
Theorem C08_rename_keeps_text_after_first_dot : forall s,
  (exists nf, name_change s = nf ++ snd (split_first s)) /\
  (exists nf, hostname_change s = nf ++ snd (split_first s)).
Proof. exact rename_shape_both. Qed.

(* "the new name is still encodable" is FALSE: a first label of 60 bytes (62 for a host name)
   grows past 63 bytes ... *)
Theorem C08_still_encodable_refuted :
  (exists s, first_label_encodable s = true /\ first_label_encodable (name_change s) = false) /\
  (exists s, first_label_encodable s = true /\ first_label_encodable (hostname_change s) = false).
Proof. exact rename_overflow_both. Qed.

(* ... and on the daemon (witness run on the real daemon thread): instance label of 62 bytes, a
   conflicting SRV during probing; the thread dies when it writes the probe for the new name. *)
Theorem C08_rename_kills_daemon_refuted : only_known 21 (self8 w_longlabel_ifs w_longlabel_its).
Proof. exact w_longlabel_known8. Qed.

(* an escaped dot inside the instance label is taken for a label boundary *)
Theorem C08_rename_escaped_dot_refuted :
  exists s, rename_keeps_rest s (name_change s) = false /\
            name_change s = [77;121;92;32;40;50;41;46;83;118;99;46;95;116;46;95;116;99;112;46;108;111;99;97;108;46].
Proof. exact name_change_escaped_dot_refuted. Qed.

(* ---- names in packets after a rename ---------------------------------------------------------------- *)

(* Announcements use the current names: owner of SRV/TXT = resolved full name, owner of the
   address records = resolved host name (PTR target and SRV target likewise, by the shape of the
   packet in C07_announce_requires_active). *)
Theorem C08_announcement_names_resolved : forall rg s i v4,
  Forall (fun r => p_name r = resolve_name rg (s_full s) \/ p_name r = resolve_name rg (s_host s))
         (announce_records rg s i v4).
Proof. exact announce_names_resolved. Qed.

(* "every packet uses the new names" is FALSE for goodbyes, for direct SRV answers after a host
   rename, and for a renamed service whose name has an upper-case letter (it still answers for the
   name it gave up).  Witnesses run on the real daemon; the model shows the same. *)
Theorem C08_goodbye_uses_old_names_refuted : only_known 22 (self8 w_renamed_ifs w_renamed_its).
Proof. exact w_renamed_known8. Qed.
Theorem C08_direct_answer_uses_old_host_refuted : only_known 23 (self8 w_hostrenamed_ifs w_hostrenamed_its).
Proof. exact w_hostrenamed_known8. Qed.
Theorem C08_mixed_case_answers_for_old_name_refuted : only_known 28 (self8 w_mixedcase_ifs w_mixedcase_its).
Proof. exact w_mixedcase_known8. Qed.

(* A conflict or a lost tie-break never makes probe queries come closer than 250 ms: that is
   C07_probe_spacing_all_schedules, whose operation sequences include OConflict and OTiebreak.

   NOT proved (validated by simulation, monitor c08_final): "two daemons claiming the same name
   over a loss-free link always end with exactly one of them holding the original name and both
   announced".  Also not proved as a theorem over all histories: that chk_C08 accepts every run of
   the daemon model outside the classes above (the monitor is run on the model's own output for
   every generated history). *)

(* Non-vacuity: well-typed records that compare Less / Greater / Equal; a tie-break that is lost. *)
Example C08_compare_example :
  let a := mkRR [97] TY_SRV 1 true 120 (RSrv 0 0 80 [104]) in
  let b := mkRR [97] TY_SRV 1 true 120 (RSrv 0 0 81 [104]) in
  let t := mkRR [97] TY_TXT 1 true 4500 (RTxt [0]) in
  well_typed a = true /\ well_typed b = true /\ well_typed t = true /\
  compare_rr a b = Lt /\ compare_rr b a = Gt /\ compare_rr t a = Lt /\
  tb_cmp [t; a] [t; b] = Lt /\ tb_cmp [t; b] [t; a] = Gt /\ tb_cmp [t] [t; a] = Lt /\
  tiebreak (mkProbe [mkP t None 0; mkP a None 0] [] 1000 1250) [t; b] 1100
  = mkProbe [mkP t None 0; mkP a None 0] [] 2100 2100.
Proof. vm_compute. repeat split; reflexivity. Qed.

Print Assumptions C08_constants.
Print Assumptions C08_compare_refl_iff.
Print Assumptions C08_compare_antisym.
Print Assumptions C08_compare_trans.
Print Assumptions C08_compare_antisym_without_typing_refuted.
Print Assumptions C08_tiebreak_opposite.
Print Assumptions C08_tiebreak_equal_iff_same_data.
Print Assumptions C08_lost_defers_1s.
Print Assumptions C08_winner_unaffected.
Print Assumptions C08_no_tiebreak_before_start.
Print Assumptions C08_name_change_fresh.
Print Assumptions C08_name_change_increment.
Print Assumptions C08_name_change_at_u32_max.
Print Assumptions C08_name_change_twice.
Print Assumptions C08_hostname_change_fresh.
Print Assumptions C08_hostname_change_increment.
Print Assumptions C08_hostname_change_at_u32_max.
Print Assumptions C08_hostname_change_twice.
Print Assumptions C08_suffix_roundtrip.
Print Assumptions C08_rename_keeps_text_after_first_dot.
Print Assumptions C08_still_encodable_refuted.
Print Assumptions C08_rename_kills_daemon_refuted.
Print Assumptions C08_rename_escaped_dot_refuted.
Print Assumptions C08_announcement_names_resolved.
Print Assumptions C08_goodbye_uses_old_names_refuted.
Print Assumptions C08_direct_answer_uses_old_host_refuted.
Print Assumptions C08_mixed_case_answers_for_old_name_refuted.
Print Assumptions C08_compare_example.
