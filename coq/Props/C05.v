(* C05  Departed services are reported removed, on time and only when true.
   Only statements here; proofs are `exact <lemma>` (Proofs/CacheProofs.v, BrowserStepProofs.v,
   BrowserExamples.v).

   The history-level statement is
       forall ifs h wakes, wf_history h = true ->
         chk_C05 ifs h wakes (map obs_of (run_history ifs h)) = true            (FALSE)
   with chk_C05 (Model/BrowserSpec.v): a ServiceRemoved only in an iteration in which the
   instance does not have PTR + SRV + address with more than one second left; at the end of
   every iteration every instance reported resolved has PTR, SRV and address unexpired (so the
   event comes in the first iteration at or after a goodbye's second / TTL / verify timeout ran
   out) and the requested wake-up is not later than that instant; no ServiceResolved after
   ServiceRemoved without new records.
   It is FALSE of the faithful model (C05_removed_on_time_refuted; the simulated daemon agrees).
   After the repairs of rounds 2 and 3 (SRV expiry and loss of the last address reported under
   every PTR name, host names compared without regard to case) the known findings that stay
   (known/C05.json) are: PTR variants differing in the cache-flush bit, expiry during the PTR's
   goodbye second, and (found in round 4) a second SRV record naming another host.  No hash-order dependent behaviour is left in the histories generated.
   The former witnesses of the repaired two-names defects are now examples that pass
   (C05_example_two_names, C05_example_two_names_address).  Proved here, for all
   caches and times: what the evictions do exactly, when an instance is reported and under
   which names, where every ServiceRemoved comes from, the goodbye second, verify (_partial:
   the history-level statement outside the three classes is checked by the monitor on every
   generated history:
       forall ifs h wakes, wf_history h = true -> ~ Known_C05 h ->
         chk_C05 ifs h wakes (map obs_of (run_history ifs h)) = true ). *)
From Coq Require Import List NArith Bool.
From Mdns Require Import Res Bytes Rec Wire Txt Cache Browser C03Spec BrowserSpec BrowserKnown CacheProofs
  CacheInvProofs BrowserProofs BrowserStepProofs SpecTrackProofs C05SafetyProofs AouCasesProofs C04OrderProofs
  C05AgainProofs C05TimelyProofs BrowserExamples.
Import ListNotations.
Open Scope N_scope.

(* evict_spec: evict_expired_services leaves exactly the unexpired PTR / SRV / TXT / NSEC
   records (now < expires), in order, drops emptied SRV/TXT/NSEC buckets, touches nothing else. *)
Theorem C05_evict_services_exact : forall c now,
  fst (evict_services c now) =
  mkCache (map (fun kb => (fst kb, live_only now (snd kb))) (c_ptr c))
          (sweep now (c_srv c)) (sweep now (c_txt c)) (c_addr c) (sweep now (c_nsec c)) (c_sub c).
Proof. exact evict_services_cache. Qed.

Theorem C05_evict_addr_exact : forall c now,
  fst (evict_addr c now) =
  mkCache (c_ptr c) (c_srv c) (c_txt c) (sweep now (c_addr c)) (c_nsec c) (c_sub c).
Proof. exact evict_addr_cache. Qed.

(* "unexpired" is  not (expires <= now),  and a swept map keeps exactly the non-empty remainders *)
Theorem C05_live_only_is : forall now b,
  live_only now b = filter (fun e => negb (e_expires e <=? now)) b.
Proof. exact live_only_spec. Qed.

Theorem C05_sweep_is : forall now m k b',
  In (k, b') (sweep now m) <-> exists b, In (k, b) m /\ b' = live_only now b /\ b' <> [].
Proof. exact sweep_In. Qed.

(* PTR expiry is reported, under its ty_domain, in the iteration that evicts it ... *)
Theorem C05_expired_ptr_reported : forall c now ty ptrs p,
  In (ty, ptrs) (c_ptr c) -> In p ptrs -> is_expired p now = true ->
  In (ty, alias_of (e_rr p)) (snd (evict_services c now)).
Proof. exact evict_services_reports_expired_ptr. Qed.

(* ... so is the expiry of the last SRV record of an instance, under EVERY ty_domain (type and
   subtype) that has a PTR to it (the repaired two-PTR-names defect) ... *)
Theorem C05_srv_expiry_reported_under_every_name : forall c now ty ptrs p sb,
  In (ty, ptrs) (c_ptr c) -> In p ptrs ->
  In (alias_of (e_rr p), sb) (c_srv c) -> live_only now sb = [] ->
  In (ty, alias_of (e_rr p)) (snd (evict_services c now)).
Proof. exact evict_services_reports_srv_expiry. Qed.

(* ... and removed_only_when_true, eviction path: (ty, instance) is reported only if a PTR
   record ty -> instance exists and that PTR expired, or the instance has an SRV bucket in which
   no record is unexpired. *)
Theorem C05_evict_reports_only_when_true : forall c now t i,
  In (t, i) (snd (evict_services c now)) ->
  exists ptrs p, In (t, ptrs) (c_ptr c) /\ In p ptrs /\ alias_of (e_rr p) = i
    /\ (is_expired p now = true \/ exists sb, In (i, sb) (c_srv c) /\ live_only now sb = []).
Proof. exact evict_reports_only_when_true. Qed.

(* removed_only_when_true, resolve_updated_instances path: a ServiceRemoved it emits is for an
   instance that cannot be resolved from records with more than one second left. *)
Theorem C05_removed_when_invalid_partial : forall s now updated ch t i,
  In (OEvt ch (ERemoved t i)) (snd (resolve_updated s now updated)) ->
  is_valid (resolve_from_cache (s_cache s) now t i) = false.
Proof. exact removed_when_invalid. Qed.

(* ... and under EVERY browsed name: each browsed ty_domain with a PTR (more than one second left)
   to an updated instance that was reported resolved and cannot be resolved any more gets
   ServiceRemoved (repair f108398). *)
Theorem C05_invalid_reported_under_every_name : forall s now updated ty ch ptrs p,
  In (ty, ptrs) (c_ptr (s_cache s)) -> q_get ty (s_q s) = Some ch ->
  In p ptrs -> expires_soon p now = false -> mem (alias_of (e_rr p)) updated = true ->
  is_valid (resolve_from_cache (s_cache s) now ty (alias_of (e_rr p))) = false ->
  mem (alias_of (e_rr p)) (s_resolved s) = true ->
  In (OEvt ch (ERemoved ty (alias_of (e_rr p)))) (snd (resolve_updated s now updated)).
Proof. exact invalid_reported_under_every_name. Qed.

(* goodbye_removed_at_1s: a record delivered with TTL 0 expires exactly 1000 ms after its
   delivery; eviction removes it in the first iteration with now >= that instant. *)
Theorem C05_goodbye_new : forall r now ifx, r_ttl r = 1 -> e_expires (new_entry r now ifx) = now + 1000.
Proof. exact goodbye_new_expires. Qed.
Theorem C05_goodbye_cached : forall e r now, r_ttl r = 1 -> e_expires (reset_ttl e r now) = now + 1000.
Proof. exact goodbye_reset_expires. Qed.
Theorem C05_unexpired_iff : forall e now, is_expired e now = false <-> now < e_expires e.
Proof. exact is_expired_false. Qed.

(* verify: every SRV record of the instance (and, since the repair of D21, the addresses filed
   under the lower-cased SRV target) gets expires := min(now + timeout, expires); the
   questions are (instance, SRV) and (host, A), (host, AAAA) per SRV; an answer (a matching
   record) restores created + 1000 * ttl. *)
Theorem C05_verify_shortens : forall c inst x sb,
  bm_get inst (c_srv c) = Some sb ->
  bm_get inst (c_srv (fst (service_verify_queries c inst (Some x)))) = Some (map (fun e => expire_sooner e x) sb).
Proof. exact verify_srv_bucket. Qed.
Theorem C05_verify_min : forall e x, e_expires (expire_sooner e x) = N.min x (e_expires e).
Proof. exact expire_sooner_min. Qed.
Theorem C05_verify_questions : forall c inst at_ sb,
  bm_get inst (c_srv c) = Some sb ->
  snd (service_verify_queries c inst at_) =
  (inst, TY_SRV) :: flat_map (fun s => [(srv_host s, TY_A); (srv_host s, TY_AAAA)]) sb.
Proof. exact verify_questions. Qed.
Theorem C05_answer_restores : forall e r now, e_expires (reset_ttl e r now) = now + 1000 * r_ttl r.
Proof. exact reset_ttl_expires. Qed.

(* History level: the "spec cache" that chk_C05 replays from the history (cache component only)
   IS the model's cache after every history - same buckets, same records (name, type, class,
   cache-flush bit, TTL, rdata, created, expires, interface), same browsed types; only refresh
   marks may differ.  So what the checker calls live (alive_strong / alive_weak / death_time)
   is a statement about the model's state, for ALL histories (no well-formedness needed). *)
Theorem C05_spec_cache_is_model_cache : forall ifs h,
  tracks (model_after ifs init_st h) (spec_after ifs init_spec h).
Proof. exact spec_tracks_model. Qed.

(* ---- history level (round 4) ----------------------------------------------------------------------

   The standard shape for known findings,
       forall ifs h wakes, wf_history h = true -> ~ KnownClass h ->
         viol_C05 ifs h wakes (map obs_of (run_history ifs h)) = []                       (full)
   is proved for the SAFETY part of the checker: of the five kinds of failure viol_C05 can report
   (F_len, F05_alive, F05_again, F05_dead, F05_wake) the kind F05_alive - "ServiceRemoved while the
   instance has a PTR under that type, an SRV and an address of the SRV's host with more than one
   second left at every snapshot of the iteration" - never occurs on the model's own trace, for
   every well-formed history outside the executable classes known_ptr_variant (finding
   C05-ptr-variant-expiry) and known_srv_targets (finding C05-second-srv-target, found by this
   proof) whose PTR records have non-root owner and target (safe_class, Model/BrowserKnown.v).
   The proof carries the C03 cache invariant and `tracks` (spec cache = model cache) through
   every step of the loop iteration and shows at each of the three emission sites that the cache
   of that moment - one of the checker's snapshots - is not strongly alive for the instance.
   _partial: of the checker's failure kinds only F05_wake is NOT proved at history level (the
   model does not compute timers; the wake-ups are an input of the checker; the cache-layer timer
   theorem is Props/C12Cache.v).  F05_again is proved below (round 5), F05_dead (timeliness) in
   round 6 (C05_removed_on_time_partial). *)
Theorem C05_removed_only_when_true_partial : forall ifs h wakes,
  wf_history h = true -> safe_class ifs h = true ->
  forall f, In f (viol_C05 ifs h wakes (map obs_of (run_history ifs h))) -> is_alive_fail f = false.
Proof. exact removed_only_when_true. Qed.

(* the same fact for one loop iteration from ANY state whose cache satisfies the C03 invariant
   for a log inside a class-free log Lf: every ServiceRemoved of the iteration comes with a
   snapshot (after a datagram / after the commands / after the eviction) that is not strongly
   alive *)
Theorem C05_iteration_removed_only_when_true : forall Lf,
  known_ptr_variant Lf = false -> known_srv_targets Lf = false -> ptr_names_ok Lf = true ->
  forall ifs prev s sp it,
  Inv prev (s_cache s) -> times_le prev (i_now it) -> tracks s sp ->
  incl (prev ++ iter_dlvs ifs it) Lf ->
  let '(ds, sp2, sp3) := iter_snaps ifs sp it in
  Forall (rmok (ds ++ [sp2; sp3]) (i_now it)) (snd (iterate ifs s it)).
Proof. exact iterate_rmok. Qed.

(* non-vacuity: a well-formed history in the safe class whose trace contains a ServiceRemoved *)
Example C05_safe_class_example :
  wf_history ex_hist = true /\ safe_class ex_ifs ex_hist = true
  /\ existsb (existsb is_removed_evt) (run_history ex_ifs ex_hist) = true.
Proof. exact safe_example. Qed.

(* C05, safety, second half (round 5).  Full statement:
       forall ifs h wakes, wf_history h = true ->
         forall f, In f (viol_C05 ifs h wakes (map obs_of (run_history ifs h))) -> is_again_fail f = false
   i.e. the checker never reports F05_again: "ServiceResolved of an instance on a channel after
   ServiceRemoved of that instance on that channel (iteration j), with no delivery in iterations
   j.. of a record that concerns the instance (PTR pointing to it, its SRV / TXT, an address
   record of the host it is resolved to)".  Proved for the histories of safe_class (outside the
   classes known_ptr_variant and known_srv_targets - inside known_srv_targets it is FALSE, see
   C05_no_resolved_again_refuted_in_srv_targets (round 6); inside known_ptr_variant it is open) and with the
   well-formedness condition fresh_channels: every browse call uses a channel number greater
   than all used before (a channel number names ONE browse call; the history builders number
   them 1, 2, 3, ...; the driver rejects a history that violates it).
   The invariant (DI, Proofs/C05AgainProofs.v): for every entry (channel, instance, j) of the
   checker's dead list and the type browsed on that channel, either a relevant delivery with
   index >= j is in the log or the instance is not strongly alive in the model's cache.  It is
   kept by: the cache only shrinking (C05_liveness_decreases_with_cache), time going by
   (C05_liveness_decreases_with_time), deliveries that do not concern the instance
   (C05_other_deliveries_keep_dead); what is reported resolved is strongly alive
   (C05_resolved_is_strongly_alive); what is reported removed is not (round 4).
   Note on timeliness (F05_dead), decided in round 5: stop_browse(ty) removes the PTR, SRV, TXT
   records of every instance the PTR records of ty point to (remove_service_type), also when
   the instance is still browsed under a second PTR name (subtype): that instance then stays
   "resolved" on the other channel with no SRV in the cache; no ServiceRemoved comes, and when
   the service then departs silently this is reported only when the PTR runs out (4500 s) instead
   of the SRV (120 s) - run on the real daemon, which agrees.  Recorded as the finding
   C05-stop-browse-drops-shared-records (executable class known_stop_second_name, witness
   C05_known_stop_second_name_witness); a history-level timeliness statement has to exclude this
   class besides C05-expiry-hidden-by-expiring-ptr. *)
Theorem C05_no_resolved_again_partial : forall ifs h wakes,
  wf_history h = true -> safe_class ifs h = true -> fresh_channels h = true ->
  forall f, In f (viol_C05 ifs h wakes (map obs_of (run_history ifs h))) -> is_again_fail f = false.
Proof. exact no_resolved_again. Qed.

(* the same for one iteration from any state: good5 = cache invariant + DI + channel bounds for
   the dead list D; step5 = no ServiceResolved of the iteration trips the check (again_ok) and
   good5 holds again for the dead list after the iteration's events *)
Theorem C05_iteration_no_resolved_again : forall Lf,
  known_ptr_variant Lf = false -> known_srv_targets Lf = false -> ptr_names_ok Lf = true ->
  forall k log now cur, (forall x, In x cur -> In (k, x) log) ->
  forall ifs prev s it D m m',
  i_now it = now -> iter_dlvs ifs it = cur -> incl cur Lf ->
  good5 Lf k log now prev s D m -> calls_fresh m (i_calls it) = Some m' ->
  step5 Lf k log now D (snd (iterate ifs s it)) (prev ++ cur) (fst (iterate ifs s it)) m'.
Proof. exact iterate_again. Qed.

(* liveness only decreases without a delivery of a record of the instance *)
Theorem C05_liveness_decreases_with_cache : forall L c c' now ty inst,
  Inv L c -> shrinks_to c c' -> alive_strong c' now ty inst = true -> alive_strong c now ty inst = true.
Proof. exact alive_shrinks. Qed.

Theorem C05_liveness_decreases_with_time : forall c now now' ty inst,
  now <= now' -> alive_strong c now' ty inst = true -> alive_strong c now ty inst = true.
Proof. exact alive_later. Qed.

Theorem C05_other_deliveries_keep_dead : forall Lf L c now ifx r fu now' ty inst,
  Inv L c -> incl L Lf -> relevantL Lf inst (mkDlv now ifx r) = false ->
  alive_strong (fst (add_or_update c now ifx r fu)) now' ty inst = true ->
  alive_strong c now' ty inst = true.
Proof. exact aou_frame. Qed.

(* what resolve_service_from_cache finds valid for a PTR record with more than a second left is
   strongly alive, and its host is the host of a cached SRV record of the instance *)
Theorem C05_resolved_is_strongly_alive : forall c now ty inst pb p,
  bm_get ty (c_ptr c) = Some pb -> In p pb -> alias_of (e_rr p) = inst -> expires_soon p now = false ->
  is_valid (resolve_from_cache c now ty inst) = true ->
  alive_strong c now ty inst = true
  /\ exists sb e, bm_get inst (c_srv c) = Some sb /\ In e sb
                  /\ srv_host e = rs_host (resolve_from_cache c now ty inst)
                  /\ rs_host (resolve_from_cache c now ty inst) <> [].
Proof. exact valid_alive. Qed.

(* non-vacuity: announcement, goodbye, announcement again - ServiceRemoved, then ServiceResolved
   again on the same channel (a relevant delivery in between); stop and browse on a new channel *)
Example C05_no_resolved_again_example :
  wf_history again_hist = true /\ safe_class ex_ifs again_hist = true /\ fresh_channels again_hist = true
  /\ map (fun o => (existsb is_resolved_evt o, existsb is_removed_evt o)) (run_history ex_ifs again_hist)
     = [(false, false); (true, false); (false, false); (false, true); (true, false); (false, false); (false, false)]
  /\ chk_C05 ex_ifs again_hist (ex_wakes again_hist) (map obs_of (run_history ex_ifs again_hist)) = true
  /\ fresh_channels ex_hist = true /\ fresh_channels brexp_hist = true /\ fresh_channels ptrlast_hist = true.
Proof. exact again_example. Qed.

(* round 6: inside known_srv_targets the F05_again statement is FALSE (model and daemon): after
   the ServiceRemoved of finding C05-second-srv-target a new address record of the OTHER host makes
   the daemon resolve the instance again through the first SRV target - no record of the instance
   or of the host it is resolved to was delivered in between.  Inside known_ptr_variant the
   statement stays open (neither proved nor refuted). *)
Theorem C05_no_resolved_again_refuted_in_srv_targets :
  wf_history again_tgt_hist = true /\ fresh_channels again_tgt_hist = true
  /\ known_srv_targets (log_of_history ex_ifs again_tgt_hist) = true
  /\ map (fun o => (existsb is_resolved_evt o, existsb is_removed_evt o)) (run_history ex_ifs again_tgt_hist)
     = [(false, false); (true, false); (true, false); (false, true); (true, false); (false, false)]
  /\ existsb is_again_fail (viol_C05 ex_ifs again_tgt_hist (ex_wakes again_tgt_hist)
                                     (map obs_of (run_history ex_ifs again_tgt_hist))) = true.
Proof. exact again_srv_targets_witness. Qed.

(* C05, timeliness (round 6).  Full statement:
       forall ifs h wakes, wf_history h = true ->
         forall f, In f (viol_C05 ifs h wakes (map obs_of (run_history ifs h))) -> is_dead_fail f = false
   i.e. the checker never reports F05_dead: at the end of EVERY iteration every instance that is
   "up" on the current channel of its type (ServiceResolved seen, no ServiceRemoved since) has a
   PTR, an SRV and an address of that SRV's host unexpired.  So in the first iteration whose `now`
   is at or after the instant a goodbye's second, the TTL of the PTR / last SRV / last address or a
   verify deadline runs out, the ServiceRemoved is emitted - on every schedule; whether the daemon
   is woken at that instant is C12's matter (Props/C12Cache.v), the browser model has no timers.
   FALSE of the faithful model and the daemon in two classes (witnesses below), proved outside
   them: timely_class = safe_class (no PTR variants, one SRV target, no root names)
   && fresh_channels && not known_stop_second_name (C05-stop-browse-drops-shared-records)
   && not known_removal_hidden (C05-expiry-hidden-by-expiring-ptr, as a class of histories: at some
   call of resolve_updated_instances an updated instance that is in `resolved` cannot be resolved
   any more while a PTR record of a browsed name pointing to it is in its last second - that
   name's browser is not told; evaluated along the model's run).
   The invariant (UI, Proofs/C05TimelyProofs.v): every up entry whose type is still browsed on
   its channel has PTR, SRV and an address record PRESENT in the model's cache (expired or not) and
   its instance is in the model's `resolved` set.  Records leave the cache only in the evictions
   and in stop_browse (add_or_update, verify and refresh keep every record: C05_update_keeps_records
   ...); the evictions report what they take - expired PTR, last SRV (round 2 theorems), last
   address through resolve_updated_instances, which needs `resolved` membership: an instance leaves
   `resolved` only when it is reported under every browsed name (C05_resolved_set_left_only_when_reported)
   or the class is hit; after the evictions every record is unexpired, so present = weakly alive. *)
Theorem C05_removed_on_time_partial : forall ifs h wakes,
  wf_history h = true -> timely_class ifs h = true ->
  forall f, In f (viol_C05 ifs h wakes (map obs_of (run_history ifs h))) -> is_dead_fail f = false.
Proof. exact removed_on_time. Qed.

(* one iteration from any state: goodT = cache invariant + UI + channel bounds; afterwards goodT
   holds for the up list after the iteration's events, and no record of the cache is expired *)
Theorem C05_iteration_removed_on_time : forall Lf,
  known_srv_targets Lf = false -> ptr_names_ok Lf = true ->
  forall now ifs prev s it ups m m',
  i_now it = now -> goodT Lf prev s ups m -> incl (prev ++ iter_dlvs ifs it) Lf ->
  calls_fresh m (i_calls it) = Some m' -> (forall cl, In cl (i_calls it) -> call_ok Lf cl) ->
  iter_hidden ifs s it = false ->
  goodT Lf (prev ++ iter_dlvs ifs it) (fst (iterate ifs s it)) (upsf ups (snd (iterate ifs s it))) m'
  /\ all_live (s_cache (fst (iterate ifs s it))) now.
Proof. exact iterate_timely. Qed.

(* records are never lost by a delivery or by verify *)
Theorem C05_update_keeps_records : forall c now ifx r fu, keeps c (fst (add_or_update c now ifx r fu)).
Proof. exact aou_keeps. Qed.

Theorem C05_verify_keeps_records : forall c inst at_, keeps c (fst (service_verify_queries c inst at_)).
Proof. exact verify_keeps. Qed.

(* stop_browse of another name leaves an instance's records alone unless that name points to it *)
Theorem C05_stop_keeps_other_instances : forall c ty2 ty inst,
  ty <> ty2 ->
  (forall pb2 p2, bm_get ty2 (c_ptr c) = Some pb2 -> In p2 pb2 -> alias_of (e_rr p2) <> inst) ->
  present c ty inst -> present (remove_service_type c ty2) ty inst.
Proof. exact rst_present. Qed.

(* after the two evictions no PTR / SRV / address record of the cache is expired *)
Theorem C05_evictions_leave_live_records : forall c now,
  all_live (fst (evict_addr (fst (evict_services c now)) now)) now.
Proof. exact evict_all_live. Qed.

(* an instance leaves `resolved` in resolve_updated_instances only when it was updated and is
   invalid under a browsed name that has a PTR record to it *)
Theorem C05_resolved_set_left_only_when_reported : forall s now updated i,
  mem i (s_resolved s) = true -> mem i (s_resolved (fst (resolve_updated s now updated))) = false ->
  mem i updated = true
  /\ exists t ptrs p, In (t, ptrs) (c_ptr (s_cache s)) /\ In p ptrs /\ alias_of (e_rr p) = i
                      /\ is_valid (resolve_from_cache (s_cache s) now t i) = false.
Proof. exact resolve_updated_leaves. Qed.

(* witness of the class known_removal_hidden (finding C05-expiry-hidden-by-expiring-ptr) *)
Theorem C05_known_removal_hidden_witness :
  wf_history ptrlast_hist = true /\ safe_class ex_ifs ptrlast_hist = true /\ fresh_channels ptrlast_hist = true
  /\ known_stop_second_name ex_ifs ptrlast_hist = false
  /\ known_removal_hidden ex_ifs ptrlast_hist = true
  /\ existsb is_dead_fail (viol_C05 ex_ifs ptrlast_hist (ex_wakes ptrlast_hist) (map obs_of (run_history ex_ifs ptrlast_hist))) = true.
Proof. exact removal_hidden_witness. Qed.

(* non-vacuity: histories in timely_class whose traces have ServiceRemoved (goodbye, SRV expiry
   and address expiry under two names, mixed-case host, ...); the witnesses of the known classes
   are outside it *)
Example C05_removed_on_time_example :
  map (timely_class ex_ifs) [ex_hist; twonames_hist; twonames_addr_hist; mixedcase_hist; again_hist; lastsec_hist]
  = [true; true; true; true; true; true]
  /\ map (fun h => existsb (existsb is_removed_evt) (run_history ex_ifs h))
         [ex_hist; twonames_hist; twonames_addr_hist; mixedcase_hist; again_hist; lastsec_hist]
     = [true; true; true; true; true; true]
  /\ map (timely_class ex_ifs) [ptrlast_hist; stopname_hist; ref5_hist; srvtgt_hist] = [false; false; false; false].
Proof. exact timely_example. Qed.

(* one witness per known class: the class predicate holds and the checker fails *)
Theorem C05_known_ptr_variant_witness :
  known_ptr_variant (log_of_history ex_ifs ref5_hist) = true
  /\ existsb is_alive_fail (viol_C05 ex_ifs ref5_hist (ex_wakes ref5_hist) (map obs_of (run_history ex_ifs ref5_hist))) = true.
Proof. exact ptr_variant_witness. Qed.

Theorem C05_known_srv_targets_witness :
  wf_history srvtgt_hist = true
  /\ known_srv_targets (log_of_history ex_ifs srvtgt_hist) = true
  /\ known_ptr_variant (log_of_history ex_ifs srvtgt_hist) = false
  /\ existsb is_alive_fail (viol_C05 ex_ifs srvtgt_hist (ex_wakes srvtgt_hist) (map obs_of (run_history ex_ifs srvtgt_hist))) = true
  /\ chk_C04 ex_ifs srvtgt_hist (ex_wakes srvtgt_hist) (map obs_of (run_history ex_ifs srvtgt_hist)) = false.
Proof. exact srv_targets_witness. Qed.

(* C05-expiry-hidden-by-expiring-ptr: inside the safe class, the timeliness part fails with the
   flag "every PTR of the instance is in its last second" *)
Theorem C05_known_ptr_last_second_witness :
  wf_history ptrlast_hist = true
  /\ safe_class ex_ifs ptrlast_hist = true
  /\ map (fun o => existsb is_removed_evt o) (run_history ex_ifs ptrlast_hist) = [false; false; false; false; true]
  /\ existsb is_dead_last_second (viol_C05 ex_ifs ptrlast_hist (ex_wakes ptrlast_hist) (map obs_of (run_history ex_ifs ptrlast_hist))) = true.
Proof. exact ptr_last_second_witness. Qed.


(* found by the timeliness analysis of round 5 (finding C05-stop-browse-drops-shared-records, the
   daemon agrees): stop_browse of the subtype drops the SRV / TXT / address records of an
   instance that is still browsed under its type; no ServiceRemoved on that channel, and a silent
   departure is then reported only when the PTR runs out (4500 s instead of 120 s) *)
Theorem C05_known_stop_second_name_witness :
  wf_history stopname_hist = true /\ safe_class ex_ifs stopname_hist = true /\ fresh_channels stopname_hist = true
  /\ known_stop_second_name ex_ifs stopname_hist = true
  /\ existsb (existsb is_removed_evt) (run_history ex_ifs stopname_hist) = false
  /\ existsb is_dead_no_srv (viol_C05 ex_ifs stopname_hist (ex_wakes stopname_hist)
                                      (map obs_of (run_history ex_ifs stopname_hist))) = true
  /\ known_stop_second_name ex_ifs twonames_hist = false /\ known_stop_second_name ex_ifs again_hist = false.
Proof. exact stop_second_name_witness. Qed.

(* The history-level statement is false of the faithful model: the PTR is delivered a second
   time with the cache-flush bit and TTL 2 s; ServiceRemoved at +2 s although the first PTR, the
   SRV and the address are live (finding C05-ptr-variant-expiry). *)
Theorem C05_removed_on_time_refuted :
  exists ifs h wakes, wf_history h = true /\ chk_C05 ifs h wakes (map obs_of (run_history ifs h)) = false.
Proof. exact chk_C05_refuted. Qed.

(* Non-vacuity: announcement, update, goodbye at +5000, ServiceRemoved in the iteration at
   +6000 (not in the one at +5000); the trace passes chk_C05 (and chk_C04). *)
Example C05_example :
  map (fun o => existsb is_removed_evt o) (run_history ex_ifs ex_hist) = [false; false; false; false; true; false]
  /\ chk_C05 ex_ifs ex_hist (ex_wakes ex_hist) (map obs_of (run_history ex_ifs ex_hist)) = true.
Proof. split; [vm_compute; reflexivity|exact (proj2 ex_hist_chk45)]. Qed.

(* Repaired in round 2, now passing: instance under type and subtype PTR, both browsed, the SRV
   (TTL 3 s) runs out: both channels get ServiceRemoved in the iteration at +3 s. *)
Example C05_example_two_names :
  wf_history twonames_hist = true
  /\ map (fun o => length (filter is_removed_evt o)) (run_history ex_ifs twonames_hist) = [0; 0; 2; 0]%nat
  /\ chk_C05 ex_ifs twonames_hist (ex_wakes twonames_hist) (map obs_of (run_history ex_ifs twonames_hist)) = true.
Proof. exact twonames_facts. Qed.

Example C05_example_two_names_address :
  map (fun o => length (filter is_removed_evt o)) (run_history ex_ifs twonames_addr_hist) = [0; 0; 2; 0]%nat
  /\ chk_C05 ex_ifs twonames_addr_hist (ex_wakes twonames_addr_hist)
             (map obs_of (run_history ex_ifs twonames_addr_hist)) = true.
Proof. exact twonames_addr_facts. Qed.

Print Assumptions C05_evict_services_exact.
Print Assumptions C05_evict_addr_exact.
Print Assumptions C05_live_only_is.
Print Assumptions C05_sweep_is.
Print Assumptions C05_expired_ptr_reported.
Print Assumptions C05_srv_expiry_reported_under_every_name.
Print Assumptions C05_evict_reports_only_when_true.
Print Assumptions C05_removed_when_invalid_partial.
Print Assumptions C05_invalid_reported_under_every_name.
Print Assumptions C05_example_two_names_address.
Print Assumptions C05_goodbye_new.
Print Assumptions C05_goodbye_cached.
Print Assumptions C05_unexpired_iff.
Print Assumptions C05_verify_shortens.
Print Assumptions C05_verify_min.
Print Assumptions C05_verify_questions.
Print Assumptions C05_answer_restores.
Print Assumptions C05_spec_cache_is_model_cache.
Print Assumptions C05_removed_only_when_true_partial.
Print Assumptions C05_iteration_removed_only_when_true.
Print Assumptions C05_safe_class_example.
Print Assumptions C05_no_resolved_again_partial.
Print Assumptions C05_iteration_no_resolved_again.
Print Assumptions C05_liveness_decreases_with_cache.
Print Assumptions C05_liveness_decreases_with_time.
Print Assumptions C05_other_deliveries_keep_dead.
Print Assumptions C05_resolved_is_strongly_alive.
Print Assumptions C05_no_resolved_again_example.
Print Assumptions C05_no_resolved_again_refuted_in_srv_targets.
Print Assumptions C05_removed_on_time_partial.
Print Assumptions C05_iteration_removed_on_time.
Print Assumptions C05_update_keeps_records.
Print Assumptions C05_verify_keeps_records.
Print Assumptions C05_stop_keeps_other_instances.
Print Assumptions C05_evictions_leave_live_records.
Print Assumptions C05_resolved_set_left_only_when_reported.
Print Assumptions C05_known_removal_hidden_witness.
Print Assumptions C05_removed_on_time_example.
Print Assumptions C05_known_ptr_variant_witness.
Print Assumptions C05_known_srv_targets_witness.
Print Assumptions C05_known_ptr_last_second_witness.
Print Assumptions C05_known_stop_second_name_witness.
Print Assumptions C05_removed_on_time_refuted.
Print Assumptions C05_example.
Print Assumptions C05_example_two_names.
