(* C11  Records live for their TTL, refresh at 80/85/90/95 %, obey cache-flush.
   Only statements here; every proof is `exact <lemma>` (lemmas in Proofs/LifeProofs.v,
   Proofs/LifeCacheProofs.v).  Model: Model/Life.v, Model/LifeCache.v (built from the regenerated
   Gen/ParamsLife.v, pinned to the literal numbers in Proofs/ParamsLifePinned.v);
   specifications with literal numbers: Model/LifeSpec.v, Model/LifeCacheSpec.v.
   Times are virtual milliseconds, TTLs seconds; U32 = 2^32, U64 = 2^64, B63 = 2^63. *)
From Coq Require Import List NArith Bool.
From Mdns Require Import Res Bytes Rec Life LifeSpec LifeCache LifeCacheSpec LifeProofs LifeCacheProofs LifeSimInst.
Import ListNotations.
Open Scope N_scope.

(* ---- lifetime ---- *)

(* A record constructed at T with TTL t is expired exactly from T + 1000*t on. *)
Theorem C11_lifetime : forall T t r now,
  new_rec T t = Ok r -> (is_expired r now = true <-> T + 1000 * t <= now).
Proof. exact lifetime. Qed.

(* A record received in a response with wire TTL t (TTL 0 is stored as 1). *)
Theorem C11_lifetime_wire : forall T t r now,
  new_rec T (stored_ttl true t) = Ok r ->
  (is_expired r now = true <-> T + 1000 * N.max 1 t <= now).
Proof. exact lifetime_wire. Qed.

(* Nothing but set_expire / set_expire_sooner / reset_ttl moves the expiry: after ANY sequence of
   the other operations (queries, refreshes, update_ttl) the record still expires at T + 1000*t. *)
Theorem C11_lifetime_frame : forall T t ops r0 r outs now,
  new_rec T t = Ok r0 -> forallb keeps_expiry ops = true -> run_ops r0 ops = Ok (r, outs) ->
  (is_expired r now = true <-> T + 1000 * t <= now).
Proof. exact lifetime_frame. Qed.

(* ---- refresh marks ---- *)

(* For EVERY sequence of observation times (any order, any gaps), refresh_maybe answers exactly
   as the ladder over the four marks T+800t, T+850t, T+900t, T+950t prescribes: each call takes
   at most the NEXT pending mark, and only if that mark has been reached and the record has not
   expired (a wake-up that skipped several marks takes them on consecutive calls, one each). *)
Theorem C11_refresh_marks : forall T t r obs,
  new_rec T t = Ok r -> 1 <= t -> t < U32 -> T < B63 ->
  refresh_obs r obs = Ok (ladder_spec (marks4 T t) (T + 1000 * t) obs).
Proof. exact refresh_marks. Qed.

(* consequences of the ladder, for every observation sequence: at most one refresh per mark ... *)
Theorem C11_refresh_once_per_mark : forall marks e obs,
  (count_true (ladder_spec marks e obs) <= length marks)%nat.
Proof. exact ladder_count. Qed.

(* ... never at or after expiry ... *)
Theorem C11_refresh_never_after_expiry : forall marks e obs,
  Forall (fun now => now < e) (true_times obs (ladder_spec marks e obs)).
Proof. exact ladder_before_expiry. Qed.

(* ... the k-th refresh not before the k-th mark ... *)
Theorem C11_refresh_not_before_mark : forall marks e obs,
  at_or_after marks (true_times obs (ladder_spec marks e obs)).
Proof. exact ladder_at_or_after. Qed.

(* ... and a pending mark that has been reached is taken at that very observation. *)
Theorem C11_refresh_mark_not_skipped : forall m marks e now obs,
  m <= now -> now < e ->
  ladder_spec (m :: marks) e (now :: obs) = true :: ladder_spec marks e obs.
Proof. exact ladder_takes_due. Qed.

(* On the timer-exact schedule the refreshes are exactly at the four marks, none at expiry. *)
Theorem C11_refresh_timer_exact : forall T t,
  1 <= t ->
  ladder_spec (marks4 T t) (T + 1000 * t) (marks4 T t ++ [T + 1000 * t]) = [true; true; true; true; false].
Proof. exact ladder_timer_exact. Qed.

(* A fresh copy of the record (reset_ttl) restarts the schedule from the new TTL and time ... *)
Theorem C11_reset_restarts : forall r t c r' obs,
  1 < t -> t < U32 -> c < B63 -> reset_ttl r t c = Ok r' ->
  refresh_obs r' obs = Ok (ladder_spec (marks4 c t) (c + 1000 * t) obs).
Proof. exact reset_restarts. Qed.

(* ... and a copy with TTL 1 (goodbye) just expires one second later, without refresh. *)
Theorem C11_reset_ttl_one : forall r c r',
  reset_ttl r 1 c = Ok r' -> r' = mkT 1 c (c + 1000) (c + 1000).
Proof. exact reset_ttl_one. Qed.

(* Addresses of a resolved hostname are refreshed once, at the first observation at or after 80 %. *)
Theorem C11_hostname_refresh_once : forall T t r obs,
  new_rec T t = Ok r -> 1 <= t -> t < U32 -> T < B63 ->
  refresh_once_obs r obs = Ok (ladder_spec [T + 800 * t] (T + 1000 * t) obs).
Proof. exact refresh_once_marks. Qed.

(* Monitor theorem (record level): for every history of operations on one cached record, what
   the code returns satisfies the executable checker chk_C11_life (lifetime, expires_soon,
   refresh_due, half life, the ladder with resets, set_expire_sooner, refresh_no_more). *)
Theorem C11_record_history : forall created ttl ops outs,
  life_case created ttl ops = Ok outs -> chk_C11_life created ttl ops outs = true.
Proof. exact chk_C11_life_sound. Qed.

(* ---- no overflow ---- *)

(* Inside the bounds (TTL 1..2^32-1, clock values below 2^63) no operation the daemon applies
   to a cached record can panic ... *)
Theorem C11_no_overflow : forall created ttl ops,
  life_bounds created ttl ops = true -> forallb in_alphabet ops = true ->
  exists outs, life_case created ttl ops = Ok outs.
Proof. exact life_case_total. Qed.

(* ... every mark fits into u64 ... *)
Theorem C11_no_overflow_marks : forall c t p,
  c < B63 -> t < U32 -> p <= 100 -> exp_time c t p = Ok (c + t * p * 10).
Proof. exact exp_time_ok. Qed.

(* ... get_remaining_ttl panics exactly after expiry (u64 underflow). *)
Theorem C11_remaining_ttl_panics_iff : forall r now,
  t_created r + 1000 * t_ttl r < U64 ->
  (remaining_ttl r now = Panic <-> t_created r + 1000 * t_ttl r < now).
Proof. exact remaining_ttl_panic_iff. Qed.

(* ---- cache flush: full functional statement of add_or_update on the Vec of one name ---- *)

Theorem C11_cache_flush_spec : forall (b : tbucket) inc ttl now is_for_us,
  Forall entry_ok b -> now < B63 -> 1 <= ttl -> ttl < U32 ->
  add_or_update trec trec_ops b inc ttl now is_for_us = Ok (aou_spec b inc ttl now is_for_us).
Proof. exact add_or_update_spec. Qed.

(* shape of the result: the first matching record is refreshed in place (reset_ttl) - and is
   reported as NEW exactly when it was on its way out (TTL <= 1, e.g. a goodbye) and the incoming
   TTL is > 1 - or the incoming record is inserted at the front; every other position holds
   flush_entry of the old record; one timer (now + 1 s) per flushed record *)
Theorem C11_cache_flush_shape : forall (b : tbucket) inc ttl now b' ts isnew,
  aou_spec b inc ttl now true = Some (b', ts, isnew) ->
  ts = map (fun _ => now + 1000) (filter (fun e => i_flush inc && flushable inc now e) b) /\
  ((exists pre e post, b = pre ++ e :: post /\ matches (c_id e) inc = true /\
       Forall (fun x => matches (c_id x) inc = false) pre /\
       isnew = ((t_ttl (c_t e) <=? 1) && (1 <? ttl)) /\
       b' = map (flush_entry inc now) pre ++ mkC (c_id e) (fresh_reset ttl now) :: map (flush_entry inc now) post)
   \/ (isnew = true /\ Forall (fun x => matches (c_id x) inc = false) b /\
       b' = mkC inc (fresh_new ttl now) :: map (flush_entry inc now) b)).
Proof. exact aou_shape. Qed.

(* what flush_entry does, in the words of the property: *)
Theorem C11_flush_needs_bit : forall inc now (e : tentry),
  i_flush inc = false -> flush_entry inc now e = e.
Proof. exact flush_entry_no_bit. Qed.

Theorem C11_flush_keeps_same_burst : forall inc now (e : tentry),
  now <= t_created (c_t e) + 1000 -> flush_entry inc now e = e.
Proof. exact flush_entry_same_burst. Qed.

Theorem C11_flush_keeps_expiring : forall inc now (e : tentry),
  t_expires (c_t e) <= now + 1000 -> flush_entry inc now e = e.
Proof. exact flush_entry_expiring. Qed.

Theorem C11_flush_keeps_other_class_type : forall inc now (e : tentry),
  i_class inc <> i_class (c_id e) \/ i_type inc <> i_type (c_id e) -> flush_entry inc now e = e.
Proof. exact flush_entry_other_class_type. Qed.

Theorem C11_flush_keeps_other_interface : forall inc now (e : tentry),
  (i_type inc = 1 \/ i_type inc = 28) -> both_addr (c_id e) inc = true -> i_if (c_id e) <> i_if inc ->
  flush_entry inc now e = e.
Proof. exact flush_entry_other_interface. Qed.

Theorem C11_flush_expires_in_one_second : forall inc now (e : tentry),
  i_flush inc = true -> flushable inc now e = true ->
  flush_entry inc now e = mkC (c_id e) (mkT (t_ttl (c_t e)) (t_created (c_t e)) (now + 1000) (t_refresh (c_t e))).
Proof. exact flush_entry_flushed. Qed.

(* ---- daemon level: the cache / refresh / evict layer over whole histories ---- *)

(* For EVERY history of daemon loop iterations (received records, (re)transmissions, any times
   below 2^63, wire TTLs below 2^32): the model of the code (model_run: Model/LifeCache.v with
   the operations of Model/Life.v) and the property text with literal numbers (spec_run: the
   same cache layer over the abstract record state of Model/LifeSpec.v - marks 80/85/90/95 %,
   expiry T+1000*ttl, one-second flush rule) run without panic and make the same observations in
   every iteration: the same queries (question lists; answer sections are C10's subject), the
   same ServiceRemoved and AddressesRemoved reports.  The extracted spec_run is the monitor
   applied to the traces of the real daemon. *)
Theorem C11_daemon_level_refinement : forall cfg steps,
  Forall step_ok steps ->
  exists obs spec, model_run cfg steps = Ok obs /\ spec_run cfg steps = Ok spec /\ Forall2 io_eq obs spec.
Proof. exact sim_refines. Qed.

(* refresh needs an open search: with no browse and no hostname resolver, no query is sent *)
Theorem C11_refresh_needs_open_search : forall c now nsb nsh recs c' o,
  sim_iter trec trec_ops (mkCfg None None) c now nsb nsh recs = Ok (c', o) -> io_queries o = [].
Proof. exact no_search_no_queries. Qed.

(* ---- non-vacuity ---- *)

(* a record received at 1 000 000 with TTL 120: a wake-up schedule that skips the 85 % mark
   (observations at 80 %, 92 %, 92 %, 92 %+1, 95 %, expiry) *)
Example C11_example_skipping_schedule :
  exists r, new_rec 1000000 120 = Ok r /\
  refresh_obs r [1096000; 1110400; 1110400; 1110401; 1114000; 1120000]
  = Ok [true; true; true; false; true; false].
Proof. eexists. split; [vm_compute; reflexivity | vm_compute; reflexivity]. Qed.

(* an address Vec: an old record on interface 2, a record of the same burst, a record learned on
   interface 3; a new address arrives on interface 2 with the cache-flush bit *)
Example C11_example_flush :
  let a (o : N) (ifx : N) := mkId [104;49;46] 1 1 true (RAddr [10;0;0;o]) ifx in
  let b := [ mkC (a 1 2) (mkT 120 1000000 1120000 1096000);
             mkC (a 2 2) (mkT 120 1004500 1124500 1100500);
             mkC (a 3 3) (mkT 120 1000000 1120000 1096000) ] in
  add_or_update trec trec_ops b (a 9 2) 120 1005000 true
  = Ok (Some ([ mkC (a 9 2) (mkT 120 1005000 1125000 1101000);
                mkC (a 1 2) (mkT 120 1000000 1006000 1096000);
                mkC (a 2 2) (mkT 120 1004500 1124500 1100500);
                mkC (a 3 3) (mkT 120 1000000 1120000 1096000) ], [1006000], true)).
Proof. vm_compute. reflexivity. Qed.

(* a browse of "t." and a resolver for "h.": a PTR (TTL 10) and two addresses arrive, the second
   address with the cache-flush bit 2 s after the first; iterations at the interesting times *)
Example C11_example_history :
  let ptr := (mkId [116;46] TY_PTR 1 false (RPtr [105;46]) 2, 10) in
  let a1 := (mkId [104;46] TY_A 1 true (RAddr [10;0;0;1]) 2, 10) in
  let a2 := (mkId [104;46] TY_A 1 true (RAddr [10;0;0;2]) 2, 10) in
  let st t recs := mkStep t O O recs in
  model_run (mkCfg (Some [116;46]) (Some [104;46]))
    [ st 1000000 [ptr; a1]; st 1002000 [a2]; st 1003000 []; st 1008000 []; st 1008500 [];
      st 1009000 []; st 1009500 []; st 1010000 []; st 1012000 [] ]
  = Ok [ mkIO [] [] [];
         mkIO [] [] [];
         mkIO [] [] [fst a1];                                              (* flushed: +1 s *)
         mkIO [mkQD [([116;46], TY_PTR)] []] [] [];                         (* PTR 80 % *)
         mkIO [mkQD [([116;46], TY_PTR)] []] [] [];                         (* 85 % *)
         mkIO [mkQD [([116;46], TY_PTR)] []] [] [];                         (* 90 % *)
         mkIO [mkQD [([116;46], TY_PTR)] []] [] [];                         (* 95 % *)
         mkIO [mkQD [([104;46], TY_A)] []] [[105;46]] [];                   (* PTR expires; a2 at 80 % *)
         mkIO [] [] [fst a2] ].
Proof. vm_compute. reflexivity. Qed.

Print Assumptions C11_lifetime.
Print Assumptions C11_daemon_level_refinement.
Print Assumptions C11_refresh_needs_open_search.
Print Assumptions C11_lifetime_wire.
Print Assumptions C11_lifetime_frame.
Print Assumptions C11_refresh_marks.
Print Assumptions C11_refresh_once_per_mark.
Print Assumptions C11_refresh_never_after_expiry.
Print Assumptions C11_refresh_not_before_mark.
Print Assumptions C11_refresh_mark_not_skipped.
Print Assumptions C11_refresh_timer_exact.
Print Assumptions C11_reset_restarts.
Print Assumptions C11_reset_ttl_one.
Print Assumptions C11_hostname_refresh_once.
Print Assumptions C11_record_history.
Print Assumptions C11_no_overflow.
Print Assumptions C11_no_overflow_marks.
Print Assumptions C11_remaining_ttl_panics_iff.
Print Assumptions C11_cache_flush_spec.
Print Assumptions C11_cache_flush_shape.
Print Assumptions C11_flush_needs_bit.
Print Assumptions C11_flush_keeps_same_burst.
Print Assumptions C11_flush_keeps_expiring.
Print Assumptions C11_flush_keeps_other_class_type.
Print Assumptions C11_flush_keeps_other_interface.
Print Assumptions C11_flush_expires_in_one_second.
