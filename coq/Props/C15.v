(* C15  No API argument and no packet can crash a caller or kill the daemon.
   Only statements here; every proof is `exact <lemma>` (Proofs/SafetyNamesProofs.v).

   Model: Model/SafetyNames.v - the validators and renaming functions of
   src/service_daemon.rs / src/service_info.rs on UTF-8 byte strings; `Panic` where the Rust
   slices a str by byte index, truncates a String or subtracts usize values.
   `safe r` (Base/Res.v) = r is neither Panic nor OutOfFuel.
   The encoder's label split is WireOut.name_labels and its writer WireOut.write_name
   (Model/WireOut.v, the definitions C02's round-trip theorem is about).

   FULL STATEMENT (property text): no value passed to a public function and no sequence of
   datagrams makes the calling thread panic or ends the daemon thread.
   Proved here: the argument-validation layer (every string, every position of multi-byte
   characters, dots, backslashes, suffixes) and the encodability of every accepted name.
   Formerly refuted, now proved after the repairs c85b8fe / 35da75b: names stay encodable
   under any number of conflict renames; names taken from the wire are encodable again.
   Not covered by a theorem (monitor chk_C15 on simulated-daemon runs only): panic-freedom of
   the whole daemon iteration on arbitrary packets beyond the decoder (C01's decode_total). *)
From Coq Require Import List NArith Bool.
From Mdns Require Import Res Bytes Utf8 WireOut ParamsSafety SafetyNames SafetyNamesProofs.
Import ListNotations.
Open Scope N_scope.

(* validators_total: on ANY valid UTF-8 string no validator, no renaming function and no
   argument check of browse / resolve_hostname panics (wherever multi-byte characters, dots,
   backslashes, parentheses, hyphens or suffixes are). *)
Theorem C15_validators_total : forall lc s,
  utf8_valid s = true ->
  safe (check_domain_suffix s) /\ safe (check_service_name s)
  /\ (forall lim, safe (check_service_name_length s lim)) /\ safe (check_hostname s)
  /\ safe (check_label_lengths lc s) /\ safe (name_change s) /\ safe (hostname_change s)
  /\ (exists r, normalize_hostname s = Ok r)
  /\ safe (api_browse lc s) /\ safe (api_resolve_hostname lc s).
Proof. exact validators_total. Qed.

(* ... and ServiceInfo::new followed by register() does not panic for any three valid UTF-8
   strings (type, instance name, host name). *)
Theorem C15_register_total : forall lc ty nm host,
  utf8_valid ty = true -> utf8_valid nm = true -> utf8_valid host = true ->
  (exists r, si_names ty nm host = Ok r) /\ safe (api_register lc ty nm host).
Proof. exact register_total. Qed.

(* `&name[1..]` in check_service_name: behind `starts_with('_')` the index 1 is in range and
   on a character boundary. *)
Theorem C15_service_label_slice_safe : forall name,
  nca name = true -> first_is USC name = true -> exists r, slice name 1 (length name) = Ok r.
Proof. exact service_label_slice_safe. Qed.

(* accepted_is_encodable.  `lc` stands for str::to_lowercase (Unicode case mapping is not
   modelled; since 4c6b25c check_label_lengths tests the lower-cased spelling too, because the
   daemon keys its maps by it and sends some queries under that key).  The theorems hold for
   EVERY function lc: a name accepted by browse / resolve_hostname has only labels of 1..63
   bytes under the encoder's own label split, as given AND as `lc name`, and the encoder model
   cannot panic on either spelling (whatever the compression table and position). *)
Theorem C15_accepted_is_encodable_browse : forall lc ty,
  wf_bytes ty -> wf_bytes (lc ty) -> api_browse lc ty = Ok tt -> enc_ok ty /\ enc_ok (lc ty).
Proof. exact browse_accepted. Qed.

Theorem C15_accepted_is_encodable_resolve : forall lc h,
  wf_bytes h -> wf_bytes (lc h) -> api_resolve_hostname lc h = Ok tt -> enc_ok h /\ enc_ok (lc h).
Proof. exact resolve_accepted. Qed.

(* ... and for an accepted registration: the full name, the type (although only the full
   name is checked: the escaped instance name is exactly one label), the host name and the
   subtype name as given; the full name, the host name and the subtype name lower-cased. *)
Theorem C15_accepted_is_encodable_register : forall lc ty nm host tyd sub full server,
  wf_bytes ty -> wf_bytes nm -> wf_bytes host ->
  si_names ty nm host = Ok (tyd, sub, full, server) ->
  api_register lc ty nm host = Ok tt ->
  enc_ok full /\ enc_ok tyd /\ enc_ok server /\ (forall s, sub = Some s -> enc_ok s)
  /\ (wf_bytes (lc full) -> enc_ok (lc full)) /\ (wf_bytes (lc server) -> enc_ok (lc server))
  /\ (forall s, sub = Some s -> wf_bytes (lc s) -> enc_ok (lc s)).
Proof. exact register_accepted. Qed.

(* rename_stays_encodable (was refuted before c85b8fe): ANY number of conflict renames of a
   name whose labels fit (valid UTF-8) never panics and yields a name whose labels are again
   1..63 bytes under the encoder's split, so write_name cannot panic on it (any table, any
   position).  split_first_label / label_with_suffix are modelled exactly (char-boundary
   loop, odd-trailing-backslash rule, usize subtractions). *)
Theorem C15_rename_stays_encodable : forall n s,
  utf8_valid s = true -> wf_bytes s -> labels_fit s = true ->
  exists r, iter_rename name_change n s = Ok r /\ labels_fit r = true /\ enc_ok r.
Proof. exact rename_stays_encodable. Qed.

Theorem C15_hostname_rename_stays_encodable : forall n s,
  utf8_valid s = true -> wf_bytes s -> labels_fit s = true ->
  exists r, iter_rename hostname_change n s = Ok r /\ labels_fit r = true /\ enc_ok r.
Proof. exact hostname_rename_stays_encodable. Qed.

(* one rename in detail: no panic on any text that may follow an ASCII character (valid UTF-8
   in particular); the result is the original with its first label (up to the first unescaped
   dot) replaced by a prefix of it plus a suffix of plain ASCII bytes, at most 63 bytes. *)
Theorem C15_name_change_shape : forall s,
  wfs s -> exists r, name_change s = Ok r /\ renamed_of s r.
Proof. exact name_change_renamed. Qed.

Theorem C15_hostname_change_shape : forall s,
  wfs s -> exists r, hostname_change s = Ok r /\ renamed_of s r.
Proof. exact hostname_change_renamed. Qed.

Theorem C15_renamed_first_label_bounded : forall s r,
  renamed_of s r -> exists new rest, r = new ++ rest /\ (length new <= 63)%nat
                     /\ (rest = [] \/ exists t, rest = DOT :: t).
Proof. exact renamed_first_label_bounded. Qed.

Theorem C15_label_with_suffix_total : forall base suffix,
  (length suffix <= 63)%nat ->
  exists kept, label_with_suffix base suffix = Ok (kept ++ suffix) /\ is_prefix kept base
    /\ (length (kept ++ suffix) <= 63)%nat.
Proof. exact label_with_suffix_spec. Qed.

(* reencode_safe (was refuted before 35da75b).  read_name now ends with the fit test
   (read_name_fit = that last step on the labels read; the reader itself is Model/Wire.v):
   every name it returns - more generally every name that passes SafetyNames' fit predicate -
   has only labels of 1..63 bytes under the encoder's split and write_name cannot panic. *)
Theorem C15_fit_name_encodes : forall name,
  wf_bytes name -> labels_fit name = true -> enc_ok name.
Proof. exact fit_name_encodes. Qed.

Theorem C15_reencode_safe : forall ls name,
  Forall wf_bytes ls -> read_name_fit ls = Ok name -> name = present ls /\ enc_ok name.
Proof. exact reencode_safe. Qed.

(* the test is not over-strict: wire labels without a backslash (dots allowed) always pass;
   the former witness (40 bytes + backslash, then 40 bytes) is rejected with Err, not Panic *)
Theorem C15_read_name_fit_accepts : forall ls,
  Forall (fun l => ~ In BSL l /\ blen l <= 63) ls -> read_name_fit ls = Ok (present ls).
Proof. exact read_name_fit_accepts. Qed.

Theorem C15_read_name_fit_rejects_merged :
  read_name_fit [rep 97 40 ++ [BSL]; rep 98 40; [95;120]; [95;116;99;112]; [108;111;99;97;108]] = Err.
Proof. exact read_name_fit_rejects_merged. Qed.

(* ... and so is a chain of three labels whose adjacent pairs each fit (29+1, 29+1, 30 bytes) *)
Theorem C15_read_name_fit_rejects_chain :
  read_name_fit [rep 97 29 ++ [BSL]; rep 98 29 ++ [BSL]; rep 99 30; [108;111;99;97;108]] = Err.
Proof. exact read_name_fit_rejects_chain. Qed.

(* the regenerated guards are the numbers of the property text *)
Theorem C15_params_pinned :
  (forall n, label_fits n = (n <? 64)) /\ (forall n, write_utf8_assert n = (n <? 64))
  /\ (forall n, hostname_too_long n = (255 <? n)) /\ DOMAIN_LEN = 12.
Proof. exact params_pinned_c15. Qed.

(* Non-vacuity: names with a multi-byte character at position 0 of a label, an escaped dot,
   a 63-byte label and a subtype are accepted; a 64-byte label, an empty service label and a
   multi-byte service label are refused (not panics); renaming examples. *)
Definition ex_sub_ty : bytes := [95;112;46;95;115;117;98;46;95;120;46;95;116;99;112;46;108;111;99;97;108;46]. (* _p._sub._x._tcp.local. *)
Example C15_examples :
  api_register lower ex_sub_ty [195;169;46;98] [195;169;46;108;111;99;97;108;46] = Ok tt
  /\ api_browse lower (repeat 97 63 ++ tcp_suffix) = Ok tt
  /\ api_browse lower (repeat 97 64 ++ tcp_suffix) = Err
  /\ api_resolve_hostname (fun _ => repeat 105 64 ++ local_suffix) (repeat 97 60 ++ local_suffix) = Err
  /\ api_register lower tcp_suffix [105] h_local = Err
  /\ api_register lower ([195;169] ++ tcp_suffix) [105] h_local = Err
  /\ name_change [102;111;111;32;40;57;41;46;120;46] = Ok [102;111;111;32;40;49;48;41;46;120;46]
  /\ hostname_change [195;169;45;50;46;108;111;99;97;108;46] = Ok [195;169;45;51;46;108;111;99;97;108;46]
  /\ name_change (repeat 97 63 ++ [46;120;46]) = Ok (repeat 97 59 ++ [32;40;50;41;46;120;46])
  /\ name_change ([97;92;46;98] ++ [46;120;46]) = Ok ([97;92;46;98;32;40;50;41] ++ [46;120;46])
  /\ hostname_change (repeat 104 63 ++ local_suffix) = Ok (repeat 104 61 ++ [45;50] ++ local_suffix)
  /\ iter_rename name_change 3 (repeat 97 60 ++ [46;120;46]) = Ok (repeat 97 59 ++ [32;40;52;41;46;120;46])
  /\ chk_C15 (mkObs15 0 false true) = true /\ chk_C15 (mkObs15 0 true false) = false.
Proof. repeat split; vm_compute; reflexivity. Qed.

Print Assumptions C15_validators_total.
Print Assumptions C15_register_total.
Print Assumptions C15_service_label_slice_safe.
Print Assumptions C15_accepted_is_encodable_browse.
Print Assumptions C15_accepted_is_encodable_resolve.
Print Assumptions C15_accepted_is_encodable_register.
Print Assumptions C15_rename_stays_encodable.
Print Assumptions C15_hostname_rename_stays_encodable.
Print Assumptions C15_name_change_shape.
Print Assumptions C15_hostname_change_shape.
Print Assumptions C15_renamed_first_label_bounded.
Print Assumptions C15_label_with_suffix_total.
Print Assumptions C15_fit_name_encodes.
Print Assumptions C15_reencode_safe.
Print Assumptions C15_read_name_fit_accepts.
Print Assumptions C15_read_name_fit_rejects_merged.
Print Assumptions C15_read_name_fit_rejects_chain.
Print Assumptions C15_params_pinned.
