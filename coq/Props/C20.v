(* C20  State stays bounded: expired data is forgotten, unrequested data not kept.
   Only statements here; proofs are `exact <lemma>` (Proofs/BoundedProofs.v, BoundedWitness.v).

   step / run pol = model of the querier side of the daemon (Model/BoundedModel.v): record
                cache (PTR/SRV/TXT/address/NSEC buckets, subtype map), timer heap,
                retransmissions, pending/resolved sets, as the code is, with the acceptance
                rule of the cache as parameter:  PCode = the code's rule (message-level
                is_for_us, or non-empty bucket);  PNeed = additionally the record must be needed
                by an active search when it arrives.  `run` returns the get_metrics samples.
   chk_C20    = the checker (Model/BoundedSpec.v): every observed sample is within what the SAME
                history yields under PNeed: five cache counters <= PNeed's counters; subtype
                map <= instances of cached subtype PTRs; timers <= timer_allow (quiet state:
                the pending interface check only; otherwise 2 + 3 per cached record / active
                search / queued retransmission).  Extracted, it is the monitor on the real
                daemon's get_metrics.

   FULL STATEMENTS (both false of the code as it is, see the ..._refuted theorems):
     quiescent_empty :  all searches stopped /\ now past every entry's expiry ->
                        after one more iteration the six cache counters are 0 and
                        timers within {next interface check};
     bounded_by_need :  forall t0 h, btimes_ok t0 h = true -> chk_C20 t0 h (run PCode t0 h) = true.  *)
From Coq Require Import List NArith Bool.
From Mdns Require Import Bytes ParamsHostres HostresBase BoundedModel BoundedSpec BoundedProofs BoundedWitness
                         BoundedCountProofs BoundedTimerProofs.
Import ListNotations.
Open Scope N_scope.

(* ---- quiescent_empty, what is true ---- *)
(* the five record counters: an iteration at time `now` without incoming responses, from ANY
   state in which every cached record has expired by `now`, ends with cached-ptr, -srv, -txt,
   -addr, -nsec all 0 - whatever calls are made in it, under either acceptance rule *)
Theorem C20_quiescent_counters_partial : forall pol s i,
  bi_msgs i = [] -> all_expired (bi_now i) (b_cache s) ->
  entries_total (b_cache (fst (step pol s i))) = 0.
Proof. exact quiescent_counters. Qed.

(* the timers: with no browsed type and nothing queued, an iteration without responses and
   calls leaves in the heap exactly the timers that were not yet due, plus at most the re-armed
   interface check.  "timers within {next interface check}" therefore holds exactly when no
   timer of an ended search is still in the heap (missing for the full statement: timers are
   never cancelled, see C20_quiescent_stale_timer_refuted). *)
Theorem C20_quiescent_timers_partial : forall pol s i,
  bi_msgs i = [] -> bi_calls i = [] -> b_queriers s = [] -> b_retr s = [] ->
  exists ip, b_timers (fst (step pol s i)) = filter (fun v => bi_now i <? v) (b_timers s) ++ ip
             /\ (ip = [] \/ ip = [bi_now i + b_ip_interval s]).
Proof. exact quiescent_timers. Qed.

(* refuted, sixth counter: the subtype map is never emptied.  Browse a subtype, receive one
   PTR (TTL 10 s), stop; more than an hour later cached-subtype is still 1 (also under PNeed) *)
Theorem C20_quiescent_subtype_refuted :
  map (map reported) (run PCode t0 w_subtype)
  = [[]; []; [[1; 0; 0; 0; 0; 1; 6]]; [[0; 0; 0; 0; 0; 1; 0]]; [[0; 0; 0; 0; 0; 1; 0]]]
  /\ chk_sub t0 w_subtype (run PCode t0 w_subtype) = false
  /\ chk_sub t0 w_subtype (run PNeed t0 w_subtype) = false.
Proof. exact w_subtype_ok. Qed.

(* refuted, timers: a search with a 1000 s timeout stopped after 100 ms leaves its deadline in
   the heap: no search, no retransmission, nothing cached, interface check disabled - and one
   timer, 990 s ahead *)
Theorem C20_quiescent_stale_timer_refuted :
  map (map reported) (run PCode t0 w_stale) = [[]; []; [[0; 0; 0; 0; 0; 0; 1]]; [[0; 0; 0; 0; 0; 0; 1]]]
  /\ map (map m_timer_allow) (run PNeed t0 w_stale) = [[]; []; [0]; [0]]
  /\ b_timers (state_after PCode (b_init t0) w_stale) = [2000000]
  /\ b_resolvers (state_after PCode (b_init t0) w_stale) = [] /\ b_retr (state_after PCode (b_init t0) w_stale) = []
  /\ chk_timers t0 w_stale (run PCode t0 w_stale) = false.
Proof. exact w_stale_ok. Qed.

(* ---- bounded_by_need ---- *)
(* refuted: with no search at all, a response without PTR gets its SRV, TXT and address
   records cached (and 6 timers pushed); under PNeed nothing is kept *)
Theorem C20_bounded_by_need_refuted :
  existsb has_search (flat_map bi_calls w_unneeded) = false
  /\ map (map reported) (run PCode t0 w_unneeded) = [[]; [[0; 1; 1; 1; 0; 0; 7]]]
  /\ map (map reported) (run PNeed t0 w_unneeded) = [[]; [[0; 0; 0; 0; 0; 0; 1]]]
  /\ chk_cache t0 w_unneeded (run PCode t0 w_unneeded) = false
  /\ chk_C20 t0 w_unneeded (run PCode t0 w_unneeded) = false.
Proof. exact w_unneeded_ok. Qed.

(* refuted, timers: twelve announcements of one wanted address record leave >= 24 timers for
   one cached record (allowance 11); nothing unneeded is involved (PNeed and PCode agree) *)
Theorem C20_timers_grow_with_traffic_refuted :
  exists tm, map (map reported) (run PCode t0 w_repeat) = repeat [] 13 ++ [[[0; 0; 0; 1; 0; 0; tm]]]
  /\ 24 <= tm
  /\ map (map m_timer_allow) (run PNeed t0 w_repeat) = repeat [] 13 ++ [[11]]
  /\ run PNeed t0 w_repeat = run PCode t0 w_repeat
  /\ chk_timers t0 w_repeat (run PCode t0 w_repeat) = false.
Proof. exact w_repeat_ok. Qed.

(* what holds outside the class of the finding: `b_excess` counts the records the code's rule
   stored although no active search needed them on arrival.  If that count is still 0 after a
   history, the code behaved exactly as the need rule over the whole history (same samples,
   same state), and the cache part of the checker accepts its samples. *)
Theorem C20_no_excess_runs_agree : forall h s,
  b_excess (state_after PCode s h) = b_excess s ->
  run_from PNeed s h = run_from PCode s h /\ state_after PNeed s h = state_after PCode s h.
Proof. exact no_excess_runs_agree. Qed.

Theorem C20_cache_bounded_by_need_outside_known : forall t0 h,
  b_excess (state_after PCode (b_init t0) h) = 0 ->
  chk_cache t0 h (run PCode t0 h) = true.
Proof. exact cache_within_need_when_no_excess. Qed.

(* ---- the counting bound (bounded_by_need for the cache, proved) ---- *)
(* deliveries_of pol t0 h = the deliveries (time, interface, record) of history h that the run under
   rule `pol` accounts its cache to: under PNeed exactly those that an open browse / resolver needed
   at the moment they arrived (`needed`, evaluated on the cache as it then was); under PCode every
   delivery.  live_count k T D = how many of D are of record kind k with TTL (0 counted as 1 s) not
   run out at time T.
   For every history with non-decreasing times, under either rule, for each of the five record
   kinds: the counter of the state after the history is at most the number of logged deliveries of
   that kind still within their TTL at the last iteration ... *)
Theorem C20_count_bound_state : forall pol t0 h k,
  btimes_ok t0 h = true -> k <> KNone ->
  count (get_map k (b_cache (state_after pol (b_init t0) h)))
  <= live_count k (blast_time t0 h) (deliveries_of pol t0 h).
Proof. exact count_bound_state. Qed.

(* ... and every get_metrics answer given in an iteration i (h1 = the iterations before) has
   cached-ptr / -srv / -txt / -addr / -nsec at most the number of logged deliveries of that kind, up
   to and including iteration i, whose TTL had not run out at the previous iteration.
   With pol = PNeed this is bounded_by_need for the five record counters: at most the deliveries
   needed by an open search within their TTL, whatever else was received and however long the
   daemon runs.  With pol = PCode it is the bound of the code as it is: traffic within TTL. *)
Theorem C20_count_bound_samples : forall pol t0 h1 i h2 smp,
  btimes_ok t0 (h1 ++ i :: h2) = true ->
  In smp (snd (step pol (state_after pol (b_init t0) h1) i)) ->
  sample_within (blast_time t0 h1) (deliveries_of pol t0 (h1 ++ [i])) smp.
Proof. exact count_bound_samples. Qed.

(* under PCode the log of a message is simply all its records *)
Theorem C20_log_of_code_rule : forall now fu ifx q res rs acc,
  msg_log PCode now fu ifx q res rs acc = map (fun r => (now, ifx, r)) rs.
Proof. exact msg_log_PCode. Qed.

Example C20_count_bound_example :
  map (fun d => br_ty (snd d)) (deliveries_of PNeed t0 w_legit) = [12; 33; 16; 1]
  /\ map (fun k => live_count k 1000010 (deliveries_of PNeed t0 (firstn 3 w_legit))) [KPtr; KSrv; KTxt; KAddr; KNsec]
     = [1; 1; 1; 1; 0]
  /\ deliveries_of PNeed t0 w_unneeded = []
  /\ length (deliveries_of PCode t0 w_unneeded) = 3%nat.
Proof. exact w_count_ok. Qed.

(* ---- the timer heap: when entries leave (the need-proportional count bound is refuted above;
   a count bound by deliveries within TTL + searches is not proved) ---- *)
(* for every state and iteration, either rule: the heap afterwards is the old heap plus what this
   iteration's responses pushed, restricted to times > now, followed by what the rest of the
   iteration pushed.  Entries leave only by being popped, and every entry whose time has come is. *)
Theorem C20_timers_step_shape : forall pol s i,
  exists pushed_by_responses pushed_later,
    b_timers (fst (step pol s i))
    = filter (fun v => bi_now i <? v) (b_timers s ++ pushed_by_responses) ++ pushed_later.
Proof. exact timers_step_shape. Qed.

Theorem C20_timers_kept_are_future : forall pol s i,
  exists kept pushed_later,
    b_timers (fst (step pol s i)) = kept ++ pushed_later /\ Forall (fun v => bi_now i < v) kept
    /\ (forall v, In v (b_timers s) -> bi_now i < v -> In v kept)
    /\ (forall v, In v (b_timers s) -> v <= bi_now i -> ~ In v kept).
Proof. exact timers_kept_are_future. Qed.

(* nothing is pushed without work: no response, no call, no retransmission due, no browsed type,
   interface check disabled or not yet due -> the iteration only pops *)
Theorem C20_timers_idle_step : forall pol s i,
  bi_msgs i = [] -> bi_calls i = [] -> b_queriers s = [] ->
  Forall (fun x => hp_rerun_due (bi_now i) (fst x) = false) (b_retr s) ->
  (b_ip_interval s = 0 \/ (b_next_ip s <> 0 /\ bi_now i < b_next_ip s)) ->
  b_timers (fst (step pol s i)) = filter (fun v => bi_now i <? v) (b_timers s).
Proof. exact timers_idle_step. Qed.

Example C20_timers_idle_example :
  let s := state_after PCode (b_init t0) w_stale in
  b_queriers s = [] /\ b_retr s = [] /\ b_ip_interval s = 0 /\ b_timers s = [2000000]
  /\ b_timers (fst (step PCode s w_idle_iter)) = [2000000].
Proof. exact w_idle_ok. Qed.

(* the rule PNeed, step level: it never stores a
   record that is not needed when it arrives - cache counters, subtype map and timers
   untouched - and treats a needed record exactly as the code does.  So the PCode and PNeed runs
   of a history differ only through records that no active search needed at arrival
   (finding C20-unneeded-records-cached). *)
Theorem C20_unneeded_never_cached_partial : forall now fu x c,
  let '(c', tm, res) := add_or_update now fu false x c in
  res = None /\ tm = []
  /\ bc_sub c' = bc_sub c
  /\ forall k, count (get_map k c') = count (get_map k c).
Proof. exact unneeded_never_cached. Qed.

Theorem C20_need_rule_agrees_when_needed_partial : forall now fu ifx q res acc r,
  needed now q res (fst (fst (fst acc))) r = true ->
  absorb PNeed now fu ifx q res acc r = absorb PCode now fu ifx q res acc r.
Proof. exact need_rule_agrees_when_needed. Qed.

(* ---- non-vacuity: a legitimate history satisfies the checker ---- *)
(* browse; PTR + SRV + TXT + A arrive; stop; everything expires: counters 1,1,1,1 then 0,
   timers 11 then 0; PNeed and PCode agree *)
Example C20_example :
  btimes_ok t0 w_legit = true
  /\ map (map reported) (run PCode t0 w_legit)
     = [[]; []; [[1; 1; 1; 1; 0; 0; 11]]; [[1; 1; 1; 1; 0; 0; 5]]; [[0; 0; 0; 0; 0; 0; 0]]; [[0; 0; 0; 0; 0; 0; 0]]]
  /\ run PNeed t0 w_legit = run PCode t0 w_legit
  /\ chk_C20 t0 w_legit (run PCode t0 w_legit) = true.
Proof. exact w_legit_ok. Qed.

(* state that get_metrics does not report (model of the code only; not observable through the
   public API, hence not covered by the monitor).  After browse / stop_browse: an instance whose
   SRV never came waits in pending_resolves until its first follow-up comes due and leaves it
   then, because no cached PTR points to it any more (repairs e9e74a6, 48ec5c0); a PTR owner that
   was refused as "not for us" keeps an (empty) bucket in the PTR map for ever *)
Example C20_hidden_growth_model :
  b_pending (state_after PCode (b_init t0) (firstn 4 w_hidden))
  = [[97; 108; 112; 104; 97; 46; 95; 104; 116; 116; 112; 46; 95; 116; 99; 112; 46; 108; 111; 99; 97; 108; 46]]
  /\ map (map reported) (run PCode t0 w_hidden) = [[]; []; []; []; []; []; []; [[0; 0; 0; 0; 0; 0; 0]]]
  /\ b_pending (state_after PCode (b_init t0) w_hidden) = []
  /\ bc_ptr (b_cache (state_after PCode (b_init t0) w_hidden))
     = [([95; 102; 111; 114; 101; 105; 103; 110; 46; 95; 116; 99; 112; 46; 108; 111; 99; 97; 108; 46], [])].
Proof. exact w_hidden_ok. Qed.

Print Assumptions C20_quiescent_counters_partial.
Print Assumptions C20_quiescent_timers_partial.
Print Assumptions C20_quiescent_subtype_refuted.
Print Assumptions C20_quiescent_stale_timer_refuted.
Print Assumptions C20_bounded_by_need_refuted.
Print Assumptions C20_timers_grow_with_traffic_refuted.
Print Assumptions C20_no_excess_runs_agree.
Print Assumptions C20_cache_bounded_by_need_outside_known.
Print Assumptions C20_count_bound_state.
Print Assumptions C20_count_bound_samples.
Print Assumptions C20_log_of_code_rule.
Print Assumptions C20_count_bound_example.
Print Assumptions C20_timers_step_shape.
Print Assumptions C20_timers_kept_are_future.
Print Assumptions C20_timers_idle_step.
Print Assumptions C20_timers_idle_example.
Print Assumptions C20_unneeded_never_cached_partial.
Print Assumptions C20_need_rule_agrees_when_needed_partial.
Print Assumptions C20_example.
Print Assumptions C20_hidden_growth_model.
