(* C14  Shutdown is clean, final and safe under concurrent use.
   Only statements here; every proof is `exact <lemma>` (Proofs/SafetyQueueProofs.v).

   Model: Model/SafetyQueue.v.
     run h          the observable trace of a history h (list of steps; a step = packets
                    received + the calls issued from any clone of the handle while the daemon
                    is between two loop iterations, followed by ONE iteration of the daemon)
     drain0 d q     the command loop of one iteration on queue content q from daemon state d
                    (listeners never full): state, channel outputs, goodbyes, "daemon ended"
     drain / iterate  the same with bounded(10) listeners and blocking sends
     chk_C14 h tr   the property text as an executable checker over (history, observed trace);
                    the same extracted function is the monitor on the real daemon
   Quantifiers: ALL histories (any length, any calls, any arguments), ALL queue contents and
   every position of Exit.  `wf_hist`: the type and instance name of register calls are valid
   UTF-8 (they are Rust `&str`).  `never_stuck`: no listener is sent more than 10 events within
   one iteration.  Granularity: whole iterations (see the _partial note at the end). *)
From Coq Require Import List NArith Bool.
From Mdns Require Import Res Bytes Utf8 WireOut ParamsSafety SafetyNames SafetyQueue SafetyQueueProofs.
Import ListNotations.
Open Scope N_scope.

(* The model's trace of every history that does not overflow a listener passes the checker
   (results of every call, every accepted call answered or closed within its step, clean-up
   at shutdown for exactly the state in front of Exit, silence afterwards). *)
Theorem C14_model_satisfies_chk : forall h,
  wf_hist h -> never_stuck (run h) = true -> chk_C14 h (run h) = true.
Proof. exact model_passes_monitor. Qed.

(* cleanup_once, part 1 - for every daemon state, every queue content and every position of
   Exit: the iteration executes exactly the commands in front of Exit, then SearchStopped on
   every browse / hostname listener, `closed` on the channels of the commands behind Exit, on
   every channel the daemon held (monitors included), Shutdown + `closed` on Exit's channel;
   goodbyes for the unregistered and for every still registered service that had been
   announced (bd59ecc; which services are announced is an environment input of the model,
   `in_announced` / `mark`, because probing and the registry are not part of it); the daemon
   ends. *)
Theorem C14_cleanup_at_exit : forall d pre x post,
  no_exit pre ->
  drain0 d (pre ++ QExit x :: post) =
  (fst (exec_seq d pre),
   snd (exec_seq d pre) ++ shutdown_outputs (fst (exec_seq d pre)) x post,
   exec_seq_gb d pre ++ cleanup_goodbyes (fst (exec_seq d pre)), true).
Proof. exact drain0_at_exit. Qed.

(* cleanup_once, part 2 - exactly once: in every reachable daemon state the registered
   services, the browsed types and the resolved host names are duplicate-free, and the
   clean-up says SearchStopped once per entry / sends one goodbye per service ... *)
Theorem C14_cleanup_exactly_once : forall d found q,
  dinv d ->
  let d1 := fst (exec_seq (fst (arrive d found)) q) in
  NoDup (cleanup_goodbyes d1)
  /\ cleanup_events d1 = map (fun e => (snd e, EStopped)) (d_queriers d1 ++ d_resolvers d1)
  /\ NoDup (map fst (d_queriers d1)) /\ NoDup (map fst (d_resolvers d1)).
Proof. exact cleanup_exactly_once. Qed.

Theorem C14_reachable_states_duplicate_free : forall h, dinv (s_d (state_after sys_init h)).
Proof. exact reachable_dinv. Qed.

(* ... and the daemon ends in at most one step of any history (no hypothesis at all). *)
Theorem C14_daemon_ends_at_most_once : forall h, (length (filter so_exited (run h)) <= 1)%nat.
Proof. exact exits_at_most_once. Qed.

(* no_command_after_exit_executes: the commands behind Exit contribute nothing but `closed`
   on their own reply channels; state, goodbyes and every other output are those of the
   commands in front of Exit. *)
Theorem C14_no_command_after_exit_executes : forall d pre x post,
  no_exit pre ->
  drain0 d (pre ++ QExit x :: post) =
  (fst (exec_seq d pre),
   snd (exec_seq d pre) ++ cleanup_events (fst (exec_seq d pre)) ++ dropped post
     ++ drop_all (fst (exec_seq d pre)) ++ [(x, EShutdown); (x, EClosed)],
   exec_seq_gb d pre ++ cleanup_goodbyes (fst (exec_seq d pre)), true)
  /\ Forall (fun p => snd p = EClosed) (dropped post).
Proof. exact nothing_behind_exit_executes. Qed.

(* after_shutdown_fails: once some client has read Shutdown (from shutdown()'s or status()'s
   channel) in step k, in every later step every call fails - Error::Msg for refused
   arguments, otherwise DaemonShutdown - except status(), which returns Ok; and the daemon
   does nothing any more (it does not end again, sends no goodbye, the only events are
   Shutdown / closed on status channels). *)
Theorem C14_after_shutdown_fails : forall h,
  wf_hist h -> never_stuck (run h) = true ->
  forall k o, nth_error (run h) k = Some o -> shutdown_seen o = true ->
  Forall2 quiet_step (skipn (S k) h) (skipn (S k) (run h)).
Proof. exact after_shutdown_fails. Qed.

(* ... and that status() call reads Shutdown from a channel that is then closed. *)
Theorem C14_status_after_shutdown : forall q ch,
  q_gone q = true -> do_call q CStatus ch = (q, ROk, [(ch, EShutdown); (ch, EClosed)]).
Proof. exact status_after_shutdown. Qed.

(* every_call_resolves: in any state with an empty queue (every state between iterations of
   a history that has not got stuck, see the next theorem), for a step that does not get
   stuck: each call returns an error, or has no reply channel, or is a monitor subscription
   (closed at shutdown: C14_cleanup_at_exit, drop_all), or its channel has yielded a value
   or was closed by the end of the step. *)
Theorem C14_every_call_resolves : forall s i,
  Forall wf_call (in_calls i) -> s_stuck s = false -> q_items (s_chan s) = [] ->
  so_stuck (snd (step s i)) = false ->
  forall j c r, nth_error (in_calls i) j = Some c -> nth_error (so_results (snd (step s i))) j = Some r ->
    r <> ROk \/ call_has_chan c = false \/ c = CMonitor
    \/ evs_of (s_next s + N.of_nat j) (so_events (snd (step s i))) <> [].
Proof. exact every_call_resolves. Qed.

Theorem C14_queue_empty_between_iterations : forall h s,
  wf_hist h -> s_stuck s = false -> q_items (s_chan s) = [] -> never_stuck (run_from s h) = true ->
  s_stuck (state_after s h) = false /\ q_items (s_chan (state_after s h)) = [].
Proof. exact reachable_queue_empty. Qed.

(* an iteration that does not block on a listener is the capacity-free command loop *)
Theorem C14_unstuck_iteration_is_drain0 : forall q d c,
  it_stuck (drain d c q) = false ->
  drain0 d q = (it_d (drain d c q), it_out (drain d c q), it_goodbyes (drain d c q), it_exited (drain d c q))
  /\ it_rest (drain d c q) = [].
Proof. exact drain_unstuck. Qed.

(* every_call_resolves WITHOUT the no-overflow hypothesis is FALSE.  Full statement that
   fails: forall h, wf_hist h -> chk_C14 h (run h) = true.
   Witness: browse; then ten announced instances and shutdown() in one step; the clean-up's
   SearchStopped finds the listener full (bounded(10), blocking send) and the daemon thread
   blocks: shutdown(), status() and get_metrics() return Ok and nothing is ever read from
   their reply channels; the daemon never ends.  Confirmed on the real daemon (known finding
   C14-full-listener-blocks-daemon). *)
Theorem C14_every_call_resolves_refuted :
  wf_hist stuck_history
  /\ never_stuck (run stuck_history) = false
  /\ chk_C14 stuck_history (run stuck_history) = false
  /\ map so_results (run stuck_history) = [[ROk]; [ROk; ROk]; [ROk; ROk]]
  /\ Forall (fun o => so_exited o = false
                      /\ evs_of 1 (so_events o) = [] /\ evs_of 2 (so_events o) = []
                      /\ evs_of 3 (so_events o) = [] /\ evs_of 4 (so_events o) = []) (run stuck_history).
Proof. exact every_call_resolves_refuted. Qed.

Theorem C14_params_pinned :
  cmd_queue_bound = 100 /\ browse_listener_bound = 10 /\ resolver_listener_bound = 10.
Proof. exact params_pinned_c14. Qed.

(* _partial: the statements above are at the granularity of whole loop iterations.  NOT
   covered: interleavings of client threads with the daemon INSIDE an iteration - in
   particular a try_send that succeeds after the daemon's last try_recv (the `while
   receiver.try_recv().is_ok() {}` of the Exit handling) and before the receiver is dropped.
   The stress runs (harness case kind stress_shutdown) do hit that window on the real code:
   known finding C14-command-stranded-after-final-drain. *)

(* Non-vacuity: a history with browse, cache-only browse, resolver, registration (one refused
   by the length limit), monitor, unregister, three announced instances, then shutdown in the
   middle of further calls, then calls after shutdown: well-formed, never stuck, passes the
   checker; the daemon ends in step 2 with one goodbye (both services had been announced in
   step 1, one was unregistered there), and status() afterwards reads Shutdown. *)
Definition ex_ty : bytes := [95;120;46;95;116;99;112;46;108;111;99;97;108;46].               (* _x._tcp.local. *)
Definition ex_ty2 : bytes := [95;121;46;95;117;100;112;46;108;111;99;97;108;46].              (* _y._udp.local. *)
Definition ex_long : bytes := [95;97;98;99;100;101;102;103;104;105;106;107;108;109;110;111;112;46;95;116;99;112;46;108;111;99;97;108;46].
Definition ex_host : bytes := [104;46;108;111;99;97;108;46].                                 (* h.local. *)
Definition ex_hist : list stepin :=
  [ mkIn [] [CBrowse ex_ty false; CBrowse ex_ty2 true; CResolve ex_host; CMonitor;
             CRegister ex_ty [105] ex_host; CRegister ex_ty [106] ex_host; CRegister ex_long [107] ex_host] [];
    mkIn [(ex_ty, 3)] [CStatus; CUnregister ([106;46] ++ ex_ty); CMetrics] [[105;46] ++ ex_ty; [106;46] ++ ex_ty];
    mkIn [] [CStatus; CShutdown; CStatus; CBrowse ex_ty false; CMonitor; CShutdown] [];
    mkIn [] [CStatus; CBrowse ex_ty false; CShutdown; CBrowse [120] false] [] ].
Example C14_example :
  wf_hist ex_hist /\ never_stuck (run ex_hist) = true /\ chk_C14 ex_hist (run ex_hist) = true
  /\ map so_exited (run ex_hist) = [false; false; true; false]
  /\ map so_goodbyes (run ex_hist) = [[]; []; [[105;46] ++ ex_ty]; []]
  /\ map so_results (run ex_hist) =
     [ [ROk; ROk; ROk; ROk; ROk; ROk; ROk]; [ROk; ROk; ROk]; [ROk; ROk; ROk; ROk; ROk; ROk];
       [ROk; RShutdown; RShutdown; RMsg] ].
Proof.
  split; [repeat constructor|]. repeat split; vm_compute; reflexivity.
Qed.

Print Assumptions C14_model_satisfies_chk.
Print Assumptions C14_cleanup_at_exit.
Print Assumptions C14_cleanup_exactly_once.
Print Assumptions C14_reachable_states_duplicate_free.
Print Assumptions C14_daemon_ends_at_most_once.
Print Assumptions C14_no_command_after_exit_executes.
Print Assumptions C14_after_shutdown_fails.
Print Assumptions C14_status_after_shutdown.
Print Assumptions C14_every_call_resolves.
Print Assumptions C14_queue_empty_between_iterations.
Print Assumptions C14_unstuck_iteration_is_drain0.
Print Assumptions C14_every_call_resolves_refuted.
Print Assumptions C14_params_pinned.
