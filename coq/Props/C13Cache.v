(* C13 for the cache layer: after stop_browse the records cached for the stopped browse are
   forgotten.  Only statements here; every proof is `exact <lemma>` (Proofs/LifeStopProofs.v).
   Model: Model/LifeTimers.v, the daemon-level cache model of C11 / C12Cache with per-record
   timer logs; `ts_stop s = Some ty` = a browse of `ty` is stopped in iteration s (after the
   iteration's records have been taken in, as in Zeroconf::run), which executes
   DnsCache::remove_service_type (remove_service_type).  All statements are over ALL histories
   (treach / truns: any records, clock values, searches started and stopped at will). *)
From Coq Require Import List NArith Bool.
From Mdns Require Import Res Bytes Rec Life LifeSpec LifeCache LifeTimers LifeMapProofs LifeTimerProofs LifeStopProofs.
Import ListNotations.
Open Scope N_scope.

(* (a) After an iteration that stops the browse of ty, the cache holds no PTR record under ty,
   no SRV and no TXT record of an instance those PTR records named (stop_instances, read off the
   cache as it was when the stop was executed), and no address record of a host their SRV
   records named - unless an SRV record that is left still names that host. *)
Theorem C13_cache_stop_removes : forall c n cfg s c' o ty,
  treach c n cfg -> tstep_ok n s -> ts_stop s = Some ty -> t_iter s c = Ok (c', o) ->
  exists c0, after_ingest s c = Ok c0 /\
    get_bucket lrec c' (0, ty) = [] /\
    (forall i, In i (stop_instances ty c0) ->
       get_bucket lrec c' (1, i) = [] /\ get_bucket lrec c' (2, i) = []) /\
    (forall h, In h (stop_hosts ty c0) -> names_host lrec h (stop_core ty c0) = false ->
       get_bucket lrec c' (3, h) = []).
Proof. exact stop_removes. Qed.

(* exactly what remove_service_type removes (removed_key) and that it leaves every other Vec
   as it was: PTR Vecs under other names (also the `_sub` names of the same type), SRV / TXT Vecs
   of instances no PTR under ty names at that moment, address Vecs of other hosts and of hosts
   a remaining SRV record names *)
Theorem C13_cache_remove_exact : forall ty (c : lcache) k,
  wf lrec c ->
  wf lrec (remove_service_type lrec ty c) /\
  get_bucket lrec (remove_service_type lrec ty c) k = if removed_key ty c k then [] else get_bucket lrec c k.
Proof. exact remove_service_type_look. Qed.

Theorem C13_cache_shared_host_kept : forall ty (c : lcache) h,
  names_host lrec h (stop_core ty c) = true -> removed_key ty c (3, h) = false.
Proof. exact kept_addr. Qed.

(* (b) While no browse is open no PTR, SRV or TXT query is sent in any iteration, whatever is
   cached (only address queries for a resolved host name; none at all without a resolver), and
   the refresh step has nothing of a browse to work on: with C12_cache_timers_cover_due_work the
   only refresh work that can be due is that of the resolved host. *)
Theorem C13_cache_no_service_query_without_browse : forall s c c' o,
  sc_browse (ts_cfg s) = None -> t_iter s c = Ok (c', o) ->
  Forall (fun q => Forall addr_question (qd_questions q)) (io_queries o) /\
  (sc_host (ts_cfg s) = None -> io_queries o = []).
Proof. exact no_browse_no_service_query. Qed.

Theorem C13_cache_nothing_to_refresh_without_browse : forall cfg (c : lcache) n,
  sc_browse cfg = None ->
  subject cfg c n = match sc_host cfg with Some h => get_bucket lrec c (3, lower h) | None => [] end.
Proof. exact subject_no_browse. Qed.

(* (c) Nothing comes back from nowhere: whatever a Vec that was empty holds after any further
   iterations (a later browse of the same type included) arrived in one of those iterations
   under that very key.  So a new browse of ty starts from what was received after the stop. *)
Theorem C13_cache_fresh_browse_from_received : forall c n cfg steps c' n' k e',
  treach c n cfg -> truns c n steps c' n' -> get_bucket lrec c k = [] -> In e' (get_bucket lrec c' k) ->
  exists s r, In s steps /\ In r (ts_recs s) /\ key_of (fst r) = Some k /\ fst r = c_id e'.
Proof. exact fresh_browse_from_received. Qed.

(* one iteration: every cached record was cached before or arrived in it; the removed keys are empty *)
Theorem C13_cache_iteration_provenance : forall s c n0 c' o,
  wf lrec c -> AP n0 c -> tstep_ok n0 s -> t_iter s c = Ok (c', o) ->
  exists c0, after_ingest s c = Ok c0 /\
  (forall k e', In e' (get_bucket lrec c' k) ->
     (exists e, In e (get_bucket lrec c k) /\ c_id e = c_id e') \/
     (exists r, In r (ts_recs s) /\ key_of (fst r) = Some k /\ fst r = c_id e')) /\
  (forall ty k, ts_stop s = Some ty -> removed_key ty c0 k = true -> get_bucket lrec c' k = []).
Proof. exact t_iter_from. Qed.

(* ---- non-vacuity: a browse of "t." has cached PTR, SRV, TXT of instance "i." and the address of
   host "h."; stopping it empties the cache.  If an SRV record of another instance "j." (not listed
   under "t.") names the same host, that SRV record and the address stay. ---- *)
Definition e_ty := [116;46]. Definition e_i := [105;46]. Definition e_j := [106;46]. Definition e_h := [104;46].
Definition e_ptr := (mkId e_ty TY_PTR 1 false (RPtr e_i) 2, 120).
Definition e_srv := (mkId e_i TY_SRV 1 true (RSrv 0 0 80 e_h) 2, 120).
Definition e_txt := (mkId e_i TY_TXT 1 true (RTxt [0]) 2, 120).
Definition e_srv2 := (mkId e_j TY_SRV 1 true (RSrv 0 0 81 e_h) 2, 120).
Definition e_a := (mkId e_h TY_A 1 true (RAddr [10;0;0;1]) 2, 120).
Definition e_s1 (x : list (ident * N)) := mkTStep 1000000 1 0 x (mkCfg (Some e_ty) None) None.
Definition e_s2 := mkTStep 1002000 0 0 [] (mkCfg None None) (Some e_ty).
Definition e_keys (x : list (ident * N)) : res (list ckey * list ckey * list qdesc) :=
  let? (c1, _) := t_iter (e_s1 x) [] in let? (c2, o) := t_iter e_s2 c1 in Ok (map fst c1, map fst c2, io_queries o).

Example C13_cache_example :
  e_keys [e_ptr; e_srv; e_txt; e_a] = Ok ([(0, e_ty); (1, e_i); (2, e_i); (3, e_h)], [], []) /\
  e_keys [e_ptr; e_srv; e_txt; e_srv2; e_a]
  = Ok ([(0, e_ty); (1, e_i); (2, e_i); (1, e_j); (3, e_h)], [(1, e_j); (3, e_h)], []).
Proof. split; vm_compute; reflexivity. Qed.

Print Assumptions C13_cache_stop_removes.
Print Assumptions C13_cache_remove_exact.
Print Assumptions C13_cache_shared_host_kept.
Print Assumptions C13_cache_no_service_query_without_browse.
Print Assumptions C13_cache_nothing_to_refresh_without_browse.
Print Assumptions C13_cache_fresh_browse_from_received.
Print Assumptions C13_cache_iteration_provenance.
