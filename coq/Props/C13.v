(* C13 - Stopping a search really stops it, and each channel follows its protocol.

   Model: Model/Sched.v (slice without incoming datagrams: no ServiceFound / ServiceResolved /
   AddressesFound events and no cached records occur, so the clauses "ServiceFound precedes
   ServiceResolved" and "forgets the cached records" are not exercised here).
   Checker: SchedSpec.chk_C13 -
     per channel (c_check): the events are exactly those the history demands - SearchStarted at
       the browse / resolve_hostname call; SearchStopped exactly when that search is stopped by
       stop_browse / stop_resolve_hostname (host name in any letter case), by its timeout
       (SearchTimeout immediately before), or by shutdown - once, and nothing afterwards; a
       repeated SearchStarted only as last event of an iteration while the search is current;
       a cache-only browse gets SearchStarted + SearchStopped at once and one more SearchStopped
       when it is stopped (exempt from finality, as the text says); a channel whose search was
       replaced by a newer browse / resolve of the same key gets nothing any more;
     per question (k_silent): once the search for a question is over, no query for it leaves
       in any later iteration (only a start call can bring it back), for every continuation.

   FULL STATEMENT, proved (C13_monitor_holds):
       forall t0 h, wf_hist t0 h = true -> chk_C13 t0 h (model_run t0 h) = true
   - all API call sequences, all iteration times (early, on time, late).  It was refuted on
   the tree before commit a4675d4 (SearchStarted after SearchStopped and queries for ever when
   a resolver deadline was noticed late); the former witness is kept below and now passes. *)
From Coq Require Import List NArith Bool.
From Mdns Require Import Bytes Sched SchedSpec SchedParamsProofs SchedProofs SchedSpecProofs.
Import ListNotations.
Open Scope N_scope.

(* channel_protocol + stopped_means_silent, as the monitor states them, for ALL well-formed
   histories *)
Theorem C13_monitor_holds :
  forall t0 h, wf_hist t0 h = true -> chk_C13 t0 h (model_run t0 h) = true.
Proof. exact chk_C13_model. Qed.

(* in every reachable live state every queued retransmission belongs to a search that is still
   current: same channel, and its time lies before the search's deadline.  So a search that was
   stopped, timed out or replaced has no retransmission left between iterations. *)
Theorem no_retransmission_without_search :
  forall t0 h, wf_hist t0 h = true -> st_alive (final (init t0) h) = true ->
  forall r, In r (st_retrans (final (init t0) h)) ->
  exists o, lookup (rkey r) (st_owners (final (init t0) h)) = Some o /\ ow_ch o = r_ch r
            /\ (forall d, ow_deadline o = Some d -> r_time r < d).
Proof. exact no_chain_without_search. Qed.

(* stopped_means_silent on states: after the stop command no retransmission and no listener
   for that search remain (InvH holds in every reachable state, see above) ... *)
Theorem stopped_means_silent_state :
  forall s host nm, InvH s ->
  let s' := fst (fst (exec_stop host nm s)) in
  lookup (okey_of host nm) (st_owners s') = None
  /\ forall r, In r (st_retrans s') -> rkey r <> okey_of host nm.
Proof. exact stop_clears. Qed.

(* ... whatever letter case the host name is given in ... *)
Theorem stop_host_any_case :
  forall h1 h2, lower h1 = lower h2 -> okey_of true h1 = okey_of true h2.
Proof. exact stop_any_spelling. Qed.

(* ... on the deadline path: the retransmission of a search that has no resolver any more is
   dropped by the re-run - it is not among the executed ones, so no query, no SearchStarted
   and no new retransmission come from it (the early return of exec_command_resolve_hostname) ...
   and at shutdown (everything is cleared, every search gets SearchStopped) *)
Theorem timeout_means_silent_state :
  forall now s r, rerun_live (st_owners s) r = false ->
  ~ In r (filter (rerun_live (st_owners s)) (filter (due now) (st_retrans s))).
Proof. exact dead_rerun_dropped. Qed.

Theorem shutdown_means_silent_state :
  forall s, st_retrans (fst (fst (exec_shutdown s))) = [] /\ st_owners (fst (fst (exec_shutdown s))) = []
  /\ snd (exec_shutdown s) = map (fun e => (ow_ch (snd e), EStopped (snd (fst e)))) (st_owners s).
Proof. exact shutdown_clears. Qed.

(* a cache-only browse never sends a query and never queues one *)
Theorem cache_only_browse_sends_nothing :
  forall now ty ch s,
  snd (fst (exec_start now false ty true None ch s)) = []
  /\ forall r, In r (st_retrans (fst (fst (exec_start now false ty true None ch s)))) -> In r (st_retrans s).
Proof. exact cache_browse_silent. Qed.

(* ---- the witness that refuted the full statement before commit a4675d4 ---- *)
Definition host_w : name := [77; 121; 46; 108; 111; 99; 97; 108; 46].      (* "My.local." *)
Definition late_timeout_history : list iter :=
  [ mkIter 1000000 [ResolveHostname host_w (Some 3001) 1];
    mkIter 1001000 [];
    mkIter 1003005 [];
    mkIter 1007005 [] ].

(* in the iteration at 1003005 channel 1 now receives SearchTimeout, SearchStopped and nothing
   more; no query leaves there or later *)
Example late_timeout_now_stops :
  wf_hist 1000000 late_timeout_history = true
  /\ chk_C13 1000000 late_timeout_history (model_run 1000000 late_timeout_history) = true
  /\ map (fun o => events_on 1 (o_events o)) (model_run 1000000 late_timeout_history)
     = [ []; [EStarted host_w]; [EStarted host_w]; [ETimeout (lower host_w); EStopped (lower host_w)]; [] ]
  /\ map (fun o => length (o_sent o)) (model_run 1000000 late_timeout_history) = [0; 1; 1; 0; 0]%nat.
Proof. vm_compute. repeat split; reflexivity. Qed.

(* ---- non-vacuity: browse, re-browse on a new channel, cache-only browse, mixed-case stop,
        timeout on time, shutdown ---- *)
Definition ty_w : name := [95; 104; 46; 95; 116; 99; 112; 46; 108; 111; 99; 97; 108; 46].  (* "_h._tcp.local." *)
Definition host_up : name := [77; 89; 46; 108; 111; 99; 97; 108; 46].       (* "MY.local." *)
Definition sample_history : list iter :=
  [ mkIter 1000000 [Browse ty_w 1; ResolveHostname host_w (Some 10000) 2; ResolveHostname host_up (Some 1000) 3];
    mkIter 1001000 [BrowseCache [95; 99] 4];
    mkIter 1001500 [Browse ty_w 5];
    mkIter 1002500 [];
    mkIter 1003000 [StopResolveHostname host_w; ResolveHostname host_w None 6];
    mkIter 1004000 [StopBrowse ty_w; StopBrowse ty_w];
    mkIter 1009000 [Shutdown; Browse ty_w 7] ].

Example C13_nonvacuous :
  wf_hist 1000000 sample_history = true
  /\ chk_C13 1000000 sample_history (model_run 1000000 sample_history) = true
  /\ map (fun o => events_on 3 (o_events o)) (model_run 1000000 sample_history)
     = [ []; [EStarted host_up]; [ETimeout (lower host_up); EStopped (lower host_up)]; []; []; []; []; [] ]
  /\ map (fun o => events_on 5 (o_events o)) (model_run 1000000 sample_history)
     = [ []; []; []; [EStarted ty_w]; [EStarted ty_w]; []; [EStopped ty_w]; [] ].
Proof. vm_compute. repeat split; reflexivity. Qed.

Print Assumptions C13_monitor_holds.
Print Assumptions no_retransmission_without_search.
Print Assumptions stopped_means_silent_state.
Print Assumptions stop_host_any_case.
Print Assumptions timeout_means_silent_state.
Print Assumptions shutdown_means_silent_state.
Print Assumptions cache_only_browse_sends_nothing.
Print Assumptions late_timeout_now_stops.
Print Assumptions C13_nonvacuous.
