(* C13 - Stopping a search really stops it, and each channel follows its protocol.

   Model: Model/Sched.v (slice without incoming datagrams: no ServiceFound / ServiceResolved /
   AddressesFound events and no cached records occur, so the clauses "ServiceFound precedes
   ServiceResolved" and "forgets the cached records" are not exercised here).
   Checker: SchedSpec.chk_C13 -
     per channel (c_check): the events are exactly those the history demands - SearchStarted at
       the browse / resolve_hostname call; SearchStopped exactly when that search is stopped by
       stop_browse / stop_resolve_hostname (host name in any letter case), by its timeout
       (SearchTimeout immediately before), or by shutdown - once, and nothing afterwards; a
       repeated SearchStarted only as last event of an iteration while the search is current;
       a cache-only browse gets SearchStarted + SearchStopped at once and one more SearchStopped
       when it is stopped (exempt from finality, as the text says); a channel whose search was
       replaced by a newer browse / resolve of the same key gets nothing any more;
     per question (k_silent): once the search for a question is over, no query for it leaves
       in any later iteration (only a start call can bring it back), for every continuation.

   FULL STATEMENT (false of the code: C13_full_statement_refuted, known finding
   C13-timeout-late-rerun):
       forall t0 h, wf_hist t0 h = true -> chk_C13 t0 h (model_run t0 h) = true.
   Proved for every well-formed history in which the hazard flag never rises, in particular
   for every history in which the daemon is never woken later than it asked. *)
From Coq Require Import List NArith Bool.
From Mdns Require Import Bytes Sched SchedSpec SchedParamsProofs SchedProofs SchedSpecProofs.
Import ListNotations.
Open Scope N_scope.

(* channel_protocol + stopped_means_silent, as the monitor states them *)
Theorem C13_monitor_holds :
  forall t0 h, wf_hist t0 h = true -> hazard_free t0 h = true -> chk_C13 t0 h (model_run t0 h) = true.
Proof. exact chk_C13_model. Qed.

Theorem C13_timely_histories :
  forall t0 h, wf_hist t0 h = true -> timely t0 h = true -> chk_C13 t0 h (model_run t0 h) = true.
Proof. exact chk_C13_timely. Qed.

(* being woken on time is enough to stay clear of the hazard *)
Theorem timely_is_safe :
  forall t0 h, in_range h -> timely t0 h = true -> hazard_free t0 h = true.
Proof. exact timely_is_hazard_free. Qed.

(* stopped_means_silent on states: after the stop command no retransmission and no listener
   for that search remain (InvH: the state was reached without hazard) ... *)
Theorem stopped_means_silent_state :
  forall s host nm, InvH s ->
  let s' := fst (fst (exec_stop host nm s)) in
  lookup (okey_of host nm) (st_owners s') = None
  /\ forall r, In r (st_retrans s') -> rkey r <> okey_of host nm.
Proof. exact stop_clears. Qed.

(* ... whatever letter case the host name is given in ... *)
Theorem stop_host_any_case :
  forall h1 h2, lower h1 = lower h2 -> okey_of true h1 = okey_of true h2.
Proof. exact stop_any_spelling. Qed.

(* ... on the deadline path (no retransmission of the timed-out search survives a hazard-free
   iteration) and at shutdown (everything is cleared, every search gets SearchStopped) *)
Theorem timeout_means_silent_state :
  forall now s e r, hazard now (st_owners s) (st_retrans s) = false ->
  In e (st_owners s) -> expired now e = true -> In r (st_retrans s) -> rkey r <> fst e.
Proof. exact timeout_clears. Qed.

Theorem shutdown_means_silent_state :
  forall s, st_retrans (fst (fst (exec_shutdown s))) = [] /\ st_owners (fst (fst (exec_shutdown s))) = []
  /\ snd (exec_shutdown s) = map (fun e => (ow_ch (snd e), EStopped (snd (fst e)))) (st_owners s).
Proof. exact shutdown_clears. Qed.

(* a cache-only browse never sends a query and never queues one *)
Theorem cache_only_browse_sends_nothing :
  forall now ty ch s,
  snd (fst (exec_start now false ty true None ch s)) = []
  /\ forall r, In r (st_retrans (fst (fst (exec_start now false ty true None ch s)))) -> In r (st_retrans s).
Proof. exact cache_browse_silent. Qed.

(* ---- the full statement is false of the code as it is ---- *)
Definition host_w : name := [77; 121; 46; 108; 111; 99; 97; 108; 46].      (* "My.local." *)
Definition late_timeout_history : list iter :=
  [ mkIter 1000000 [ResolveHostname host_w (Some 3001) 1];
    mkIter 1001000 [];
    mkIter 1003005 [];
    mkIter 1007005 [] ].

(* in the iteration at 1003005 channel 1 receives SearchTimeout, SearchStopped, SearchStarted, and
   the A/AAAA questions go out again there and at 1007005 *)
Lemma late_timeout_refutes :
  wf_hist 1000000 late_timeout_history = true
  /\ chk_C13 1000000 late_timeout_history (model_run 1000000 late_timeout_history) = false
  /\ map (fun o => events_on 1 (o_events o)) (model_run 1000000 late_timeout_history)
     = [ []; [EStarted host_w]; [EStarted host_w];
         [ETimeout (lower host_w); EStopped (lower host_w); EStarted host_w]; [EStarted host_w] ]
  /\ map (fun o => length (o_sent o)) (model_run 1000000 late_timeout_history) = [0; 1; 1; 1; 1]%nat.
Proof. vm_compute. repeat split; reflexivity. Qed.

Theorem C13_full_statement_refuted :
  exists t0 h, wf_hist t0 h = true /\ chk_C13 t0 h (model_run t0 h) = false.
Proof.
  exact (ex_intro _ 1000000 (ex_intro _ late_timeout_history
           (conj (proj1 late_timeout_refutes) (proj1 (proj2 late_timeout_refutes))))).
Qed.

(* ---- non-vacuity: browse, re-browse on a new channel, cache-only browse, mixed-case stop,
        timeout on time, shutdown ---- *)
Definition ty_w : name := [95; 104; 46; 95; 116; 99; 112; 46; 108; 111; 99; 97; 108; 46].  (* "_h._tcp.local." *)
Definition host_up : name := [77; 89; 46; 108; 111; 99; 97; 108; 46].       (* "MY.local." *)
Definition sample_history : list iter :=
  [ mkIter 1000000 [Browse ty_w 1; ResolveHostname host_w (Some 10000) 2; ResolveHostname host_up (Some 1000) 3];
    mkIter 1001000 [BrowseCache [95; 99] 4];
    mkIter 1001500 [Browse ty_w 5];
    mkIter 1002500 [];
    mkIter 1003000 [StopResolveHostname host_w; ResolveHostname host_w None 6];
    mkIter 1004000 [StopBrowse ty_w; StopBrowse ty_w];
    mkIter 1009000 [Shutdown; Browse ty_w 7] ].

Example C13_nonvacuous :
  wf_hist 1000000 sample_history = true
  /\ hazard_free 1000000 sample_history = true
  /\ chk_C13 1000000 sample_history (model_run 1000000 sample_history) = true
  /\ map (fun o => events_on 3 (o_events o)) (model_run 1000000 sample_history)
     = [ []; [EStarted host_up]; [ETimeout (lower host_up); EStopped (lower host_up)]; []; []; []; []; [] ]
  /\ map (fun o => events_on 5 (o_events o)) (model_run 1000000 sample_history)
     = [ []; []; []; [EStarted ty_w]; [EStarted ty_w]; []; [EStopped ty_w]; [] ].
Proof. vm_compute. repeat split; reflexivity. Qed.

Print Assumptions C13_monitor_holds.
Print Assumptions C13_timely_histories.
Print Assumptions timely_is_safe.
Print Assumptions stopped_means_silent_state.
Print Assumptions stop_host_any_case.
Print Assumptions timeout_means_silent_state.
Print Assumptions shutdown_means_silent_state.
Print Assumptions cache_only_browse_sends_nothing.
Print Assumptions C13_full_statement_refuted.
Print Assumptions C13_nonvacuous.
