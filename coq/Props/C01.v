(* C01  Decoding any datagram is safe, terminating and bounded.
   Only statements here; every proof is `exact <lemma>` (lemmas in Proofs/WireProofs.v).
   `decode` is the model of DnsIncoming::new (Model/Wire.v); `safe r` = r is neither Panic
   nor OutOfFuel; every loop of the model runs on explicit fuel that is the datagram length
   + 1, so "never OutOfFuel" is a bound on the number of loop iterations. *)
From Coq Require Import List NArith Bool.
From Mdns Require Import Res Bytes Utf8 Rec Wire TxtProofs WireProofs.
Import ListNotations.
Open Scope N_scope.

(* For EVERY list of numbers (no well-formedness hypothesis at all), decoding ends with a
   message or an error: it never panics (every index and slice is in range) and never
   exhausts its loop budget of (length d + 1) iterations per loop level. *)
Theorem C01_decode_total : forall d, safe (decode d).
Proof. exact decode_total. Qed.

(* Reading a name at any offset of any datagram is safe, and a successful read ends inside
   the datagram, strictly after where it started (so callers always make progress). *)
Theorem C01_read_name_safe : forall d off, safe (read_name d off).
Proof. exact read_name_safe. Qed.

Theorem C01_read_name_offset : forall d off nm o,
  read_name d off = Ok (nm, o) -> off < o /\ o <= len d.
Proof. exact read_name_offset. Qed.

(* What is produced is bounded by the datagram, not by the 16-bit header counts or by
   RDLENGTH: at most (len-12)/5 questions and (len-12)/11 records in total. *)
Theorem C01_decode_bounded : forall d m, decode d = Ok m ->
  12 <= len d /\
  5 * N.of_nat (length (m_questions m)) +
  11 * N.of_nat (length (m_answers m) + length (m_authorities m) + length (m_additionals m))
  <= len d - 12.
Proof. exact decode_bounded. Qed.

(* No decoded name is longer than an explicit polynomial in the datagram length
   (compression can legitimately expand a name; name_bound d = 2 * |d| * (|d| + 1)). *)
Theorem C01_decode_names_bounded : forall d m, decode d = Ok m ->
  Forall (fun q => (length (q_name q) <= name_bound d)%nat) (m_questions m) /\
  Forall (fun r => (length (r_name r) <= name_bound d)%nat) (m_answers m) /\
  Forall (fun r => (length (r_name r) <= name_bound d)%nat) (m_authorities m) /\
  Forall (fun r => (length (r_name r) <= name_bound d)%nat) (m_additionals m).
Proof. exact decode_names_bounded. Qed.

(* Every record was read from bytes inside the datagram: reading one record consumes an
   interval [off, o) with o <= len d of at least 11 bytes, and TXT / address data are
   contiguous pieces of the datagram. *)
Theorem C01_record_inside : forall d resp off r o,
  read_one_rr d resp off = Ok (r, o) -> off + 11 <= o /\ o <= len d.
Proof. exact read_one_rr_offset. Qed.

Theorem C01_rr_data_inside : forall d resp off r o,
  read_one_rr d resp off = Ok (Some r, o) ->
  (forall t, r_data r = RTxt t -> sublist_of t d) /\
  (forall a, r_data r = RAddr a -> sublist_of a d).
Proof. exact rr_data_inside. Qed.

(* Non-vacuity: the two historic witnesses (D1: HINFO with RDLENGTH 0 at the end of the
   datagram; D2: pointer cycle through RDATA) now decode to Err in the model, and a valid
   response decodes to a message. *)
Example C01_witnesses :
  decode [0;0;132;0;0;0;0;1;0;0;0;0; 0; 0;13;0;1; 0;0;0;0; 0;0] = Err /\
  decode [0;0;132;0;0;0;0;2;0;0;0;0; 0; 0;99;0;1; 0;0;0;10; 0;4; 1;97;192;23;
          192;23; 0;1;0;1; 0;0;0;10; 0;4; 1;2;3;4] = Err /\
  is_ok (decode [0;0;132;0;0;0;0;1;0;0;0;0; 1;97;0; 0;1;0;1; 0;0;0;10; 0;4; 1;2;3;4]) = true.
Proof. repeat split; vm_compute; reflexivity. Qed.

Print Assumptions C01_decode_total.
Print Assumptions C01_read_name_safe.
Print Assumptions C01_read_name_offset.
Print Assumptions C01_decode_bounded.
Print Assumptions C01_decode_names_bounded.
Print Assumptions C01_record_inside.
Print Assumptions C01_rr_data_inside.
