(* C01 placeholder until Proofs/WireProofs.v lands *)
From Mdns Require Import Res Wire.
Example C01_placeholder : True. Proof. exact I. Qed.
