(* C09  Unregistering says goodbye for exactly what was announced, then goes quiet.
   Only statements here; every proof is `exact <lemma>`.

   Model: Model/RegistryDaemon.v (unregister = exec_command_unregister after the caller lower-cased
   the name, goodbye_msg / goodbyes_of = unregister_service over all interfaces and both
   families, unregister_resend, cleanup, register_resend).  Specification of the goodbye the
   property asks for: Model/RegistrySpec.v, spec_goodbyes st resolved announced_only s
   (resolved = under the names most recently announced, announced_only = only where announced). *)
From Coq Require Import List NArith Bool.
From Mdns Require Import Bytes Rec ParamsRegistry Names WireOut Registry RegistryDaemon RegistrySpec
     RegistryParamsPinned RegistryProofs RegistryDaemonProofs RegistryWitnesses RegistryWitnessProofs.
Import ListNotations.
Open Scope N_scope.

(* regenerated from the Rust on every run: the repeat comes 120 ms later (both families), TTLs *)
Theorem C09_constants :
  goodbye_repeat_v4 = 120 /\ goodbye_repeat_v6 = 120 /\ dns_host_ttl = 120 /\ dns_other_ttl = 4500 /\ class_in = 1.
Proof. exact c09_constants. Qed.

(* STATUS: OK exactly when the (lower-cased) full name is a key of the registered services -
   every state, every name - and exactly one reply is given. *)
Theorem C09_unregister_status : forall st k ch now,
  In (OReply ch true) (snd (unregister st k ch now)) <-> aget k (d_svcs st) <> None.
Proof. exact unregister_status. Qed.

Theorem C09_unregister_replies_once : forall st k ch now,
  replies_of (snd (unregister st k ch now))
  = [(ch, match aget k (d_svcs st) with Some _ => true | None => false end)].
Proof. exact unregister_reply_once. Qed.

(* FRAME: every other service, every registry and the interface table are untouched; the
   service itself is gone. *)
Theorem C09_unregister_frame : forall st k ch now,
  let st' := fst (unregister st k ch now) in
  (forall k', k' <> k -> aget k' (d_svcs st') = aget k' (d_svcs st)) /\
  d_regs st' = d_regs st /\ d_intfs st' = d_intfs st /\
  (NoDup (keys (d_svcs st)) -> aget k (d_svcs st') = None).
Proof. exact unregister_frame. Qed.

(* GOODBYE CONTENT.  What is sent on OK: per interface and family that has an address of the
   service in its subnet, one response with PTR, subtype PTR, SRV, TXT and those addresses ... *)
Theorem C09_goodbye_packets : forall st k ch now s,
  aget k (d_svcs st) = Some s ->
  unregister st k ch now =
  (mkD (d_intfs st) (d_regs st) (adel k (d_svcs st))
       (d_retrans st ++ map (resend_of now) (goodbyes_of s (d_intfs st))) (d_mon st) (d_dead st) (d_mif4 st),
   map send_of (goodbyes_of s (d_intfs st)) ++ [OReply ch true]).
Proof. exact unregister_found. Qed.

Theorem C09_goodbye_is_spec_of_the_code : forall st s,
  map (fun g : N * bool * omsg => let '(i, v4, m) := g in (i, v4, Mcast, m)) (goodbyes_of s (d_intfs st))
  = spec_goodbyes st false false s.
Proof. exact goodbyes_are_spec_code. Qed.

(* ... every record of it with TTL 0 ... *)
Theorem C09_goodbye_ttl_zero : forall s addrs, is_goodbye (goodbye_msg s addrs) = true.
Proof. exact goodbye_all_ttl0. Qed.

(* ... and for a service that was not renamed and is announced wherever it has addresses this IS
   the goodbye the property asks for (names most recently announced, only where announced). *)
Theorem C09_goodbye_matches_property : forall st s,
  no_renames st s -> announced_where_addressed st s ->
  spec_goodbyes st true true s = spec_goodbyes st false false s.
Proof. exact goodbyes_match_property. Qed.

(* THE REPEAT: the identical message is queued once for now + 120 and sent again unchanged. *)
Theorem C09_goodbye_repeat_scheduled : forall st k ch now s,
  aget k (d_svcs st) = Some s ->
  d_retrans (fst (unregister st k ch now))
  = d_retrans st ++ map (fun g : N * bool * omsg => let '(i, v4, m) := g in (now + 120, UnregisterResend m i v4))
                        (goodbyes_of s (d_intfs st)).
Proof. exact unregister_schedules_repeat. Qed.

Theorem C09_goodbye_repeat_same_packet : forall st m i v4,
  unregister_resend st m i v4 = [] \/ unregister_resend st m i v4 = [OResend i v4 m].
Proof. exact unregister_resend_same_packet. Qed.

(* SHUTDOWN: goodbyes once for every registered service, nothing left to repeat, the thread ends. *)
Theorem C09_shutdown_goodbyes_once : forall st,
  let (st', os) := cleanup st in
  d_svcs st' = [] /\ d_retrans st' = [] /\ d_dead st' = true /\
  os = flat_map (fun ks => map send_of (goodbyes_of (snd ks) (d_intfs st))) (d_svcs st) ++ [OExit].
Proof. exact cleanup_spec. Qed.

(* QUIET AFTERWARDS: the pending second announcement of an unregistered service finds nothing,
   and a query on an interface where no remaining service is announced is not answered. *)
Theorem C09_no_reannouncement : forall st full i now js,
  aget (lower full) (d_svcs st) = None -> register_resend st full i now js = (st, [], js).
Proof. exact register_resend_absent. Qed.

Theorem C09_no_answer_without_announced_service : forall st g now,
  none_announced st (g_if g) -> snd (handle_query st g now) = [].
Proof. exact handle_query_silent. Qed.

(* The property text is FALSE of the code in three decidable classes (witnesses run on the real
   daemon; chk_C09 codes): 11 goodbye under pre-rename names; 12 goodbye where the service was
   still probing; 14 the repeated IPv4 goodbye leaves on the interface of the last IPv4 send. *)
Theorem C09_goodbye_uses_old_names_refuted : only_known 11 (self9 w_renamed_ifs w_renamed_its).
Proof. exact w_renamed_known9. Qed.
Theorem C09_goodbye_while_probing_refuted : only_known 12 (self9 w_probing_goodbye_ifs w_probing_goodbye_its).
Proof. exact w_probing_goodbye_known9. Qed.
Theorem C09_goodbye_repeat_wrong_interface_refuted : only_known 14 (self9 w_resend_if_ifs w_resend_if_its).
Proof. exact w_resend_if_known9. Qed.

(* History level, full statement (validated on every generated history by running chk_C09 on the
   model's own observation, NOT proved as a theorem):
     forall ifs its, no VFail in chk_C09 (d_init ifs) its (model_obs (d_init ifs) its)
   and that a response never carries a record of an unregistered service (chk_C09 code 3) for all
   histories.  Proved: the single-step statements above for every state. *)

(* Non-vacuity: register, two announcements, unregister under a differently-cased name (OK,
   goodbye, repeat 120 ms later), a second unregister (NotFound) and a PTR question (no answer):
   chk_C09 accepts the model's run. *)
Example C09_unregister_run :
  self9 w_unregister_ifs w_unregister_its = [] /\ self7 w_unregister_ifs w_unregister_its = [] /\
  busy (timeline w_unregister_ifs w_unregister_its) =
  [ (1000145, true, false, false); (1000395, true, false, false); (1000645, true, false, false);
    (1000895, false, true, false); (1001895, false, true, false);
    (1002500, false, false, true); (1002620, false, false, true) ].
Proof. exact w_unregister_accepted. Qed.

Print Assumptions C09_constants.
Print Assumptions C09_unregister_status.
Print Assumptions C09_unregister_replies_once.
Print Assumptions C09_unregister_frame.
Print Assumptions C09_goodbye_packets.
Print Assumptions C09_goodbye_is_spec_of_the_code.
Print Assumptions C09_goodbye_ttl_zero.
Print Assumptions C09_goodbye_matches_property.
Print Assumptions C09_goodbye_repeat_scheduled.
Print Assumptions C09_goodbye_repeat_same_packet.
Print Assumptions C09_shutdown_goodbyes_once.
Print Assumptions C09_no_reannouncement.
Print Assumptions C09_no_answer_without_announced_service.
Print Assumptions C09_goodbye_uses_old_names_refuted.
Print Assumptions C09_goodbye_while_probing_refuted.
Print Assumptions C09_goodbye_repeat_wrong_interface_refuted.
Print Assumptions C09_unregister_run.
