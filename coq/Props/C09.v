(* C09 (work in progress) *)
From Coq Require Import List NArith Bool.
From Mdns Require Import ParamsRegistry RegistryParamsPinned.
Open Scope N_scope.
Theorem C09_constants : goodbye_repeat_v4 = 120 /\ goodbye_repeat_v6 = 120.
Proof. exact goodbye_repeat_pinned. Qed.
Print Assumptions C09_constants.
