(* C09  Unregistering says goodbye for exactly what was announced, then goes quiet.
   Only statements here; every proof is `exact <lemma>`.

   Model: Model/RegistryDaemon.v (unregister = exec_command_unregister after the caller lower-cased
   the name, goodbye_msg / goodbyes_of = unregister_service over all interfaces and both
   families, unregister_resend, cleanup, register_resend).  Specification of the goodbye the
   property asks for: Model/RegistrySpec.v, spec_goodbyes st resolved announced_only s
   (resolved = under the names most recently announced, announced_only = only where announced). *)
From Coq Require Import List NArith Bool.
From Mdns Require Import Bytes Rec ParamsRegistry Names WireOut Registry RegistryDaemon RegistrySpec
     RegistryTrace RegistryParamsPinned RegistryProofs RegistryDaemonProofs RegistryLiftProofs RegistryHistoryProofs
     RegistrySilenceProofs RegistryWitnesses RegistryWitnessProofs.
Import ListNotations.
Open Scope N_scope.

(* regenerated from the Rust on every run: the repeat comes 120 ms later (both families), TTLs *)
Theorem C09_constants :
  goodbye_repeat_v4 = 120 /\ goodbye_repeat_v6 = 120 /\ dns_host_ttl = 120 /\ dns_other_ttl = 4500 /\ class_in = 1.
Proof. exact c09_constants. Qed.

(* STATUS: OK exactly when the (lower-cased) full name is a key of the registered services -
   every state, every name - and exactly one reply is given. *)
Theorem C09_unregister_status : forall st k ch now,
  In (OReply ch true) (snd (unregister st k ch now)) <-> aget k (d_svcs st) <> None.
Proof. exact unregister_status. Qed.

Theorem C09_unregister_replies_once : forall st k ch now,
  replies_of (snd (unregister st k ch now))
  = [(ch, match aget k (d_svcs st) with Some _ => true | None => false end)].
Proof. exact unregister_reply_once. Qed.

(* FRAME: every other service and the interface table are untouched; the service itself is gone; the
   registries are untouched on NotFound and forget the service's own names on OK (fix d685fcf,
   C09_unregister_forgets_the_service_names / C09_unregister_keeps_other_names). *)
Theorem C09_unregister_frame : forall st k ch now,
  let st' := fst (unregister st k ch now) in
  (forall k', k' <> k -> aget k' (d_svcs st') = aget k' (d_svcs st)) /\
  d_regs st' = match aget k (d_svcs st) with Some s => forget_regs (s_full s) (d_regs st) | None => d_regs st end /\
  d_intfs st' = d_intfs st /\
  (NoDup (keys (d_svcs st)) -> aget k (d_svcs st') = None).
Proof. exact unregister_frame. Qed.

(* GOODBYE CONTENT.  What is sent on OK: the goodbyes of the service, then the reply; the same
   packets are queued once for now + 120. *)
Theorem C09_goodbye_packets : forall st k ch now s,
  aget k (d_svcs st) = Some s ->
  unregister st k ch now =
  (mkD (d_intfs st) (forget_regs (s_full s) (d_regs st)) (adel k (d_svcs st))
       (d_retrans st ++ map (resend_of now) (goodbyes_of st s)) (d_mon st) (d_dead st) (d_os st) (d_sel st),
   map send_of (goodbyes_of st s) ++ [OReply ch true]).
Proof. exact unregister_found. Qed.

(* ... and these ARE the goodbyes the property asks for (formerly refuted in two classes): per
   interface where the service is ANNOUNCED and per family with an address of the service in the
   subnet, one response with PTR, subtype PTR, SRV, TXT and those addresses under the names MOST
   RECENTLY ANNOUNCED there (spec_goodbyes st resolved:=true announced_only:=true). *)
Theorem C09_goodbye_is_the_specified_one : forall st s,
  map (fun g : N * bool * omsg => let '(i, v4, m) := g in (i, v4, Mcast, m)) (goodbyes_of st s)
  = spec_goodbyes st true true s.
Proof. exact goodbyes_are_spec. Qed.

Theorem C09_goodbye_only_where_announced : forall st s i v4 m,
  In (i, v4, m) (goodbyes_of st s) -> announced_on i s = true /\ exists itf, In itf (d_intfs st) /\ if_index itf = i.
Proof. exact goodbye_only_where_announced. Qed.

(* ... every record of it with TTL 0. *)
Theorem C09_goodbye_ttl_zero : forall rg s addrs, is_goodbye (goodbye_msg rg s addrs) = true.
Proof. exact goodbye_all_ttl0. Qed.

(* THE REPEAT: the identical message is queued once for now + 120 and sent again unchanged on
   the interface and family it was first sent on (formerly refuted for IPv4). *)
Theorem C09_goodbye_repeat_scheduled : forall st k ch now s,
  aget k (d_svcs st) = Some s ->
  d_retrans (fst (unregister st k ch now))
  = d_retrans st ++ map (fun g : N * bool * omsg => let '(i, v4, m) := g in (now + 120, UnregisterResend m i v4))
                        (goodbyes_of st s).
Proof. exact unregister_schedules_repeat. Qed.

(* ... and the daemon has work due by then: the earliest time the model wants to be woken after
   the unregister (due_work, what chk_C09 / chk_C07 hold the requested wake-up against) is at most
   now + 120 whenever a goodbye was sent - for either family. *)
Theorem C09_goodbye_repeat_is_due : forall st k ch now s i v4 m,
  aget k (d_svcs st) = Some s -> In (i, v4, m) (goodbyes_of st s) ->
  exists d, due_work (fst (unregister st k ch now)) = Some d /\ d <= now + 120.
Proof. exact goodbye_repeat_is_due. Qed.

Theorem C09_goodbye_repeat_same_packet_same_interface : forall st m i v4,
  unregister_resend st m i v4 = [] \/ unregister_resend st m i v4 = [OSend i v4 Mcast m].
Proof. exact unregister_resend_same_packet. Qed.

(* SHUTDOWN: goodbyes once for every registered service, nothing left to repeat, the thread ends. *)
Theorem C09_shutdown_goodbyes_once : forall st,
  let (st', os) := cleanup st in
  d_svcs st' = [] /\ d_retrans st' = [] /\ d_dead st' = true /\
  os = flat_map (fun ks => map send_of (goodbyes_of st (snd ks))) (d_svcs st) ++ [OExit].
Proof. exact cleanup_spec. Qed.

(* QUIET AFTERWARDS: the pending second announcement of an unregistered service finds nothing,
   and a query on an interface where no remaining service is announced is not answered. *)
Theorem C09_no_reannouncement : forall st full i now js,
  aget (lower full) (d_svcs st) = None -> register_resend st full i now js = (st, [], js).
Proof. exact register_resend_absent. Qed.

Theorem C09_no_answer_without_announced_service : forall st g now,
  none_announced st (g_if g) -> snd (handle_query st g now) = [].
Proof. exact handle_query_silent. Qed.

(* The three classes in which the code departed from the property are repaired; the former
   witnesses (goodbye after a rename, unregister before the first probe, two IPv4 interfaces)
   are accepted by chk_C09 now. *)
Theorem C09_former_witnesses_accepted :
  self9 w_renamed_ifs w_renamed_its = [] /\ self9 w_probing_goodbye_ifs w_probing_goodbye_its = [] /\
  self9 w_resend_if_ifs w_resend_if_its = [].
Proof. exact w_former_c09_accepted. Qed.

(* ---- round 4: over ALL histories of the daemon model ----------------------------------------------------
   run_state st its = the state after the iterations its; any interface table and OS table, any
   datagrams (queries and responses), any calls (register, unregister, monitor, shutdown,
   enable/disable_interface), any jitter values, any iteration times. *)

(* INVARIANT: whatever is queued as the repeat of a goodbye IS a goodbye - a response with a
   non-empty answer section in which every record has TTL 0 - in every reachable state. *)
Theorem C09_saved_repeats_are_goodbyes_all_histories : forall ifs os its,
  saved_goodbyes (run_state (d_init_os ifs os) its).
Proof. exact saved_goodbyes_all_histories. Qed.

(* ON EVERY interface/family the service is announced on: the goodbye goes out at the unregister and
   the same message is queued for now + 120 (every state). *)
Theorem C09_goodbye_everywhere_announced : forall st k ch now s itf v4,
  aget k (d_svcs st) = Some s -> In itf (d_intfs st) -> announced_on (if_index itf) s = true ->
  addrs_on_intf s itf v4 <> [] ->
  let m := goodbye_msg (get_reg st (if_index itf)) s (addrs_on_intf s itf v4) in
  In (OSend (if_index itf) v4 Mcast m) (snd (unregister st k ch now)) /\
  In (now + 120, UnregisterResend m (if_index itf) v4) (d_retrans (fst (unregister st k ch now))).
Proof. exact goodbye_everywhere_announced. Qed.

(* ONE REPEAT: when the queued entry is due it is sent unchanged (if the interface still has that
   family) and leaves the queue; and no iteration leaves a due entry behind
   (C07_no_overdue_queue_entry = iterate_queue_future), so it is run in the first iteration at or
   after now + 120. *)
Theorem C09_repeat_run_once : forall st now js t m i v4,
  In (t, UnregisterResend m i v4) (d_retrans st) -> t <= now ->
  incl (unregister_resend st m i v4) (snd (fst (retransmit st now js))) /\
  ~ In (t, UnregisterResend m i v4) (d_retrans (fst (fst (retransmit st now js)))).
Proof. exact repeat_run_once. Qed.

Theorem C09_no_overdue_repeat : forall st it st' os js,
  iterate st it = (st', os, Running, js) -> Forall (fun e => it_now it < fst e) (d_retrans st').
Proof. exact iterate_queue_future. Qed.

(* what an iteration can add to the queue: RegisterResend entries for now + 1000 and goodbye repeats
   for now + 120, nothing else; everything else was there before *)
Theorem C09_queue_growth : forall st it,
  Forall (fun e => In e (d_retrans st) \/ new_entry (it_now it) e) (d_retrans (fst (fst (fst (iterate st it))))).
Proof. exact iterate_retrans. Qed.

(* non-vacuity on the unregister witness: repeat of the announcement queued for +1895, goodbye repeat
   queued for +2620 and gone afterwards, no service left *)
Example C09_queue_example :
  queue_times (state_after w_unregister_ifs w_unregister_its 5) = [1001895] /\
  queue_times (state_after w_unregister_ifs w_unregister_its 7) = [1002620] /\
  has_goodbye_repeat (state_after w_unregister_ifs w_unregister_its 7) = true /\
  queue_times (state_after w_unregister_ifs w_unregister_its 8) = [] /\
  d_svcs (state_after w_unregister_ifs w_unregister_its 8) = [].
Proof. exact w_unregister_queue. Qed.

(* AFTER THE UNREGISTER NO REGISTRY HOLDS ANYTHING UNDER THE SERVICE'S OWN NAMES (formerly refuted,
   fix d685fcf) - every state, hence all histories: on OK each interface registry becomes
   forget_service (s_full s) rg, in which there is no probing, active or name_changes entry under the
   registered full name or under the name the service had there at that moment ... *)
Theorem C09_unregister_forgets_the_service_names : forall st k ch now s i rg,
  aget k (d_svcs st) = Some s -> nget i (d_regs st) = Some rg ->
  nget i (d_regs (fst (unregister st k ch now))) = Some (forget_service (s_full s) rg) /\
  forall n, n = s_full s \/ n = resolve_name rg (s_full s) ->
    aget n (rg_probing (forget_service (s_full s) rg)) = None /\ aget n (rg_active (forget_service (s_full s) rg)) = None /\
    aget n (rg_changes (forget_service (s_full s) rg)) = None.
Proof. exact unregister_forgets. Qed.

(* ... and WHAT STAYS is everything under any other name, exactly as it was: the host-name entries
   (the address records, probing or active, and a name change of the host name) and whatever other
   services own.  The type and subtype PTR records are never registry entries (prepare_announce
   probes SRV, TXT and address records only).
   Can a stale host entry make the daemon say anything?  No live response: every record of every
   response is built from a service in the service map (C09_responses_only_for_registered_services_
   all_histories).  What it still does: a host-name probe in flight runs to its end (probe queries,
   then activation; its waiting list still names the service, and the wake-up finds none), a conflict
   on the host name is still handled, and a later service with the same host name finds the address
   records active and does not probe them again. *)
Theorem C09_unregister_keeps_other_names : forall full rg n,
  n <> full -> n <> resolve_name rg full ->
  aget n (rg_probing (forget_service full rg)) = aget n (rg_probing rg) /\
  aget n (rg_active (forget_service full rg)) = aget n (rg_active rg) /\
  aget n (rg_changes (forget_service full rg)) = aget n (rg_changes rg).
Proof. exact forget_service_other. Qed.

(* the former refutation witness, reproduced on the repaired daemon: unregister after the second
   probe, the registry keeps the host-name probe only, third probe query for the host name only; the
   re-registration 2.6 s later is probed three times anew and announced twice *)
Example C09_unregister_while_probing_example :
  reg_shape (state_after w_unreg_probing_ifs w_unreg_probing_its 3) = [([n_inst; n_host], [], [])] /\
  d_svcs (state_after w_unreg_probing_ifs w_unreg_probing_its 4) = [] /\
  reg_shape (state_after w_unreg_probing_ifs w_unreg_probing_its 4) = [([n_host], [], [])] /\
  reg_shape (state_after w_unreg_probing_ifs w_unreg_probing_its 6) = [([], [n_host], [])] /\
  wire_probe_times 2 n_inst (d_init w_unreg_probing_ifs) w_unreg_probing_its
  = [1000145; 1000395; 1003079; 1003329; 1003579] /\
  wire_probe_times 2 n_host (d_init w_unreg_probing_ifs) w_unreg_probing_its = [1000145; 1000395; 1000645] /\
  busy (timeline w_unreg_probing_ifs w_unreg_probing_its) =
  [ (1000145, true, false, false); (1000395, true, false, false); (1000645, true, false, false);
    (1003079, true, false, false); (1003329, true, false, false); (1003579, true, false, false);
    (1003829, false, true, false); (1004829, false, true, false) ] /\
  self9 w_unreg_probing_ifs w_unreg_probing_its = [] /\ self7 w_unreg_probing_ifs w_unreg_probing_its = [].
Proof. exact w_unreg_probing_forgets. Qed.

(* ---- round 5: SILENCE over ALL histories ------------------------------------------------------------------
   Vocabulary (Model/RegistryTrace.v): iter_states st it = the states after the micro-steps of the
   iteration (one datagram, one call - one row of the interface table for enable/disable_interface -,
   one due retransmission, the probing pass over one interface), in order; chg mid i = the name
   changes of interface i's registry in state mid; rec_of ch s r = r is a record the daemon may say
   for service s under those names: PTR type/subtype -> current instance name, the meta PTR for its
   type, SRV (port, current host name) or TXT under the current instance name (letter case aside), an
   address record of one of its addresses under the current host name.

   EVERY response the daemon model sends, in every history (any tables, datagrams incl. responses,
   calls incl. enable/disable_interface, jitter, times), is a goodbye (all TTL 0) or consists of
   records of services that are in the service map when the micro-step that sends it ends, whose key
   was in the map before the iteration or is registered by one of its calls. *)
Theorem C09_responses_only_for_registered_services_all_histories : forall ifs os its it i v4 d m,
  let st := run_state (d_init_os ifs os) its in
  In (OSend i v4 d m) (snd (fst (fst (iterate st it)))) -> o_resp m = true ->
  is_goodbye m = true \/
  forall r, In r (o_an m ++ o_ar m) ->
  exists mid k s, In mid (iter_states st it) /\ In (k, s) (d_svcs mid) /\ rec_of (chg mid i) s r /\
                  (In k (keys (d_svcs st)) \/ In k (registered_keys (it_calls it))).
Proof. exact responses_only_for_registered_services. Qed.

(* AFTER THE UNREGISTER (or for a service that never was registered): as long as the key is not in
   the map and not registered again, no live record of any response - answer, additional,
   announcement - is built from a service stored under that key.  Nothing else is excluded: what
   the daemon still does for the service (probe queries, activation of its names) is in
   C09_unregister_keeps_other_names. *)
Theorem C09_no_live_record_of_unregistered_service_all_histories : forall ifs os its it k0 i v4 d m,
  let st := run_state (d_init_os ifs os) its in
  aget k0 (d_svcs st) = None -> ~ In k0 (registered_keys (it_calls it)) ->
  In (OSend i v4 d m) (snd (fst (fst (iterate st it)))) -> o_resp m = true -> is_goodbye m = false ->
  forall r, In r (o_an m ++ o_ar m) ->
  exists mid k s, In mid (iter_states st it) /\ In (k, s) (d_svcs mid) /\ rec_of (chg mid i) s r /\ k <> k0.
Proof. exact no_live_record_of_unregistered. Qed.

(* the keys of the service map at every micro-step of an iteration *)
Theorem C09_service_keys_during_iteration : forall st it mid k s,
  In mid (iter_states st it) -> In (k, s) (d_svcs mid) ->
  In k (keys (d_svcs st)) \/ In k (registered_keys (it_calls it)).
Proof. exact iter_states_keys. Qed.

(* non-vacuity on the unregister witness: a live response (the announcement at +895 ms) while the
   service is registered; after the unregister at +2500 ms the map is empty, the iteration of the
   repeat sends something (the goodbye) but no live response, the PTR question at +3000 ms gets none *)
Example C09_silence_example :
  existsb live_resp (outs_of w_unregister_ifs w_unregister_its 4) = true /\
  length (d_svcs (state_after w_unregister_ifs w_unregister_its 4)) = 1%nat /\
  d_svcs (state_after w_unregister_ifs w_unregister_its 7) = [] /\
  existsb live_resp (outs_of w_unregister_ifs w_unregister_its 7) = false /\
  existsb live_resp (outs_of w_unregister_ifs w_unregister_its 8) = false /\
  outs_of w_unregister_ifs w_unregister_its 7 <> [].
Proof. exact w_unregister_live. Qed.

(* Reading: a record "of service s" is identified by what it is built from (rec_of), not by its owner
   name alone - two services may share a host name or a type, and then the address / type PTR records
   of the one that stays are also records of the one that left. *)

(* History level, full statement (validated on every generated history by running chk_C09 on the
   model's own observation, NOT proved as a theorem):
     forall ifs its, no VFail in chk_C09 (d_init ifs) its (model_obs (d_init ifs) its)
   and that a response never carries a record of an unregistered service (chk_C09 code 3) for all
   histories.  Proved: the single-step statements above for every state. *)

(* Non-vacuity: register, two announcements, unregister under a differently-cased name (OK,
   goodbye, repeat 120 ms later), a second unregister (NotFound) and a PTR question (no answer):
   chk_C09 accepts the model's run. *)
Example C09_unregister_run :
  self9 w_unregister_ifs w_unregister_its = [] /\ self7 w_unregister_ifs w_unregister_its = [] /\
  busy (timeline w_unregister_ifs w_unregister_its) =
  [ (1000145, true, false, false); (1000395, true, false, false); (1000645, true, false, false);
    (1000895, false, true, false); (1001895, false, true, false);
    (1002500, false, false, true); (1002620, false, false, true) ].
Proof. exact w_unregister_accepted. Qed.

Print Assumptions C09_constants.
Print Assumptions C09_unregister_status.
Print Assumptions C09_unregister_replies_once.
Print Assumptions C09_unregister_frame.
Print Assumptions C09_goodbye_packets.
Print Assumptions C09_goodbye_is_the_specified_one.
Print Assumptions C09_goodbye_only_where_announced.
Print Assumptions C09_goodbye_ttl_zero.
Print Assumptions C09_goodbye_repeat_scheduled.
Print Assumptions C09_goodbye_repeat_is_due.
Print Assumptions C09_goodbye_repeat_same_packet_same_interface.
Print Assumptions C09_shutdown_goodbyes_once.
Print Assumptions C09_no_reannouncement.
Print Assumptions C09_no_answer_without_announced_service.
Print Assumptions C09_former_witnesses_accepted.
Print Assumptions C09_saved_repeats_are_goodbyes_all_histories.
Print Assumptions C09_goodbye_everywhere_announced.
Print Assumptions C09_repeat_run_once.
Print Assumptions C09_no_overdue_repeat.
Print Assumptions C09_queue_growth.
Print Assumptions C09_queue_example.
Print Assumptions C09_unregister_forgets_the_service_names.
Print Assumptions C09_unregister_keeps_other_names.
Print Assumptions C09_unregister_while_probing_example.
Print Assumptions C09_responses_only_for_registered_services_all_histories.
Print Assumptions C09_no_live_record_of_unregistered_service_all_histories.
Print Assumptions C09_service_keys_during_iteration.
Print Assumptions C09_silence_example.
Print Assumptions C09_unregister_run.
