(* C07  A name is probed three times before it is announced, then announced twice.
   Only statements here; every proof is `exact <lemma>`.

   Model: Model/Registry.v (Probe, DnsRegistry, check_probing, handle_expired_probes,
   tiebreaking, conflict renaming) and Model/RegistryDaemon.v (prepare_announce, the status
   guards of handle_query).  The registry of one interface is a machine of operations
     OTick                 one pass of the probing handler (check_probing + handle_expired_probes)
     OJoin r svc j         is_probing_done for record r with start_time = now + j  (registration)
     OTiebreak n incoming  Probe::tiebreaking against a competing probe
     OConflict ans j       conflict_handler for one answer, new probes start at now + j
   applied at arbitrary nondecreasing times; run_ops gives, per operation, the names a probe
   query was sent for and the names that became active.  The daemon model performs exactly these
   operations on its registries (C07_registration_is_joins; the other call sites are the same
   functions by definition). *)
From Coq Require Import List NArith Bool.
From Mdns Require Import Bytes Rec ParamsRegistry Names WireOut Registry RegistryDaemon RegistrySpec
     RegistryTrace RegistryParamsPinned RegistryProofs RegistryDaemonProofs RegistryLiftProofs RegistryHistoryProofs
     RegistrySilenceProofs RegistryLivenessProofs RegistryDeferralProofs RegistryTimingProofs RegistryPersistProofs
     RegistrySafetyProofs RegistryWitnesses RegistryWitnessProofs.
Import ListNotations.
Open Scope N_scope.

(* The numbers and comparison directions, regenerated from the Rust sources on every run
   (Gen/ParamsRegistry.v): next probe 250 ms later, done when now >= start + 750, a probe is due
   when now >= next_send, jitter drawn from 0..250, second announcement 1000 ms later (after a
   registration, after probing, on an interface that was added). *)
Theorem C07_constants :
  (forall now, probe_next_send now = now + 250) /\
  (forall start now, probe_expired start now = (start + 750 <=? now)) /\
  (forall next now, probe_due next now = (next <=? now)) /\
  jitter_bound_announce = 250 /\
  (forall now, announce_repeat_probing now = now + 1000) /\ announce_repeat_register = 1000 /\
  announce_repeat_add_interface = 1000.
Proof. exact c07_constants. Qed.

(* ALL SCHEDULES.  For EVERY sequence of operations - registrations, probing passes, lost
   tie-breaks, conflicts, in any order - at EVERY sequence of nondecreasing times (late or early
   wake-ups alike), and every name n: each probe query for n and each activation of n comes at
   least 250 ms after the previous probe query for n; the handling of a conflicting response
   restarts probes at now + 0..250 and starts the count afresh (spaced_250 resets at OConflict). *)
Theorem C07_probe_spacing_all_schedules : forall ops n t0,
  times_from t0 ops -> spaced_250 n None ops (run_ops reg_new ops).
Proof. exact probe_spacing_all_schedules_proof. Qed.

(* ... in particular, without conflicting responses, the times of the probe queries for a name
   are pairwise 250 ms apart. *)
Theorem C07_probe_times_250_apart : forall ops n t0,
  times_from t0 ops -> no_conflicts ops -> gaps_250 (probe_times n (run_ops reg_new ops)).
Proof. exact probe_times_gaps. Qed.

(* THE SAME ON THE WIRE, FOR EVERY HISTORY OF THE DAEMON MODEL without response datagrams, without
   enable/disable_interface calls and - since fix d685fcf, which makes the registries forget the names
   of an unregistered service so that a re-registration starts a new series at once - without
   unregister calls (plain_iter): whatever the interface table (without repeated indexes), the query
   datagrams delivered (competing probes included), the register / monitor / shutdown calls, the
   jitter values and the (nondecreasing) iteration times, the iterations that put a probe query for
   name n on interface k are at least 250 ms apart. *)
Theorem C07_wire_probe_spacing : forall ifs its t0 k n,
  NoDup (map if_index ifs) -> Forall plain_iter its -> iter_times_from t0 its ->
  gaps_250 (wire_probe_times k n (d_init ifs) its).
Proof. exact wire_probe_spacing. Qed.

(* A name becomes active in a probing pass only if its probe's start time lies at least 750 ms
   back (and its next_send has come) - again for every state and every time. *)
Theorem C07_activation_needs_750 : forall rg now rg' qs ex n,
  NoDup (keys (rg_probing rg)) -> tick_names rg now = (rg', qs, ex) -> In n ex ->
  exists p, aget n (rg_probing rg) = Some p /\ pb_start p + 750 <= now /\ pb_next p <= now.
Proof. exact activation_needs_750. Qed.

(* (the hypothesis holds in every reachable registry: one probe per name) *)
Theorem C07_reachable_one_probe_per_name : forall ops t0,
  times_from t0 ops -> NoDup (keys (rg_probing (final_reg reg_new ops))).
Proof. exact reachable_nodup. Qed.

(* TIMER-EXACT.  A probe in its initial state (start_time = next_send = T, as registration
   creates it) under probing passes that are never late for it (each pass happens no later than
   the probe's next_send; extra earlier passes are allowed): the probe queries go out at a
   prefix of T, T+250, T+500, and the name is activated, if at all, at T+750 after all three. *)
Theorem C07_three_probes_exact : forall n T ts rg t0,
  NoDup (keys (rg_probing rg)) -> phase rg n T 0 ->
  times_from t0 (ticks ts) -> never_late_for n rg ts ->
  exists j, (j <= 3)%nat /\
    probe_times n (run_ops rg (ticks ts)) = firstn j [T; T + 250; T + 500] /\
    (activation_times n (run_ops rg (ticks ts)) = [] \/
     (j = 3%nat /\ activation_times n (run_ops rg (ticks ts)) = [T + 750])).
Proof. exact three_probes_exact_lemma. Qed.

(* Woken exactly at the times it asked for: three probe queries at T, T+250, T+500, active at T+750. *)
Theorem C07_three_probes_exact_full : forall rg n T,
  NoDup (keys (rg_probing rg)) -> phase rg n T 0 ->
  probe_times n (run_ops rg (ticks [T; T + 250; T + 500; T + 750])) = [T; T + 250; T + 500] /\
  activation_times n (run_ops rg (ticks [T; T + 250; T + 500; T + 750])) = [T + 750].
Proof. exact exact_full. Qed.

(* REACHES THE ACTIVE STATE.  A record registered at `now` under jitter j < 250 whose name is
   neither held nor being probed starts a probe at T = now + j; woken when asked, the name is
   active at T + 750, less than 250 + 750 ms after the registration. *)
Theorem C07_reaches_active_within_a_second : forall rg r svc now j,
  NoDup (keys (rg_probing rg)) -> in_active rg r = false -> aget (p_name r) (rg_probing rg) = None -> j < 250 ->
  let T := now + j in
  let tr := run_ops (fst (is_probing_done rg r svc T)) (ticks [T; T + 250; T + 500; T + 750]) in
  probe_times (p_name r) tr = [T; T + 250; T + 500] /\ activation_times (p_name r) tr = [T + 750] /\
  T + 750 < now + 250 + 750.
Proof. exact join_then_exact. Qed.

(* SILENT UNTIL DONE, registry level: after any sequence of operations, is_probing_done says
   "done" for a record only if the record's name was activated by an earlier probing pass. *)
Theorem C07_silent_until_activated : forall ops r svc start,
  snd (is_probing_done (final_reg reg_new ops) r svc start) = true ->
  In (p_name r) (all_activations (run_ops reg_new ops)).
Proof. exact silent_until_activated_proof. Qed.

(* SILENT UNTIL DONE, daemon level: prepare_announce builds an announcement for a service that
   requires probing only when its SRV, TXT and every address record of that interface and family
   are active there; the packet then carries PTR, subtype PTR, SRV, TXT and those addresses as
   answers. *)
Theorem C07_announce_requires_active : forall s i rg v4 now js rg' m js',
  prepare_announce s i rg v4 now js = (rg', Some m, js') ->
  (s_probe s = false \/ Forall (fun r => in_active rg r = true) (announce_records rg s i v4)) /\
  addrs_on_intf s i v4 <> [] /\
  m = mkOut true [] (ptr_rrs s dns_other_ttl (resolve_name rg (s_full s))
                     ++ map wire_rr (announce_records rg s i v4)) [] [].
Proof. exact prepare_announce_some. Qed.

(* ... and a query that arrives on an interface where no service is in the announced state is
   not answered at all (handle_query's status guards), whatever it asks. *)
Theorem C07_no_answer_unless_announced : forall st g now,
  none_announced st (g_if g) -> snd (handle_query st g now) = [].
Proof. exact handle_query_silent. Qed.

(* The registry effect of a registration is a sequence of OJoin operations at start = now + j. *)
Theorem C07_registration_is_joins : forall s now j recs rg,
  s_probe s = true ->
  fst (probe_records rg s (now + j) recs) = final_reg rg (map (fun r => (now, OJoin r (s_full s) j)) recs).
Proof. exact probe_records_ops. Qed.

(* The property text read literally - "announced only after three probe queries have gone out" -
   is FALSE for schedules that are late: completion is measured from the probe's start, so a
   daemon woken late announces after fewer probes.  Witness (run on the real daemon): one probe at
   +145 ms, next iteration at +900 ms, announcement in that iteration. *)
Theorem C07_three_probes_on_late_schedules_refuted :
  busy (timeline w_late_ifs w_late_its) = [ (1000145, true, false, false); (1000900, false, true, false) ] /\
  only_known 42 (self7 w_late_ifs w_late_its).
Proof. exact w_late_refutes. Qed.

(* "... with the proposed records in the authority section" is FALSE for a record that joins a
   probe already in flight (second service on the same host name, registered 300 ms later). *)
Theorem C07_record_joining_a_probe_refuted : only_known 44 (self7 w_join_ifs w_join_its).
Proof. exact w_join_known. Qed.

(* Formerly refuted, now holding (fix 30a3832): after a lost tie-break followed by a host-name
   conflict the instance name is probed again - one query at +222 ms, then three more at +696,
   +946, +1196 ms before the announcement; chk_C07 accepts the run.  (The restart comes before
   the second that the lost tie-break asks for: C08_restart_cancels_deferral_refuted.) *)
Theorem C07_reprobe_after_host_rename :
  self7 w_skipreprobe_ifs w_skipreprobe_its = [] /\
  wire_probe_times 2 [100;101;118;45;49;46;95;116;46;95;116;99;112;46;108;111;99;97;108;46]
                   (d_init w_skipreprobe_ifs) w_skipreprobe_its = [1000222; 1000696; 1000946; 1001196].
Proof. exact w_skipreprobe_fixed. Qed.

(* An interface that is taken away while an addr_auto service is probing takes its registry with
   it: when it comes back the names are probed three times anew before the announcements. *)
Theorem C07_interface_reappears_probes_anew :
  self7 w_toggle_ifs w_toggle_its = [] /\
  busy (timeline w_toggle_ifs w_toggle_its) =
  [ (1000145, true, false, false); (1000395, true, false, false);
    (1001098, true, false, false); (1001348, true, false, false); (1001598, true, false, false);
    (1001848, false, true, false); (1002848, false, true, false) ].
Proof. exact w_toggle_accepted. Qed.

(* Formerly findings of round 2, now holding: an announcement that add_interface makes is repeated
   one second later (fix 4b0055d) ... *)
Theorem C07_interface_added_announced_twice :
  self7 w_added_twice_ifs w_added_twice_its = [] /\
  busy (timeline w_added_twice_ifs w_added_twice_its) =
  [ (1000000, false, true, false); (1001000, false, true, false);
    (1002600, false, true, false); (1003600, false, true, false) ].
Proof. exact w_added_twice_accepted. Qed.

(* ... and probes that a pending second announcement starts on a registry re-created in between are
   sent when due (fix 2ff6a49): chk_C07's wake-up clause has no exception any more. *)
Theorem C07_probes_started_by_resend_are_sent :
  self7 w_resend_probes_ifs w_resend_probes_its = [] /\
  busy (timeline w_resend_probes_ifs w_resend_probes_its) =
  [ (1000145, true, false, false); (1000395, true, false, false); (1000645, true, false, false);
    (1000895, false, true, false);
    (1001993, true, false, false); (1002243, true, false, false); (1002493, true, false, false) ].
Proof. exact w_resend_probes_accepted. Qed.

(* ---- round 4: EVERY first announcement queues its second one ------------------------------------------
   For every state (hence every history): each packet register_service sends, each announcement
   add_interface makes and each response the probing handler sends when probes complete goes out on
   an interface i for which RegisterResend(full, i) is in the queue at now + 1000 afterwards. *)
Theorem C07_registration_queues_second_announcement : forall st s now js,
  let '(st1, os, _) := register_service st s now js in
  forall o, In o os -> is_send o ->
  exists i full, send_if o = Some i /\ In (now + 1000, RegisterResend full i) (d_retrans st1).
Proof. exact register_service_queues_second. Qed.

Theorem C07_added_interface_queues_second_announcement : forall st r now js,
  let '(st1, os, _) := add_interface st r now js in
  forall o, In o os -> is_send o ->
  exists i full, send_if o = Some i /\ In (now + 1000, RegisterResend full i) (d_retrans st1).
Proof. exact add_interface_queues_second. Qed.

(* ... for the probing handler at the level of a whole iteration: the entry is in the queue that the
   iteration leaves behind (st3, js3 = state and jitter values when the probing handler starts) *)
Theorem C07_completed_probe_queues_second_announcement : forall st it st' os js,
  iterate st it = (st', os, Running, js) ->
  forall st3 js3, d_dead st = false ->
  (let now := it_now it in
   let '(st1, _, js1) := handle_dgrams st (filter (fun g => g_v4 g) (it_dgrams it) ++ filter (fun g => negb (g_v4 g)) (it_dgrams it)) now (it_jitter it) in
   let '(st2, _, js2) := exec_calls st1 (it_calls it) now js1 in
   let '(s3, _, j3) := retransmit st2 now js2 in st3 = s3 /\ js3 = j3) ->
  forall o, In o (snd (fst (probing_handler st3 (it_now it) js3))) -> resp_send o ->
  exists i full, send_if o = Some i /\ In (it_now it + 1000, RegisterResend full i) (d_retrans st').
Proof. exact probing_announcements_queued. Qed.

(* ... and the queued entry is run in the first iteration at or after its time: no iteration that
   leaves the daemon running leaves an entry behind that is due at or before its `now` (any state,
   hence all histories; the same for the repeat of a goodbye) *)
Theorem C07_no_overdue_queue_entry : forall st it st' os js,
  iterate st it = (st', os, Running, js) -> Forall (fun e => it_now it < fst e) (d_retrans st').
Proof. exact iterate_queue_future. Qed.

(* non-vacuity: the witness runs have these queue entries *)
Example C07_second_announcement_queue_example :
  queue_times (state_after w_added_twice_ifs w_added_twice_its 1) = [1001000] /\
  queue_times (state_after w_added_twice_ifs w_added_twice_its 4) = [1003600] /\
  queue_times (state_after w_added_twice_ifs w_added_twice_its 5) = [].
Proof. exact w_added_twice_queue. Qed.

(* ---- round 5: the second announcement is SENT ---------------------------------------------------------------
   announceable s itf rg v4 = the announcement attempt for that family succeeds: s has an address on
   the interface in that family and needs no probing or all its records there are active;
   announcement_of s itf rg v4 = the message (PTRs, SRV, TXT, addresses under the current names);
   resend_ready st full i s itf rg = the service is still registered under that key, interface i still
   exists and still has its registry. *)

(* the queue entry stays where it is until it is due (every state, every iteration that leaves the
   daemon running: datagrams incl. responses, any calls but shutdown) ... *)
Theorem C07_second_announcement_stays_queued : forall st it st' os js e,
  iterate st it = (st', os, Running, js) -> In e (d_retrans st) -> it_now it < fst e -> In e (d_retrans st').
Proof. exact queue_entry_persists. Qed.

(* ... and when it is due - whatever else is due before it in the same pass - the announcement is sent
   on its interface for every family in which the service is still announceable *)
Theorem C07_due_second_announcement_sent_partial : forall st now js t full i s itf rg v4,
  In (t, RegisterResend full i) (d_retrans st) -> t <= now ->
  resend_ready st full i s itf rg -> announceable s itf rg v4 ->
  In (OSend i v4 Mcast (announcement_of s itf rg v4)) (snd (fst (retransmit st now js))).
Proof. exact due_second_announcement_sent. Qed.

Theorem C07_announcement_of_is_an_announcement : forall s itf rg v4, is_announcement (announcement_of s itf rg v4) = true.
Proof. exact announcement_of_is_announcement. Qed.

(* `_partial`: that the service IS still announceable 1000 ms after its first announcement is a
   hypothesis here.  It holds when nothing happened to the service, the interface and the active
   records in between; it fails by design after an unregister, a removed interface, a conflict that
   took the records out of the active set.  Composition with C07_*_queues_second_announcement,
   C07_second_announcement_stays_queued and C07_no_overdue_queue_entry: the entry queued at T for
   T + 1000 is still queued at the first iteration with now >= T + 1000, is run in it, and sends the
   announcement if the service is still announceable then. *)
Example C07_second_announcement_sent_example :
  sends_announcement (outs_of w_exact_ifs w_exact_its 4) = true /\
  queue_times (state_after w_exact_ifs w_exact_its 5) = [1001895] /\
  option_map it_now (nth_error w_exact_its 5) = Some 1001895 /\
  sends_announcement (outs_of w_exact_ifs w_exact_its 5) = true /\
  queue_times (state_after w_exact_ifs w_exact_its 6) = [].
Proof. exact w_exact_second_sent. Qed.

(* ---- round 7: the completion step ---------------------------------------------------------------------------
   The probing pass over an interface (probe_step) finishes probes; for a name w on the waiting list of
   a finished probe whose service is registered, not yet announced there and announceable in family
   v4 under the registry after the pass: the announcement goes out in this iteration's probing pass,
   and in the state after the interface's micro-step the service is Announced on the interface and its
   second announcement is queued for now + 1000.  (Names get onto a waiting list at registration -
   C07_registration_is_joins -, a probe finishes only 750 ms after its start - C07_activation_needs_750.) *)
Theorem C07_probing_pass_announces_completed_service : forall itf t st now js rg rg1 qs evs waiting w s v4,
  nget (if_index itf) (d_regs st) = Some rg -> probe_step rg now = (rg1, qs, evs, waiting) ->
  In w waiting -> aget (lower w) (d_svcs st) = Some s -> announced_on (if_index itf) s = false ->
  announceable s itf rg1 v4 ->
  In (OSend (if_index itf) v4 Mcast (announcement_of s itf rg1 v4)) (snd (fst (probing_intfs (itf :: t) st now js))) /\
  match st_probing (itf :: t) st now js with
  | mid :: _ => (exists s2, aget (lower w) (d_svcs mid) = Some s2 /\ announced_on (if_index itf) s2 = true) /\
                In (now + 1000, RegisterResend (s_full s) (if_index itf)) (d_retrans mid)
  | [] => False
  end.
Proof. exact probing_pass_completes. Qed.

Example C07_completion_example :
  sends_announcement (outs_of w_exact_ifs w_exact_its 4) = true /\
  map (fun ks => s_status (snd ks)) (d_svcs (state_after w_exact_ifs w_exact_its 4)) = [[(2, SProbing)]] /\
  map (fun ks => s_status (snd ks)) (d_svcs (state_after w_exact_ifs w_exact_its 5)) = [[(2, SAnnounced)]] /\
  queue_times (state_after w_exact_ifs w_exact_its 5) = [1001895].
Proof. exact w_exact_completion. Qed.

(* ---- round 9: LIVENESS over histories of the daemon model, without conflict datagrams ----------------------
   Vocabulary (Proofs/RegistryTimingProofs.v):
   calm_iter key it   = every datagram of the iteration is a query without authority records; every call is
                        a registration of ANOTHER service (key = the lower-cased full name of ours),
                        monitor or a command without effect on the responder (no unregister, no
                        enable/disable_interface, no shutdown, no response datagram);
   never_late st its  = every iteration happens no later than due_work of the state it starts from;
   all_running st its = every iteration leaves the daemon running;
   Qj s itf v4 T j rg = no rename recorded in rg, probing names pairwise different, and BOTH probes of the
                        service - instance name and host name - exist, started at T, with j probe queries
                        sent (next_send = T + 250 j), the service on their waiting lists, its SRV/TXT resp.
                        address records (of family v4 on itf) among their records;
   Kept Q k key s itf st = the daemon is alive, interface k is itf, its registry satisfies Q, the service is
                        registered under key (same data);
   Done k key svcs    = the service under key is in the state Announced on interface k.

   REACHES ANNOUNCED.  From a state in which both probes of a service that requires probing are in their
   initial state on a usable interface (as a registration with fresh names leaves them: start = next_send
   = T = registration time + jitter < registration + 250, C07_registration_is_joins /
   C07_reaches_active_within_a_second), through ANY history of calm iterations that is never late: if the
   history goes on until T + 750, it contains an iteration at exactly T + 750 after which the service is
   Announced on the interface - i.e. within registration + jitter + 750 ms.
   `_partial`: no conflict datagrams (the "+ 1000 ms per lost tie-break / conflict" part is not proved),
   no unregister / interface toggle / re-registration of the same service in between, host name probed
   together with the instance name (not shared with an older service). *)
Theorem C07_reaches_announced_partial : forall s0 itf v4 T key st its,
  key = lower (s_full s0) -> s_probe s0 = true -> addrs_on_intf s0 itf v4 <> [] ->
  NoDup (map if_index (d_intfs st)) -> Kept (Qj s0 itf v4 T 0) (if_index itf) key s0 itf st ->
  Forall (calm_iter key) its -> all_running st its -> never_late st its ->
  (exists it, In it its /\ T + 750 <= it_now it) ->
  exists pre it post, its = pre ++ it :: post /\ it_now it = T + 750 /\
                      Done (if_index itf) key (d_svcs (run_state st (pre ++ [it]))).
Proof. exact reaches_announced. Qed.

(* THE TIMETABLE behind it (this is also the daemon-level form of "three probes 250 ms apart before the
   name is spoken for", for these histories): from phase j, a never-late calm history either reaches the
   iteration at T + 750 that announces, or is still in a phase j' >= j with every iteration so far
   strictly before T + 250 j' - the probe queries went out in iterations at exactly T + 250 j, ... *)
Theorem C07_probe_timetable_partial : forall s0 itf v4 T key,
  key = lower (s_full s0) -> s_probe s0 = true -> addrs_on_intf s0 itf v4 <> [] ->
  forall its st j, (j <= 3)%nat ->
  NoDup (map if_index (d_intfs st)) -> Kept (Qj s0 itf v4 T j) (if_index itf) key s0 itf st ->
  Forall (calm_iter key) its -> all_running st its -> never_late st its ->
  (exists pre it post, its = pre ++ it :: post /\ it_now it = T + 750 /\
                       Done (if_index itf) key (d_svcs (run_state st (pre ++ [it])))) \/
  (exists j', (j <= j' <= 3)%nat /\ Kept (Qj s0 itf v4 T j') (if_index itf) key s0 itf (run_state st its) /\
              Forall (fun it => it_now it < T + 250 * N.of_nat j') its).
Proof. exact reaches_announced_gen. Qed.

(* one calm iteration, exactly: before the probe's next_send nothing changes for it; at next_send the next
   probe query is sent (j < 3) or the probes finish and the service is announced (j = 3) *)
Theorem C07_calm_iteration_step : forall s0 itf v4 T j key st it st' os js,
  let k := if_index itf in
  key = lower (s_full s0) -> s_probe s0 = true -> addrs_on_intf s0 itf v4 <> [] ->
  NoDup (map if_index (d_intfs st)) -> calm_iter key it -> iterate st it = (st', os, Running, js) ->
  Kept (Qj s0 itf v4 T j) k key s0 itf st ->
  d_intfs st' = d_intfs st /\
  (it_now it < T + 250 * N.of_nat j -> Kept (Qj s0 itf v4 T j) k key s0 itf st') /\
  (it_now it = T + 250 * N.of_nat j -> (j < 3)%nat -> Kept (Qj s0 itf v4 T (S j)) k key s0 itf st') /\
  (it_now it = T + 250 * N.of_nat j -> j = 3%nat -> Done k key (d_svcs st')).
Proof. exact calm_iteration. Qed.

(* non-vacuity: w_exact is such a history (registration at t0, jitter 145: both probes start at T = t0 + 145;
   iterations at T, T + 250, T + 500, T + 750; Announced after the last) *)
Example C07_liveness_example :
  map (fun kr => map (fun np => (pb_start (snd np), pb_next (snd np))) (rg_probing (snd kr))) (d_regs (state_after w_exact_ifs w_exact_its 1))
  = [[(1000145, 1000145); (1000145, 1000145)]] /\
  map it_now (firstn 5 w_exact_its) = [1000000; 1000145; 1000395; 1000645; 1000895] /\
  map (fun ks => s_status (snd ks)) (d_svcs (state_after w_exact_ifs w_exact_its 5)) = [[(2, SAnnounced)]].
Proof. exact w_exact_liveness_shape. Qed.

(* ---- round 10: SAFETY before T + 750 and the SECOND ANNOUNCEMENT, over calm histories ----------------------
   More vocabulary (Proofs/RegistrySafetyProofs.v, RegistryPersistProofs.v):
   Qp n T rg      = no rename recorded, probing names pairwise different, the probe for n is in progress with
                    start_time T, and NOTHING is active under n;
   KU s itf T st  = Kept (Qp (s_full s) T) on interface itf for the service, and the service's status on
                    that interface is not Announced;
   Qdone s itf v4 rg = no rename recorded, probing names pairwise different, every record of the service's
                    announcement (SRV, TXT, addresses of family v4 on itf) is active.

   NEVER SPEAKS BEFORE PROBED (safety, ANY schedule - late iterations included, so class 42 does not have to
   be excluded here): through every history of calm iterations at times before T + 750, the probe of the
   instance name stays in progress, nothing becomes active under that name and the service is NOT in the
   state Announced on the interface ... *)
Theorem C07_never_speaks_before_probed_partial : forall s0 itf T, s_probe s0 = true ->
  forall its st, KU s0 itf T st -> Forall (calm_iter (lower (s_full s0))) its -> all_running st its ->
  Forall (fun it => it_now it < T + 750) its -> KU s0 itf T (run_state st its).
Proof. exact unannounced_before_T750. Qed.

(* ... and in such a state the daemon cannot speak for the service on that interface: an announcement
   attempt (registration, RegisterResend, completion of another probe) sends nothing and announces
   nothing while the instance name has nothing active; questions are answered only for services whose
   status there is Announced (the status test at the head of every answer function of handle_query;
   C07_no_answer_unless_announced, C09_responses_only_for_registered_services_all_histories).
   `_partial`: the second half is not restated as ONE theorem about the packets of the history (the
   answer functions were not re-proved with "built from an ANNOUNCED service"); calm iterations only
   (not widened to non-conflicting responses / unregister of other services); with the timetable
   (C07_probe_timetable_partial) the three probe queries precede T + 750 on never-late schedules. *)
Theorem C07_announcement_attempt_blocked_while_inactive : forall s0 T, s_probe s0 = true ->
  forall s itf' rg now js, svc_eqv s0 s -> QP s0 T rg ->
  snd (fst (fst (announce_both s itf' rg now js))) = [] /\ snd (fst (announce_both s itf' rg now js)) = false.
Proof. exact blocked_for. Qed.

(* THE ANNOUNCING ITERATION LEAVES THE RECORDS ACTIVE: in a never-late calm history that goes on until
   T + 750, after the iteration at T + 750 the service is Announced AND its registry is in Qdone. *)
Theorem C07_announcing_iteration_leaves_records_active_partial : forall s0 itf v4 T key,
  key = lower (s_full s0) -> s_probe s0 = true -> addrs_on_intf s0 itf v4 <> [] ->
  forall its st j, (j <= 3)%nat ->
  NoDup (map if_index (d_intfs st)) -> Kept (Qj s0 itf v4 T j) (if_index itf) key s0 itf st ->
  Forall (calm_iter key) its -> all_running st its -> never_late st its ->
  (exists it, In it its /\ T + 750 <= it_now it) ->
  exists pre it post, its = pre ++ it :: post /\ it_now it = T + 750 /\
    Done (if_index itf) key (d_svcs (run_state st (pre ++ [it]))) /\
    Kept (Qdone s0 itf v4) (if_index itf) key s0 itf (run_state st (pre ++ [it])) /\
    NoDup (map if_index (d_intfs (run_state st (pre ++ [it])))).
Proof. exact reaches_Qdone_gen. Qed.

(* THE SECOND ANNOUNCEMENT IS SENT (the hypothesis `announceable` of C07_due_second_announcement_sent_partial
   discharged for calm histories): from Kept Qdone - the service registered, its records active, no rename
   recorded - with RegisterResend for the service queued for time t (the announcing pass queues it for
   T + 750 + 1000: C07_probing_pass_announces_completed_service), through ANY calm history in which the
   daemon keeps running (any schedule): the first iteration at or after t sends the announcement on the
   interface.  Persistence in between: Kept Qdone is kept by every calm iteration. *)
Theorem C07_second_announcement_sent_calm_partial : forall s0 itf v4 key t full,
  key = lower (s_full s0) -> lower full = key -> addrs_on_intf s0 itf v4 <> [] ->
  forall its st, Kept (Qdone s0 itf v4) (if_index itf) key s0 itf st -> In (t, RegisterResend full (if_index itf)) (d_retrans st) ->
  Forall (calm_iter key) its -> all_running st its -> (exists it, In it its /\ t <= it_now it) ->
  exists pre it post, its = pre ++ it :: post /\ Forall (fun x => it_now x < t) pre /\ t <= it_now it /\
    In (OSend (if_index itf) v4 Mcast (announcement_of s0 itf reg_new v4)) (snd (fst (fst (iterate (run_state st pre) it)))).
Proof. exact second_announcement_sent_calm. Qed.

(* non-vacuity on w_exact: before T + 750 status Probing and nothing active; after the announcing iteration
   SRV+TXT and the address record active, the repeat queued for T + 1750, and sent in that iteration *)
Example C07_before_after_example :
  map (fun kr => map fst (rg_active (snd kr))) (d_regs (state_after w_exact_ifs w_exact_its 4)) = [[]] /\
  map (fun ks => s_status (snd ks)) (d_svcs (state_after w_exact_ifs w_exact_its 4)) = [[(2, SProbing)]] /\
  map (fun kr => map (fun np => (fst np, length (snd np))) (rg_active (snd kr))) (d_regs (state_after w_exact_ifs w_exact_its 5))
  = [[(n_inst, 2%nat); (n_host, 1%nat)]] /\
  queue_times (state_after w_exact_ifs w_exact_its 5) = [1001895] /\
  sends_announcement (outs_of w_exact_ifs w_exact_its 5) = true.
Proof. exact w_exact_before_after. Qed.

(* STILL NOT PROVED over histories of the daemon model:
   (a) the safety statement as ONE theorem about the packets, and over ALL histories outside classes
       42/44/48 (with conflict datagrams, interface toggles, unregister);
   (b) the widening of calm iterations to non-conflicting response datagrams and unregister / re-register
       of other services;
   (c) the bound with lost tie-breaks / conflicts (+ 1000 ms each).
   For these the registry machine over all operation sequences and the executed monitor (codes 32, 36)
   remain. *)

(* History level, full statement (validated on every generated history by running chk_C07 on the
   model's own observation, NOT proved):
     forall ifs its, well-formed history -> no VFail in chk_C07 g7_init (d_init ifs) its (model_obs (d_init ifs) its).
   Proved for all histories without response datagrams and interface toggles: the probe spacing on
   the wire (C07_wire_probe_spacing).  Proved at the
   level of the registry machine (all operation sequences) and of single daemon steps: the rest
   above.  The remaining clauses of chk_C07 (three probes and the 250 ms wait before every
   response, second announcement, requested wake-up) are not lifted to histories. *)

(* Non-vacuity: a registration on the daemon model with jitter 145, woken exactly when asked:
   probe queries at +145, +395, +645, announcements at +895 and +1895; chk_C07, chk_C08 and
   chk_C09 accept the run. *)
Example C07_exact_run :
  busy (timeline w_exact_ifs w_exact_its) =
  [ (1000145, true, false, false); (1000395, true, false, false); (1000645, true, false, false);
    (1000895, false, true, false); (1001895, false, true, false) ] /\
  self7 w_exact_ifs w_exact_its = [] /\ self8 w_exact_ifs w_exact_its = [] /\ self9 w_exact_ifs w_exact_its = [].
Proof. exact w_exact_timeline. Qed.

Print Assumptions C07_constants.
Print Assumptions C07_probe_spacing_all_schedules.
Print Assumptions C07_probe_times_250_apart.
Print Assumptions C07_wire_probe_spacing.
Print Assumptions C07_activation_needs_750.
Print Assumptions C07_reachable_one_probe_per_name.
Print Assumptions C07_three_probes_exact.
Print Assumptions C07_three_probes_exact_full.
Print Assumptions C07_reaches_active_within_a_second.
Print Assumptions C07_silent_until_activated.
Print Assumptions C07_announce_requires_active.
Print Assumptions C07_no_answer_unless_announced.
Print Assumptions C07_registration_is_joins.
Print Assumptions C07_registration_queues_second_announcement.
Print Assumptions C07_added_interface_queues_second_announcement.
Print Assumptions C07_completed_probe_queues_second_announcement.
Print Assumptions C07_no_overdue_queue_entry.
Print Assumptions C07_second_announcement_queue_example.
Print Assumptions C07_second_announcement_stays_queued.
Print Assumptions C07_due_second_announcement_sent_partial.
Print Assumptions C07_announcement_of_is_an_announcement.
Print Assumptions C07_second_announcement_sent_example.
Print Assumptions C07_probing_pass_announces_completed_service.
Print Assumptions C07_completion_example.
Print Assumptions C07_reaches_announced_partial.
Print Assumptions C07_probe_timetable_partial.
Print Assumptions C07_calm_iteration_step.
Print Assumptions C07_liveness_example.
Print Assumptions C07_never_speaks_before_probed_partial.
Print Assumptions C07_announcement_attempt_blocked_while_inactive.
Print Assumptions C07_announcing_iteration_leaves_records_active_partial.
Print Assumptions C07_second_announcement_sent_calm_partial.
Print Assumptions C07_before_after_example.
Print Assumptions C07_three_probes_on_late_schedules_refuted.
Print Assumptions C07_record_joining_a_probe_refuted.
Print Assumptions C07_reprobe_after_host_rename.
Print Assumptions C07_interface_reappears_probes_anew.
Print Assumptions C07_interface_added_announced_twice.
Print Assumptions C07_probes_started_by_resend_are_sent.
Print Assumptions C07_exact_run.
