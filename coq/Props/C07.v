(* C07 (work in progress: statements are added as their lemmas are proved) *)
From Coq Require Import List NArith Bool.
From Mdns Require Import ParamsRegistry RegistryParamsPinned.
Open Scope N_scope.

Theorem C07_constants :
  (forall now, probe_next_send now = now + 250) /\
  (forall start now, probe_expired start now = (start + 750 <=? now)) /\
  (forall next now, probe_due next now = (next <=? now)).
Proof. exact (conj probe_next_send_pinned (conj probe_expired_pinned probe_due_pinned)). Qed.

Print Assumptions C07_constants.
