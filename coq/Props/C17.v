(* C17  Hostname resolution: right addresses, case-insensitive, ends on time.
   Only statements here; proofs are `exact <lemma>` (Proofs/Hostres*.v).

   run       = model of the code as it is (Model/HostresModel.v): the daemon's hostname
               resolution with its two tables (hostname_resolvers, retransmissions) and the
               address cache, one `out` (time, events per channel, query messages) per loop
               iteration of a history (iteration times, accepted calls, delivered responses).
   sp_run    = the property text as a reference machine (Model/HostresSpec.v): one table of
               searches; a search ends - with everything belonging to it - by stop,
               replacement or deadline.
   chk_C17   = the checker: the observed trace equals the reference machine's, per channel up
               to the order inside runs of AddressesFound / AddressesRemoved (hash-map order),
               queries of one iteration as a multiset.  The same chk_C17, extracted, is the
               monitor on the traces of the real daemon.
   late h    = in some iteration a search reaches its deadline while its next query is still
               pending (the daemon was not run between the query time and the deadline); since
               the repair a4675d4 no theorem needs it as a hypothesis any more.  *)
From Coq Require Import List NArith Bool.
From Mdns Require Import Bytes ParamsHostres HostresBase HostresModel HostresSpec
                         HostresRefine HostresSchedProofs HostresCacheProofs HostresFoundProofs HostresCaseProofs
                         HostresRefreshProofs.
Import ListNotations.
Open Scope N_scope.

(* ---- the code satisfies the property's checker, on every well-formed history ---- *)
(* (times do not go backwards, every resolve call has its own channel; iteration times are
   otherwise arbitrary: early, exact or late wake-ups) *)
Theorem C17_model_satisfies_checker : forall h,
  wf_hist h = true -> chk_C17 h (run h) = true.
Proof. exact model_refines_spec. Qed.

(* formerly refuted (finding C17-late-wake-requery-after-timeout, repaired by a4675d4): a
   wake-up one millisecond late at the deadline, with the retransmission still queued.  Now:
   SearchTimeout, SearchStopped, the channel closes, no further question, nothing left queued *)
Theorem C17_timeout_late_wakeup :
  wf_hist late_witness = true /\ late late_witness = true /\ chk_C17 late_witness (run late_witness) = true.
Proof. exact late_now_ok. Qed.

Theorem C17_late_wakeup_behaviour :
  map (fun o => (o_events o, o_queries o)) (run late_witness)
  = [ ([(1, EStarted name_a_local)], [host_query name_a_local]);
      ([(1, ETimeout name_a_local); (1, EStopped name_a_local); (1, EClosed)], []) ]
  /\ s_res (state_after st0 late_witness) = []
  /\ s_retr (state_after st0 late_witness) = [].
Proof. exact late_behaviour. Qed.

(* ---- query_schedule ---- *)
(* In every state the reference machine reaches (any history with non-decreasing times), for
   every open search: n >= 1 queries were sent; the next one is due exactly at
   (time of the last) + min(2^(n-1), 3600) s with the following gap min(2^n, 3600) s, and is
   before the deadline; no next query exists only if that time is not before the deadline;
   every query after the first was sent before the deadline. *)
Theorem C17_query_schedule : forall h k,
  times_ok 0 h = true -> In k (ss_searches (sp_state_after sst0 h)) ->
  (1 <= sk_sent k)%nat
  /\ (forall t d, sk_next k = Some (t, d) ->
        t = sk_last k + N.min (2 ^ N.of_nat (sk_sent k - 1)) 3600 * 1000
        /\ d = N.min (2 ^ N.of_nat (sk_sent k)) 3600
        /\ forall dl, sk_deadline k = Some dl -> t < dl)
  /\ (sk_next k = None ->
        exists dl, sk_deadline k = Some dl
                   /\ dl <= sk_last k + N.min (2 ^ N.of_nat (sk_sent k - 1)) 3600 * 1000)
  /\ ((2 <= sk_sent k)%nat -> forall dl, sk_deadline k = Some dl -> sk_last k < dl).
Proof. exact query_schedule. Qed.

(* the gaps, literally: 1, 2, 4, ... 2048, 3600, 3600 s *)
Theorem C17_schedule_gaps :
  map delay_seq (seq 0 14) = [1; 2; 4; 8; 16; 32; 64; 128; 256; 512; 1024; 2048; 3600; 3600]
  /\ forall n, delay_seq n = N.min (2 ^ N.of_nat n) 3600.
Proof. exact (conj delay_seq_first delay_seq_closed). Qed.

(* a scheduled query asks A and AAAA for the name as the caller spelled it; it is sent by
   exactly the open searches whose query time has come *)
Theorem C17_schedule_queries : forall now p,
  snd (sp_sends now p)
  = map (fun k => [(sk_host k, 1); (sk_host k, 28)])
        (filter (fun k => match sk_next k with Some (t, _) => t <=? now | None => false end) (ss_searches p)).
Proof. exact schedule_queries. Qed.

(* ---- timeout_at_deadline ---- *)
(* deadline = start + timeout (saturating at 2^64-1); after an iteration at time `now` every
   search still open has its deadline after `now` or was started at `now` *)
Theorem C17_deadline : forall h k,
  times_ok 0 h = true -> In k (ss_searches (sp_state_after sst0 h)) ->
  sk_deadline k = option_map (sat_add (sk_start k)) (sk_timeout k)
  /\ (forall dl, sk_deadline k = Some dl -> last_time 0 h < dl \/ sk_start k = last_time 0 h).
Proof. exact deadline_is_start_plus_timeout. Qed.

Theorem C17_sat_add : forall a b, sat_add a b = N.min (a + b) 18446744073709551615.
Proof. exact sat_add_eq. Qed.

(* in the first iteration at or after the deadline of an open search: SearchTimeout then
   SearchStopped (lower-cased name), adjacent, on its channel *)
Theorem C17_timeout_events : forall p i k,
  In k (ss_searches p) ->
  (exists dl, sk_deadline k = Some dl /\ dl <= it_now i) ->
  exists l1 l2,
    o_events (snd (sp_step p i))
    = l1 ++ [(sk_chan k, ETimeout (sk_key k)); (sk_chan k, EStopped (sk_key k))] ++ l2.
Proof. exact timeout_events. Qed.

(* the deadline events of an iteration are only for searches whose deadline has come *)
Theorem C17_no_early_timeout : forall p i c nm,
  In (c, ETimeout nm) (flat_map (fun k => [(sk_chan k, ETimeout (sk_key k)); (sk_chan k, EStopped (sk_key k))])
                                (filter (sk_timed_out (it_now i)) (ss_searches p))) ->
  exists k dl, In k (ss_searches p) /\ sk_chan k = c /\ sk_key k = nm
               /\ sk_deadline k = Some dl /\ dl <= it_now i.
Proof. exact no_early_timeout. Qed.

(* ---- addresses_found_spec ---- *)
(* For every history and every iteration i of it (h1 = the iterations before): every
   AddressesFound(sp, A) delivered in iteration i goes to the channel of a search for the name
   lower(sp) (open before the iteration or started in it), and every (address, interface) in A
   was received - in iteration i or earlier - in an address record owned by exactly the
   spelling sp, on exactly that interface, whose TTL (0 counted as 1 s) had not run out at the
   previous iteration. *)
Theorem C17_addresses_found_spec : forall h1 i h2 ch sp A,
  times_ok 0 (h1 ++ i :: h2) = true ->
  In (ch, EFound sp A) (o_events (snd (sp_step (sp_state_after sst0 h1) i))) ->
  ((exists k, In k (ss_searches (sp_state_after sst0 h1)) /\ sk_chan k = ch /\ sk_key k = lower sp)
   \/ (exists host to, In (CResolve host to ch) (it_calls i) /\ lower host = lower sp))
  /\ forall a ifx, In (a, ifx) A ->
       exists j m r, In j (h1 ++ [i]) /\ In m (it_msgs j) /\ In r (m_recs m)
                     /\ is_addr_ty (i_ty r) = true /\ i_name r = sp /\ i_data r = a /\ m_if m = ifx
                     /\ last_time 0 h1 < it_now j + wire_ttl (i_ttl r) * 1000.
Proof. exact addresses_found_spec. Qed.

(* what an AddressesFound carries: for the search of lower(host), one spelling with exactly
   the (address, interface) pairs of the cached records of that name spelled that way *)
Theorem C17_found_content : forall res c host ch e,
  In (ch, e) (found_events res c host) ->
  exists r sp A, find_res (lower host) res = Some r /\ ch = r_chan r /\ e = EFound sp A
    /\ forall a, In a A <-> exists x, In x (bucket_of c (lower host)) /\ a_name x = sp /\ (a_addr x, a_if x) = a.
Proof. exact found_events_spec. Qed.

(* the whole current set for the name: every spelling present exactly once, nothing missing *)
Theorem C17_found_whole_set : forall b,
  NoDup (map fst (group_addrs b))
  /\ (forall sp A, In (sp, A) (group_addrs b) ->
        forall a, In a A <-> exists x, In x b /\ a_name x = sp /\ (a_addr x, a_if x) = a)
  /\ (forall x, In x b -> exists A, In (a_name x, A) (group_addrs b)).
Proof. exact group_addrs_spec. Qed.

(* ---- addresses_removed_on_expiry ---- *)
(* eviction at time `now` (every iteration): exactly the records with expires <= now leave the
   cache; every AddressesRemoved goes to the search for lower(spelling) and carries exactly the
   (address, interface) pairs of the expired records spelled that way; every expired record
   of a name with an open search is reported *)
Theorem C17_addresses_removed_on_expiry : forall now res c,
  (forall x, In x (entries (fst (evict_all now res c))) <-> In x (entries c) /\ l_expires (a_life x) > now)
  /\ (forall ch e, In (ch, e) (snd (evict_all now res c)) ->
        exists r sp A, find_res (lower sp) res = Some r /\ ch = r_chan r /\ e = ERemoved sp A
          /\ forall a, In a A <-> exists x, In x (entries c) /\ l_expires (a_life x) <= now
                                            /\ a_name x = sp /\ (a_addr x, a_if x) = a)
  /\ (forall x r, In x (entries c) -> l_expires (a_life x) <= now ->
        find_res (lower (a_name x)) res = Some r ->
        exists A, In (r_chan r, ERemoved (a_name x) A) (snd (evict_all now res c)) /\ In (a_addr x, a_if x) A).
Proof. exact evict_all_spec. Qed.

(* ---- refresh_once_at_80 ---- *)
(* the refresh pass over the records of a resolved name: one question per distinct
   (address, interface) among the records that are due, every due record is marked *)
Theorem C17_refresh_pass : forall now b,
  (forall a, In a (snd (refresh_bucket now b))
             <-> exists r, In r b /\ refresh_wanted now r = true /\ (a_addr r, a_if r) = a)
  /\ fst (refresh_bucket now b)
     = map (fun r => if refresh_wanted now r then a_set_life (life_no_more (a_life r)) r else r) b.
Proof. exact refresh_bucket_spec. Qed.

(* due = from 80 % of the lifetime until expiry, for a record as cached ... *)
Theorem C17_refresh_at_80 : forall now t0 ttl x,
  a_life x = life_new t0 ttl ->
  (refresh_wanted now x = true <-> t0 + ttl * 800 <= now /\ now < t0 + ttl * 1000).
Proof. exact wanted_new_iff. Qed.

(* ... and for a record renewed by a repeated announcement (never for a goodbye, TTL <= 1) *)
Theorem C17_refresh_at_80_renewed : forall now t0 ttl x,
  a_life x = life_reset t0 ttl ->
  (refresh_wanted now x = true <-> 1 < ttl /\ t0 + ttl * 800 <= now /\ now < t0 + ttl * 1000).
Proof. exact wanted_reset_iff. Qed.

(* once: a marked record is never due again (until an announcement renews its lifetime) *)
Theorem C17_refresh_once : forall now' r,
  life_wf (a_life r) -> refresh_wanted now' (a_set_life (life_no_more (a_life r)) r) = false.
Proof. exact wanted_after_no_more. Qed.

Theorem C17_refresh_pass_complete : forall now b,
  Forall (fun r => life_wf (a_life r)) b ->
  Forall (fun r => refresh_wanted now r = false) (fst (refresh_bucket now b)).
Proof. exact refresh_bucket_done. Qed.

(* ---- "asks for A and AAAA at once", "refreshes while the search is open", "withdrawn" ---- *)
(* a resolve_hostname call: SearchStarted first, and the A + AAAA question for the name as the
   caller spelled it goes out in the same iteration *)
Theorem C17_first_query : forall now p host timeout ch,
  exists evs, snd (fst (sp_call now p (CResolve host timeout ch))) = (ch, EStarted host) :: evs
  /\ snd (sp_call now p (CResolve host timeout ch)) = [[(host, 1); (host, 28)]].
Proof. exact first_query. Qed.

(* a goodbye (TTL 0) is kept for exactly one second, as a new record or as the new lifetime of the
   record it matches, and never refreshed; eviction then reports it (C17_addresses_removed_on_expiry) *)
Theorem C17_goodbye_one_second : forall now ifx r,
  i_ttl r = 0 ->
  l_expires (a_life (arec_of now ifx r)) = now + 1000
  /\ life_reset now (l_ttl (a_life (arec_of now ifx r))) = mkLife 1 now (now + 1000) (now + 1000).
Proof. exact goodbye_one_second. Qed.

(* the refresh pass over all open searches: complete (every due record of an open search's name
   gets its question: lower-cased name, A / AAAA by address family) and sound *)
Theorem C17_refresh_all_complete : forall now res c qs r x,
  In r res -> In x (bucket_of c (r_key r)) -> refresh_wanted now x = true ->
  In [(r_key r, addr_qtype (a_addr x))] (snd (fold_left (refresh_one now) res (c, qs))).
Proof. exact refresh_all_complete. Qed.

Theorem C17_refresh_all_sound : forall now res c qs q,
  In q (snd (fold_left (refresh_one now) res (c, qs))) ->
  In q qs \/ exists r x, In r res /\ (exists y, In y (bucket_of c (r_key r)) /\ ident y = ident x)
                         /\ refresh_wanted now x = true /\ q = [(r_key r, addr_qtype (a_addr x))].
Proof. exact refresh_all_sound. Qed.

(* over all histories (times non-decreasing), for every iteration i (h1 = the iterations before):
   for every search open at the end of the iteration and every record of its name that is cached
   after this iteration's responses and due (80 % of its lifetime reached, not expired, not yet
   refreshed), the question is among the queries sent in this iteration - i.e. before the record
   expires; and at the end no record of an open search's name is due any more *)
Theorem C17_refresh_while_open : forall h1 i h2,
  times_ok 0 (h1 ++ i :: h2) = true ->
  let p := sp_state_after sst0 h1 in
  let now := it_now i in
  let c1 := fst (respond_all now (res_view p) (ss_cache p) (it_msgs i)) in
  let p' := fst (sp_step p i) in
  (forall k x, In k (ss_searches p') -> In x (bucket_of c1 (sk_key k)) -> refresh_wanted now x = true ->
               In [(sk_key k, addr_qtype (a_addr x))] (o_queries (snd (sp_step p i))))
  /\ (forall k x, In k (ss_searches p') -> In x (bucket_of (ss_cache p') (sk_key k)) -> refresh_wanted now x = false).
Proof. exact refresh_over_histories. Qed.

Example C17_refresh_example :
  let p := sp_state_after sst0 (firstn 5 ex_hist) in
  let i := nth 5 ex_hist (mkIter 0 [] []) in
  existsb (fun k => existsb (refresh_wanted (it_now i))
                            (bucket_of (fst (respond_all (it_now i) (res_view p) (ss_cache p) (it_msgs i))) (sk_key k)))
          (ss_searches (fst (sp_step p i))) = true
  /\ o_queries (snd (sp_step p i)) = [[(name_a_local, 1)]].
Proof. exact ex_refresh_ok. Qed.

(* ---- case_insensitive ---- *)
(* Re-spell the caller's host names by any fc and the responders' owner names by any g, both
   changing ASCII letter case only, g keeping different spellings different.  The trace of the
   model of the code is the same, iteration by iteration: same times; the same events on the
   same channels in the same order with the same address sets, SearchStarted carrying fc(host)
   and AddressesFound / AddressesRemoved carrying g(spelling), SearchTimeout / SearchStopped
   unchanged; the same questions up to letter case. *)
Theorem C17_case_insensitive : forall fc g : name -> name,
  (forall n, lower (fc n) = lower n) -> (forall n, lower (g n) = lower n) ->
  (forall n m, g n = g m -> n = m) ->
  forall h, Forall2 (out_rel fc g) (run h) (run (map (ren_iter fc g) h)).
Proof. exact case_insensitive_run. Qed.

(* ---- non-vacuity ---- *)
(* a well-formed, never-late history with AddressesFound (owner spelled differently from the
   caller's name), the 80 % refresh question, AddressesRemoved at expiry and the deadline *)
Example C17_example :
  wf_hist ex_hist = true /\ late ex_hist = false /\ chk_C17 ex_hist (run ex_hist) = true
  /\ map (fun o => (o_now o, o_events o, o_queries o)) (run ex_hist)
     = [ (1000000, [(1, EStarted ex_host)], [host_query ex_host]);
         (1000100, [(1, EFound ex_owner [([192; 168; 1; 20], 2)])], []);
         (1001000, [(1, EStarted ex_host)], [host_query ex_host]);
         (1003000, [(1, EStarted ex_host)], [host_query ex_host]);
         (1007000, [(1, EStarted ex_host)], [host_query ex_host]);
         (1008100, [], [[(name_a_local, 1)]]);
         (1010100, [(1, ERemoved ex_owner [([192; 168; 1; 20], 2)])], []);
         (1015000, [(1, EStarted ex_host)], [host_query ex_host]);
         (1020000, [(1, ETimeout name_a_local); (1, EStopped name_a_local); (1, EClosed)], []) ].
Proof. exact ex_hist_ok. Qed.

(* a re-spelling that satisfies the hypotheses of C17_case_insensitive and changes names:
   toggle the case of the first letter *)
Example C17_case_example :
  (forall n, lower (toggle_first n) = lower n)
  /\ (forall n m, toggle_first n = toggle_first m -> n = m)
  /\ toggle_first [97; 46; 76; 79; 67; 65; 76; 46] = [65; 46; 76; 79; 67; 65; 76; 46].   (* a.LOCAL. -> A.LOCAL. *)
Proof. exact toggle_example. Qed.

Print Assumptions C17_model_satisfies_checker.
Print Assumptions C17_timeout_late_wakeup.
Print Assumptions C17_late_wakeup_behaviour.
Print Assumptions C17_query_schedule.
Print Assumptions C17_schedule_gaps.
Print Assumptions C17_schedule_queries.
Print Assumptions C17_deadline.
Print Assumptions C17_sat_add.
Print Assumptions C17_timeout_events.
Print Assumptions C17_no_early_timeout.
Print Assumptions C17_addresses_found_spec.
Print Assumptions C17_found_content.
Print Assumptions C17_found_whole_set.
Print Assumptions C17_addresses_removed_on_expiry.
Print Assumptions C17_refresh_pass.
Print Assumptions C17_refresh_at_80.
Print Assumptions C17_refresh_at_80_renewed.
Print Assumptions C17_refresh_once.
Print Assumptions C17_refresh_pass_complete.
Print Assumptions C17_first_query.
Print Assumptions C17_goodbye_one_second.
Print Assumptions C17_refresh_all_complete.
Print Assumptions C17_refresh_all_sound.
Print Assumptions C17_refresh_while_open.
Print Assumptions C17_refresh_example.
Print Assumptions C17_case_insensitive.
Print Assumptions C17_example.
Print Assumptions C17_case_example.
