(* C12 - The daemon wakes itself for all time-driven work and never spins.

   Model: Model/Sched.v.  Time-driven work of the slice (no datagrams, registrations, verify):
   query retransmissions, hostname-resolution deadlines, the interface check (`due_work`);
   probe steps, announcement repeats, record refresh / expiry and verify deadlines need the
   cache / registry layers and are not covered here.

   wake_covers_work and no_spin are proved over ALL well-formed histories - arbitrary API call
   sequences and iteration times, early or late, no hypothesis on the schedule - including the
   interface-check interval at its default, very large, changed at run time and zero.
   The monitor chk_C12 compares the requested wake-up with due times computed from the
   HISTORY by the per-question specification of SchedSpec.v; its theorem, too, holds for all
   well-formed histories. *)
From Coq Require Import List NArith Bool.
From Mdns Require Import Bytes ParamsSched Sched SchedSpec SchedParamsProofs SchedProofs SchedSpecProofs.
Import ListNotations.
Open Scope N_scope.

(* wake_covers_work: in every reachable live state every pending retransmission, every
   resolver deadline and the next interface check (if the interval is not 0) has a timer AT
   its due time; hence the requested wake-up - the earliest timer - exists and is no later *)
Theorem wake_covers_work :
  forall t0 h, wf_hist t0 h = true -> st_alive (final (init t0) h) = true ->
  forall d, In d (due_work (final (init t0) h)) ->
  In d (st_timers (final (init t0) h))
  /\ exists w, min_list (st_timers (final (init t0) h)) = Some w /\ w <= d.
Proof. exact wake_covers_work_all. Qed.

(* no_spin: after ANY iteration (any commands, at any time `now`) from a reachable state the
   requested wake-up is strictly later than `now`; the only exception is wake-up = now right
   after a resolve_hostname call with timeout 0 in this very iteration (its deadline is due
   at once; the next iteration removes it).  In particular an iteration in which nothing
   was due and nothing was called (i_cmds = []) is followed by a wake-up in the future, for
   every value of the interface-check interval (it is part of the reachable state). *)
Theorem no_spin :
  forall t0 h it, wf_hist t0 (h ++ [it]) = true -> st_alive (final (init t0) h) = true ->
  forall w, o_wake (snd (iterate (final (init t0) h) it)) = Some w ->
  i_now it < w \/ (zero_timeout (i_cmds it) = true /\ w = i_now it).
Proof. exact no_spin_all. Qed.

(* ... so an iteration in which nothing was called (whether or not something was due) is
   always followed by a wake-up strictly in the future: the daemon cannot spin *)
Theorem no_spin_idle_iteration :
  forall t0 h now, wf_hist t0 (h ++ [mkIter now []]) = true -> st_alive (final (init t0) h) = true ->
  forall w, o_wake (snd (iterate (final (init t0) h) (mkIter now []))) = Some w -> now < w.
Proof. exact no_spin_idle. Qed.

(* the invariant behind both: preserved by every iteration that leaves the daemon alive *)
Theorem scheduler_invariant :
  forall s it, Inv s -> (i_cmds it = [] \/ i_now it < u64_max) ->
  st_alive (fst (iterate s it)) = true -> Inv (fst (iterate s it)).
Proof. exact iterate_inv. Qed.

(* no retransmission is left behind overdue: after an iteration at `now` every queued
   retransmission lies strictly in the future and its delay is at least one second *)
Theorem no_overdue_retransmission :
  forall s, Inv s -> forall r, In r (st_retrans s) ->
  1 <= r_delay r /\ st_clock s < r_time r /\ In (r_time r) (st_timers s).
Proof. exact inv_ret. Qed.

(* the monitor: on every well-formed history the model's trace satisfies chk_C12 *)
Theorem chk_C12_monitor_holds :
  forall t0 h, wf_hist t0 h = true -> chk_C12 t0 h (model_run t0 h) = true.
Proof. exact chk_C12_model. Qed.

(* the interface check in the words of the text: interval 0 disables it *)
Theorem ip_check_constants :
  (forall secs, ip_check_interval_of_secs secs = secs * 1000)
  /\ ip_check_interval_initial = 5000
  /\ (forall iv, ip_check_disabled iv = (iv =? 0))
  /\ (forall now nx, ip_check_due now nx = (nx <=? now))
  /\ (forall v now, timer_kept v now = (now <? v))
  /\ (forall now t, resolver_expired now t = (t <=? now)).
Proof.
  exact (conj ip_check_interval_of_secs_pinned (conj ip_check_interval_initial_pinned
        (conj ip_check_disabled_pinned (conj ip_check_due_pinned (conj timer_kept_pinned resolver_expired_pinned))))).
Qed.

(* ---- non-vacuity: interval changed to 0, to 1 s, to the maximum, searches with deadlines
        (one with timeout 0), late iterations ---- *)
Definition ty_w : name := [95; 104; 46; 95; 116; 99; 112; 46; 108; 111; 99; 97; 108; 46].
Definition host_w : name := [77; 121; 46; 108; 111; 99; 97; 108; 46].
Definition sample_history : list iter :=
  [ mkIter 1000000 [Browse ty_w 1; SetIpCheckInterval 0];
    mkIter 1000500 [ResolveHostname host_w (Some 0) 2];
    mkIter 1000500 [];
    mkIter 1001000 [SetIpCheckInterval 1];
    mkIter 1002000 [ResolveHostname host_w (Some 2500) 3];
    mkIter 1003000 [];
    mkIter 1009000 [SetIpCheckInterval 4294967];
    mkIter 1011000 [] ].

Example C12_nonvacuous :
  wf_hist 1000000 sample_history = true
  /\ chk_C12 1000000 sample_history (model_run 1000000 sample_history) = true
  /\ map o_wake (model_run 1000000 sample_history)
     = [Some 1005000; Some 1001000; Some 1000500; Some 1001000; Some 1002000; Some 1003000;
        Some 1004000; Some 1017000; Some 1017000]
  /\ due_work (final (init 1000000) sample_history) = [1017000; 4295976000].
Proof. vm_compute. repeat split; reflexivity. Qed.

Print Assumptions wake_covers_work.
Print Assumptions no_spin.
Print Assumptions no_spin_idle_iteration.
Print Assumptions scheduler_invariant.
Print Assumptions no_overdue_retransmission.
Print Assumptions chk_C12_monitor_holds.
Print Assumptions ip_check_constants.
Print Assumptions C12_nonvacuous.
