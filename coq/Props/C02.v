(* C02 placeholder until the round-trip proof lands *)
From Mdns Require Import Res WireOut C02Spec.
Example C02_placeholder : True. Proof. exact I. Qed.
