(* C02  Every emitted packet parses back to exactly the records that were added.
   Only statements here; proofs are `exact <lemma>` (Proofs/WireOutProofs.v, DecRefProofs.v).
   to_packets   = model of DnsOutgoing::to_packets (Model/WireOut.v)
   ref_parse    = independent RFC 1035 reference parser (Model/Rfc1035.v)
   chk_C02      = the property statement as an executable checker (Model/C02Spec.v): every
                  packet <= 8972 bytes; every packet is accepted by ref_parse (which requires
                  the four header counts to be exactly the entries present and the packet to
                  be used up exactly); id and flags (TC on all packets but the last); the
                  questions are exactly the questions added (first packet); the records read
                  back from all packets, per section and in order, are a sub-sequence of the
                  records added - owner labels, type, class with cache-flush bit, TTL, RDATA
                  with the names inside PTR/SRV RDATA as label lists. *)
From Coq Require Import List NArith Bool.
From Mdns Require Import Res Bytes Utf8 Rec Wire WireOut Rfc1035 C02Spec WireOutProofs DecRefProofs EscapeProofs.
Import ListNotations.
Open Scope N_scope.

(* Encoding a well-formed message never panics (no label assertion, no TTL underflow). *)
Theorem C02_encode_total : forall m, wf_out m = true -> exists pkts, to_packets m = Ok pkts.
Proof. exact encode_total. Qed.

(* The round trip, for every well-formed message (any number of questions and records, any
   sizes, several times the packet limit included) whose question section fits one packet. *)
Theorem C02_encode_roundtrip : forall m pkts,
  wf_out m = true -> fits m = true -> to_packets m = Ok pkts -> chk_C02 m pkts = true.
Proof. exact encode_roundtrip. Qed.

(* The crate's own decoder (model of DnsIncoming::new) reads the same content as the
   reference parser from every datagram the reference parser accepts, as long as the content
   is within the decoder's vocabulary (UTF-8 labels; PTR/CNAME/SRV/TXT/A/AAAA records):
   dotted presentation of the same label lists, same types/classes/flush bits/RDATA, TTL 0 of
   a response read as 1. Together with the theorem above: the decoder reads from the emitted
   packets exactly (a sub-sequence of) what was added. *)
Theorem C02_decoder_agrees_with_reference : forall d rm,
  wf_bytes d -> ref_parse d = Some rm -> within_vocabulary rm ->
  exists dm, decode d = Ok dm /\ decoder_agrees rm dm = true.
Proof. exact decode_agrees_with_reference. Qed.

(* A name written by the encoder at the end of a packet whose compression table is
   consistent reads back, through the reference reader, as exactly its labels - whatever is
   appended later. (The invariant that carries the round trip.) *)
Theorem C02_write_labels_correct : forall t d ls,
  tbl_ok t d -> forallb label_ok ls = true -> blen d + wire_len ls <= 16384 ->
  exists bs t', write_labels t (blen d) ls = Ok (bs, t')
    /\ 1 <= blen bs /\ blen bs <= wire_len ls /\ tbl_ok t' (d ++ bs)
    /\ forall x, ref_name (d ++ bs ++ x) (blen d) = Some (ls, blen d + blen bs).
Proof. exact write_labels_correct. Qed.

(* Instance-name escaping on registration (ServiceInfo::new builds "<escape(instance)>.<type>"):
   for EVERY non-empty instance label - dots, backslashes, any bytes - the encoder's
   escape-aware label split of the full name gives back exactly that label followed by the
   labels of the type domain. *)
Theorem C02_instance_escape_roundtrip : forall l ty, l <> [] ->
  name_labels (escape_label l ++ DOT :: ty ++ [DOT]) = l :: name_labels (ty ++ [DOT]).
Proof. exact fullname_labels. Qed.

(* Non-vacuity: a response with a question, PTR + SRV answers sharing suffixes (compression
   pointers are emitted), an escaped dot in the instance label, and an address additional is
   well-formed, fits, encodes, and passes the checker. *)
Definition ex_name (s : list N) := s.
Definition ex_ty : bytes := [95;120;46;95;116;99;112;46;108;111;99;97;108;46].            (* _x._tcp.local. *)
Definition ex_inst : bytes := [97;92;46;98;46;95;120;46;95;116;99;112;46;108;111;99;97;108;46]. (* a\.b._x._tcp.local. *)
Definition ex_host : bytes := [104;46;108;111;99;97;108;46].                              (* h.local. *)
Definition ex_msg : outgoing :=
  mkOut 33792 0 true [(ex_ty, 12)]
    [ (mkORec (mkRR ex_ty 12 1 false 4500 (RPtr ex_inst)) None 1000, 0);
      (mkORec (mkRR ex_inst 33 1 true 120 (RSrv 0 0 8080 ex_host)) None 1000, 0) ]
    []
    [ mkORec (mkRR ex_host 1 1 true 120 (RAddr [192;168;1;2])) None 1000 ].
Example C02_example :
  wf_out ex_msg = true /\ fits ex_msg = true /\
  match to_packets ex_msg with Ok pkts => chk_C02 ex_msg pkts | _ => false end = true.
Proof. repeat split; vm_compute; reflexivity. Qed.

Print Assumptions C02_encode_total.
Print Assumptions C02_encode_roundtrip.
Print Assumptions C02_decoder_agrees_with_reference.
Print Assumptions C02_write_labels_correct.
Print Assumptions C02_instance_escape_roundtrip.
