(* C19 - Repeated queries back off: 1 s, 2 s, 4 s ... capped at one hour.

   Model: Model/Sched.v (the scheduling core of src/service_daemon.rs as it is; slice: no
   incoming datagrams, so the cache is empty and neither refresh queries, follow-up queries,
   new-interface queries nor verify requests occur).  Checker: SchedSpec.chk_C19 - in every
   iteration the number of queries for a question is exactly one per (re)start call plus one
   if the running search's next query is due, with gaps 1 s, 2 s, 4 s ... 3600 s; nothing
   else is ever sent.

   FULL STATEMENT, proved (C19_monitor_holds):
       forall t0 h, wf_hist t0 h = true -> chk_C19 t0 h (model_run t0 h) = true
   - all API call sequences, all iteration times (early, on time, late).  It was refuted on
   the tree before commit a4675d4 (a resolver deadline noticed late left an unbounded query
   chain); the former witness is kept below and now satisfies the checker.
   Also: the closed form of the ladder for EVERY k on the timer-exact silent schedule
   (backoff_sequence); one chain per search (rebrowse_single_chain). *)
From Coq Require Import List NArith Bool.
From Mdns Require Import Bytes Sched SchedSpec SchedParamsProofs SchedProofs SchedSpecProofs.
Import ListNotations.
Open Scope N_scope.

(* On every well-formed history the trace of the model satisfies chk_C19 (the monitor applied
   to the implementation's traces). *)
Theorem C19_monitor_holds :
  forall t0 h, wf_hist t0 h = true -> chk_C19 t0 h (model_run t0 h) = true.
Proof. exact chk_C19_model. Qed.

(* backoff_sequence: a browse (host = false) or hostname resolution without timeout
   (host = true) started at t1 - after ANY well-formed history h, whatever else is going on -
   sends its first query at t1 and then, on the timer-exact silent schedule, the k-th further
   query exactly at t1 + ladder k, for every k (no bound on the horizon). *)
Theorem backoff_sequence :
  forall t0 h host nm ch t1 (k : nat),
  let it := mkIter t1 [CStart host nm false None ch] in
  wf_hist t0 (h ++ [it]) = true ->
  st_alive (final (init t0) h) = true ->
  let s1 := final (init t0) (h ++ [it]) in
  ktimes (host, nm) (run (final (init t0) h) [it]) = [t1]
  /\ exists n, ktimes (host, nm) (run s1 (silent_hist s1 n)) = map (fun i => t1 + ladder i) (seq 1 k).
Proof. exact backoff_sequence_model. Qed.

(* the ladder: ladder (k+1) = ladder k + dly k * 1000 ms with dly k = min(2^k, 3600) s,
   i.e. gaps 1, 2, 4, ..., 2048, 3600, 3600, ... seconds *)
Theorem backoff_delays : forall k : nat, dly k = N.min (2 ^ N.of_nat k) 3600.
Proof. exact dly_closed. Qed.

(* on any schedule: a scheduled query is sent only when at least the scheduled gap has passed
   since the previous query of that search, and the gap then doubles up to the cap (this is
   the only way chk_C19 admits a query that is not the immediate answer to a start call) *)
Theorem backoff_gap_respected :
  forall now c st', k_rerun now (Some c) = (st', 1%nat) ->
  c_last c + c_delay c * 1000 <= now
  /\ st' = Some (mkChain now (N.min (2 * c_delay c) 3600) (c_deadline c)).
Proof. exact k_rerun_gap. Qed.

(* browsing a type (resolving a host name, in any letter case) again replaces the earlier
   search: in every reachable state there is at most one retransmission per search key *)
Theorem rebrowse_single_chain :
  forall t0 h, wf_hist t0 h = true -> st_alive (final (init t0) h) = true ->
  NoDup (map rkey (st_retrans (final (init t0) h))).
Proof. exact single_chain. Qed.

(* the numbers of the text are the numbers of the code *)
Theorem backoff_constants :
  (forall host now d, next_time host now d = now + d * 1000)
  /\ (forall host d, next_delay host d = N.min (2 * d) 3600)
  /\ (forall host cache, first_delay host cache = 1).
Proof. exact (conj next_time_spec (conj next_delay_spec first_delay_spec)). Qed.

(* ---- the witness that refuted the full statement before commit a4675d4: the deadline 1003001
        and the retransmission of 1003000 are both noticed at 1003005.  Now the retransmission is
        dropped: one query at 1000000 and at 1001000, none afterwards ---- *)
Definition host_w : name := [77; 121; 46; 108; 111; 99; 97; 108; 46].      (* "My.local." *)
Definition late_timeout_history : list iter :=
  [ mkIter 1000000 [ResolveHostname host_w (Some 3001) 1];
    mkIter 1001000 [];
    mkIter 1003005 [];
    mkIter 1007005 [];
    mkIter 1015005 [] ].

Example late_timeout_now_silent :
  wf_hist 1000000 late_timeout_history = true
  /\ chk_C19 1000000 late_timeout_history (model_run 1000000 late_timeout_history) = true
  /\ map (fun o => length (o_sent o)) (model_run 1000000 late_timeout_history) = [0; 1; 1; 0; 0; 0]%nat.
Proof. vm_compute. repeat split; reflexivity. Qed.

(* ---- non-vacuity: a well-formed history with two searches, a re-browse, a stop and late
        iterations; and the ladder up to the cap ---- *)
Definition ty_w : name := [95; 104; 46; 95; 116; 99; 112; 46; 108; 111; 99; 97; 108; 46].  (* "_h._tcp.local." *)
Definition sample_history : list iter :=
  [ mkIter 1000000 [Browse ty_w 1; ResolveHostname host_w (Some 10000) 2];
    mkIter 1001000 [];
    mkIter 1001500 [Browse ty_w 3];
    mkIter 1002500 [];
    mkIter 1003000 [StopResolveHostname host_w];
    mkIter 1004500 [];
    mkIter 1005000 [StopBrowse ty_w] ].

Example C19_nonvacuous :
  wf_hist 1000000 sample_history = true
  /\ chk_C19 1000000 sample_history (model_run 1000000 sample_history) = true
  /\ map (fun o => length (o_sent o)) (model_run 1000000 sample_history) = [0; 2; 2; 1; 1; 0; 1; 0]%nat
  /\ map dly [0; 1; 2; 10; 11; 12; 13; 40]%nat = [1; 2; 4; 1024; 2048; 3600; 3600; 3600].
Proof. vm_compute. repeat split; reflexivity. Qed.

Print Assumptions C19_monitor_holds.
Print Assumptions backoff_sequence.
Print Assumptions backoff_delays.
Print Assumptions backoff_gap_respected.
Print Assumptions rebrowse_single_chain.
Print Assumptions backoff_constants.
Print Assumptions late_timeout_now_silent.
Print Assumptions C19_nonvacuous.
