(* C03  A resolved service only ever shows live data that was actually received.
   Only statements here; proofs are `exact <lemma>` (Proofs/BrowserProofs.v, CacheInvProofs.v,
   CacheProofs.v).

   run_history ifs h   = the model of the daemon's browser side (Model/Browser.v, Model/Cache.v)
                         run over the history h: per iteration the virtual time, the delivered
                         datagrams (decoded by the decoder model Model/Wire.v) and the API calls
                         (browse / stop_browse / verify / get_metrics); result: the outputs of
                         every iteration (channel events, query packets).
   chk_C03 ifs h tr    = the property text as an executable checker over (history, observed
                         events) - Model/C03Spec.v: every ServiceResolved has a non-empty host and
                         at least one address; host/port, every (address, interface) pair and the
                         TXT are those of delivered records that have more than 1000 ms of TTL left
                         (a goodbye, TTL 0 stored as 1, never has), are the LATEST delivery of
                         their record identity in the earlier iterations (or arrived in the same
                         iteration) and were not displaced by a cache-flush record more than one
                         second after them.  The same extracted chk_C03 is the monitor run on the
                         implementation's events.
   wf_history h        = virtual time does not run backwards.  Nothing else is assumed: any
                         datagram bytes, any interleaving, loss, duplication, delay, any TTLs. *)
From Coq Require Import List NArith Bool.
From Mdns Require Import Res Bytes Rec Wire Txt Cache Browser C03Spec CacheProofs CacheInvProofs BrowserProofs
  BrowserExamples.
Import ListNotations.
Open Scope N_scope.

(* The property, over all histories. *)
Theorem C03_resolved_is_live : forall ifs h,
  wf_history h = true -> chk_C03 ifs h (run_history ifs h) = true.
Proof. exact resolved_is_live. Qed.

(* Invariant cache_from_history: after any history every cached record e (in the bucket `key`
   of kind k) was delivered: some delivery d of the log carries exactly e's record (TTL 0
   already 1), at the time recorded as e's creation, for addresses on the interface e is tagged
   with; e is filed under its own (for addresses: lower-cased) name and type; and e expires no
   later than created + 1000 * ttl. *)
Theorem C03_cache_from_history : forall ifs h k key b e,
  wf_history h = true ->
  In (key, b) (get_map (s_cache (state_after ifs init_st h)) k) -> In e b ->
  exists d, In d (log_of ifs h) /\ dl_rr d = e_rr e /\ dl_t d = e_created e
    /\ (is_addr_type (e_type e) = true -> dl_if d = e_if e)
    /\ e_expires e <= e_created e + 1000 * e_ttl e
    /\ kind_of_type (e_type e) = Some k /\ key = key_of k (e_name e).
Proof. exact cache_entry_delivered. Qed.

(* The full invariant (Inv, Proofs/CacheInvProofs.v): additionally d is the LAST delivery of
   e's record identity in the log, buckets hold no two records of the same identity, and e
   expires at most one second after any later cache-flush delivery that displaces it. *)
Theorem C03_cache_invariant : forall ifs h,
  wf_history h = true -> Inv (log_of ifs h) (s_cache (state_after ifs init_st h)).
Proof. exact cache_from_history. Qed.

(* add_or_update (DnsCache::add_or_update) extends the log by exactly the delivery it processes
   and keeps the invariant - whatever the record, the interface, the for-us flag. *)
Theorem C03_add_or_update_keeps_invariant : forall L c now ifx r fu,
  Inv L c -> Inv (L ++ [mkDlv now ifx r]) (fst (add_or_update c now ifx r fu)).
Proof. exact add_or_update_inv. Qed.

(* What resolve_service_from_cache builds from a cache satisfying the invariant is justified by
   the log (prev = earlier iterations, cp = the part of the current iteration read so far). *)
Theorem C03_resolve_from_cache_justified : forall prev cp now c ty inst,
  Inv (prev ++ cp) c -> (forall d, In d prev -> dl_t d <= now) ->
  is_valid (resolve_from_cache c now ty inst) = true ->
  resolved_ok prev cp now (resolve_from_cache c now ty inst) = true.
Proof. exact resolve_justified. Qed.

(* Goodbye: a record delivered with TTL 0 (decoded as 1) expires exactly 1000 ms after its
   delivery, new or already cached, and from its delivery on it is never used for an event. *)
Theorem C03_goodbye_new : forall r now ifx, r_ttl r = 1 -> e_expires (new_entry r now ifx) = now + 1000.
Proof. exact goodbye_new_expires. Qed.
Theorem C03_goodbye_cached : forall e r now, r_ttl r = 1 -> e_expires (reset_ttl e r now) = now + 1000.
Proof. exact goodbye_reset_expires. Qed.
Theorem C03_goodbye_never_used : forall e now t,
  e_expires e = now + 1000 -> now <= t -> expires_soon e t = true.
Proof. exact goodbye_never_used. Qed.

(* Cache-flush (RFC 6762 10.2): a cached record of the same class and type (addresses: same
   interface) that is older than one second and has more than one second left is shortened to
   now + 1000 - after which it is never used (previous theorem); any other record is untouched. *)
Theorem C03_cache_flush_rule : forall r ifx now e,
  flush_one r ifx now e =
  if (r_class r =? r_class (e_rr e)) && (r_type r =? e_type e)
     && (e_created e + 1000 <? now) && (now + 1000 <? e_expires e)
     && (if is_addr_type (r_type r) then e_if e =? ifx else true)
  then set_expires e (now + 1000) else e.
Proof. exact flush_one_spec. Qed.

(* Non-vacuity: browse, full announcement (ServiceFound + ServiceResolved), update of the port
   (ServiceResolved again), goodbye, ServiceRemoved exactly one second later; the history is
   well-formed and its trace passes the checker. *)
Example C03_example :
  wf_history ex_hist = true
  /\ map (fun o => (existsb is_found_evt o, existsb is_resolved_evt o, existsb is_removed_evt o))
         (run_history ex_ifs ex_hist)
     = [(false, false, false); (true, true, false); (false, true, false); (false, false, false);
        (false, false, true); (false, false, false)]
  /\ chk_C03 ex_ifs ex_hist (run_history ex_ifs ex_hist) = true.
Proof. exact ex_hist_facts. Qed.

Print Assumptions C03_resolved_is_live.
Print Assumptions C03_cache_from_history.
Print Assumptions C03_cache_invariant.
Print Assumptions C03_add_or_update_keeps_invariant.
Print Assumptions C03_resolve_from_cache_justified.
Print Assumptions C03_goodbye_new.
Print Assumptions C03_goodbye_cached.
Print Assumptions C03_goodbye_never_used.
Print Assumptions C03_cache_flush_rule.
Print Assumptions C03_example.
