(* C03  A resolved service only ever shows live data that was actually received.
   Only statements here; proofs are `exact <lemma>` (Proofs/BrowserProofs.v, CacheInvProofs.v,
   CacheProofs.v).

   run_history ifs h   = the model of the daemon's browser side (Model/Browser.v, Model/Cache.v)
                         run over the history h: per iteration the virtual time, the delivered
                         datagrams (decoded by the decoder model Model/Wire.v) and the API calls
                         (browse / stop_browse / verify / get_metrics); result: the outputs of
                         every iteration (channel events, query packets).
   chk_C03 ifs h tr    = the property text as an executable checker over (history, observed
                         events) - Model/C03Spec.v: every ServiceResolved has a non-empty host and
                         at least one address; host/port, every (address, interface) pair and the
                         TXT are those of delivered records that have more than 1000 ms of TTL left
                         (a goodbye, TTL 0 stored as 1, never has), are the LATEST delivery of
                         their record identity in the earlier iterations (or arrived in the same
                         iteration) and were not displaced by a cache-flush record more than one
                         second after them.  The same extracted chk_C03 is the monitor run on the
                         implementation's events.
   wf_history h        = virtual time does not run backwards.  Nothing else is assumed: any
                         datagram bytes, any interleaving, loss, duplication, delay, any TTLs. *)
From Coq Require Import List NArith Bool.
From Mdns Require Import Res Bytes Rec Wire Txt Cache Browser C03Spec CacheProofs CacheInvProofs BrowserProofs
  BrowserExamples BrowserKnown AouCasesProofs C03LastProofs.
Import ListNotations.
Open Scope N_scope.

(* The property, over all histories. *)
Theorem C03_resolved_is_live : forall ifs h,
  wf_history h = true -> chk_C03 ifs h (run_history ifs h) = true.
Proof. exact resolved_is_live. Qed.

(* Invariant cache_from_history: after any history every cached record e (in the bucket `key`
   of kind k) was delivered: some delivery d of the log carries exactly e's record (TTL 0
   already 1), at the time recorded as e's creation, for addresses on the interface e is tagged
   with; e is filed under its own (for addresses: lower-cased) name and type; and e expires no
   later than created + 1000 * ttl. *)
Theorem C03_cache_from_history : forall ifs h k key b e,
  wf_history h = true ->
  In (key, b) (get_map (s_cache (state_after ifs init_st h)) k) -> In e b ->
  exists d, In d (log_of ifs h) /\ dl_rr d = e_rr e /\ dl_t d = e_created e
    /\ (is_addr_type (e_type e) = true -> dl_if d = e_if e)
    /\ e_expires e <= e_created e + 1000 * e_ttl e
    /\ kind_of_type (e_type e) = Some k /\ key = key_of k (e_name e).
Proof. exact cache_entry_delivered. Qed.

(* The full invariant (Inv, Proofs/CacheInvProofs.v): additionally d is the LAST delivery of
   e's record identity in the log, buckets hold no two records of the same identity, and e
   expires at most one second after any later cache-flush delivery that displaces it. *)
Theorem C03_cache_invariant : forall ifs h,
  wf_history h = true -> Inv (log_of ifs h) (s_cache (state_after ifs init_st h)).
Proof. exact cache_from_history. Qed.

(* add_or_update (DnsCache::add_or_update) extends the log by exactly the delivery it processes
   and keeps the invariant - whatever the record, the interface, the for-us flag. *)
Theorem C03_add_or_update_keeps_invariant : forall L c now ifx r fu,
  Inv L c -> Inv (L ++ [mkDlv now ifx r]) (fst (add_or_update c now ifx r fu)).
Proof. exact add_or_update_inv. Qed.

(* What resolve_service_from_cache builds from a cache satisfying the invariant is justified by
   the log (prev = earlier iterations, cp = the part of the current iteration read so far). *)
Theorem C03_resolve_from_cache_justified : forall prev cp now c ty inst,
  Inv (prev ++ cp) c -> (forall d, In d prev -> dl_t d <= now) ->
  is_valid (resolve_from_cache c now ty inst) = true ->
  resolved_ok prev cp now (resolve_from_cache c now ty inst) = true.
Proof. exact resolve_justified. Qed.

(* Goodbye: a record delivered with TTL 0 (decoded as 1) expires exactly 1000 ms after its
   delivery, new or already cached, and from its delivery on it is never used for an event. *)
Theorem C03_goodbye_new : forall r now ifx, r_ttl r = 1 -> e_expires (new_entry r now ifx) = now + 1000.
Proof. exact goodbye_new_expires. Qed.
Theorem C03_goodbye_cached : forall e r now, r_ttl r = 1 -> e_expires (reset_ttl e r now) = now + 1000.
Proof. exact goodbye_reset_expires. Qed.
Theorem C03_goodbye_never_used : forall e now t,
  e_expires e = now + 1000 -> now <= t -> expires_soon e t = true.
Proof. exact goodbye_never_used. Qed.

(* Cache-flush (RFC 6762 10.2): a cached record of the same class and type (addresses: same
   interface) that is older than one second and has more than one second left is shortened to
   now + 1000 - after which it is never used (previous theorem); any other record is untouched. *)
Theorem C03_cache_flush_rule : forall r ifx now e,
  flush_one r ifx now e =
  if (r_class r =? r_class (e_rr e)) && (r_type r =? e_type e)
     && (e_created e + 1000 <? now) && (now + 1000 <? e_expires e)
     && (if is_addr_type (r_type r) then e_if e =? ifx else true)
  then set_expires e (now + 1000) else e.
Proof. exact flush_one_spec. Qed.

(* Clause "... as the network LAST advertised it" (round 6, after the seeded change C03-m5).
   chk_C03_last (Model/C03Spec.v): host / port of a ServiceResolved are those of the SRV record of
   the instance received most recently among the current ones (live, not superseded, not
   displaced), the TXT properties those of the most recently received current TXT record; for some
   prefix of the current iteration's deliveries; records of not-for-us responses after the last
   for-us one are admissible too.  Full statement:
       forall ifs h, wf_history h = true -> chk_C03_last ifs h (run_history ifs h) = true
   It is FALSE of the faithful model and of the daemon (C03_known_reannounced_witness, finding
   C03-reannounced-record-keeps-position): a record that is announced again keeps its place in
   the Vec, a new one goes in front, and resolve_service_from_cache takes the first live one - so
   after the pattern A, B, A the daemon keeps reporting B.  _partial: outside the class
   known_reannounced the statement is NOT proved (it needs, beyond the C03 invariant, that every
   current for-us delivery is IN the cache and that each bucket is ordered by first insertion -
   and stop_browse, which drops records, as a further class); it is checked by the monitor on
   model and implementation for every generated history.  Proved are the three facts about the
   code the clause rests on, for all caches and records: *)
Theorem C03_resolve_uses_first_live_srv : forall c now ty inst sb,
  bm_get inst (c_srv c) = Some sb ->
  let r := resolve_from_cache c now ty inst in
  match find (fun e => negb (expires_soon e now)) sb with
  | Some e => rs_host r = srv_host e /\ rs_port r = srv_port e
  | None => rs_host r = [] /\ rs_port r = 0
  end.
Proof. exact resolve_uses_first_live. Qed.

Theorem C03_resolve_uses_first_live_txt : forall c now ty inst tb,
  bm_get inst (c_txt c) = Some tb ->
  rs_txt (resolve_from_cache c now ty inst)
  = match find (fun e => negb (expires_soon e now)) tb with Some e => txt_props (txt_text e) | None => [] end.
Proof. exact resolve_txt_first_live. Qed.

Theorem C03_new_record_in_front : forall c now ifx r fu k e0 t0,
  kind_of_type (r_type r) = Some k ->
  bm_get (key_of k (r_name r)) (get_map c k) = Some (e0 :: t0) ->
  update_first (map (fl r ifx now) (e0 :: t0)) r ifx now = None ->
  bm_get (key_of k (r_name r)) (get_map (fst (add_or_update c now ifx r fu)) k)
  = Some (new_entry r now ifx :: map (fl r ifx now) (e0 :: t0))
  /\ snd (add_or_update c now ifx r fu) = Some (new_entry r now ifx, true).
Proof. exact new_record_in_front. Qed.

Theorem C03_reannounced_keeps_position : forall r ifx now b b2 z,
  update_first b r ifx now = Some (b2, z) ->
  length b2 = length b
  /\ forall n e, nth_error b n = Some e ->
       nth_error b2 n = Some e \/ (entry_matches e r ifx = true /\ nth_error b2 n = Some (reset_ttl e r now)).
Proof. exact reannounced_keeps_position. Qed.

(* witness of the class (model; the simulated daemon agrees, corpus case reannounced-older) and
   passing examples: the update 1.9 s after the announcement, the update 200 ms after it *)
Theorem C03_known_reannounced_witness :
  wf_history reann_hist = true
  /\ known_reannounced (log_of_history ex_ifs reann_hist) = true
  /\ chk_C03 ex_ifs reann_hist (run_history ex_ifs reann_hist) = true
  /\ chk_C03_last ex_ifs reann_hist (run_history ex_ifs reann_hist) = false.
Proof. exact reannounced_witness. Qed.

Example C03_last_advertised_example :
  chk_C03_last ex_ifs ex_hist (run_history ex_ifs ex_hist) = true
  /\ chk_C03_last ex_ifs quick_hist (run_history ex_ifs quick_hist) = true
  /\ map (fun o => existsb is_resolved_evt o) (run_history ex_ifs quick_hist) = [false; true; true; true; false]
  /\ known_reannounced (log_of_history ex_ifs quick_hist) = false.
Proof. exact last_advertised_examples. Qed.

(* Non-vacuity: browse, full announcement (ServiceFound + ServiceResolved), update of the port
   (ServiceResolved again), goodbye, ServiceRemoved exactly one second later; the history is
   well-formed and its trace passes the checker. *)
Example C03_example :
  wf_history ex_hist = true
  /\ map (fun o => (existsb is_found_evt o, existsb is_resolved_evt o, existsb is_removed_evt o))
         (run_history ex_ifs ex_hist)
     = [(false, false, false); (true, true, false); (false, true, false); (false, false, false);
        (false, false, true); (false, false, false)]
  /\ chk_C03 ex_ifs ex_hist (run_history ex_ifs ex_hist) = true.
Proof. exact ex_hist_facts. Qed.

Print Assumptions C03_resolved_is_live.
Print Assumptions C03_cache_from_history.
Print Assumptions C03_cache_invariant.
Print Assumptions C03_add_or_update_keeps_invariant.
Print Assumptions C03_resolve_from_cache_justified.
Print Assumptions C03_goodbye_new.
Print Assumptions C03_goodbye_cached.
Print Assumptions C03_goodbye_never_used.
Print Assumptions C03_cache_flush_rule.
Print Assumptions C03_resolve_uses_first_live_srv.
Print Assumptions C03_resolve_uses_first_live_txt.
Print Assumptions C03_new_record_in_front.
Print Assumptions C03_reannounced_keeps_position.
Print Assumptions C03_known_reannounced_witness.
Print Assumptions C03_last_advertised_example.
Print Assumptions C03_example.
