(* C06  Queries get exactly the registered records, right values, right link.
   Only statements here; every proof is `exact <lemma>` (Proofs/ResponderProofs.v,
   Proofs/ResponderWitness.v).

   handle_query  : the model of Zeroconf::handle_query (Model/Responder.v), a function of the
                   services with their status on the receiving interface, the rename map of that
                   interface's registry, the interface, the decoded query, the source address/port.
   spec k        : the specification written from the property text (Model/ResponderSpec.v);
                   `text_quirks` = the text itself, `code_quirks` = the text with the two deviations
                   of the code that remain (subtype answer, transport family) switched on; four
                   more were repaired in /repo (meta-query duplicates, SRV target and lookup
                   after a rename, legacy id) and are now plain theorems / passing examples.
   reaction_equiv: same destination, interface, id, flags, echoed questions; answer and
                   additional sections equal as multisets (Permutation) - so "nothing else" is
                   part of every statement.
   chk_C06       : the executable checker (also the monitor on the implementation's packets). *)
From Coq Require Import List NArith Bool Permutation String.
From Mdns Require Import Res Bytes Rec Intf IntfCache Responder ResponderSpec IntfDaemon ResponderProofs
     ResponderAddrProofs ResponderJustProofs ResponderHistoryProofs ResponderWitness IntfHistoryProofs
     ResponderLogProofs C18Witness.
Import ListNotations.
Open Scope N_scope.

(* What the code does, for ALL inputs: the response (or silence) is the one the text prescribes
   with the two named deviations applied - every question list, known-answer list, service table
   (any iteration order), rename map, interface, source address and port.
   Hypothesis wf_input: services as the public API creates them (TTL 120/4500, priority = weight
   = 0), no two services holding (after renames, case-insensitively) the same instance name. *)
Theorem C06_model_is_spec_with_deviations : forall inp,
  wf_input inp = true -> reaction_equiv (handle_query inp) (spec code_quirks inp).
Proof. exact model_is_spec_code. Qed.

(* Outside the deviation classes (`clean`: no PTR question for the subtype of an announced
   service, on-link addresses of announced services only of the transport's family) the
   specification with deviations IS the text. *)
Theorem C06_deviations_vanish_when_clean : forall inp,
  clean inp = true -> spec code_quirks inp = spec text_quirks inp.
Proof. exact spec_code_is_text_when_clean. Qed.

(* response_characterised: there the reaction is exactly what the text says - records of announced
   services with an address on the link matching a question (type / subtype / meta PTR; SRV, TXT,
   ANY on the instance name; A, AAAA, ANY on the host name; names case-insensitive), TTL 120 /
   4500, cache-flush on SRV/TXT/address, only on-link addresses, PTR answers with SRV/TXT/address
   additionals, the SRV answer to an SRV question with its address additionals, known answers
   with TTL > half suppressed (the cache-flush bit is not compared), a type listed once under
   the meta query however many services have it, names as held after conflict renames, and
   nothing else. *)
Theorem C06_response_characterised : forall inp,
  wf_input inp = true -> clean inp = true ->
  reaction_equiv (handle_query inp) (spec text_quirks inp).
Proof. exact response_characterised_prop. Qed.

(* The same through the executable checker that monitors the implementation. *)
Theorem C06_checker_accepts_model : forall inp,
  wf_input inp = true -> clean inp = true -> chk_C06 inp (handle_query inp) = true.
Proof. exact response_characterised. Qed.

(* Everywhere, the monitor's classification "text + all listed deviations" accepts the model. *)
Theorem C06_checker_explains_model : forall inp,
  wf_input inp = true -> explained_by code_quirks inp (handle_query inp) = true.
Proof. exact explained_by_code. Qed.

(* legacy_unicast: a query from a port other than 5353 is answered (if at all) by ONE packet sent
   by unicast to the sender, with the query id and the questions echoed and every cache-flush bit
   cleared. *)
Theorem C06_legacy_unicast : forall inp p,
  wf_input inp = true -> handle_query inp = Some p -> h_src_port inp <> 5353 ->
  p_dest p = DUnicast (h_src_ip inp) (h_src_port inp) /\
  p_questions p = map (fun q => (q_name q, q_type q)) (m_questions (h_msg inp)) /\
  Forall (fun r => r_flush r = false) (p_answers p ++ p_additionals p) /\
  p_id p = m_id (h_msg inp).
Proof. exact legacy_unicast. Qed.

(* from port 5353: multicast on the family the query came over, no questions, id 0 *)
Theorem C06_multicast_reply : forall inp p,
  wf_input inp = true -> handle_query inp = Some p -> h_src_port inp = 5353 ->
  p_dest p = DMulticast (is_v4 (h_src_ip inp)) /\ p_questions p = [] /\ p_id p = 0.
Proof. exact multicast_reply. Qed.

(* silent_for_unknown: never registered / unregistered (not in the table) / still probing
   (status other than Announced): no packet, whatever is asked. *)
Theorem C06_silent_for_unknown : forall inp,
  (forall e, In e (h_services inp) -> is_announced (e_status e) = false) ->
  handle_query inp = None.
Proof. exact silent_for_unknown. Qed.

(* no address of the service inside a subnet of the receiving interface: no packet (the meta
   query is answered from the announced status alone and is excluded here). *)
Theorem C06_silent_without_address : forall inp,
  (forall e, In e (h_services inp) -> is_announced (e_status e) = true ->
             no_address_on_link (h_intf inp) (e_svc e)) ->
  (forall q, In q (m_questions (h_msg inp)) -> q_type q = 12 -> q_name q <> META_QUERY) ->
  handle_query inp = None.
Proof. exact silent_without_address. Qed.

(* ---- "nothing else", without any hypothesis --------------------------------------------------------

   every_answer_justified: for EVERY input of the responder model (any services, statuses, rename
   map, interface, query, source) every record of the response - answer or additional - is a
   record of a listed service that is Announced on the receiving interface (svc_rec: its type /
   subtype / meta PTR, its SRV or TXT under a name case-insensitively equal to its current
   instance name, or one of its addresses lying in a subnet of the interface, under its current
   host name; the cache-flush bit aside). *)
Theorem C06_every_answer_justified : forall inp p, handle_query inp = Some p ->
  Forall (just_rec (h_services inp) (h_name_changes inp) (h_intf inp)) (p_answers p ++ p_additionals p).
Proof. exact response_records_justified. Qed.

(* ... and on the daemon model (Model/IntfDaemon.v: registrations, unregistrations, interface
   events, selections, traffic), in EVERY state - hence after every history -: every record of
   every response to a datagram is a record of a service that is in my_services at that moment
   and whose status on the receiving interface is Announced. *)
Theorem C06_daemon_answers_justified : forall d g o, In o (snd (handle_dgram d g)) ->
  match o with
  | OSent p => exists intf p0,
      intf_get (dg_if g) (d_intfs d) = Some intf /\ p = reroute (d_os d) intf p0 /\
      Forall (registered_announced_rec d (dg_if g) intf) (p_answers p0 ++ p_additionals p0)
  | _ => True
  end.
Proof. exact daemon_answers_justified. Qed.

(* the destination, interface and family of every response, for every input *)
Theorem C06_response_shape_all_inputs : forall inp p, handle_query inp = Some p ->
  Forall (link_rec (map e_svc (h_services inp)) (h_intf inp)) (p_answers p ++ p_additionals p) /\
  p_if p = mi_index (h_intf inp) /\
  (exists a, In a (mi_addrs (h_intf inp)) /\ is_v4 (ia_ip a) = dest_v4 (p_dest p)) /\
  dest_v4 (p_dest p) = is_v4 (h_src_ip inp).
Proof. exact handle_query_packet. Qed.

(* Over ALL histories of the daemon model (Model/IntfDaemon.v), with a ghost log of everything
   emitted (log_of = the observations of all iterations in order): the invariant AInv (a service is
   Announced on an interface only if an announcement of it, built by announce_on for that
   interface, is in the log; keys are the lower-cased full names) holds initially and is preserved
   by every operation (register, unregister, enable / disable, interface events, IP checks,
   datagrams, retransmissions).  Hence in the state reached by ANY history every record of every
   response to a datagram belongs to a registered service that is Announced on the receiving
   interface AND whose announcement went out for that interface earlier in that history.
   (The model registers without probing - the generated histories of C18 do - so "after its
   probes" is vacuous here; C10/C11 cover probing.) *)
Theorem C06_ghost_invariant_step : forall L d s, AInv L d -> AInv (L ++ snd (iterate d s)) (fst (iterate d s)).
Proof. exact iterate_A. Qed.

Theorem C06_ghost_invariant_history : forall steps L d, AInv L d -> AInv (L ++ log_of d steps) (state_after d steps).
Proof. exact history_A. Qed.

Theorem C06_answers_after_announcement : forall t0 os0 steps g o,
  let d := state_after (initial_state t0 os0) steps in
  In o (snd (handle_dgram d g)) ->
  match o with
  | OSent p => exists intf p0,
      intf_get (dg_if g) (d_intfs d) = Some intf /\ p = reroute (d_os d) intf p0 /\
      Forall (fun r => exists k ds, In (k, ds) (d_svcs d) /\ status_get (dg_if g) (ds_status ds) = Announced /\
                                    svc_rec [] intf (ds_svc ds) r /\
                                    announced_in (log_of (initial_state t0 os0) steps) k (dg_if g))
             (p_answers p0 ++ p_additionals p0)
  | _ => True
  end.
Proof. exact answers_after_announcement. Qed.

(* non-vacuity: after one registration on two interfaces the service is Announced on both, two
   packets are in the log, and the invariant finds the announcements *)
Example C06_ghost_log_example :
  let d := state_after (initial_state t0 os_w1) h_reg in
  (exists ds, In (key_svc0, ds) (d_svcs d) /\ status_get 2 (ds_status ds) = Announced /\ status_get 3 (ds_status ds) = Announced) /\
  List.length (log_of (initial_state t0 os_w1) h_reg) = 2%nat /\
  announced_in (log_of (initial_state t0 os_w1) h_reg) key_svc0 2 /\
  announced_in (log_of (initial_state t0 os_w1) h_reg) key_svc0 3.
Proof. exact log_example. Qed.

(* ---- the full statement "forall inp, wf_input inp = true -> chk_C06 inp (handle_query inp) = true"
        is FALSE of the faithful model; one witness per remaining deviation (refutes n w: w is
        well-formed, the checker rejects the model's reaction, and the reaction is the text with
        deviation n only).  Findings: known/C06.json; replays: corpus/C06.cases. ---- *)

Theorem C06_subtype_answer_refuted : refutes 1 w_sub_answer = true.
Proof. exact w_sub_answer_ok. Qed.

Theorem C06_transport_family_additionals_refuted : refutes 2 w_family = true.
Proof. exact w_family_ok. Qed.

Theorem C06_transport_family_silence_refuted :
  refutes 2 w_family_silent = true /\ handle_query w_family_silent = None.
Proof. exact w_family_silent_ok. Qed.

(* ---- the witnesses of the deviations repaired since the first build are accepted now ---- *)

(* two services of one type, meta query: the type is listed once *)
Example C06_meta_query_lists_type_once : passes w_meta_dup = true /\
  match handle_query w_meta_dup with Some p => List.length (p_answers p) = 1%nat | None => False end.
Proof. exact w_meta_dup_passes. Qed.

(* host renamed by a conflict: the direct SRV answer points to the new host name *)
Example C06_srv_target_after_rename : passes w_srv_old_host = true /\
  match handle_query w_srv_old_host with
  | Some p => map r_data (p_answers p) = [RSrv 0 0 8080 (b "MyHost-2.local."%string)]
  | None => False end.
Proof. exact w_srv_old_host_passes. Qed.

(* mixed-case instance renamed by a conflict: the new name is answered, the lost one is not *)
Example C06_renamed_mixed_case_instance_answered :
  passes w_lookup_lower = true /\ handle_query w_lookup_lower <> None.
Proof. exact w_lookup_lower_passes. Qed.

Example C06_lost_name_not_answered :
  passes w_lookup_lower_old = true /\ handle_query w_lookup_lower_old = None.
Proof. exact w_lookup_lower_old_passes. Qed.

(* legacy unicast: the id 0x1234 of the query comes back *)
Example C06_legacy_id_echoed : passes w_legacy_id = true /\
  match handle_query w_legacy_id with Some p => p_id p = 4660 | None => False end.
Proof. exact w_legacy_id_passes. Qed.

(* Non-vacuity: a well-formed input outside every deviation class that is answered with six
   answer and three additional records. *)
Example C06_clean_example :
  wf_input w_clean = true /\ clean w_clean = true /\
  match handle_query w_clean with
  | Some p => (List.length (p_answers p), List.length (p_additionals p)) = (6%nat, 3%nat)
  | None => False
  end.
Proof. exact w_clean_ok. Qed.

Print Assumptions C06_model_is_spec_with_deviations.
Print Assumptions C06_deviations_vanish_when_clean.
Print Assumptions C06_response_characterised.
Print Assumptions C06_checker_accepts_model.
Print Assumptions C06_checker_explains_model.
Print Assumptions C06_legacy_unicast.
Print Assumptions C06_multicast_reply.
Print Assumptions C06_silent_for_unknown.
Print Assumptions C06_silent_without_address.
Print Assumptions C06_every_answer_justified.
Print Assumptions C06_daemon_answers_justified.
Print Assumptions C06_response_shape_all_inputs.
Print Assumptions C06_subtype_answer_refuted.
Print Assumptions C06_transport_family_additionals_refuted.
Print Assumptions C06_transport_family_silence_refuted.
Print Assumptions C06_meta_query_lists_type_once.
Print Assumptions C06_srv_target_after_rename.
Print Assumptions C06_renamed_mixed_case_instance_answered.
Print Assumptions C06_lost_name_not_answered.
Print Assumptions C06_legacy_id_echoed.
Print Assumptions C06_clean_example.
Print Assumptions C06_ghost_invariant_step.
Print Assumptions C06_ghost_invariant_history.
Print Assumptions C06_answers_after_announcement.
Print Assumptions C06_ghost_log_example.
