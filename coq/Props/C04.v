(* C04  Everything advertised for a browsed type is found and resolved.
   Only statements here; proofs are `exact <lemma>` (Proofs/BrowserStepProofs.v, BrowserExamples.v).

   The history-level statement is
       forall ifs h wakes, wf_history h = true ->
         chk_C04 ifs h wakes (map obs_of (run_history ifs h)) = true            (FALSE)
   with chk_C04 (Model/BrowserSpec.v) the property text as a checker: ServiceFound before
   ServiceResolved; an instance of a browsed type with live PTR + SRV + address is reported
   resolved by the end of the iteration that delivered a record of it; after a ServiceFound
   without ServiceResolved the first follow-up question is asked 500 ms later (wake-up
   requested), at most 3 times, for the name the PTR pointed to.
   It is FALSE of the faithful model: C04_found_and_resolved_refuted gives a witness, and the
   simulated daemon agrees with the model on it.  After the repairs of round 2 (goodbye-revived
   records count as new, pending_resolves is cleared when a chain is over, host names compared
   without regard to case) two classes of histories still violate it (known findings,
   known/C04.json): dotted instance labels (the follow-up asks for another name), and a record
   with TTL > 1 that is REFRESHED in its last second after the instance was reported removed
   (no new record, so no resolution).  The former witnesses of the repaired classes are now
   examples that pass (C04_example_restart, C04_example_mixed_case).  What is proved here are
   the steps the property rests on, for all states and inputs (_partial: the history-level
   statement outside the two classes is checked by the monitor on every generated history of
   model and implementation, not proved:
       forall ifs h wakes, wf_history h = true -> ~ Known_C04 h ->
         chk_C04 ifs h wakes (map obs_of (run_history ifs h)) = true ). *)
From Coq Require Import List NArith Bool.
From Mdns Require Import Res Bytes Rec Wire Txt Cache Browser C03Spec BrowserSpec BrowserKnown CacheProofs
  CacheInvProofs BrowserStepProofs SpecTrackProofs BrowserProofs C05SafetyProofs C04StepProofs C04ScheduleProofs C04PendingProofs AouCasesProofs C04OrderProofs C05AgainProofs C05TimelyProofs C04CompleteProofs C04FollowupProofs BrowserExamples.
Import ListNotations.
Open Scope N_scope.

(* Resolution step: when resolve_updated_instances runs for a set containing the instance, the
   type is browsed on channel ch, some PTR of the type points to the instance with more than
   one second left and the cache resolves it (next theorem), ServiceResolved goes to ch. *)
Theorem C04_resolution_step_partial : forall s now updated ty ch ptrs p,
  In (ty, ptrs) (c_ptr (s_cache s)) -> q_get ty (s_q s) = Some ch ->
  In p ptrs -> expires_soon p now = false -> mem (alias_of (e_rr p)) updated = true ->
  is_valid (resolve_from_cache (s_cache s) now ty (alias_of (e_rr p))) = true ->
  In (OEvt ch (EResolved (resolve_from_cache (s_cache s) now ty (alias_of (e_rr p)))))
     (snd (resolve_updated s now updated)).
Proof. exact resolve_complete. Qed.

(* ... and the cache resolves it as soon as it holds an SRV of the instance with more than one
   second left naming a host and one address of that host (filed under the lower-cased name)
   with more than one second left - TXT is not needed, no subnet condition. *)
Theorem C04_complete_records_resolve : forall c now ty inst sb e ab a,
  ty <> [] -> inst <> [] ->
  bm_get inst (c_srv c) = Some sb -> find (fun e => negb (expires_soon e now)) sb = Some e ->
  srv_host e <> [] ->
  bm_get (lower (srv_host e)) (c_addr c) = Some ab -> In a ab -> expires_soon a now = false ->
  is_valid (resolve_from_cache c now ty inst) = true.
Proof. exact valid_when_complete. Qed.

(* Which records trigger the step: a NEW (or revived: cached with TTL <= 1, announced again with
   TTL > 1) PTR (TTL > 1) / SRV / TXT record of the instance ... *)
Theorem C04_new_record_triggers : forall c changes t inst,
  In (t, inst) changes -> (t = TY_PTR \/ t = TY_SRV \/ t = TY_TXT) -> In inst (updated_of c changes).
Proof. exact updated_of_instance. Qed.

(* ... and a NEW address record, for the instances whose first SRV names its owner (letter case
   ignored since the repair of D21). *)
Theorem C04_new_address_triggers : forall c changes t owner inst,
  In (t, owner) changes -> is_addr_type t = true -> In inst (get_instances_on_host c owner) ->
  In inst (updated_of c changes).
Proof. exact updated_of_address. Qed.

(* A new PTR with TTL > 1 of a browsed type is announced by ServiceFound (before the resolution
   step, which runs after all records of the message). *)
Theorem C04_new_ptr_found : forall c now ifx q r ch,
  r_type r = TY_PTR -> 1 < r_ttl r -> q_get (r_name r) q = Some ch ->
  snd (add_or_update c now ifx r true) = Some (new_entry r now ifx, true) ->
  snd (fst (hr_records c now ifx q true [r])) = [OEvt ch (EFound (r_name r) (alias_of r))].
Proof. exact new_ptr_found. Qed.

(* Follow-up schedule.  First try 500 ms after the instance became pending ... *)
Theorem C04_followup_first : forall s now inst,
  mem inst (s_pending s) = false ->
  s_retrans (add_pending s now inst) = s_retrans s ++ [(now + 500, RResolve inst 1)]
  /\ s_pending (add_pending s now inst) = s_pending s ++ [inst].
Proof. exact followup_first. Qed.

(* ... each try asks (instance, ANY) while no SRV is cached; tries 1 and 2 schedule the next
   try 500 ms later, try 3 schedules nothing and takes the instance out of pending_resolves ... *)
Theorem C04_followup_step : forall s now inst n,
  has_ptr_to (s_cache s) inst = true ->
  valid_instance_name inst = true -> bm_get inst (c_srv (s_cache s)) = None ->
  exec_resolve s now inst n =
  (if n <? 3
   then mkSt (s_cache s) (s_q s) (s_pending s) (s_resolved s)
             (s_retrans s ++ [(now + 500, RResolve inst (n + 1))])
   else forget_pending s inst,
   [OQuery [(inst, TY_ANY)]]).
Proof. exact followup_step_any. Qed.

(* ... so, timer-exact, exactly three questions at +500, +1000, +1500 and no more ... *)
Theorem C04_followup_three_tries : forall s t inst,
  has_ptr_to (s_cache s) inst = true ->
  valid_instance_name inst = true -> bm_get inst (c_srv (s_cache s)) = None ->
  let s1 := fst (exec_resolve s (t + 500) inst 1) in
  let s2 := fst (exec_resolve s1 (t + 1000) inst 2) in
  let s3 := fst (exec_resolve s2 (t + 1500) inst 3) in
  s_retrans s1 = s_retrans s ++ [(t + 1000, RResolve inst 2)]
  /\ s_retrans s2 = s_retrans s1 ++ [(t + 1500, RResolve inst 3)]
  /\ s_retrans s3 = s_retrans s2
  /\ snd (exec_resolve s (t + 500) inst 1) = [OQuery [(inst, TY_ANY)]]
  /\ snd (exec_resolve s1 (t + 1000) inst 2) = [OQuery [(inst, TY_ANY)]]
  /\ snd (exec_resolve s2 (t + 1500) inst 3) = [OQuery [(inst, TY_ANY)]].
Proof. exact followup_three_tries. Qed.

(* ... once the SRV is cached the remaining tries ask (host, A), (host, AAAA) ... *)
Theorem C04_followup_after_srv : forall s now inst n recs e,
  has_ptr_to (s_cache s) inst = true ->
  valid_instance_name inst = true -> bm_get inst (c_srv (s_cache s)) = Some recs ->
  find (fun e => match get_addr (s_cache s) (srv_host e) with None => true | Some _ => false end) recs = Some e ->
  snd (exec_resolve s now inst n) = [OQuery [(srv_host e, TY_A); (srv_host e, TY_AAAA)]]
  /\ s_retrans (fst (exec_resolve s now inst n)) =
     if n <? 3 then s_retrans s ++ [(now + 500, RResolve inst (n + 1))] else s_retrans s.
Proof. exact followup_step_addr. Qed.

(* ... and when nothing is missing the try asks nothing and the chain ends. *)
Theorem C04_followup_ends : forall s now inst n recs,
  bm_get inst (c_srv (s_cache s)) = Some recs ->
  find (fun e => match get_addr (s_cache s) (srv_host e) with None => true | Some _ => false end) recs = None ->
  exec_resolve s now inst n = (forget_pending s inst, []).
Proof. exact followup_ends. Qed.

(* fix 48ec5c0: a try asks only while some cached PTR record (any owner, expired or not) points to
   the instance; after stop_browse or the withdrawal / expiry of its PTR the try asks nothing, the
   chain ends and the instance is no longer pending (the hypothesis has_ptr_to of the three
   theorems above) *)
Theorem C04_followup_stops_without_ptr : forall s now inst n,
  has_ptr_to (s_cache s) inst = false -> exec_resolve s now inst n = (forget_pending s inst, []).
Proof. exact followup_stops_without_ptr. Qed.

(* While its chain runs an instance gets no second chain; when the chain is over (third try
   done, or nothing left to ask) the instance is no longer pending, so a later ServiceFound of
   it starts a new chain (C04_followup_first applies again) - the repaired stale-pending defect. *)
Theorem C04_followup_not_doubled : forall s now inst,
  mem inst (s_pending s) = true -> add_pending s now inst = s.
Proof. exact followup_not_restarted. Qed.

Theorem C04_followup_over_allows_new_round : forall s now inst n,
  (n <? 3) = false \/ has_ptr_to (s_cache s) inst = false \/ fst (query_unresolved (s_cache s) inst) = false ->
  mem inst (s_pending (fst (exec_resolve s now inst n))) = false.
Proof. exact followup_over_allows_new_round. Qed.

(* History level: the "spec cache" that chk_C04 replays from the history (cache component only)
   IS the model's cache after every history - same buckets, same records (name, type, class,
   cache-flush bit, TTL, rdata, created, expires, interface), same browsed types; only refresh
   marks may differ.  So what the checker calls live (alive_strong / alive_weak / death_time)
   is a statement about the model's state, for ALL histories (no well-formedness needed). *)
Theorem C04_spec_cache_is_model_cache : forall ifs h,
  tracks (model_after ifs init_st h) (spec_after ifs init_spec h).
Proof. exact spec_tracks_model. Qed.

(* ---- round 4: one message, every reachable state ---------------------------------------------------

   For every state whose cache satisfies the C03 invariant for a log L (every reachable state:
   C03_cache_invariant) and every response message whose records keep the log inside a log Lf
   free of the classes known_ptr_variant / known_srv_targets: if the type is browsed on ch and,
   after the records of the message are cached, some PTR ty -> instance has more than one second
   left, the message cached a new (or revived) record of the instance, and the instance is
   strongly alive (PTR, SRV, address of the SRV's host with more than one second left), then
   this handle_response emits ServiceResolved for it on ch - exactly one.
   _partial: this is the per-message core of chk_C04's completeness clause; NOT lifted to the
   checker over histories (the checker's bookkeeping of "up"/"found" per channel, the follow-up
   obligations and the order of events inside an iteration are not related to the model state
   by a proved invariant); the statement
       forall ifs h wakes, wf_history h = true -> ~ Known_C04 h ->
         chk_C04 ifs h wakes (map obs_of (run_history ifs h)) = true
   stays monitor-checked on every generated history. *)
Theorem C04_completing_response_resolves_partial : forall Lf,
  known_ptr_variant Lf = false -> known_srv_targets Lf = false -> ptr_names_ok Lf = true ->
  forall L s now ifx m ty ch,
  Inv L (s_cache s) -> incl (L ++ map (mkDlv now ifx) (msg_records m)) Lf ->
  q_get ty (s_q s) = Some ch ->
  let '(c1, _, changes) := hr_records (s_cache s) now ifx (s_q s) (for_us (s_q s) (m_answers m)) (msg_records m) in
  forall ptrs p,
    In (ty, ptrs) (c_ptr c1) -> In p ptrs -> expires_soon p now = false ->
    In (alias_of (e_rr p)) (updated_of c1 changes) ->
    alive_strong c1 now ty (alias_of (e_rr p)) = true ->
    count_resolved ch ty (alias_of (e_rr p)) (snd (handle_response s now ifx m)) = 1%nat
    /\ In (OEvt ch (EResolved (resolve_from_cache c1 now ty (alias_of (e_rr p))))) (snd (handle_response s now ifx m)).
Proof. exact completing_response_resolves. Qed.

(* at most one ServiceResolved per (channel, type, instance) from one resolve_updated_instances,
   outside the class "PTR variants" *)
Theorem C04_at_most_one_resolved : forall Lf, known_ptr_variant Lf = false ->
  forall L s now updated ch ty inst,
  Inv L (s_cache s) -> incl L Lf ->
  (count_resolved ch ty inst (snd (resolve_updated s now updated)) <= 1)%nat.
Proof. exact resolve_updated_at_most_one. Qed.

(* non-vacuity: the announcement of ex_hist yields exactly one ServiceResolved in its iteration *)
Example C04_one_resolved_example :
  map (count_resolved 1 n_ty n_inst) (run_history ex_ifs ex_hist) = [0; 1; 1; 0; 0; 0]%nat.
Proof. vm_compute. reflexivity. Qed.

(* Follow-up schedule at history level (no class excluded): after every loop iteration of every
   history in which time does not run backwards, every follow-up retransmission the model holds
   is try 1, 2 or 3 and is due strictly after, and at most 500 ms after, the time of that
   iteration (last_now h).  With C04_followup_step: a chain asks at most three times, every try
   within 500 ms of the iteration that scheduled it - at +500, +1000, +1500 when timer-exact. *)
Theorem C04_followup_schedule_invariant : forall ifs h,
  wf_history h = true -> h <> [] ->
  Forall (fun x => match snd x with
                   | RResolve _ n => last_now h < fst x /\ fst x <= last_now h + 500 /\ 1 <= n /\ n <= 3
                   | RVerify _ _ => True
                   end) (s_retrans (model_after ifs init_st h)).
Proof. exact followup_schedule_invariant. Qed.

(* Round 7, all histories (no hypothesis at all): an instance that is in pending_resolves has a
   follow-up (Resolve) retransmission queued.  add_pending_resolve starts a chain only for an
   instance that is NOT pending, so this is what guarantees that a found, unresolved instance
   keeps getting its follow-up questions; the seeded change C04-m6 (stop_browse cancels the queued
   Resolve commands and leaves the instances pending) breaks exactly this. *)
Theorem C04_pending_has_followup_queued : forall ifs h i,
  mem i (s_pending (model_after ifs init_st h)) = true ->
  exists t n, In (t, RResolve i n) (s_retrans (model_after ifs init_st h)).
Proof. exact pending_has_followup_queued. Qed.

(* ... and with the schedule invariant it is try 1..3, due within the next 500 ms *)
Theorem C04_pending_followup_within_500 : forall ifs h i,
  wf_history h = true -> h <> [] -> mem i (s_pending (model_after ifs init_st h)) = true ->
  exists t n, In (t, RResolve i n) (s_retrans (model_after ifs init_st h))
              /\ last_now h < t /\ t <= last_now h + 500 /\ 1 <= n /\ n <= 3.
Proof. exact pending_followup_within_500. Qed.

(* Round 8, the bridge to the checker's follow-up clause: a try asks EXACTLY the question
   chk_C04 expects (expected_followup, judged on the same cache) - so with the two theorems above an
   instance that is pending is asked for, with the expected question, within 500 ms, at most
   three times.  _partial: what is still missing for "viol_C04 has no F04_followup / F04_many failure
   over histories" is the checker-side correspondence (obligation (inst, due, try n) <-> queued entry
   (due, RResolve inst n) for non-stale obligations; a queued entry due not later for stale ones;
   pending => open episode or up), see PARTIAL in tools/props/c04.py. *)
Theorem C04_try_asks_expected : forall s now inst n,
  snd (exec_resolve s now inst n)
  = match expected_followup (s_cache s) inst with
    | Some (nm, ty) => if ty =? TY_ANY then [OQuery [(nm, TY_ANY)]] else [OQuery [(nm, TY_A); (nm, TY_AAAA)]]
    | None => []
    end.
Proof. exact try_asks_expected. Qed.

Example C04_pending_example :
  mem n_inst (s_pending (model_after ex_ifs init_st (firstn 3 ex_follow))) = true
  /\ mem n_inst (s_pending (model_after ex_ifs init_st ex_follow)) = false.
Proof. split; vm_compute; reflexivity. Qed.

(* non-vacuity: PTR only; after the first try (iteration at +600) the second one is scheduled *)
Example C04_followup_schedule_example :
  s_retrans (model_after ex_ifs init_st (firstn 3 ex_follow)) = [(T0 + 1100, RResolve n_inst 2)]
  /\ last_now (firstn 3 ex_follow) = T0 + 600.
Proof. split; vm_compute; reflexivity. Qed.

(* one witness per known class *)
Theorem C04_known_dotted_witness :
  known_dotted ref4_hist = true /\ known_dotted ex_hist = false
  /\ chk_C04 ex_ifs ref4_hist (ex_wakes ref4_hist) (map obs_of (run_history ex_ifs ref4_hist)) = false.
Proof. exact dotted_witness. Qed.

Theorem C04_known_last_second_refresh_witness :
  wf_history lastsec_hist = true
  /\ safe_class ex_ifs lastsec_hist = true
  /\ existsb is_refresh_only (viol_C04 ex_ifs lastsec_hist (ex_wakes lastsec_hist) (map obs_of (run_history ex_ifs lastsec_hist))) = true.
Proof. exact last_second_refresh_witness. Qed.

(* The history-level statement is false of the faithful model: a PTR to an instance whose first
   label is "a.b"; the follow-up questions ask for the labels a, b, _http, ... which no PTR
   points to (finding C04-D20-dotted-label-followup). *)
Theorem C04_found_and_resolved_refuted :
  exists ifs h wakes, wf_history h = true /\ chk_C04 ifs h wakes (map obs_of (run_history ifs h)) = false.
Proof. exact chk_C04_refuted. Qed.

(* Clause F over histories (round 5).  Full statement:
       forall ifs h wakes, wf_history h = true ->
         forall f, In f (viol_C04 ifs h wakes (map obs_of (run_history ifs h))) -> is_order_fail f = false
   i.e. the checker never reports "ServiceResolved on a channel on which the instance was not
   reported found before".  It is FALSE of the faithful model and of the daemon
   (C04_known_browse_expiring_witness, finding C04-browse-over-expiring-ptr): when browse starts
   while a cached PTR record of the type (TTL > 1) is in its last second, the cached instance is
   not reported, and a refresh of that PTR record is not "new", so a later SRV + address gives
   ServiceResolved with no ServiceFound.  Proved outside exactly that class
   (known_browse_expiring, executable, Model/BrowserKnown.v): for every history in which time
   does not run backwards and whatever the wake-ups. *)
Theorem C04_resolved_only_after_found_partial : forall ifs h wakes,
  wf_history h = true -> known_browse_expiring ifs h = false ->
  forall f, In f (viol_C04 ifs h wakes (map obs_of (run_history ifs h))) -> is_order_fail f = false.
Proof. exact resolved_only_after_found. Qed.

(* The same for one iteration, from any state: F lists the (channel, instance) pairs reported
   found so far; FI says every cached PTR entry of a browsed type with TTL > 1 is in F under the
   type's channel.  Then every ServiceResolved of the iteration is preceded by its ServiceFound,
   and FI holds again. *)
Theorem C04_iteration_resolved_only_after_found : forall ifs prev s sp it F,
  Inv prev (s_cache s) -> times_le prev (i_now it) -> FI (s_cache s) (s_q s) F -> tracks s sp ->
  calls_browse_expiring (i_now it)
    (last (scan (spec_dgram ifs (i_now it)) sp (deliveries_in_order (i_dgrams it))) sp) (i_calls it) = false ->
  order_ok F (snd (iterate ifs s it))
  /\ FI (s_cache (fst (iterate ifs s it))) (s_q (fst (iterate ifs s it))) (F ++ founds (snd (iterate ifs s it))).
Proof. exact iterate_order. Qed.

(* Witness of the excluded class (the daemon agrees, corpus case browse-expiring-ptr). *)
Theorem C04_known_browse_expiring_witness :
  wf_history brexp_hist = true
  /\ known_browse_expiring ex_ifs brexp_hist = true
  /\ safe_class ex_ifs brexp_hist = true
  /\ existsb (existsb is_found_evt) (run_history ex_ifs brexp_hist) = false
  /\ map (fun o => existsb is_resolved_evt o) (run_history ex_ifs brexp_hist) = [false; false; false; true; false]
  /\ existsb is_order_fail (viol_C04 ex_ifs brexp_hist (ex_wakes brexp_hist) (map obs_of (run_history ex_ifs brexp_hist))) = true.
Proof. exact browse_expiring_witness. Qed.

Example C04_resolved_only_after_found_example :
  wf_history ex_hist = true /\ known_browse_expiring ex_ifs ex_hist = false
  /\ existsb (existsb is_resolved_evt) (run_history ex_ifs ex_hist) = true
  /\ known_browse_expiring ex_ifs lastsec_hist = false
  /\ known_browse_expiring ex_ifs srvtgt_hist = false
  /\ known_browse_expiring ex_ifs restart_hist = false.
Proof. exact order_example. Qed.

(* Completeness clause over histories (round 8).  Full statement:
       forall ifs h wakes, wf_history h = true ->
         forall f, In f (viol_C04 ifs h wakes (map obs_of (run_history ifs h))) -> is_complete_fail f = false
   i.e. the checker never reports F04_complete: at the end of an iteration an instance with PTR, SRV
   and address live (more than a second left) under a browsed name, a record of which was delivered
   in the iteration (or whose browse was started), is up on that name's channel.  FALSE of the
   faithful model and the daemon (C04_known_refresh_completes_witness, and the two-SRV-targets
   witness); proved outside complete_class = safe_class && fresh_channels && not
   known_refresh_completes, where known_refresh_completes (Model/BrowserKnown.v, evaluated along the
   model's run) is the class of BOTH C04-last-second-refresh-not-new and
   C04-browse-over-expiring-ptr's aftermath: some delivery that is NOT reported as a new record (a
   refresh of a cached record, a refused record, a PTR with TTL <= 1) turns an instance of a browsed
   name strongly alive - handle_response then has no reason to resolve it.
   Proved is more than the clause asks: the invariant AU "strongly alive under a browsed name =>
   up on its channel" holds at the end of EVERY iteration, whether or not a record was delivered.
   Liveness rises only in add_or_update (C05_liveness_decreases_with_cache, _with_time), a delivery that raises it
   concerns the instance (C05_other_deliveries_keep_dead); if it is reported as new the instance is in
   `updated` (hr_turned) and C04_completing_response_resolves_partial gives the ServiceResolved; browse
   reports every live instance; ServiceRemoved only hits instances that are not strongly alive (the C05
   safety lemmas); BI: the type recorded in an up entry is the type browsed on its channel, so
   ups_current keeps it. *)
Theorem C04_complete_is_up_partial : forall ifs h wakes,
  wf_history h = true -> complete_class ifs h = true ->
  forall f, In f (viol_C04 ifs h wakes (map obs_of (run_history ifs h))) -> is_complete_fail f = false.
Proof. exact complete_is_up. Qed.

(* one iteration from any state: goodC = cache invariant + AU + BI + channel bounds *)
Theorem C04_iteration_complete_is_up : forall Lf,
  known_ptr_variant Lf = false -> known_srv_targets Lf = false -> ptr_names_ok Lf = true ->
  forall now ifs prev s it ups m m',
  i_now it = now -> goodC Lf now prev s ups m -> incl (prev ++ iter_dlvs ifs it) Lf ->
  calls_fresh m (i_calls it) = Some m' ->
  reads_refresh_only ifs s now (deliveries_in_order (i_dgrams it)) = false ->
  goodC Lf now (prev ++ iter_dlvs ifs it) (fst (iterate ifs s it)) (upsf ups (snd (iterate ifs s it))) m'.
Proof. exact iterate_complete. Qed.

(* a message in which an instance of a browsed name becomes strongly alive, outside the class, has
   the instance in `updated` *)
Theorem C04_turned_alive_is_updated : forall Lf,
  known_srv_targets Lf = false ->
  forall now ifx q fu ty ch inst rs L c,
  Inv L c -> incl (L ++ map (mkDlv now ifx) rs) Lf ->
  records_refresh_only c now ifx q fu rs = false -> q_get ty q = Some ch ->
  alive_strong (fst (fst (hr_records c now ifx q fu rs))) now ty inst = true ->
  alive_strong c now ty inst = false ->
  In inst (updated_of (fst (fst (hr_records c now ifx q fu rs))) (snd (hr_records c now ifx q fu rs))).
Proof. exact hr_turned. Qed.

Theorem C04_known_refresh_completes_witness :
  wf_history lastsec_hist = true /\ safe_class ex_ifs lastsec_hist = true /\ fresh_channels lastsec_hist = true
  /\ known_refresh_completes ex_ifs lastsec_hist = true
  /\ existsb is_complete_fail (viol_C04 ex_ifs lastsec_hist (ex_wakes lastsec_hist) (map obs_of (run_history ex_ifs lastsec_hist))) = true.
Proof. exact refresh_completes_witness. Qed.

Example C04_complete_is_up_example :
  map (complete_class ex_ifs) [ex_hist; restart_hist; mixedcase_hist; quick_hist; brexp_hist; again_hist]
  = [true; true; true; true; true; true]
  /\ map (fun h => existsb (existsb is_resolved_evt) (run_history ex_ifs h))
         [ex_hist; restart_hist; mixedcase_hist; quick_hist; brexp_hist; again_hist]
     = [true; true; true; true; true; true]
  /\ map (complete_class ex_ifs) [lastsec_hist; srvtgt_hist] = [false; false].
Proof. exact complete_example. Qed.

(* ---- round 9: the follow-up clause; what is and is not excluded by theorem ----------------------------------

   Failure kinds of chk_C04 (viol_C04) and their status over ALL histories of the model:
     F04_order     excluded by theorem outside known_browse_expiring      (C04_resolved_only_after_found_partial)
     F04_complete  excluded by theorem outside complete_class             (C04_complete_is_up_partial)
     F04_followup, F04_many
                   NOT excluded as statements about viol_C04.  Proved instead, over all histories, is the
                   clause in the property's own terms on the model's trace (C04_followups_as_specified_partial
                   and the three theorems after it): found and not resolved => a try runs in that iteration
                   or the instance is pending with try 1..3 queued, due within 500 ms; a queued try runs in
                   the first iteration at or after its due time; a try that runs asks exactly the question the
                   checker expects on the checker's own cache; tries 1 and 2 are followed by the next one
                   500 ms later, try 3 by none (C04_followup_step ...); the chain ends early without PTR.
                   What is missing for the viol_C04 statement is the correspondence with the checker's
                   bookkeeping: (i) non-stale obligation (inst, due, n) <-> queued (due, RResolve inst n),
                   (ii) stale obligation => a queued try due not later, (iii) pending => open episode or up
                   or obligation.  (iii) does not hold as it stands: an instance found on a second channel
                   while it is still up on the first (no obligation, not open) and invalid is made pending;
                   stop_browse of the first name then leaves it pending, neither up nor open - the checker
                   would open a non-stale obligation for the next ServiceFound while the model continues the
                   old series.  So (iii) needs a further class (stop_browse while an instance is up under
                   two names), and (iv) F04_many needs "no two found instances with the same lower-cased
                   labels".  Monitor-checked on every generated history; no such failure has been observed.
     F04_labels    not proved (needs the datagram hypothesis "decode agrees with the reference parser on PTR
                   targets", see PARTIAL in tools/props/c04.py)
     F04_wake      outside the model (no timers)
   New class found by this proof (the hypothesis "ServiceFound => the instance is in `updated` with a live
   PTR" could not be discharged; run on the daemon, which agrees): known_found_withdrawn, finding
   C04-found-withdrawn-in-same-message - a PTR record and its goodbye in ONE packet: ServiceFound is
   sent, resolve_updated_instances skips the (now expiring) PTR, no follow-up series starts. *)
Theorem C04_followups_as_specified_partial : forall ifs h it i,
  wf_history (h ++ [it]) = true ->
  let s := model_after ifs init_st h in
  reads_found_withdrawn ifs s (i_now it) (deliveries_in_order (i_dgrams it)) = false ->
  NR i (snd (iterate ifs s it)) -> FD i (snd (iterate ifs s it)) ->
  (exists n, In (i, n) (due_tries ifs s it))
  \/ (pend i (fst (iterate ifs s it))
      /\ exists t n, In (t, RResolve i n) (s_retrans (fst (iterate ifs s it)))
                     /\ i_now it < t /\ t <= i_now it + 500 /\ 1 <= n /\ n <= 3).
Proof. exact found_unresolved_gets_try. Qed.

(* from any state: found (or already pending) and not resolved => pending afterwards or tried *)
Theorem C04_iteration_found_unresolved : forall ifs s it i,
  reads_found_withdrawn ifs s (i_now it) (deliveries_in_order (i_dgrams it)) = false ->
  NR i (snd (iterate ifs s it)) -> (pend i s \/ FD i (snd (iterate ifs s it))) ->
  pend i (fst (iterate ifs s it)) \/ exists n, In (i, n) (due_tries ifs s it).
Proof. exact iterate_found_unresolved. Qed.

(* a queued try runs in the first iteration whose time is at or after its due time *)
Theorem C04_queued_due_is_tried : forall ifs s it t i n,
  In (t, RResolve i n) (s_retrans s) -> t <= i_now it -> In (i, n) (due_tries ifs s it).
Proof. exact queued_due_is_tried. Qed.

(* a try that runs asks the question chk_C04 expects, judged on the checker's spec cache after the
   commands of that iteration (the cache step04 passes to expected_followup) *)
Theorem C04_tried_asks_expected : forall ifs s sp it i n,
  tracks s sp -> In (i, n) (due_tries ifs s it) ->
  match expected_followup (sp_c (snd (fst (iter_snaps ifs sp it)))) i with
  | Some (nm, ty) => In (nm, ty) (questions_of (snd (iterate ifs s it)))
  | None => True
  end.
Proof. exact tried_asks_expected. Qed.

(* Found by the seed sweep after round 9 (generator case life522, seed 7; model = daemon), a genuine
   finding, C04-stale-resolve-overlaps-series: the queued Resolve command of an instance is not
   cancelled when the instance is resolved (it only leaves pending_resolves).  When a new series for
   the same instance starts before the leftover runs (late schedule, or within 500 ms), the leftover
   takes the instance out of pending_resolves although the new series is running, or continues as a
   parallel series: more than three follow-up questions without new records (F04_many).  The class
   known_overlapping_series: two Resolve retransmissions of one instance are queued when a
   retransmission pass starts.  This is also the concrete shape of the obstacle named above for
   the viol_C04 statement of the follow-up kinds: series can overlap. *)
Theorem C04_known_overlapping_series_witness :
  wf_history overlap_hist = true /\ known_overlapping_series ex_ifs overlap_hist = true
  /\ map (fun o => length (questions_of o)) (run_history ex_ifs overlap_hist) = [0; 0; 0; 1; 2; 2; 1; 0]%nat
  /\ existsb is_many_fail (viol_C04 ex_ifs overlap_hist (ex_wakes overlap_hist) (map obs_of (run_history ex_ifs overlap_hist))) = true
  /\ known_overlapping_series ex_ifs ex_follow = false /\ known_overlapping_series ex_ifs ex_hist = false
  /\ known_overlapping_series ex_ifs restart_hist = false.
Proof. exact overlapping_series_witness. Qed.

Theorem C04_known_found_withdrawn_witness :
  wf_history withdrawn_hist = true /\ known_found_withdrawn ex_ifs withdrawn_hist = true
  /\ map (fun o => (existsb is_found_evt o, questions_of o)) (run_history ex_ifs withdrawn_hist)
     = [(false, []); (true, []); (false, []); (false, []); (false, [])]
  /\ existsb is_followup_fail (viol_C04 ex_ifs withdrawn_hist (ex_wakes withdrawn_hist) (map obs_of (run_history ex_ifs withdrawn_hist))) = true
  /\ known_found_withdrawn ex_ifs ex_follow = false /\ known_found_withdrawn ex_ifs ex_hist = false
  /\ known_found_withdrawn ex_ifs lastsec_hist = false.
Proof. exact found_withdrawn_witness. Qed.

(* Non-vacuity: histories that pass chk_C04 - PTR only: questions (instance, ANY) exactly in the
   iterations at +500, +1000, +1500; and the announce / update / goodbye history of C03. *)
Example C04_example_followup :
  map questions_of (run_history ex_ifs ex_follow)
  = [[]; []; [(n_inst, TY_ANY)]; [(n_inst, TY_ANY)]; [(n_inst, TY_ANY)]; []; []]
  /\ chk_C04 ex_ifs ex_follow (ex_wakes ex_follow) (map obs_of (run_history ex_ifs ex_follow)) = true.
Proof. exact ex_follow_facts. Qed.

Example C04_example_lifecycle :
  chk_C04 ex_ifs ex_hist (ex_wakes ex_hist) (map obs_of (run_history ex_ifs ex_hist)) = true
  /\ chk_C05 ex_ifs ex_hist (ex_wakes ex_hist) (map obs_of (run_history ex_ifs ex_hist)) = true.
Proof. exact ex_hist_chk45. Qed.

(* Repaired in round 2, now passing: a service restarts (goodbye, full announcement 700 ms
   later) while a browser is running that does not know it - ServiceFound and ServiceResolved in
   the iteration of the announcement. *)
Example C04_example_restart :
  wf_history restart_hist = true
  /\ map (fun o => (existsb is_found_evt o, existsb is_resolved_evt o)) (run_history ex_ifs restart_hist)
     = [(false, false); (false, false); (true, true); (false, false)]
  /\ chk_C04 ex_ifs restart_hist (ex_wakes restart_hist) (map obs_of (run_history ex_ifs restart_hist)) = true.
Proof. exact restart_facts. Qed.

(* Repaired in round 2, now passing: SRV target Host1.local., the address arrives later, alone,
   for host1.local. (TTL 3 s): resolved when it arrives, removed when it runs out. *)
Example C04_example_mixed_case :
  map (fun o => (existsb is_resolved_evt o, existsb is_removed_evt o)) (run_history ex_ifs mixedcase_hist)
  = [(false, false); (false, false); (true, false); (false, false); (false, true); (false, false)]
  /\ chk_C04 ex_ifs mixedcase_hist (ex_wakes mixedcase_hist) (map obs_of (run_history ex_ifs mixedcase_hist)) = true
  /\ chk_C05 ex_ifs mixedcase_hist (ex_wakes mixedcase_hist) (map obs_of (run_history ex_ifs mixedcase_hist)) = true.
Proof. exact mixedcase_facts. Qed.

Print Assumptions C04_resolution_step_partial.
Print Assumptions C04_complete_records_resolve.
Print Assumptions C04_new_record_triggers.
Print Assumptions C04_new_address_triggers.
Print Assumptions C04_new_ptr_found.
Print Assumptions C04_followup_first.
Print Assumptions C04_followup_step.
Print Assumptions C04_followup_three_tries.
Print Assumptions C04_followup_after_srv.
Print Assumptions C04_followup_ends.
Print Assumptions C04_followup_stops_without_ptr.
Print Assumptions C04_followup_not_doubled.
Print Assumptions C04_followup_over_allows_new_round.
Print Assumptions C04_spec_cache_is_model_cache.
Print Assumptions C04_completing_response_resolves_partial.
Print Assumptions C04_at_most_one_resolved.
Print Assumptions C04_one_resolved_example.
Print Assumptions C04_followup_schedule_invariant.
Print Assumptions C04_followup_schedule_example.
Print Assumptions C04_pending_has_followup_queued.
Print Assumptions C04_pending_followup_within_500.
Print Assumptions C04_try_asks_expected.
Print Assumptions C04_pending_example.
Print Assumptions C04_resolved_only_after_found_partial.
Print Assumptions C04_iteration_resolved_only_after_found.
Print Assumptions C04_known_browse_expiring_witness.
Print Assumptions C04_resolved_only_after_found_example.
Print Assumptions C04_complete_is_up_partial.
Print Assumptions C04_iteration_complete_is_up.
Print Assumptions C04_turned_alive_is_updated.
Print Assumptions C04_known_refresh_completes_witness.
Print Assumptions C04_complete_is_up_example.
Print Assumptions C04_followups_as_specified_partial.
Print Assumptions C04_iteration_found_unresolved.
Print Assumptions C04_queued_due_is_tried.
Print Assumptions C04_tried_asks_expected.
Print Assumptions C04_known_overlapping_series_witness.
Print Assumptions C04_known_found_withdrawn_witness.
Print Assumptions C04_known_dotted_witness.
Print Assumptions C04_known_last_second_refresh_witness.
Print Assumptions C04_found_and_resolved_refuted.
Print Assumptions C04_example_followup.
Print Assumptions C04_example_lifecycle.
Print Assumptions C04_example_restart.
Print Assumptions C04_example_mixed_case.
