(* C16  TXT properties survive the trip unchanged.
   Only statements here; every proof is `exact <lemma>` (lemmas in Proofs/TxtProofs.v). *)
From Coq Require Import List NArith Bool.
From Mdns Require Import Res Bytes Utf8 Txt TxtProofs.
Import ListNotations.
Open Scope N_scope.

(* Any property list accepted at creation encodes without panic, and what a browser decodes
   from the published RDATA is the same list - same key bytes (case preserved), same value
   bytes, same order, None vs Some [] kept - with only the first of case-insensitively equal
   keys retained. *)
Theorem C16_txt_roundtrip : forall ps,
  accepted ps = true ->
  exists b, encode_txt ps = Ok b /\ decode_txt_unique b = Ok (dedup_ci ps).
Proof. exact txt_roundtrip. Qed.

(* Without duplicates nothing at all is lost (decode_txt is the exact inverse). *)
Theorem C16_txt_roundtrip_exact : forall ps,
  accepted ps = true ->
  exists b, encode_txt ps = Ok b /\ decode_txt b = Ok ps.
Proof. exact txt_roundtrip_decode. Qed.

(* Case-insensitive lookup sees the same property before and after the trip. *)
Theorem C16_lookup_preserved : forall ps key,
  txt_get (dedup_ci ps) key = txt_get ps key.
Proof. exact txt_get_dedup. Qed.

(* Every encoded string is at most 255 bytes and is exactly the length-prefixed property. *)
Theorem C16_encoded_strings_le_255 : forall ps b,
  encode_txt ps = Ok b ->
  Forall (fun p => (length (prop_bytes p) <= 255)%nat) ps /\
  b = match concat (map encode_one ps) with [] => [0] | x => x end.
Proof. exact encode_txt_shape. Qed.

(* Exactly the unrepresentable property lists are refused at creation. *)
Theorem C16_refused_iff : forall ps,
  accepted ps = false <->
  exists p, In p ps /\
    (is_ascii (fst p) = false \/ contains eq_sign (fst p) = true \/
     (fst p = [] /\ snd p = None) \/ (255 < prop_len p)%nat).
Proof. exact refused_iff. Qed.

(* Decoding arbitrary bytes never panics and never runs out of fuel ... *)
Theorem C16_decode_total : forall txt, exists r, decode_txt_unique txt = Ok r.
Proof. exact decode_txt_unique_total. Qed.

(* ... and every key and value it returns is a contiguous piece of the input. *)
Theorem C16_decode_reads_inside : forall fuel txt r,
  decode_txt_fuel fuel txt = Ok r -> Forall (prop_inside txt) r.
Proof. exact decode_txt_fuel_inside. Qed.

(* Non-vacuity: a concrete accepted list with a boolean key, an empty value, a binary value
   containing '=' and NUL, and a case-variant duplicate. *)
Example C16_accepted_example :
  accepted [ ([107;49], Some [118;61;0;255]); ([75;49], Some []); ([98], None); ([101], Some []) ] = true
  /\ dedup_ci [ ([107;49], Some [118;61;0;255]); ([75;49], Some []); ([98], None); ([101], Some []) ]
     = [ ([107;49], Some [118;61;0;255]); ([98], None); ([101], Some []) ].
Proof. split; vm_compute; reflexivity. Qed.

Print Assumptions C16_txt_roundtrip.
Print Assumptions C16_txt_roundtrip_exact.
Print Assumptions C16_lookup_preserved.
Print Assumptions C16_encoded_strings_le_255.
Print Assumptions C16_refused_iff.
Print Assumptions C16_decode_total.
Print Assumptions C16_decode_reads_inside.
