(* C04, completeness clause over histories: at the end of every iteration every instance that is
   strongly alive under a browsed name is "up" on that name's channel (a ServiceResolved was seen,
   no ServiceRemoved since) - so the checker's F04_complete never fires on the model's trace -
   outside the class "a delivery that is not reported as a new record turns a browsed instance
   strongly alive" (known_refresh_completes) and the classes of safe_class.

   Invariant AU: strongly alive under a browsed name => up on its channel.  Liveness rises only in
   add_or_update (everything else shrinks the cache, time only lowers it); a delivery that raises
   it concerns the instance (aou_frame); if it is reported as new the instance is in `updated` and
   the per-message theorem gives the ServiceResolved; ServiceRemoved is only emitted for
   instances that are not strongly alive (the C05 safety lemmas). *)
From Coq Require Import List NArith Bool Lia.
From Mdns Require Import Res Bytes Rec Wire Txt ParamsBrowser ParamsBrowserPinned Cache Browser C03Spec BrowserSpec
  BrowserKnown CacheProofs CacheInvProofs BrowserProofs BrowserStepProofs SpecTrackProofs C05SafetyProofs
  C04StepProofs AouCasesProofs C04OrderProofs C05AgainProofs C05TimelyProofs.
Import ListNotations.
Open Scope N_scope.

(* ---- what add_or_update reports carries the incoming record ---------------------------------------------- *)

Lemma update_first_res r ifx now : forall b b2 e' rv,
  update_first b r ifx now = Some (b2, (e', rv)) ->
  exists x, In x b /\ entry_matches x r ifx = true /\ e' = reset_ttl x r now.
Proof.
  induction b as [|e t IH]; intros b2 e' rv; simpl; [discriminate|].
  destruct (entry_matches e r ifx) eqn:Em.
  - intros H. inversion H; subst. exists e. auto.
  - destruct (update_first t r ifx now) as [[t' [e1 rv1]]|] eqn:E; [|discriminate].
    intros H. inversion H; subst. destruct (IH t' e' rv eq_refl) as (x & A & B & C). exists x. auto.
Qed.

Lemma aou_res_rr c now ifx r fu e b :
  snd (add_or_update c now ifx r fu) = Some (e, b) ->
  r_name (e_rr e) = r_name r /\ r_type (e_rr e) = r_type r /\ r_data (e_rr e) = r_data r.
Proof.
  unfold add_or_update. set (c1 := note_subtype c r fu).
  destruct (kind_of_type (r_type r)) as [k0|]; [|discriminate].
  destruct (bm_get (key_of k0 (r_name r)) (get_map c1 k0)) as [b0|].
  - destruct b0 as [|e0 t0].
    + destruct fu; simpl; [|discriminate]. intros H. inversion H; subst. auto.
    + match goal with |- context [update_first ?B r ifx now] => destruct (update_first B r ifx now) as [[b2 [e' rv]]|] eqn:EU end.
      * simpl. intros H. inversion H; subst.
        destruct (update_first_res r ifx now _ _ _ _ EU) as (x & _ & Hm & ->).
        unfold entry_matches in Hm. apply rr_matches_spec in Hm as (M1 & M2 & _ & _ & M5 & _).
        unfold reset_ttl, set_ttl. simpl. auto.
      * simpl. intros H. inversion H; subst. auto.
  - destruct fu; simpl; [|discriminate]. intros H. inversion H; subst. auto.
Qed.

Lemma updated_of_app c a b : updated_of c (a ++ b) = updated_of c a ++ updated_of c b.
Proof. unfold updated_of. apply flat_map_app. Qed.

(* hr_records, one record at a time *)
Definition change_of (q : list (bytes * N)) (res : option (entry * bool)) : list (N * bytes) :=
  match res with
  | Some (e, true) =>
    if (e_type e =? TY_PTR) && found_ttl_guard (e_ttl e) then [(TY_PTR, alias_of (e_rr e))]
    else [(e_type e, e_name e)]
  | _ => []
  end.

Lemma hr_records_cons c now ifx q fu r rest :
  fst (fst (hr_records c now ifx q fu (r :: rest)))
  = fst (fst (hr_records (fst (add_or_update c now ifx r fu)) now ifx q fu rest))
  /\ snd (hr_records c now ifx q fu (r :: rest))
     = change_of q (snd (add_or_update c now ifx r fu))
       ++ snd (hr_records (fst (add_or_update c now ifx r fu)) now ifx q fu rest).
Proof.
  simpl. destruct (add_or_update c now ifx r fu) as [c1 res]. cbn [fst snd].
  destruct (hr_records c1 now ifx q fu rest) as [[c2 o2] ch2]. cbn [fst snd].
  destruct res as [[e [|]]|]; simpl; auto.
  destruct ((e_type e =? TY_PTR) && found_ttl_guard (e_ttl e)); simpl; [|auto].
  destruct (q_get (e_name e) q); simpl; auto.
Qed.

Lemma addr_type_not_others t : is_addr_type t = true -> (t =? TY_PTR) || (t =? TY_SRV) || (t =? TY_TXT) = false.
Proof.
  unfold is_addr_type. intros H. apply orb_true_iff in H as [H|H]; apply N.eqb_eq in H; subst; reflexivity.
Qed.

Section Complete.
  Variable Lf : list dlv.
  Hypothesis Hvar : known_ptr_variant Lf = false.
  Hypothesis Htgt : known_srv_targets Lf = false.
  Hypothesis Hnames : ptr_names_ok Lf = true.
  Variable now : N.

  (* a message in which the instance becomes strongly alive, outside the class: it is in `updated` *)
  Lemma hr_turned ifx q fu ty ch inst : forall rs L c,
    Inv L c -> incl (L ++ map (mkDlv now ifx) rs) Lf ->
    records_refresh_only c now ifx q fu rs = false ->
    q_get ty q = Some ch ->
    alive_strong (fst (fst (hr_records c now ifx q fu rs))) now ty inst = true ->
    alive_strong c now ty inst = false ->
    In inst (updated_of (fst (fst (hr_records c now ifx q fu rs))) (snd (hr_records c now ifx q fu rs))).
  Proof.
    induction rs as [|r rest IH]; intros L c HI Hsub Hcls Hq Ha1 Ha0; [simpl in *; congruence|].
    destruct (hr_records_cons c now ifx q fu r rest) as [E1 E2]. rewrite E1 in *. rewrite E2. clear E1 E2.
    simpl in Hcls.
    pose proof (add_or_update_inv L c now ifx r fu HI) as HI1.
    pose proof (aou_res_rr c now ifx r fu) as Hrr.
    pose proof (aou_frame Lf L c now ifx r fu now ty inst HI) as Hframe.
    destruct (add_or_update c now ifx r fu) as [c' res]. cbn [fst snd] in *.
    apply orb_false_iff in Hcls as [Hc1 Hc2].
    assert (Hsub0 : incl L Lf) by (intros x Hx; apply Hsub, in_app_iff; now left).
    assert (Hsub1 : incl ((L ++ [mkDlv now ifx r]) ++ map (mkDlv now ifx) rest) Lf)
      by (rewrite <- app_assoc; exact Hsub).
    destruct (hr_records_spec now ifx q fu rest _ _ HI1) as [HI2 _].
    specialize (IH (L ++ [mkDlv now ifx r]) c' HI1 Hsub1 Hc2 Hq Ha1).
    set (c2 := fst (fst (hr_records c' now ifx q fu rest))) in *.
    rewrite updated_of_app. apply in_app_iff.
    destruct (alive_strong c' now ty inst) eqn:Ea'; [left|right; now apply IH].
    (* the instance becomes strongly alive at this record *)
    assert (Hrel : relevantL Lf inst (mkDlv now ifx r) = true).
    { destruct (relevantL Lf inst (mkDlv now ifx r)) eqn:Er; [reflexivity|].
      rewrite (Hframe Hsub0 eq_refl eq_refl) in Ha0. discriminate. }
    assert (Hnew : reported_new res = true).
    { destruct (reported_new res) eqn:En; [reflexivity|]. exfalso. simpl in Hc1.
      assert (turned_alive c c' q now = true); [|congruence].
      destruct (alive_elim _ _ _ _ Ea') as (pb & p & sb & e & ab & a & Epb & Hp & Hal & _).
      unfold turned_alive. apply existsb_exists. exists (ty, ch). split; [now apply q_get_In|]. cbn [fst].
      rewrite Epb. apply existsb_exists. exists p. split; [exact Hp|]. rewrite Hal, Ea', Ha0. reflexivity. }
    destruct res as [[e [|]]|]; try discriminate. simpl in Hnew. apply negb_true_iff in Hnew.
    destruct (Hrr e true eq_refl) as (Rn & Rt & Rd).
    destruct (alive_elim _ _ _ _ Ha1) as (pb2 & p2 & sb2 & e2 & ab2 & a2 & _ & _ & _ & _ & Esb2 & He2 & _ & Hh2 & _).
    pose proof (relevantL_host Lf Htgt _ c2 inst sb2 e2 (mkDlv now ifx r) HI2 Hsub1 Esb2 He2 Hh2 Hrel) as Hr.
    unfold relevant in Hr. cbn [dl_rr] in Hr. unfold change_of, e_type, e_name in *. rewrite Rt, Rn in *.
    apply orb_true_iff in Hr as [Hr|Hr]; [apply orb_true_iff in Hr as [Hr|Hr]|].
    - (* a PTR record pointing to the instance *)
      apply andb_true_iff in Hr as [T A]. apply beq_eq in A. rewrite T in *. simpl in Hnew.
      apply negb_false_iff in Hnew. rewrite Hnew. simpl. left. unfold alias_of in *. now rewrite Rd.
    - (* its SRV / TXT record *)
      apply andb_true_iff in Hr as [T A]. apply beq_eq in A.
      assert (Hp : (r_type r =? TY_PTR) = false).
      { apply orb_true_iff in T as [T|T]; apply N.eqb_eq in T; rewrite T; reflexivity. }
      rewrite Hp. simpl. rewrite Hp. simpl. rewrite T. simpl. now left.
    - (* an address record of its host *)
      apply andb_true_iff in Hr as [Hr Hlow]. apply andb_true_iff in Hr as [Hat _]. apply beq_eq in Hlow.
      pose proof (addr_type_not_others _ Hat) as Hno.
      assert (Hp : (r_type r =? TY_PTR) = false) by (apply orb_false_iff in Hno as [Hno _]; now apply orb_false_iff in Hno).
      rewrite Hp. simpl. rewrite Hno, Hat. rewrite app_nil_r.
      unfold get_instances_on_host. apply in_flat_map. exists (inst, sb2). split; [now apply bm_get_In|]. simpl.
      destruct sb2 as [|e0 rest2]; [destruct He2|].
      rewrite (one_srv_target Lf Htgt _ c2 HI2 Hsub1 inst (e0 :: rest2) e0 e2 (bm_get_In _ _ _ Esb2) (or_introl eq_refl) He2).
      rewrite <- Hlow, beq_refl. now left.
  Qed.

  (* ---- the invariant ------------------------------------------------------------------------------------------------ *)
  Definition upb (ch : N) (inst : bytes) (ups : list up_entry) : bool := existsb (up_is ch inst) ups.

  Definition AU (c : cache) (q : list (bytes * N)) (ups : list up_entry) : Prop :=
    forall ty ch inst, q_get ty q = Some ch -> alive_strong c now ty inst = true -> upb ch inst ups = true.

  (* the type recorded in an up entry is the type browsed on its channel *)
  Definition BI (q : list (bytes * N)) (ups : list up_entry) : Prop :=
    forall u ty, In u ups -> q_get ty q = Some (fst u) -> ty = fst (snd u).

  Definition sideC (q : list (bytes * N)) (ups : list up_entry) (m : N) : Prop :=
    NoDup (map snd q) /\ (forall tc, In tc q -> snd tc <= m) /\ (forall u, In u ups -> fst u <= m).

  Definition rm_ok (c : cache) (q : list (bytes * N)) (x : out) : Prop :=
    match x with OEvt ch (ERemoved ty i) => In (ty, ch) q /\ alive_strong c now ty i = false | _ => True end.

  Definition res_src (q : list (bytes * N)) (x : out) : Prop :=
    match x with OEvt ch (EResolved r) => q_get (rs_ty r) q = Some ch | _ => True end.

  Lemma upb_add ch inst ch' ty' i' ups :
    upb ch inst ups = true \/ (ch = ch' /\ inst = i') -> upb ch inst (ups_add ch' ty' i' ups) = true.
  Proof.
    unfold upb, ups_add. intros [H|[-> ->]].
    - destruct (existsb (up_is ch' i') ups); [exact H|]. rewrite existsb_app, H. reflexivity.
    - destruct (existsb (up_is ch' i') ups) eqn:E; [exact E|]. rewrite existsb_app. simpl.
      rewrite E. unfold up_is. cbn [existsb fst snd orb]. rewrite N.eqb_refl, beq_refl. reflexivity.
  Qed.

  Lemma upb_del ch inst ch' i' ups :
    upb ch inst ups = true -> (ch =? ch') && beq inst i' = false -> upb ch inst (ups_del ch' i' ups) = true.
  Proof.
    unfold upb, ups_del. intros H Hne. apply existsb_exists in H as [u [Hu Hup]].
    apply existsb_exists. exists u. split; [|exact Hup]. apply filter_In. split; [exact Hu|].
    unfold up_is in *. apply andb_true_iff in Hup as [A B]. apply N.eqb_eq in A. apply beq_eq in B.
    rewrite A, B, Hne. reflexivity.
  Qed.

  Lemma events_stepA c q : forall o ups,
    NoDup (map snd q) -> Forall (rm_ok c q) o ->
    (forall ty ch inst, q_get ty q = Some ch -> alive_strong c now ty inst = true ->
        upb ch inst ups = true \/ exists r, In (OEvt ch (EResolved r)) o /\ rs_name r = inst) ->
    AU c q (upsf ups o).
  Proof.
    induction o as [|x t IH]; intros ups ND Ho H.
    - intros ty ch inst Hq Ha. destruct (H ty ch inst Hq Ha) as [A|(r & [] & _)]. exact A.
    - inversion Ho as [|x0 t0 Hx Ht]; subst. unfold upsf. simpl. apply IH; [exact ND|exact Ht|].
      intros ty ch inst Hq Ha. destruct (H ty ch inst Hq Ha) as [A|(r & [E|Hin] & Hn)].
      + destruct x as [c0 [ty0 i0|r0|ty0 i0]|qs|c0 l]; simpl; auto.
        * left. apply upb_add. now left.
        * left. apply upb_del; [exact A|]. destruct ((ch =? c0) && beq inst i0) eqn:E; [|reflexivity]. exfalso.
          apply andb_true_iff in E as [E1 E2]. apply N.eqb_eq in E1. apply beq_eq in E2. subst c0 i0.
          destruct Hx as [Hin Hal]. apply q_get_In in Hq.
          rewrite (nodup_snd_inj q ty0 ty ch ND Hin Hq) in Hal. congruence.
      + subst x. simpl. left. apply upb_add. right. auto.
      + right. exists r. auto.
  Qed.

  Lemma events_stepB q m : forall o ups,
    NoDup (map snd q) -> (forall tc, In tc q -> snd tc <= m) -> Forall (res_src q) o ->
    BI q ups -> (forall u, In u ups -> fst u <= m) ->
    BI q (upsf ups o) /\ (forall u, In u (upsf ups o) -> fst u <= m).
  Proof.
    intros o ups ND Hm Ho HB Hb.
    assert (G : forall u, In u (upsf ups o) ->
              In u ups \/ exists r, In (OEvt (fst u) (EResolved r)) o /\ snd u = (rs_ty r, rs_name r)).
    { intros u Hu. apply upsf_In in Hu as [[A _]|B]; auto. }
    rewrite Forall_forall in Ho. split.
    - intros u ty Hu Hq. destruct (G u Hu) as [A|(r & Hr & Hs)]; [now apply HB|].
      specialize (Ho _ Hr). simpl in Ho. rewrite Hs. simpl.
      apply q_get_In in Hq, Ho. apply (nodup_snd_inj q ty (rs_ty r) (fst u) ND Hq Ho).
    - intros u Hu. destruct (G u Hu) as [A|(r & Hr & Hs)]; [now apply Hb|].
      specialize (Ho _ Hr). simpl in Ho. apply q_get_In in Ho. exact (Hm _ Ho).
  Qed.

  Definition goodC (L : list dlv) (s : st) (ups : list up_entry) (m : N) : Prop :=
    Inv L (s_cache s) /\ incl L Lf /\ AU (s_cache s) (s_q s) ups /\ BI (s_q s) ups /\ sideC (s_q s) ups m.

  (* events emitted while cache and queriers stand still *)
  Lemma still_stepC L s ups m s' o :
    goodC L s ups m -> s_cache s' = s_cache s -> s_q s' = s_q s ->
    Forall (rm_ok (s_cache s) (s_q s)) o -> Forall (res_src (s_q s)) o ->
    goodC L s' (upsf ups o) m.
  Proof.
    intros (HI & Hsub & HA & HB & (S1 & S2 & S3)) Ec Eq Hrm Hrs.
    destruct (events_stepB (s_q s) m o ups S1 S2 Hrs HB S3) as [HB' S3'].
    unfold goodC. rewrite Ec, Eq. split; [exact HI|]. split; [exact Hsub|]. split.
    - apply events_stepA; [exact S1|exact Hrm|]. intros ty ch inst Hq Ha. left. now apply (HA ty ch inst).
    - split; [exact HB'|]. split; [exact S1|]. split; [exact S2|exact S3'].
  Qed.

  Lemma silent_shrink_stepC L s ups m s' o :
    goodC L s ups m -> Inv L (s_cache s') -> shrinks_to (s_cache s) (s_cache s') -> s_q s' = s_q s ->
    Forall silent5 o -> goodC L s' (upsf ups o) m.
  Proof.
    intros (HI & Hsub & HA & HB & HS) HI' Hsh Eq Ho. rewrite (silent_upsf o ups Ho).
    unfold goodC. rewrite Eq. split; [exact HI'|]. split; [exact Hsub|]. split; [|split; assumption].
    intros ty ch inst Hq Ha. apply (HA ty ch inst Hq). eapply alive_shrinks; eauto.
  Qed.

  Lemma evt_ok_rm c q x : evt_ok c q now x -> rm_ok c q x.
  Proof. destruct x as [ch [ty i|r|ty i]|qs|ch l]; simpl; auto. Qed.

  Lemma resolve_updated_src s updated :
    Forall (res_src (s_q s)) (snd (resolve_updated s now updated)).
  Proof.
    apply Forall_forall. intros x Hx. destruct x as [ch [ty i|r|ty i]|qs|ch l]; simpl; auto.
    destruct (resolve_updated_resolved_full s now updated ch r Hx) as (ty & ptrs & p & _ & B & _ & _ & F & _).
    subst r. exact B.
  Qed.

  Lemma resolve_updated_stepC L s ups m updated :
    goodC L s ups m ->
    goodC L (fst (resolve_updated s now updated)) (upsf ups (snd (resolve_updated s now updated))) m.
  Proof.
    intros Hg. pose proof Hg as (HI & Hsub & _).
    destruct (resolve_updated_state s now updated) as [E1 E2].
    apply (still_stepC L s ups m); auto.
    - eapply Forall_impl; [|apply (resolve_updated_evts Lf Htgt Hnames now L s updated HI Hsub)].
      intros x. apply evt_ok_rm.
    - apply resolve_updated_src.
  Qed.

  (* ---- responses ---------------------------------------------------------------------------------------------------- *)
  Lemma handle_read_stepC ifs L s d ups m :
    goodC L s ups m -> incl (L ++ dgram_dlvs ifs now d) Lf -> read_refresh_only ifs s now d = false ->
    goodC (L ++ dgram_dlvs ifs now d) (fst (handle_read ifs s now d)) (upsf ups (snd (handle_read ifs s now d))) m.
  Proof.
    intros Hg Hsub1 Hcls. pose proof Hg as (HI & Hsub & HA & HB & (S1 & S2 & S3)).
    unfold handle_read, read_refresh_only, dgram_dlvs in *. destruct (accepted_msg ifs d) as [msg|].
    2:{ simpl. rewrite app_nil_r. exact Hg. }
    fold (msg_records msg) in *.
    pose proof (fun ty ch => completing_response_resolves Lf Hvar Htgt Hnames L s now (d_if d) msg ty ch HI Hsub1) as Hcomp.
    pose proof (fun ty ch inst => hr_turned (d_if d) (s_q s) (for_us (s_q s) (m_answers msg)) ty ch inst
                                    (msg_records msg) L (s_cache s) HI Hsub1 Hcls) as Hturn.
    unfold handle_response in *. fold (msg_records msg) in *.
    destruct (hr_records_spec now (d_if d) (s_q s) (for_us (s_q s) (m_answers msg)) (msg_records msg) _ _ HI) as [HI1 _].
    pose proof (hr_records_found_only now (d_if d) (s_q s) (for_us (s_q s) (m_answers msg)) (msg_records msg) (s_cache s)) as Ho1.
    destruct (hr_records (s_cache s) now (d_if d) (s_q s) (for_us (s_q s) (m_answers msg)) (msg_records msg))
      as [[c1 o1] changes]. cbn [fst snd] in *.
    destruct (resolve_updated_state (with_cache s c1) now (updated_of c1 changes)) as [Ec Eq].
    pose proof (resolve_updated_evts Lf Htgt Hnames now _ (with_cache s c1) (updated_of c1 changes) HI1 Hsub1) as Hev.
    pose proof (resolve_updated_src (with_cache s c1) (updated_of c1 changes)) as Hsrc.
    destruct (resolve_updated (with_cache s c1) now (updated_of c1 changes)) as [s2 o2]. cbn [fst snd s_cache s_q with_cache] in *.
    rewrite upsf_app, (silent_upsf o1 ups (only_found_silent _ Ho1)).
    destruct (events_stepB (s_q s) m o2 ups S1 S2 Hsrc HB S3) as [HB' S3'].
    unfold goodC. rewrite Ec, Eq. split; [exact HI1|]. split; [exact Hsub1|]. split.
    - apply events_stepA; [exact S1| |].
      + eapply Forall_impl; [|exact Hev]. intros x. apply evt_ok_rm.
      + intros ty ch inst Hq Ha. destruct (alive_strong (s_cache s) now ty inst) eqn:Ea0; [left; now apply (HA ty ch inst)|right].
        pose proof (Hturn ty ch inst Hq Ha Ea0) as Hupd.
        destruct (alive_elim _ _ _ _ Ha) as (pb & p & sb & e & ab & a & Epb & Hp & Hal & Hps & _).
        destruct (Hcomp ty ch Hq pb p (bm_get_In _ _ _ Epb) Hp Hps) as [_ Hin]; [now rewrite Hal|now rewrite Hal|].
        exists (resolve_from_cache c1 now ty (alias_of (e_rr p))). split; [|now rewrite <- Hal].
        apply in_app_iff in Hin as [Hin|Hin]; [|exact Hin]. rewrite Forall_forall in Ho1. destruct (Ho1 _ Hin).
    - split; [exact HB'|]. split; [exact S1|]. split; [exact S2|exact S3'].
  Qed.

  Lemma reads_stepC ifs : forall ds L s ups m,
    goodC L s ups m -> incl (L ++ flat_map (dgram_dlvs ifs now) ds) Lf -> reads_refresh_only ifs s now ds = false ->
    goodC (L ++ flat_map (dgram_dlvs ifs now) ds) (fst (run_cmds (handle_read ifs) s now ds))
          (upsf ups (snd (run_cmds (handle_read ifs) s now ds))) m.
  Proof.
    induction ds as [|d rest IH]; intros L s ups m Hg Hsub Hcls; simpl in *.
    - rewrite app_nil_r. exact Hg.
    - apply orb_false_iff in Hcls as [Hh1 Hh2]. rewrite app_assoc in Hsub.
      assert (Hsub1 : incl (L ++ dgram_dlvs ifs now d) Lf)
        by (intros x Hx; apply Hsub, in_app_iff; now left).
      pose proof (handle_read_stepC ifs L s d ups m Hg Hsub1 Hh1) as H1.
      destruct (handle_read ifs s now d) as [s1 o1]. cbn [fst snd] in *.
      pose proof (IH _ s1 _ m H1 Hsub Hh2) as H2.
      destruct (run_cmds (handle_read ifs) s1 now rest) as [s2 o2]. cbn [fst snd] in *.
      rewrite upsf_app, app_assoc. exact H2.
  Qed.

  (* ---- commands ---------------------------------------------------------------------------------------------------------- *)
  Lemma qc_ptrs_complete c ty ch : forall ptrs p,
    In p ptrs -> expires_soon p now = false -> is_valid (resolve_from_cache c now ty (alias_of (e_rr p))) = true ->
    In (OEvt ch (EResolved (resolve_from_cache c now ty (alias_of (e_rr p))))) (fst (fst (qc_ptrs c now ty ch ptrs))).
  Proof.
    induction ptrs as [|p0 rest IH]; intros p Hin Hs Hv; simpl; [destruct Hin|].
    specialize (IH p). destruct (qc_ptrs c now ty ch rest) as [[o res] unres]. simpl in *.
    destruct Hin as [->|Hin].
    - rewrite Hs, Hv. simpl. right. now left.
    - destruct (expires_soon p0 now); [now apply IH|].
      destruct (is_valid (resolve_from_cache c now ty (alias_of (e_rr p0)))); simpl; auto.
  Qed.

  Lemma q_remove_nodup ty q : NoDup (map snd q) -> NoDup (map snd (q_remove ty q)).
  Proof.
    unfold q_remove. induction q as [|[t c] r IH]; simpl; intros ND; [constructor|].
    inversion ND as [|x l Hx ND']; subst. destruct (negb (beq ty t)); simpl; [|now apply IH].
    constructor; [|now apply IH]. intros Hin. apply Hx. apply in_map_iff in Hin as [tc [E Hin]].
    apply filter_In in Hin as [Hin _]. apply in_map_iff. exists tc. auto.
  Qed.

  Lemma exec_call_stepC L s ups m cl m' :
    goodC L s ups m -> call_fresh m cl = Some m' ->
    goodC L (fst (exec_call s now cl)) (upsf ups (snd (exec_call s now cl))) m'.
  Proof.
    intros Hg Hfr. pose proof Hg as (HI & Hsub & HA & HB & (S1 & S2 & S3)).
    destruct cl as [ty ch|ty2|inst timeout|ch]; simpl in *.
    - (* browse: a fresh channel *)
      destruct (m <? ch) eqn:Em; [|discriminate]. inversion Hfr; subst m'. apply N.ltb_lt in Em.
      unfold exec_browse. set (q' := q_set ty ch (s_q s)).
      assert (ND' : NoDup (map snd q')).
      { apply q_set_nodup; [exact S1|]. intros Hin. apply in_map_iff in Hin as [tc [E Hin]]. specialize (S2 _ Hin). lia. }
      assert (Hm' : forall tc, In tc q' -> snd tc <= ch).
      { intros tc Hin. apply q_set_In in Hin as [Hin|Hin]; [specialize (S2 _ Hin); lia|lia]. }
      assert (HB0 : BI q' ups).
      { intros u ty0 Hu Hq. unfold q' in Hq. rewrite q_get_q_set in Hq. destruct (beq ty0 ty).
        - inversion Hq. specialize (S3 _ Hu). lia.
        - now apply HB. }
      assert (S3' : forall u, In u ups -> fst u <= ch) by (intros u Hu; specialize (S3 _ Hu); lia).
      destruct (bm_get ty (c_ptr (s_cache s))) as [ptrs|] eqn:Eb.
      + pose proof (qc_ptrs_shape (s_cache s) now ty ch ptrs) as Hsh.
        pose proof (qc_ptrs_complete (s_cache s) ty ch ptrs) as Hcp.
        destruct (qc_ptrs (s_cache s) now ty ch ptrs) as [[o res] unres]. cbn [fst snd] in *.
        assert (Hrm : Forall (rm_ok (s_cache s) q') o).
        { apply Forall_forall. intros x Hx. destruct (Hsh x Hx) as [[i ->]|(p & _ & _ & -> & _)]; exact I. }
        assert (Hrs : Forall (res_src q') o).
        { apply Forall_forall. intros x Hx. destruct (Hsh x Hx) as [[i ->]|(p & _ & _ & -> & _)]; [exact I|].
          simpl. unfold q'. now rewrite q_get_q_set, beq_refl. }
        destruct (events_stepB q' ch o ups ND' Hm' Hrs HB0 S3') as [HB' S3''].
        unfold goodC. rewrite fold_pending_cache, fold_mark_cache, fold_pending_q, fold_mark_q. cbn [s_cache s_q].
        split; [exact HI|]. split; [exact Hsub|]. split.
        * apply events_stepA; [exact ND'|exact Hrm|]. intros ty0 ch0 inst Hq Ha.
          unfold q' in Hq. rewrite q_get_q_set in Hq. destruct (beq ty0 ty) eqn:Et.
          -- apply beq_eq in Et. subst ty0. inversion Hq; subst ch0. right.
             destruct (alive_elim _ _ _ _ Ha) as (pb & p & sb & e & ab & a & Epb & Hp & Hal & Hps & _).
             rewrite Eb in Epb. inversion Epb; subst pb.
             exists (resolve_from_cache (s_cache s) now ty (alias_of (e_rr p))). split; [|now rewrite <- Hal].
             apply Hcp; [exact Hp|exact Hps|].
             apply (alive_is_valid Lf Htgt Hnames L (s_cache s) now ty ptrs p HI Hsub (bm_get_In _ _ _ Eb) Hp). now rewrite Hal.
          -- left. now apply (HA ty0 ch0 inst).
        * split; [exact HB'|]. split; [exact ND'|]. split; [exact Hm'|exact S3''].
      + simpl. split; [exact HI|]. split; [exact Hsub|]. split.
        * intros ty0 ch0 inst Hq Ha. cbn [s_q s_cache] in *. fold q' in Hq. unfold q' in Hq. rewrite q_get_q_set in Hq.
          destruct (beq ty0 ty) eqn:Et; [|now apply (HA ty0 ch0 inst)].
          apply beq_eq in Et. subst ty0. destruct (alive_elim _ _ _ _ Ha) as (pb & p & sb & e & ab & a & Epb & _). congruence.
        * split; [exact HB0|]. split; [exact ND'|]. split; [exact Hm'|exact S3'].
    - (* stop *)
      inversion Hfr; subst m'. unfold exec_stop. destruct (q_get ty2 (s_q s)) eqn:Eq; [|exact Hg].
      simpl. pose proof (cshr_remove_service_type L (s_cache s) ty2 HI) as Hs.
      split; [eapply Inv_shr; eauto|]. split; [exact Hsub|]. cbn [s_q s_cache]. split.
      + intros ty0 ch0 inst Hq Ha. apply q_get_q_remove in Hq. apply (HA ty0 ch0 inst Hq).
        eapply alive_shrinks; eauto using cshr_shrinks.
      + split.
        * intros u ty0 Hu Hq. apply q_get_q_remove in Hq. now apply HB.
        * split; [now apply q_remove_nodup|]. split; [|exact S3].
          intros tc Hin. apply filter_In in Hin as [Hin _]. now apply S2.
    - (* verify *)
      inversion Hfr; subst m'.
      unfold exec_verify. pose proof (cshr_verify L (s_cache s) inst (Some (now + timeout)) HI) as Hs.
      destruct (service_verify_queries (s_cache s) inst (Some (now + timeout))) as [c1 qs]. cbn [fst] in Hs.
      assert (H1 : Inv L c1) by (eapply Inv_shr; eauto).
      destruct qs as [|q0 qs]; cbn [fst snd].
      + apply (silent_shrink_stepC L s ups m (with_cache s c1) []); auto using cshr_shrinks.
      + apply (silent_shrink_stepC L s ups m); auto using cshr_shrinks; repeat constructor.
    - inversion Hfr; subst m'. exact Hg.
  Qed.

  Lemma calls_stepC L : forall cls s ups m m',
    goodC L s ups m -> calls_fresh m cls = Some m' ->
    goodC L (fst (run_cmds exec_call s now cls)) (upsf ups (snd (run_cmds exec_call s now cls))) m'.
  Proof.
    induction cls as [|cl rest IH]; intros s ups m m' Hg Hfr; simpl in *.
    - inversion Hfr; subst. exact Hg.
    - destruct (call_fresh m cl) as [m1|] eqn:E1; [|discriminate].
      pose proof (exec_call_stepC L s ups m cl m1 Hg E1) as H1.
      destruct (exec_call s now cl) as [s1 o1]. cbn [fst snd] in *.
      pose proof (IH s1 _ m1 m' H1 Hfr) as H2.
      destruct (run_cmds exec_call s1 now rest) as [s2 o2]. cbn [fst snd] in *.
      rewrite upsf_app. exact H2.
  Qed.

  Lemma rcmd_stepC L s ups m c : goodC L s ups m -> goodC L (fst (exec_rcmd s now c)) (upsf ups (snd (exec_rcmd s now c))) m.
  Proof.
    intros Hg. pose proof Hg as (HI & _). destruct c as [inst n|inst timeout]; simpl.
    - unfold exec_resolve.
      assert (Hq : Forall silent5 (snd (if has_ptr_to (s_cache s) inst then query_unresolved (s_cache s) inst else (false, [])))).
      { destruct (has_ptr_to (s_cache s) inst); [|constructor].
        unfold query_unresolved. destruct (negb (valid_instance_name inst)); [constructor|].
        destruct (bm_get inst (c_srv (s_cache s))); [|constructor; [exact I|constructor]].
        match goal with |- context [find ?f ?l] => destruct (find f l) end;
          [constructor; [exact I|constructor]|constructor]. }
      destruct (if has_ptr_to (s_cache s) inst then query_unresolved (s_cache s) inst else (false, [])) as [sent o].
      cbn [snd] in Hq.
      destruct (sent && retry_guard n max_try); cbn [fst snd];
        apply (silent_shrink_stepC L s ups m); auto using shrinks_refl.
    - unfold exec_verify. pose proof (cshr_verify L (s_cache s) inst None HI) as Hsh.
      destruct (service_verify_queries (s_cache s) inst None) as [c1 qs]. cbn [fst] in Hsh.
      assert (H1 : Inv L c1) by (eapply Inv_shr; eauto).
      destruct qs as [|q0 qs]; cbn [fst snd].
      + apply (silent_shrink_stepC L s ups m (with_cache s c1) []); auto using cshr_shrinks.
      + apply (silent_shrink_stepC L s ups m (with_cache s c1)); auto using cshr_shrinks; repeat constructor.
  Qed.

  Lemma rcmds_stepC L : forall l s ups m,
    goodC L s ups m -> goodC L (fst (run_cmds exec_rcmd s now l)) (upsf ups (snd (run_cmds exec_rcmd s now l))) m.
  Proof.
    induction l as [|c rest IH]; intros s ups m Hg; simpl; [exact Hg|].
    pose proof (rcmd_stepC L s ups m c Hg) as H1. destruct (exec_rcmd s now c) as [s1 o1]. cbn [fst snd] in *.
    pose proof (IH s1 _ m H1) as H2. destruct (run_cmds exec_rcmd s1 now rest) as [s2 o2]. cbn [fst snd] in *.
    rewrite upsf_app. exact H2.
  Qed.

  (* ---- the evictions -------------------------------------------------------------------------------------------------------- *)
  Lemma resolve_hosts_stepC L names : forall s ups m,
    goodC L s ups m -> goodC L (fst (resolve_hosts s now names)) (upsf ups (snd (resolve_hosts s now names))) m.
  Proof.
    induction names as [|h t IH]; intros s ups m Hg; simpl; [exact Hg|].
    pose proof (resolve_updated_stepC L s ups m (dedup (get_instances_on_host (s_cache s) h)) Hg) as H1.
    destruct (resolve_updated s now (dedup (get_instances_on_host (s_cache s) h))) as [s1 o1]. cbn [fst snd] in *.
    pose proof (IH s1 _ m H1) as H2. destruct (resolve_hosts s1 now t) as [s2 o2]. cbn [fst snd] in *.
    rewrite upsf_app. exact H2.
  Qed.

  Lemma evict_stepC L s ups m : goodC L s ups m -> goodC L (fst (evict s now)) (upsf ups (snd (evict s now))) m.
  Proof.
    intros (HI & Hsub & HA & HB & HS). unfold evict.
    pose proof (cshr_evict_services L (s_cache s) now HI) as Hs1.
    pose proof (evicted_not_alive Lf L (s_cache s) now) as Hev.
    destruct (evict_services (s_cache s) now) as [c1 expired]. cbn [fst snd] in *.
    assert (H1 : Inv L c1) by (eapply Inv_shr; eauto).
    pose proof (cshr_evict_addr L c1 now H1) as Hs2.
    destruct (evict_addr c1 now) as [c2 names]. cbn [fst] in *.
    assert (H2 : Inv L c2) by (eapply Inv_shr; eauto).
    assert (Hg2 : goodC L (with_cache s c2) ups m).
    { unfold goodC. cbn [s_cache s_q with_cache]. split; [exact H2|]. split; [exact Hsub|]. split; [|split; assumption].
      intros ty ch inst Hq Ha. apply (HA ty ch inst Hq). apply (alive_shrinks L (s_cache s) c2); [exact HI| |exact Ha].
      eapply shrinks_trans; apply cshr_shrinks; eassumption. }
    assert (Ho1 : Forall (rm_ok c2 (s_q s)) (notify_removal (s_q s) expired)).
    { apply Forall_forall. intros x Hx. apply notify_removal_shape in Hx as (ch & t & i & -> & Hq & Hin).
      simpl. split; [exact Hq|]. apply (Hev t i Hvar HI Hsub Hin). }
    assert (Ho1' : Forall (res_src (s_q s)) (notify_removal (s_q s) expired)).
    { apply Forall_forall. intros x Hx. apply notify_removal_shape in Hx as (ch & t & i & -> & _). exact I. }
    pose proof (still_stepC L (with_cache s c2) ups m (with_cache s c2) _ Hg2 eq_refl eq_refl Ho1 Ho1') as St1.
    pose proof (resolve_hosts_stepC L (dedup names) (with_cache s c2) _ m St1) as St2.
    destruct (resolve_hosts (with_cache s c2) now (dedup names)) as [s2 o2]. cbn [fst snd] in *.
    rewrite upsf_app. exact St2.
  Qed.

  (* ---- one iteration ---------------------------------------------------------------------------------------------------------- *)
  Theorem iterate_complete ifs prev s it ups m m' :
    i_now it = now -> goodC prev s ups m -> incl (prev ++ iter_dlvs ifs it) Lf ->
    calls_fresh m (i_calls it) = Some m' ->
    reads_refresh_only ifs s now (deliveries_in_order (i_dgrams it)) = false ->
    goodC (prev ++ iter_dlvs ifs it) (fst (iterate ifs s it)) (upsf ups (snd (iterate ifs s it))) m'.
  Proof.
    intros Enow Hg Hsub Hfr Hcls. unfold iterate, iter_dlvs in *. cbv zeta in *. rewrite Enow in *.
    set (dgs := deliveries_in_order (i_dgrams it)) in *.
    pose proof (reads_stepC ifs dgs prev s ups m Hg Hsub Hcls) as St1.
    destruct (run_cmds (handle_read ifs) s now dgs) as [s1 o1]. cbn [fst snd] in *.
    pose proof (calls_stepC _ (i_calls it) s1 _ m m' St1 Hfr) as St2.
    destruct (run_cmds exec_call s1 now (i_calls it)) as [s2 o2]. cbn [fst snd] in *.
    unfold run_retrans in *.
    set (keep := filter (fun tc => negb (fst tc <=? now)) (s_retrans s2)) in *.
    assert (Hg2 : goodC (prev ++ flat_map (dgram_dlvs ifs now) dgs)
                        (mkSt (s_cache s2) (s_q s2) (s_pending s2) (s_resolved s2) keep) (upsf (upsf ups o1) o2) m')
      by exact St2.
    pose proof (rcmds_stepC _ (map snd (filter (fun tc => fst tc <=? now) (s_retrans s2))) _ _ m' Hg2) as St3.
    destruct (run_cmds exec_rcmd (mkSt (s_cache s2) (s_q s2) (s_pending s2) (s_resolved s2) keep) now
                (map snd (filter (fun tc => fst tc <=? now) (s_retrans s2)))) as [s3 o3]. cbn [fst snd] in *.
    pose proof St3 as (HI3 & _).
    pose proof (refresh_all_silent now (s_q s3) (s_cache s3)) as Q4.
    pose proof (refresh_all_shrinks now _ (s_q s3) (s_cache s3) HI3) as S4.
    destruct (refresh_all_spec prev (flat_map (dgram_dlvs ifs now) dgs) now (s_q s3) (s_cache s3) HI3) as [HI4 _].
    destruct (refresh_all (s_cache s3) now (s_q s3)) as [c4 o4]. cbn [fst snd] in *.
    pose proof (silent_shrink_stepC _ s3 _ m' (with_cache s3 c4) o4 St3 HI4 S4 eq_refl Q4) as St4.
    pose proof (evict_stepC _ (with_cache s3 c4) _ m' St4) as St5.
    destruct (evict (with_cache s3 c4) now) as [s5 o5]. cbn [fst snd] in *.
    rewrite !upsf_app. exact St5.
  Qed.
End Complete.

(* ---- the checker on the model's trace: no F04_complete ------------------------------------------------------- *)

Definition no_complete (fs : list fail) : Prop := forall f, In f fs -> is_complete_fail f = false.

Lemma no_complete_app a b : no_complete a -> no_complete b -> no_complete (a ++ b).
Proof. intros Ha Hb f Hf. apply in_app_iff in Hf as [Hf|Hf]; auto. Qed.

Lemma no_complete_nil : no_complete [].
Proof. intros f []. Qed.

Lemma no_complete_flat {A} (f : A -> list fail) l :
  (forall a x, In x (f a) -> is_complete_fail x = false) -> no_complete (flat_map f l).
Proof. intros H x Hx. apply in_flat_map in Hx as [a [_ Ha]]. eauto. Qed.

Lemma fold_no_complete {A B} (f : A * list fail -> B -> A * list fail) :
  (forall acc i, no_complete (snd acc) -> no_complete (snd (f acc i))) ->
  forall l acc, no_complete (snd acc) -> no_complete (snd (fold_left f l acc)).
Proof. intros Hf. induction l as [|i t IH]; intros acc H; simpl; [exact H|]. apply IH, Hf, H. Qed.

Lemma fold_ev04_ups k : forall o ups found nf rn rm fs,
  no_complete fs ->
  let r := fold_left (ev04 k) (evs o) (ups, found, nf, rn, rm, fs) in
  no_complete (snd r) /\ fst (fst (fst (fst (fst r)))) = upsf ups o.
Proof.
  induction o as [|x t IH]; intros ups found nf rn rm fs Hfs; simpl; [auto|].
  rewrite evs_cons. rewrite fold_left_app.
  destruct x as [c [ty i|r|ty i]|qs|c l]; simpl in *.
  - apply IH. exact Hfs.
  - apply IH. match goal with |- context [if ?b then _ else _] => destruct b end; [exact Hfs|].
    apply no_complete_app; [exact Hfs|]. intros f [<-|[]]. reflexivity.
  - apply IH. exact Hfs.
  - apply IH. exact Hfs.
  - apply IH. exact Hfs.
Qed.

Lemma In_q_get ty ch (q : list (bytes * N)) : NoDup (map fst q) -> In (ty, ch) q -> q_get ty q = Some ch.
Proof.
  induction q as [|[t c] r IH]; simpl; [tauto|]. intros ND [H|H].
  - inversion H; subst. now rewrite beq_refl.
  - inversion ND as [|x l Hx ND']; subst. destruct (beq ty t) eqn:E; [|now apply IH].
    apply beq_eq in E. subst t. exfalso. apply Hx. apply in_map_iff. exists (ty, ch). auto.
Qed.

Lemma upb_current q ups ch ty inst :
  BI q ups -> q_get ty q = Some ch -> upb ch inst ups = true -> upb ch inst (ups_current q ups) = true.
Proof.
  intros HB Hq H. unfold upb in *. apply existsb_exists in H as [u [Hu Hup]].
  apply existsb_exists. exists u. split; [|exact Hup]. unfold ups_current. apply filter_In. split; [exact Hu|].
  unfold up_is in Hup. apply andb_true_iff in Hup as [A _]. apply N.eqb_eq in A.
  rewrite <- A in Hq. rewrite <- (HB u ty Hu Hq). rewrite Hq. apply N.eqb_refl.
Qed.

Lemma step04_complete ifs k t it w o s1 :
  tracks s1 (snd (iter_snaps ifs (t4_sp t) it)) ->
  NoDup (map fst (s_q s1)) ->
  AU (i_now it) (s_cache s1) (s_q s1) (upsf (t4_ups t) o) -> BI (s_q s1) (upsf (t4_ups t) o) ->
  no_complete (snd (step04 ifs k t it w (obs_of o)))
  /\ t4_sp (fst (step04 ifs k t it w (obs_of o))) = snd (iter_snaps ifs (t4_sp t) it)
  /\ t4_ups (fst (step04 ifs k t it w (obs_of o)))
     = ups_current (sp_q (snd (iter_snaps ifs (t4_sp t) it))) (upsf (t4_ups t) o).
Proof.
  intros [Hc Hq] HND HA HB. unfold step04.
  destruct (iter_snaps ifs (t4_sp t) it) as [[ds sp2] sp3]. cbn [snd] in *.
  pose proof (fold_ev04_ups k o (t4_ups t) (t4_found t) [] [] [] [] no_complete_nil) as Hf. cbv zeta in Hf.
  fold (evs o). revert Hf.
  destruct (fold_left (ev04 k) (evs o) (t4_ups t, t4_found t, [], [], [], []))
    as [[[[[ups1 found1] newfound] rnow] rmnow] fsE]. intros Hf. cbn [fst snd] in Hf. destruct Hf as [HfE Hups]. subst ups1.
  match goal with |- context [fold_left ?f ?l (?a, ?b)] =>
    match type of a with list (bytes * (N * (bool * N))) => destruct (fold_left f l (a, b)) as [oblig2 open2] end end.
  match goal with |- context [fold_left ?f ?l (?a, @nil fail)] =>
    assert (HQ2 : no_complete (snd (fold_left f l (a, @nil fail))));
    [ apply fold_no_complete; [|exact no_complete_nil]; intros acc i H;
      match goal with |- context [if ?b then _ else _] => destruct b end; [|exact H]; cbn [fst snd];
      match goal with |- context [if ?b then _ else _] => destruct b end; [|exact H];
      apply no_complete_app; [exact H|]; intros f0 [<-|[]]; reflexivity
    | destruct (fold_left f l (a, @nil fail)) as [any2 fsQ2] ] end.
  cbn [fst snd t4_sp t4_ups] in *. split; [|split; reflexivity].
  apply no_complete_app.
  { apply no_complete_flat. intros a x Hx. destruct (expected_followup (sp_c sp2) (fst a)); [|destruct Hx].
    destruct (q_mem _ _); [destruct Hx|]. destruct Hx as [<-|[]]. reflexivity. }
  apply no_complete_app; [exact HfE|]. apply no_complete_app.
  { (* the completeness clause *)
    intros f Hf. apply in_flat_map in Hf as [[ty ch] [Htc Hf]]. apply in_flat_map in Hf as [inst [_ Hf]].
    cbn [fst snd] in Hf.
    destruct (alive_strong (sp_c sp3) (i_now it) ty inst) eqn:Ea; [|destruct Hf].
    rewrite <- (alive_strong_ceqr _ _ (i_now it) ty inst Hc) in Ea.
    rewrite <- Hq in Htc. pose proof (In_q_get ty ch _ HND Htc) as Hqg.
    pose proof (HA ty ch inst Hqg Ea) as Hup.
    pose proof (upb_current _ _ ch ty inst HB Hqg Hup) as Hup2. unfold upb in Hup2. rewrite Hq in Hup2.
    rewrite Hup2 in Hf. rewrite andb_false_r in Hf. destruct Hf. }
  apply no_complete_app.
  { apply no_complete_flat. intros a x Hx. destruct (fst (snd (snd a))); [destruct Hx|].
    destruct w as [w0|]; [destruct (w0 <=? fst (snd a)); [destruct Hx|]|]; destruct Hx as [<-|[]]; reflexivity. }
  apply no_complete_app; [|exact HQ2].
  apply no_complete_flat. intros a x Hx. destruct (labels_mem a _); [destruct Hx|]. destruct Hx as [<-|[]]. reflexivity.
Qed.

(* ---- the browsed names never hold a type twice ------------------------------------------------------------------- *)

Lemma q_set_keys ty ch q : forall t, In t (map fst (q_set ty ch q)) -> In t (map fst q) \/ t = ty.
Proof.
  induction q as [|[t0 c0] r IH]; simpl; intros t.
  - intros [<-|[]]. now right.
  - destruct (beq ty t0) eqn:E; simpl; intros [<-|H]; auto. destruct (IH t H); auto.
Qed.

Lemma q_set_nodup_fst ty ch q : NoDup (map fst q) -> NoDup (map fst (q_set ty ch q)).
Proof.
  induction q as [|[t0 c0] r IH]; simpl; intros ND; [constructor; [tauto|constructor]|].
  inversion ND as [|x l Hx ND']; subst. destruct (beq ty t0) eqn:E; simpl.
  - constructor; assumption.
  - constructor; [|now apply IH]. intros Hin. apply q_set_keys in Hin as [Hin|Hin]; [now apply Hx|].
    subst t0. now rewrite beq_refl in E.
Qed.

Lemma q_remove_nodup_fst ty q : NoDup (map fst q) -> NoDup (map fst (q_remove ty q)).
Proof.
  unfold q_remove. induction q as [|[t c] r IH]; simpl; intros ND; [constructor|].
  inversion ND as [|x l Hx ND']; subst. destruct (negb (beq ty t)); simpl; [|now apply IH].
  constructor; [|now apply IH]. intros Hin. apply Hx. apply in_map_iff in Hin as [tc [E Hin]].
  apply filter_In in Hin as [Hin _]. apply in_map_iff. exists tc. auto.
Qed.

Lemma spec_dgram_q ifs now sp d : sp_q (spec_dgram ifs now sp d) = sp_q sp.
Proof.
  unfold spec_dgram. destruct (accepted_msg ifs d) as [m|]; [|reflexivity]. unfold spec_msg.
  destruct (hr_records (sp_c sp) now (d_if d) (sp_q sp) (for_us (sp_q sp) (m_answers m)) (msg_records m)) as [[c1 o1] ch1].
  reflexivity.
Qed.

Lemma last_scan_q ifs now : forall ds sp, sp_q (last (scan (spec_dgram ifs now) sp ds) sp) = sp_q sp.
Proof.
  induction ds as [|d rest IH]; intros sp; [reflexivity|]. simpl scan.
  destruct (scan (spec_dgram ifs now) (spec_dgram ifs now sp d) rest) as [|x xs] eqn:E.
  - simpl. apply spec_dgram_q.
  - specialize (IH (spec_dgram ifs now sp d)). rewrite E in IH.
    change (last (spec_dgram ifs now sp d :: x :: xs) sp) with (last (x :: xs) sp).
    assert (Hl : forall d0, last (x :: xs) d0 = last (x :: xs) (spec_dgram ifs now sp d)).
    { clear. generalize x. induction xs as [|y ys IHy]; intros x0 d0; [reflexivity|]. simpl. apply (IHy y). }
    rewrite (Hl sp), IH. apply spec_dgram_q.
Qed.

Lemma spec_call_nodup now sp cl : NoDup (map fst (sp_q sp)) -> NoDup (map fst (sp_q (spec_call now sp cl))).
Proof.
  intros H. destruct cl as [ty ch|ty|inst timeout|ch]; simpl; auto.
  - now apply q_set_nodup_fst.
  - destruct (q_get ty (sp_q sp)); simpl; [now apply q_remove_nodup_fst|exact H].
Qed.

Lemma iter_snaps_nodup ifs sp it :
  NoDup (map fst (sp_q sp)) -> NoDup (map fst (sp_q (snd (iter_snaps ifs sp it)))).
Proof.
  intros H. unfold iter_snaps. cbn [snd]. unfold spec_evict.
  match goal with |- context [evict_services ?c ?n] => destruct (evict_services c n) as [c1 ex] end.
  destruct (evict_addr c1 (i_now it)) as [c2 names]. cbn [sp_q].
  assert (G : forall cls sp0, NoDup (map fst (sp_q sp0)) -> NoDup (map fst (sp_q (fold_left (spec_call (i_now it)) cls sp0)))).
  { induction cls as [|cl rest IH]; intros sp0 H0; simpl; [exact H0|]. apply IH. now apply spec_call_nodup. }
  apply G. now rewrite last_scan_q.
Qed.

(* ---- all histories ------------------------------------------------------------------------------------------------------ *)
Section HistoryC.
  Variable Lf : list dlv.
  Hypothesis Hvar : known_ptr_variant Lf = false.
  Hypothesis Htgt : known_srv_targets Lf = false.
  Hypothesis Hnames : ptr_names_ok Lf = true.

  Lemma viol04_no_complete ifs : forall h k t s prev t0 wakes m,
    Inv prev (s_cache s) -> times_mono t0 h = true -> tracks s (t4_sp t) ->
    NoDup (map fst (sp_q (t4_sp t))) ->
    incl (prev ++ flat_map (iter_dlvs ifs) h) Lf ->
    AU t0 (s_cache s) (s_q s) (t4_ups t) -> BI (s_q s) (t4_ups t) -> sideC (s_q s) (t4_ups t) m ->
    fresh_channels_from m h = true -> known_refresh_from ifs s h = false ->
    no_complete (viol04_from ifs k t h wakes (map obs_of (run_from ifs s h))).
  Proof.
    induction h as [|it h IH]; intros k t s prev t0 wakes m HI Hm Htr HND Hsub HA HB HS Hfr Hcls.
    - simpl. destruct wakes; simpl; intros f Hf; [destruct Hf|destruct Hf as [<-|[]]; reflexivity].
    - simpl in Hm, Hfr, Hcls. apply andb_true_iff in Hm as [Hm1 Hm2]. apply N.leb_le in Hm1.
      destruct (calls_fresh m (i_calls it)) as [m'|] eqn:Ecf; [|discriminate].
      apply orb_false_iff in Hcls as [Hc1 Hc2].
      assert (Hsub1 : incl (prev ++ iter_dlvs ifs it) Lf).
      { intros x Hx. apply Hsub. simpl. rewrite !in_app_iff in *. tauto. }
      assert (Hg : goodC Lf (i_now it) prev s (t4_ups t) m).
      { split; [exact HI|]. split; [intros x Hx; apply Hsub, in_app_iff; now left|]. split; [|split; assumption].
        intros ty ch inst Hq Ha. apply (HA ty ch inst Hq). now apply (alive_later _ t0 (i_now it)). }
      destruct (iterate_complete Lf Hvar Htgt Hnames (i_now it) ifs prev s it (t4_ups t) m m' eq_refl Hg Hsub1 Ecf Hc1)
        as (HI1 & _ & HA1 & HB1 & HS1).
      pose proof (tracks_iterate ifs s (t4_sp t) it Htr) as Htr1.
      pose proof (iter_snaps_nodup ifs (t4_sp t) it HND) as HND1.
      simpl. destruct (iterate ifs s it) as [s1 o] eqn:Eit. cbn [fst snd] in *.
      destruct wakes as [|w wakes']; [intros f [<-|[]]; reflexivity|].
      assert (HNDs : NoDup (map fst (s_q s1))) by (destruct Htr1 as [_ E]; rewrite E; exact HND1).
      simpl. destruct (step04_complete ifs k t it w o s1 Htr1 HNDs HA1 HB1) as (Hs1 & Hs2 & Hs3).
      destruct (step04 ifs k t it w (obs_of o)) as [t1 fs] eqn:Est. cbn [fst snd] in *.
      apply no_complete_app; [assumption|].
      assert (Hinc : incl (t4_ups t1) (upsf (t4_ups t) o))
        by (rewrite Hs3; intros y Hy; apply filter_In in Hy; tauto).
      apply (IH (k + 1) t1 s1 (prev ++ iter_dlvs ifs it) (i_now it) wakes' m' HI1 Hm2).
      + rewrite Hs2. exact Htr1.
      + rewrite Hs2. exact HND1.
      + intros x Hx. apply Hsub. simpl. rewrite !in_app_iff in *. tauto.
      + intros ty ch inst Hq Ha. rewrite Hs3. destruct Htr1 as [_ Eq]. rewrite <- Eq.
        apply (upb_current _ _ ch ty inst HB1 Hq). now apply (HA1 ty ch inst).
      + intros u ty Hu Hq. apply (HB1 u ty (Hinc _ Hu) Hq).
      + destruct HS1 as (A & B & C). split; [exact A|]. split; [exact B|]. intros u Hu. apply C, Hinc, Hu.
      + exact Hfr.
      + exact Hc2.
  Qed.
End HistoryC.

(* C04, completeness over histories: outside the classes of safe_class, with fresh channel numbers, and
   outside the class "a delivery that is not reported as a new record turns an instance of a browsed
   name strongly alive", the checker never reports F04_complete on the model's trace: at the end of
   every iteration every instance with PTR, SRV and address live (more than a second left) under a
   browsed name has been reported resolved on that name's channel and not removed since. *)
Theorem complete_is_up ifs h wakes :
  wf_history h = true -> complete_class ifs h = true ->
  forall f, In f (viol_C04 ifs h wakes (map obs_of (run_history ifs h))) -> is_complete_fail f = false.
Proof.
  intros Hwf Hcls. unfold complete_class in Hcls.
  apply andb_true_iff in Hcls as [Hcls Hrf]. apply andb_true_iff in Hcls as [Hsafe Hfr].
  apply negb_true_iff in Hrf. unfold safe_class in Hsafe.
  apply andb_true_iff in Hsafe as [Hsafe Hn]. apply andb_true_iff in Hsafe as [Hv Ht].
  apply negb_true_iff in Hv, Ht.
  unfold viol_C04, run_history.
  apply (viol04_no_complete (log_of_history ifs h) Hv Ht Hn ifs h 0 _ init_st [] 0 wakes 0).
  - apply Inv_empty.
  - exact Hwf.
  - split; [apply ceqr_refl|reflexivity].
  - constructor.
  - simpl. apply incl_refl.
  - intros ty ch inst Hq. simpl in Hq. discriminate.
  - intros u ty [].
  - split; [constructor|]. split; [intros tc []|intros u []].
  - exact Hfr.
  - exact Hrf.
Qed.
