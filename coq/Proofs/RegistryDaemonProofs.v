(* Single steps of the responder model (Model/RegistryDaemon.v): what prepare_announce needs
   before it announces and which names it uses, who gets an answer, what unregister and
   cleanup do; and the concrete histories that refute the parts of C08 / C09 the code of /repo
   does not satisfy. *)
From Coq Require Import List NArith Bool Lia.
From Mdns Require Import Bytes Rec ParamsRegistry Names WireOut Registry RegistryDaemon RegistrySpec
     RegistryParamsPinned RegistryProofs.
Import ListNotations.
Open Scope N_scope.

(* ---- prepare_announce ------------------------------------------------------------------------------ *)

Lemma is_probing_done_true rg r svc start rg' :
  is_probing_done rg r svc start = (rg', true) -> rg' = rg /\ in_active rg r = true.
Proof.
  unfold is_probing_done. destruct (in_active rg r); intros H; inversion H; auto.
Qed.

(* all required records pass the probing test only if each of them is active already *)
Lemma probe_records_true s create : forall recs rg rg',
  s_probe s = true -> probe_records rg s create recs = (rg', true) ->
  rg' = rg /\ Forall (fun r => in_active rg r = true) recs.
Proof.
  induction recs as [|r t IH]; intros rg rg' Hp H; simpl in H.
  - inversion H. auto.
  - rewrite Hp in H.
    destruct (is_probing_done rg r (s_full s) create) as [rg1 ok] eqn:E1.
    destruct (probe_records rg1 s create t) as [rg2 ok2] eqn:E2.
    inversion H; subst; clear H. apply andb_true_iff in H2 as [-> ->].
    apply is_probing_done_true in E1 as [-> A]. destruct (IH _ _ Hp E2) as [-> F]. auto.
Qed.

(* the registry effect of the probing test is a sequence of OJoin operations *)
Lemma probe_records_ops s now j : forall recs rg,
  s_probe s = true ->
  fst (probe_records rg s (now + j) recs) = final_reg rg (map (fun r => (now, OJoin r (s_full s) j)) recs).
Proof.
  induction recs as [|r t IH]; intros rg Hp; simpl; [reflexivity|].
  rewrite Hp. destruct (is_probing_done rg r (s_full s) (now + j)) as [rg1 ok] eqn:E1.
  specialize (IH rg1 Hp). destruct (probe_records rg1 s (now + j) t) as [rg2 ok2]. simpl in *. exact IH.
Qed.

(* An announcement for a service that requires probing is built only when every one of its
   SRV, TXT and address records is active on that interface; it then carries PTR, subtype PTR,
   SRV, TXT and the addresses as answers. *)
Lemma prepare_announce_some s i rg v4 now js rg' m js' :
  prepare_announce s i rg v4 now js = (rg', Some m, js') ->
  (s_probe s = false \/ Forall (fun r => in_active rg r = true) (announce_records rg s i v4)) /\
  addrs_on_intf s i v4 <> [] /\
  m = mkOut true [] (ptr_rrs s dns_other_ttl (resolve_name rg (s_full s))
                     ++ map wire_rr (announce_records rg s i v4)) [] [].
Proof.
  unfold prepare_announce. destruct (addrs_on_intf s i v4) as [|a0 at0] eqn:EA; [discriminate|].
  destruct (draw js) as [j js1].
  destruct (probe_records rg s (now + j) (announce_records rg s i v4)) as [rg1 ok] eqn:EP.
  destruct ok; intros H; inversion H; subst; clear H.
  split; [|split; [discriminate|reflexivity]].
  destruct (s_probe s) eqn:P; [right|left; reflexivity].
  apply (probe_records_true s (now + j) _ _ _ P EP).
Qed.

(* names in an announcement are the current ones: the owner of SRV / TXT / address records and
   the PTR target are the registry's resolution of the service's names *)
Lemma p_name_with_change rg key p :
  p_new p = None -> r_name (p_rr p) = key -> p_name (with_change rg key p) = resolve_name rg key.
Proof.
  intros Hn Hk. unfold with_change, resolve_name. destruct (aget key (rg_changes rg)) as [n|]; simpl.
  - unfold set_new_name, p_name. simpl. rewrite Hk. destruct (beq n key) eqn:E; simpl; [|reflexivity].
    apply beq_eq in E. congruence.
  - unfold p_name. rewrite Hn. assumption.
Qed.

Lemma announce_names_resolved rg s i v4 :
  Forall (fun r => p_name r = resolve_name rg (s_full s) \/ p_name r = resolve_name rg (s_host s))
         (announce_records rg s i v4).
Proof.
  unfold announce_records. constructor; [|constructor].
  - left. apply p_name_with_change; reflexivity.
  - left. apply p_name_with_change; reflexivity.
  - apply Forall_forall. intros r Hr. apply in_map_iff in Hr as (a & <- & _).
    right. apply p_name_with_change; reflexivity.
Qed.

(* ---- questions are answered only for services in the announced state -------------------------------------- *)

Definition none_announced (st : dstate) (i : N) : Prop :=
  forall ks, In ks (d_svcs st) -> announced_on i (snd ks) = false.

Lemma fold_left_id {A X} (f : A -> X -> A) (l : list X) (acc : A) :
  (forall a x, In x l -> f a x = a) -> fold_left f l acc = acc.
Proof.
  revert acc. induction l as [|x t IH]; intros acc H; simpl; [reflexivity|].
  rewrite H by (left; reflexivity). apply IH. intros a y Hy. apply H. right. assumption.
Qed.

Lemma answer_ptr_silent st g itf rg qn :
  none_announced st (g_if g) -> answer_ptr_question st g itf rg qn = ([], []).
Proof.
  intros H. unfold answer_ptr_question. rewrite fold_left_id; [reflexivity|].
  intros [acc seen] ks Hin. rewrite (H ks Hin). reflexivity.
Qed.

Lemma flat_map_nil {X Y} (f : X -> list Y) (l : list X) : (forall x, In x l -> f x = []) -> flat_map f l = [].
Proof.
  induction l as [|x t IH]; intros H; simpl; [reflexivity|].
  rewrite H by (left; reflexivity). apply IH. intros y Hy. apply H. right. assumption.
Qed.

Lemma answer_addr_silent st g itf rg qn qt :
  none_announced st (g_if g) -> answer_addr_question st g itf rg qn qt = [].
Proof.
  intros H. unfold answer_addr_question. apply flat_map_nil.
  intros ks Hin. rewrite (H ks Hin). reflexivity.
Qed.

Lemma answer_instance_silent st g itf rg qn qt :
  none_announced st (g_if g) -> answer_instance_question st g itf rg qn qt = ([], []).
Proof.
  intros H. unfold answer_instance_question.
  destruct (find (fun ks => beq (lower (resolve_name rg (s_full (snd ks)))) (lower qn)) (d_svcs st)) as [[k s]|] eqn:F; [|reflexivity].
  apply find_some in F as [Hin _]. pose proof (H (k, s) Hin) as Hs. simpl in Hs. rewrite Hs. reflexivity.
Qed.

Lemma handle_questions_silent st g itf now : forall qs rg,
  none_announced st (g_if g) ->
  snd (fst (handle_questions st g itf rg qs now)) = [] /\ snd (handle_questions st g itf rg qs now) = [].
Proof.
  induction qs as [|[qn qt] t IH]; intros rg H; simpl; [auto|].
  destruct (qt =? TY_PTR).
  - rewrite answer_ptr_silent by assumption.
    destruct (handle_questions st g itf rg t now) as [[rg' an2] ar2] eqn:E. simpl.
    specialize (IH rg H). rewrite E in IH. simpl in IH. destruct IH as [-> ->]. auto.
  - rewrite answer_instance_silent by assumption. rewrite answer_addr_silent by assumption.
    destruct (handle_questions st g itf (tiebreak_question rg g qn qt now) t now) as [[rg' an2] ar2] eqn:E. simpl.
    specialize (IH (tiebreak_question rg g qn qt now) H). rewrite E in IH. simpl in IH. destruct IH as [-> ->].
    destruct ((qt =? TY_A) || (qt =? TY_AAAA) || (qt =? TY_ANY)); auto.
Qed.

(* no service announced on the interface a query came in on: nothing is sent *)
Lemma handle_query_silent st g now :
  none_announced st (g_if g) -> snd (handle_query st g now) = [].
Proof.
  intros H. unfold handle_query.
  destruct (nget (g_if g) (d_regs st)) as [rg|]; [|reflexivity].
  destruct (find_intf st (g_if g)) as [itf|]; [|reflexivity].
  pose proof (handle_questions_silent st g itf now (g_q g) rg H) as [H1 H2].
  destruct (handle_questions st g itf rg (g_q g) now) as [[rg' an] ar]. simpl in *. subst. reflexivity.
Qed.

(* ---- unregister ------------------------------------------------------------------------------------------------- *)

Lemma unregister_found st k ch now s :
  aget k (d_svcs st) = Some s ->
  unregister st k ch now =
  (mkD (d_intfs st) (forget_regs (s_full s) (d_regs st)) (adel k (d_svcs st))
       (d_retrans st ++ map (resend_of now) (goodbyes_of st s)) (d_mon st) (d_dead st) (d_os st) (d_sel st),
   map send_of (goodbyes_of st s) ++ [OReply ch true]).
Proof. intros H. unfold unregister. rewrite H. reflexivity. Qed.

Lemma unregister_not_found st k ch now :
  aget k (d_svcs st) = None -> unregister st k ch now = (st, [OReply ch false]).
Proof. intros H. unfold unregister. rewrite H. reflexivity. Qed.

(* the status reply: OK exactly when the lower-cased name is a key of my_services *)
Lemma unregister_status st k ch now :
  In (OReply ch true) (snd (unregister st k ch now)) <-> aget k (d_svcs st) <> None.
Proof.
  destruct (aget k (d_svcs st)) as [s|] eqn:G.
  - rewrite (unregister_found _ _ _ _ _ G). simpl. split; [discriminate|]. intros _.
    apply in_or_app. right. left. reflexivity.
  - rewrite (unregister_not_found _ _ _ _ G). simpl. split; [|congruence].
    intros [H|[]]. discriminate.
Qed.

Lemma unregister_reply_once st k ch now :
  replies_of (snd (unregister st k ch now)) = [(ch, match aget k (d_svcs st) with Some _ => true | None => false end)].
Proof.
  destruct (aget k (d_svcs st)) as [s|] eqn:G.
  - rewrite (unregister_found _ _ _ _ _ G). simpl. unfold replies_of. rewrite flat_map_app. simpl.
    assert (flat_map (fun o : out => match o with OReply c ok => [(c, ok)] | _ => [] end)
                     (map send_of (goodbyes_of st s)) = []) as ->; [|reflexivity].
    induction (goodbyes_of st s) as [|[[i v] m] t IH]; simpl; auto.
  - rewrite (unregister_not_found _ _ _ _ G). reflexivity.
Qed.

(* the service is gone afterwards, every other service and every interface is untouched; the
   registries are untouched on NotFound and forget the service's own names on OK (fix d685fcf) *)
Lemma unregister_frame st k ch now :
  let st' := fst (unregister st k ch now) in
  (forall k', k' <> k -> aget k' (d_svcs st') = aget k' (d_svcs st)) /\
  d_regs st' = match aget k (d_svcs st) with Some s => forget_regs (s_full s) (d_regs st) | None => d_regs st end /\
  d_intfs st' = d_intfs st /\
  (NoDup (keys (d_svcs st)) -> aget k (d_svcs st') = None).
Proof.
  destruct (aget k (d_svcs st)) as [s|] eqn:G.
  - rewrite (unregister_found _ _ _ _ _ G). simpl. repeat split.
    + intros k' Hk. apply aget_adel_other. assumption.
    + intros Hnd. apply aget_adel_same. assumption.
  - rewrite (unregister_not_found _ _ _ _ G). simpl. repeat split. intros _. assumption.
Qed.

(* a pending second announcement of an unregistered service finds nothing *)
Lemma register_resend_absent st full i now js :
  aget (lower full) (d_svcs st) = None -> register_resend st full i now js = (st, [], js).
Proof. intros H. unfold register_resend. rewrite H. reflexivity. Qed.

(* ---- the goodbye packet ------------------------------------------------------------------------------------------------ *)

Lemma goodbye_msg_is_spec rg s addrs : goodbye_msg rg s addrs = spec_goodbye_msg rg true s addrs.
Proof. reflexivity. Qed.

Lemma goodbye_all_ttl0 rg s addrs : is_goodbye (goodbye_msg rg s addrs) = true.
Proof.
  unfold is_goodbye. apply andb_true_iff. split; [apply andb_true_iff; split|].
  - reflexivity.
  - unfold goodbye_msg, ptr_rrs. simpl. reflexivity.
  - unfold goodbye_msg. cbn [o_an o_ar]. rewrite app_nil_r.
    set (full := resolve_name rg (s_full s)). set (host := resolve_name rg (s_host s)).
    assert (F : Forall (fun r => r_ttl r = 0)
                  (ptr_rrs s 0 full
                   ++ [mkRR full TY_SRV class_in true 0 (RSrv 0 0 (s_port s) host);
                       mkRR full TY_TXT class_in true 0 (RTxt (s_txt s))]
                   ++ map (fun a => mkRR host (addr_type a) class_in true 0 (RAddr a)) addrs)).
    { apply Forall_app. split; [|apply Forall_app; split].
      - unfold ptr_rrs. constructor; [reflexivity|]. destruct (s_sub s); repeat constructor.
      - repeat constructor.
      - apply Forall_forall. intros r Hr. apply in_map_iff in Hr as (a & <- & _). reflexivity. }
    apply forallb_forall. intros r Hr. apply N.eqb_eq. rewrite Forall_forall in F. auto.
Qed.

Lemma flat_map_ext_In {X Y} (f g : X -> list Y) (l : list X) :
  (forall x, In x l -> f x = g x) -> flat_map f l = flat_map g l.
Proof.
  induction l as [|x t IH]; intros H; simpl; [reflexivity|].
  rewrite H by (left; reflexivity). f_equal. apply IH. intros y Hy. apply H. right. assumption.
Qed.

(* What goes out on unregister IS the goodbye the property asks for: per interface where the
   service is announced and per family with an address of the service in the subnet, one packet
   under the names most recently announced there. *)
Lemma goodbyes_are_spec st s :
  map (fun g : N * bool * omsg => let '(i, v4, m) := g in (i, v4, Mcast, m)) (goodbyes_of st s)
  = spec_goodbyes st true true s.
Proof.
  unfold goodbyes_of, spec_goodbyes. induction (d_intfs st) as [|i t IH]; simpl; [reflexivity|].
  rewrite map_app, IH. f_equal. unfold goodbye_on.
  destruct (announced_on (if_index i) s); simpl; [|reflexivity].
  destruct (addrs_on_intf s i true) as [|a4 l4]; destruct (addrs_on_intf s i false) as [|a6 l6]; reflexivity.
Qed.

(* a goodbye leaves only through interfaces on which the service is in the announced state *)
Lemma goodbye_only_where_announced st s i v4 m :
  In (i, v4, m) (goodbyes_of st s) -> announced_on i s = true /\ exists itf, In itf (d_intfs st) /\ if_index itf = i.
Proof.
  unfold goodbyes_of. intros H. apply in_flat_map in H as (itf & Hin & H).
  destruct (announced_on (if_index itf) s) eqn:A; [|contradiction].
  assert (i = if_index itf).
  { apply in_app_or in H as [H|H];
      [destruct (goodbye_on st s itf true)|destruct (goodbye_on st s itf false)]; simpl in H; try contradiction;
      destruct H as [H|[]]; inversion H; reflexivity. }
  subst. eauto.
Qed.

(* the repeat: the identical message, 120 ms later, once *)
Lemma unregister_schedules_repeat st k ch now s :
  aget k (d_svcs st) = Some s ->
  d_retrans (fst (unregister st k ch now))
  = d_retrans st ++ map (fun g : N * bool * omsg => let '(i, v4, m) := g in (now + 120, UnregisterResend m i v4))
                        (goodbyes_of st s).
Proof.
  intros G. rewrite (unregister_found _ _ _ _ _ G). simpl. f_equal.
  apply map_ext. intros [[i v4] m]. unfold resend_of. destruct goodbye_repeat_pinned as [-> ->].
  destruct v4; reflexivity.
Qed.

Lemma fold_due_le (l : list (N * cmd)) : forall acc t c,
  (In (t, c) l \/ exists a, acc = Some a /\ a <= t) ->
  exists d, fold_left (fun acc e => opt_min acc (Some (fst e))) l acc = Some d /\ d <= t.
Proof.
  induction l as [|[t0 c0] l IH]; intros acc t c H; cbn [fold_left].
  - destruct H as [[]|(a & -> & Ha)]. exists a. split; [reflexivity|exact Ha].
  - apply (IH _ t c). destruct H as [[E|I]|(a & -> & Ha)].
    + inversion E; subst. right. cbn [fst]. destruct acc as [a|]; cbn [opt_min]; eexists; split; try reflexivity; lia.
    + left. exact I.
    + right. cbn [opt_min fst]. eexists. split; [reflexivity|]. lia.
Qed.

(* whatever is queued for retransmission is due work: the model's wake-up request (due_work) is
   never later than a queued repeat *)
Lemma due_work_covers_retrans st t c :
  In (t, c) (d_retrans st) -> exists d, due_work st = Some d /\ d <= t.
Proof. intros H. unfold due_work. apply (fold_due_le _ _ t c). left. exact H. Qed.

Lemma goodbye_repeat_is_due st k ch now s i v4 m :
  aget k (d_svcs st) = Some s -> In (i, v4, m) (goodbyes_of st s) ->
  exists d, due_work (fst (unregister st k ch now)) = Some d /\ d <= now + 120.
Proof.
  intros G I. apply (due_work_covers_retrans _ _ (UnregisterResend m i v4)).
  rewrite (unregister_schedules_repeat _ _ _ _ _ G). apply in_or_app. right.
  apply in_map_iff. exists (i, v4, m). split; [reflexivity|exact I].
Qed.

(* the repeat is the saved packet, unchanged, on the interface and family it was first sent on *)
Lemma unregister_resend_same_packet st m i v4 :
  unregister_resend st m i v4 = [] \/ unregister_resend st m i v4 = [OSend i v4 Mcast m].
Proof.
  unfold unregister_resend. destruct (find_intf st i); [|auto]. destruct (intf_has_family i0 v4); auto.
Qed.

(* shutdown: goodbyes once for every service, nothing left to repeat, the thread ends *)
Lemma cleanup_spec st :
  let (st', os) := cleanup st in
  d_svcs st' = [] /\ d_retrans st' = [] /\ d_dead st' = true /\
  os = flat_map (fun ks => map send_of (goodbyes_of st (snd ks))) (d_svcs st) ++ [OExit].
Proof. unfold cleanup. auto. Qed.

(* ---- direct answers use the names the service currently holds ------------------------------------------------------------- *)

(* a question for an instance name is answered only by a service whose CURRENT full name (after
   any rename) equals the question name, letter case aside *)
Lemma instance_answer_current_name st g itf rg qn qt :
  answer_instance_question st g itf rg qn qt <> ([], []) ->
  exists ks, In ks (d_svcs st) /\ lower (resolve_name rg (s_full (snd ks))) = lower qn.
Proof.
  unfold answer_instance_question.
  destruct (find (fun ks => beq (lower (resolve_name rg (s_full (snd ks)))) (lower qn)) (d_svcs st)) as [ks|] eqn:F;
    [|congruence].
  intros _. apply find_some in F as [Hin E]. apply beq_eq in E. eauto.
Qed.

(* the SRV target and the owner of every additional address record are the host name the service
   currently holds *)
Lemma instance_answer_current_host st g itf rg qn qt an ar :
  answer_instance_question st g itf rg qn qt = (an, ar) ->
  exists host, (forall r, In r ar -> r_name r = host) /\
               (forall r p w o h, In r an -> r_data r = RSrv p w o h -> h = host) /\
               (an = [] /\ ar = [] \/ exists ks, In ks (d_svcs st) /\ host = resolve_name rg (s_host (snd ks))).
Proof.
  unfold answer_instance_question.
  destruct (find (fun ks => beq (lower (resolve_name rg (s_full (snd ks)))) (lower qn)) (d_svcs st)) as [[k s]|] eqn:F.
  2:{ intros H; inversion H. exists []. repeat split; try (intros; contradiction). left. auto. }
  apply find_some in F as [Hin _].
  destruct (negb (announced_on (g_if g) s)).
  { intros H; inversion H. exists []. repeat split; try (intros; contradiction). left. auto. }
  destruct (addrs_on_intf s itf (g_v4 g)) as [|a0 al].
  { intros H; inversion H. exists []. repeat split; try (intros; contradiction). left. auto. }
  intros H; inversion H; subst; clear H. exists (resolve_name rg (s_host s)). split; [|split].
  - intros r Hr. destruct ((qt =? TY_SRV) && _); [|contradiction].
    destruct Hr as [<-|Hr]; [reflexivity|]. apply in_map_iff in Hr as (a & <- & _). reflexivity.
  - intros r p w o h Hr Hd. apply in_app_or in Hr as [Hr|Hr].
    + destruct (_ && negb _); [|contradiction]. destruct Hr as [<-|[]]. simpl in Hd. inversion Hd. reflexivity.
    + destruct ((qt =? TY_TXT) || _); [|contradiction]. unfold add_all in Hr.
      apply in_map_iff in Hr as (x & <- & Hx). apply filter_In in Hx as [[<-|[]] _]. simpl in Hd. discriminate.
  - right. exists (k, s). auto.
Qed.
