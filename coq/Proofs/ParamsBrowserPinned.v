(* The definitions regenerated from the Rust sources (Gen/ParamsBrowser.v) pinned to the literal
   numbers and comparison directions the property texts of C03, C04, C05 use.  A changed
   constant or a flipped comparison in /repo makes one of these proofs fail. *)
From Coq Require Import NArith Bool Lia.
From Mdns Require Import ParamsBrowser.
Open Scope N_scope.

Lemma expiration_time_pinned c t p : expiration_time c t p = c + t * p * 10.
Proof. reflexivity. Qed.
Lemma new_percent_pinned : new_refresh_percent = 80 /\ new_expires_percent = 100.
Proof. split; reflexivity. Qed.
Lemma is_expired_pinned now e : is_expired_g now e = (e <=? now).          (* now >= expires *)
Proof. reflexivity. Qed.
Lemma expires_soon_pinned now e : expires_soon_g now e = (e <=? now + 1000). (* now + 1000 >= expires *)
Proof. reflexivity. Qed.
Lemma refresh_due_pinned now r : refresh_due_g now r = (r <=? now).
Proof. reflexivity. Qed.
Lemma ladder_pinned :
  ladder_from1 = 80 /\ ladder_to1 = 85 /\ ladder_from2 = 85 /\ ladder_to2 = 90 /\
  ladder_from3 = 90 /\ ladder_to3 = 95 /\ no_more_percent = 100.
Proof. repeat split; reflexivity. Qed.
Lemma reset_pinned ttl :
  reset_expires_percent = 100 /\ reset_refresh_percent = 80 /\ reset_refresh_guard ttl = (1 <? ttl).
Proof. repeat split; reflexivity. Qed.
Lemma expire_sooner_pinned a e : expire_sooner_guard a e = (a <? e).
Proof. reflexivity. Qed.
Lemma ttl_zero_pinned ttl : ttl_zero_guard ttl = (ttl =? 0) /\ ttl_zero_becomes = 1.
Proof. split; reflexivity. Qed.
Lemma flush_cond_pinned cls rcls ty rty now created expire :
  flush_cond cls rcls ty rty now created expire
  = ((cls =? rcls) && (ty =? rty) && (created + 1000 <? now) && (now + 1000 <? expire)).
Proof. reflexivity. Qed.
Lemma flush_rest_pinned ty a b now :
  flush_is_addr_type ty = ((ty =? 1) || (ty =? 28)) /\ flush_same_intf a b = (a =? b)
  /\ flush_new_expire now = now + 1000.
Proof. repeat split; reflexivity. Qed.
Lemma revived_guard_pinned o n : revived_guard o n = ((o <=? 1) && (1 <? n)).
Proof. reflexivity. Qed.
Lemma found_ttl_guard_pinned ttl : found_ttl_guard ttl = (1 <? ttl).
Proof. reflexivity. Qed.
Lemma followup_pinned n :
  resolve_wait_millis = 500 /\ pending_wait = 500 /\ resolve_wait = 500 /\ pending_first_try = 1
  /\ max_try = 3 /\ retry_guard n max_try = (n <? 3) /\ retry_next n = n + 1 /\ valid_name_min_parts = 5.
Proof. repeat split; reflexivity. Qed.
Lemma verify_resend_pinned now : verify_resend_time now = now + 1000.
Proof. reflexivity. Qed.

(* derived forms used by the proofs *)
Lemma full_life c t : expiration_time c t 100 = c + 1000 * t.
Proof. unfold expiration_time. lia. Qed.
