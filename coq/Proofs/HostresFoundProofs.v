(* C17 addresses_found_spec, history level: every address in an AddressesFound event was
   received in an address record with exactly that owner spelling, on exactly that interface,
   whose TTL had not run out at the previous iteration; and the event goes to the search whose
   name equals the reported spelling in lower case.  Invariant of the address cache over
   arbitrary histories of the reference machine.  No axioms. *)
From Coq Require Import List NArith Bool Lia.
From Mdns Require Import Bytes ParamsHostres HostresBase HostresModel HostresSpec HostresPinned
                         HostresRefine HostresCacheProofs HostresSchedProofs.
Import ListNotations.
Open Scope N_scope.

(* an address record delivered at time t on interface ifx *)
Definition deliv : Type := (N * N * inrec)%type.

Definition msg_delivs (now : N) (m : msg) : list deliv :=
  map (fun r => (now, m_if m, r)) (filter (fun r => is_addr_ty (i_ty r)) (m_recs m)).
Definition iter_delivs (i : iter) : list deliv := flat_map (msg_delivs (it_now i)) (it_msgs i).
Definition deliveries (h : list iter) : list deliv := flat_map iter_delivs h.

(* x is (a later state of) the cache entry made from a delivery of D *)
Definition prov (D : list deliv) (x : arec) : Prop :=
  exists t ifx r, In (t, ifx, r) D /\ ident x = ident (arec_of t ifx r)
                  /\ l_created (a_life x) = t /\ l_ttl (a_life x) = wire_ttl (i_ttl r).

Definition entry_good (D : list deliv) (prev : N) (x : arec) : Prop :=
  prov D x /\ life_wf (a_life x) /\ prev < l_expires (a_life x).

Definition cache_good (D : list deliv) (prev : N) (c : cache) : Prop :=
  (forall x, In x (entries c) -> entry_good D prev x)
  /\ (forall k b, In (k, b) c -> forall x, In x b -> lower (a_name x) = k).

Lemma wire_ttl_pos t : 1 <= wire_ttl t.
Proof.
  unfold wire_ttl. rewrite pin_goodbye, pin_goodbye_ttl. destruct (t =? 0) eqn:E; [lia|].
  apply N.eqb_neq in E. lia.
Qed.

Lemma aget_In {A} k (c : list (name * A)) v : aget k c = Some v -> exists k', k' = k /\ In (k', v) c.
Proof.
  induction c as [|[k0 v0] t IH]; simpl; [discriminate|].
  destruct (beq k k0) eqn:E.
  - intros H. inversion H; subst. apply beq_eq in E. exists k0. split; [auto|left; reflexivity].
  - intros H. destruct (IH H) as [k' [H1 H2]]. exists k'. split; [exact H1|right; exact H2].
Qed.

Lemma bucket_entries c k x : In x (bucket_of c k) -> In x (entries c).
Proof.
  unfold bucket_of, entries. destruct (aget k c) as [b|] eqn:E; [|intros []].
  intros H. apply aget_In in E as [k' [_ Hin]]. apply in_flat_map. exists (k', b). auto.
Qed.

Lemma bucket_keys D prev c k x : cache_good D prev c -> In x (bucket_of c k) -> lower (a_name x) = k.
Proof.
  intros [_ Hk]. unfold bucket_of. destruct (aget k c) as [b|] eqn:E; [|intros []].
  intros H. apply aget_In in E as [k' [E Hin]]. subst k'. eapply Hk; eassumption.
Qed.

Lemma In_aset {A} k (v : A) c k' v' : In (k', v') (aset k v c) -> (k' = k /\ v' = v) \/ In (k', v') c.
Proof.
  induction c as [|[k0 v0] t IH]; simpl.
  - intros [H|[]]. inversion H. auto.
  - destruct (beq k k0); simpl; intros [H|H]; auto.
    + inversion H. auto.
    + destruct (IH H); auto.
Qed.

Lemma entries_aset k b c x : In x (entries (aset k b c)) -> In x b \/ In x (entries c).
Proof.
  unfold entries. intros H. apply in_flat_map in H as [[k' b'] [H1 H2]]. simpl in H2.
  apply In_aset in H1 as [[_ ->]|H1]; [left; exact H2|]. right. apply in_flat_map. exists (k', b'). auto.
Qed.

Lemma update_match_elems now x b b' :
  update_match now x b = Some b' ->
  forall y', In y' b' ->
    In y' b \/ exists y, In y b /\ arec_matches y x = true
                         /\ y' = a_set_life (life_reset now (l_ttl (a_life x))) y.
Proof.
  revert b'. induction b as [|r t IH]; simpl; intros b' H; [discriminate|].
  destruct (arec_matches r x) eqn:E.
  - inversion H; subst. intros y' [Hy|Hy]; [right; exists r; auto|left; right; exact Hy].
  - destruct (update_match now x t) as [t'|]; [|discriminate]. inversion H; subst.
    intros y' [Hy|Hy]; [left; left; exact Hy|].
    destruct (IH t' eq_refl y' Hy) as [H1|[y [H1 H2]]]; [left; right; exact H1|right; exists y; tauto].
Qed.

Lemma prov_incl D D' x : incl D D' -> prov D x -> prov D' x.
Proof. intros Hi [t [ifx [r [H1 H2]]]]. exists t, ifx, r. split; [apply Hi; exact H1|exact H2]. Qed.

Lemma cache_good_incl D D' prev c : incl D D' -> cache_good D prev c -> cache_good D' prev c.
Proof.
  intros Hi [H1 H2]. split; [|exact H2]. intros x Hx. destruct (H1 x Hx) as [Hp Hr].
  split; [eapply prov_incl; eassumption|exact Hr].
Qed.

Lemma arec_of_life now ifx r :
  a_life (arec_of now ifx r)
  = mkLife (wire_ttl (i_ttl r)) now (now + wire_ttl (i_ttl r) * 1000) (now + wire_ttl (i_ttl r) * 800).
Proof. unfold arec_of. simpl. apply life_new_eq. Qed.

(* ---------------------------------------------------------------- add_or_update *)
Lemma flush_one_good D prev now x y :
  prev <= now -> entry_good D prev y -> entry_good D prev (flush_one now x y) /\ a_name (flush_one now x y) = a_name y.
Proof.
  intros Hle [Hp [Hw He]]. split; [|unfold flush_one; destruct (_ && _); reflexivity].
  split; [|split].
  - destruct Hp as [t [ifx [r [H1 [H2 [H3 H4]]]]]]. exists t, ifx, r.
    unfold flush_one. destruct (_ && _); simpl; auto.
  - apply flush_one_wf. exact Hw.
  - unfold flush_one. destruct (_ && _); simpl; [|exact He]. rewrite pin_flush_expire. lia.
Qed.

Lemma aou_good D prev now fu ifx r c :
  prev <= now -> In (now, ifx, r) D -> cache_good D prev c ->
  cache_good D prev (fst (add_or_update now fu (arec_of now ifx r) c)).
Proof.
  intros Hle HD Hc. set (x := arec_of now ifx r).
  assert (Hx : entry_good D prev x).
  { split; [|split].
    - exists now, ifx, r. split; [exact HD|]. unfold x. rewrite arec_of_life. simpl. auto.
    - unfold x. rewrite arec_of_life. unfold life_wf. simpl. lia.
    - unfold x. rewrite arec_of_life. simpl. pose proof (wire_ttl_pos (i_ttl r)). lia. }
  unfold add_or_update. fold x.
  set (k := lower (a_name x)). set (b := bucket_of c k).
  assert (Hb : forall y, In y b -> entry_good D prev y /\ lower (a_name y) = k).
  { intros y Hy. split; [apply (proj1 Hc); eapply bucket_entries; exact Hy|eapply bucket_keys; eassumption]. }
  set (b1 := if a_flush x then map (flush_one now x) b else b).
  assert (Hb1 : forall y, In y b1 -> entry_good D prev y /\ lower (a_name y) = k).
  { intros y Hy. unfold b1 in Hy. destruct (a_flush x); [|apply Hb; exact Hy].
    apply in_map_iff in Hy as [y0 [E Hy0]]. subst y. destruct (Hb y0 Hy0) as [Hg Hn].
    destruct (flush_one_good D prev now x y0 Hle Hg) as [Hg' Hn']. split; [exact Hg'|]. rewrite Hn'. exact Hn. }
  assert (Hgoal : forall b', (forall y, In y b' -> entry_good D prev y /\ lower (a_name y) = k) ->
                             cache_good D prev (aset k b' c)).
  { intros b' Hb'. split.
    - intros y Hy. apply entries_aset in Hy as [Hy|Hy]; [apply Hb'; exact Hy|apply (proj1 Hc); exact Hy].
    - intros k' v' Hin y Hy. apply In_aset in Hin as [[-> ->]|Hin]; [apply Hb'; exact Hy|].
      eapply (proj2 Hc); eassumption. }
  assert (Hgen : cache_good D prev (fst (match update_match now x b1 with
                                         | Some b2 => (aset k b2 c, revived x b1)
                                         | None => (aset k (x :: b1) c, true)
                                         end))).
  { destruct (update_match now x b1) as [b2|] eqn:Eu; simpl.
    + apply Hgoal. intros y' Hy'.
      destruct (update_match_elems now x b1 b2 Eu y' Hy') as [H|[y [Hy [Hm ->]]]]; [apply Hb1; exact H|].
      destruct (Hb1 y Hy) as [[Hp [Hw He]] Hn]. split; [|exact Hn].
      apply matches_ident in Hm. split; [|split].
      * exists now, ifx, r. split; [exact HD|]. split; [rewrite ident_set_life; exact Hm|].
        unfold x. rewrite arec_of_life. cbn [a_life a_set_life l_ttl]. rewrite life_reset_eq. simpl. auto.
      * cbn [a_life a_set_life]. apply life_reset_wf.
      * unfold x. rewrite arec_of_life. cbn [a_life a_set_life l_ttl]. rewrite life_reset_eq. simpl.
        pose proof (wire_ttl_pos (i_ttl r)). lia.
    + apply Hgoal. intros y [Hy|Hy]; [subst y; split; [exact Hx|reflexivity]|apply Hb1; exact Hy]. }
  fold b1 in Hgen |- *.
  destruct b as [|y0 bt]; [destruct fu|]; try exact Hgen. simpl. exact Hc.
Qed.

(* ---------------------------------------------------------------- one response, all responses *)
Lemma absorb_good D prev now fu ifx rs : forall c ch,
  prev <= now -> (forall r, In r rs -> is_addr_ty (i_ty r) = true -> In (now, ifx, r) D) ->
  cache_good D prev c ->
  cache_good D prev (fst (fold_left (absorb now fu ifx) rs (c, ch))).
Proof.
  induction rs as [|r t IH]; intros c ch Hle HD Hc; simpl; [exact Hc|].
  unfold absorb at 2. simpl. destruct (is_addr_ty (i_ty r)) eqn:E.
  - pose proof (aou_good D prev now fu ifx r c Hle (HD r (or_introl eq_refl) E) Hc) as H.
    destruct (add_or_update now fu (arec_of now ifx r) c) as [c' isnew]. simpl in *.
    apply IH; [exact Hle| |exact H]. intros r' Hr'. apply HD. right. exact Hr'.
  - apply IH; [exact Hle| |exact Hc]. intros r' Hr'. apply HD. right. exact Hr'.
Qed.

(* an AddressesFound event is justified by a good cache *)
Definition found_from (D : list deliv) (prev : N) (res : list resolver) (ce : N * ev) : Prop :=
  exists c host, cache_good D prev c /\ In ce (found_events res c host).

Lemma respond_good D prev now res c m :
  prev <= now -> incl (msg_delivs now m) D -> cache_good D prev c ->
  cache_good D prev (fst (respond now res c m))
  /\ forall ce, In ce (snd (respond now res c m)) -> found_from D prev res ce.
Proof.
  intros Hle HD Hc. unfold respond.
  pose proof (absorb_good D prev now (is_for_us res m) (m_if m) (m_recs m) c [] Hle) as H.
  destruct (fold_left (absorb now (is_for_us res m) (m_if m)) (m_recs m) (c, [])) as [c' changes]. simpl in *.
  assert (Hc' : cache_good D prev c').
  { apply H; [|exact Hc]. intros r Hr Ha. apply HD. unfold msg_delivs.
    apply in_map_iff. exists r. split; [reflexivity|]. apply filter_In. auto. }
  split; [exact Hc'|]. intros ce Hce. apply in_flat_map in Hce as [host [_ Hce]].
  exists c', host. auto.
Qed.

Lemma respond_all_good D prev now res ms : forall c e0,
  prev <= now -> incl (flat_map (msg_delivs now) ms) D -> cache_good D prev c ->
  (forall ce, In ce e0 -> found_from D prev res ce) ->
  cache_good D prev (fst (fold_left (fun acc m => let '(c', e) := respond now res (fst acc) m in (c', snd acc ++ e)) ms (c, e0)))
  /\ forall ce, In ce (snd (fold_left (fun acc m => let '(c', e) := respond now res (fst acc) m in (c', snd acc ++ e)) ms (c, e0))) ->
                found_from D prev res ce.
Proof.
  induction ms as [|m t IH]; intros c e0 Hle HD Hc He; simpl; [auto|].
  simpl in HD.
  destruct (respond_good D prev now res c m Hle) as [H1 H2]; [intros d Hd; apply HD; apply in_or_app; left; exact Hd|exact Hc|].
  destruct (respond now res c m) as [c' e]. simpl in *.
  apply IH; [exact Hle| |exact H1|].
  - intros d Hd. apply HD. apply in_or_app. right. exact Hd.
  - intros ce Hce. apply in_app_or in Hce as [Hce|Hce]; [apply He; exact Hce|apply H2; exact Hce].
Qed.

(* ---------------------------------------------------------------- refresh and eviction *)
Lemma no_more_good D prev y : entry_good D prev y -> entry_good D prev (a_set_life (life_no_more (a_life y)) y).
Proof.
  intros [[t [ifx [r [H1 [H2 [H3 H4]]]]]] [Hw He]]. split; [|split].
  - exists t, ifx, r. simpl. auto.
  - simpl. apply life_no_more_wf. exact Hw.
  - simpl. exact He.
Qed.

Lemma refresh_one_good D prev now r c qs :
  cache_good D prev c -> cache_good D prev (fst (refresh_one now (c, qs) r)).
Proof.
  intros Hc. unfold refresh_one. destruct (aget (r_key r) c) as [b|] eqn:E; [|exact Hc].
  unfold refresh_bucket. simpl.
  apply aget_In in E as [k' [Ek Hin]]. subst k'.
  split.
  - intros x Hx. apply entries_aset in Hx as [Hx|Hx]; [|apply (proj1 Hc); exact Hx].
    apply in_map_iff in Hx as [y [Ey Hy]].
    assert (Hg : entry_good D prev y).
    { apply (proj1 Hc). unfold entries. apply in_flat_map. exists (r_key r, b). auto. }
    subst x. destruct (refresh_wanted now y); [apply no_more_good; exact Hg|exact Hg].
  - intros k' v' Hin' x Hx. apply In_aset in Hin' as [[-> ->]|Hin']; [|eapply (proj2 Hc); eassumption].
    apply in_map_iff in Hx as [y [Ey Hy]]. subst x.
    replace (a_name (if refresh_wanted now y then a_set_life (life_no_more (a_life y)) y else y)) with (a_name y)
      by (destruct (refresh_wanted now y); reflexivity).
    eapply (proj2 Hc); eassumption.
Qed.

Lemma refresh_all_good D prev now res : forall c qs,
  cache_good D prev c -> cache_good D prev (fst (fold_left (refresh_one now) res (c, qs))).
Proof.
  induction res as [|r t IH]; intros c qs Hc; [exact Hc|]. cbn [fold_left].
  pose proof (refresh_one_good D prev now r c qs Hc) as H.
  destruct (refresh_one now (c, qs) r) as [c' qs']. simpl in H. apply IH. exact H.
Qed.

Lemma evict_good D prev now c : cache_good D prev c -> cache_good D now (evict_cache now c).
Proof.
  intros [H1 H2]. split.
  - intros x Hx. apply entries_evict in Hx as [Hx He]. destruct (H1 x Hx) as [Hp [Hw _]].
    split; [exact Hp|]. split; [exact Hw|].
    unfold a_expired, life_expired in He. rewrite pin_is_expired in He. apply N.leb_gt in He. exact He.
  - intros k b Hin x Hx. unfold evict_cache in Hin. apply filter_In in Hin as [Hin _].
    apply in_map_iff in Hin as [[k0 b0] [E Hin]]. inversion E; subst. apply filter_In in Hx as [Hx _].
    eapply H2; eassumption.
Qed.

(* ---------------------------------------------------------------- one iteration of the machine *)
Definition replay_from (D : list deliv) (prev : N) (ce : N * ev) : Prop :=
  exists c host sp A, cache_good D prev c /\ ce = (fst ce, EFound sp A)
                      /\ In (sp, A) (addresses_for_host c host).

(* events of the command phase that are AddressesFound are replays of the cache *)
Lemma sp_call_found now p c ch sp A :
  In (ch, EFound sp A) (snd (fst (sp_call now p c))) ->
  exists host to, c = CResolve host to ch /\ In (sp, A) (addresses_for_host (ss_cache p) host).
Proof.
  destruct c as [host to chan|host]; simpl.
  - intros [H|H]; [discriminate|]. apply in_map_iff in H as [[sp' A'] [E Hin]]. inversion E; subst.
    exists host, to. auto.
  - destruct (find_search (lower host) (ss_searches p)); simpl; [intros [H|[]]; discriminate|intros []].
Qed.

Lemma sp_call_cache now p c : ss_cache (fst (fst (sp_call now p c))) = ss_cache p.
Proof. destruct c; simpl; [reflexivity|]. destruct (find_search _ _); reflexivity. Qed.

Lemma sp_calls_found now cs : forall p e0 q0 ch sp A,
  In (ch, EFound sp A) (snd (fst (fold_left (fun acc c => let '(s0, e0, q0) := acc in
        let '(s', e, q) := sp_call now s0 c in (s', e0 ++ e, q0 ++ q)) cs (p, e0, q0)))) ->
  In (ch, EFound sp A) e0
  \/ exists host to, In (CResolve host to ch) cs /\ In (sp, A) (addresses_for_host (ss_cache p) host).
Proof.
  induction cs as [|c t IH]; intros p e0 q0 ch sp A; simpl; [auto|].
  pose proof (sp_call_found now p c ch sp A) as Hf. pose proof (sp_call_cache now p c) as Hc.
  destruct (sp_call now p c) as [[p1 e1] q1]. simpl in *.
  intros H. apply IH in H as [H|[host [to [H1 H2]]]].
  - apply in_app_or in H as [H|H]; [left; exact H|].
    destruct (Hf H) as [host [to [-> Hin]]]. right. exists host, to. auto.
  - right. exists host, to. rewrite Hc in H2. auto.
Qed.

Lemma sp_calls_cache now cs : forall p e0 q0,
  ss_cache (fst (fst (fold_left (fun acc c => let '(s0, e0, q0) := acc in
        let '(s', e, q) := sp_call now s0 c in (s', e0 ++ e, q0 ++ q)) cs (p, e0, q0)))) = ss_cache p.
Proof.
  induction cs as [|c t IH]; intros p e0 q0; simpl; [reflexivity|].
  pose proof (sp_call_cache now p c) as Hc. destruct (sp_call now p c) as [[p1 e1] q1]. simpl in *.
  rewrite IH. exact Hc.
Qed.

(* what an AddressesFound event of one iteration is justified by *)
Definition found_justified (D : list deliv) (prev : N) (sp : name) (A : list saddr) : Prop :=
  forall a ifx, In (a, ifx) A ->
    exists t r, In (t, ifx, r) D /\ i_name r = sp /\ i_data r = a
                /\ prev < t + wire_ttl (i_ttl r) * 1000.

Lemma good_bucket_justified D prev c host sp A :
  cache_good D prev c -> In (sp, A) (addresses_for_host c host) ->
  lower sp = lower host /\ found_justified D prev sp A.
Proof.
  intros Hc Hin. unfold addresses_for_host in Hin.
  destruct (group_addrs_spec (bucket_of c (lower host))) as [_ [G2 _]]. split.
  - (* some record carries the spelling *)
    assert (Hex : exists x, In x (bucket_of c (lower host)) /\ a_name x = sp).
    { clear G2. unfold group_addrs in Hin.
      assert (G : forall b m, In (sp, A) (fold_left (fun m r => group_add (a_name r) (a_addr r, a_if r) m) b m) ->
                            In sp (map fst m) \/ exists x, In x b /\ a_name x = sp).
      { induction b as [|r t IH]; intros m H; simpl in *.
        - left. apply (in_map fst) in H. exact H.
        - apply IH in H as [H|[x [H1 H2]]]; [|right; exists x; auto].
          apply group_add_keys in H as [H|H]; [right; exists r; auto|left; exact H]. }
      apply G in Hin as [[]|H]. exact H. }
    destruct Hex as [x [Hx Hn]]. rewrite <- Hn. eapply bucket_keys; eassumption.
  - intros a ifx Ha. apply (G2 sp A Hin) in Ha as [x [Hx [Hn Ha]]]. inversion Ha; subst.
    destruct (proj1 Hc x (bucket_entries _ _ _ Hx)) as [[t [ifx' [r [H1 [H2 [H3 H4]]]]]] [Hw He]].
    unfold ident, arec_of in H2. simpl in H2. inversion H2; subst.
    exists (l_created (a_life x)), r. repeat split; try assumption; try congruence.
    unfold life_wf in Hw. rewrite H4 in Hw. lia.
Qed.

(* addresses_found_spec over one iteration from a good state *)
Theorem sp_step_found D prev p i :
  prev <= it_now i -> cache_good D prev (ss_cache p) ->
  cache_good (D ++ iter_delivs i) (it_now i) (ss_cache (fst (sp_step p i)))
  /\ forall ch sp A, In (ch, EFound sp A) (o_events (snd (sp_step p i))) ->
       found_justified (D ++ iter_delivs i) prev sp A
       /\ ((exists k, In k (ss_searches p) /\ sk_chan k = ch /\ sk_key k = lower sp)
           \/ (exists host to, In (CResolve host to ch) (it_calls i) /\ lower host = lower sp)).
Proof.
  intros Hle Hc. set (D' := D ++ iter_delivs i). set (now := it_now i).
  assert (Hc0 : cache_good D' prev (ss_cache p)) by (eapply cache_good_incl; [|exact Hc]; intros d Hd; apply in_or_app; auto).
  unfold sp_step. fold now. unfold sp_responses, respond_all.
  destruct (respond_all_good D' prev now (res_view p) (it_msgs i) (ss_cache p) [] Hle) as [H1 H1e];
    [intros d Hd; apply in_or_app; right; exact Hd|exact Hc0|intros ce []|].
  destruct (fold_left _ (it_msgs i) (ss_cache p, [])) as [c1 e1]. simpl in H1, H1e.
  unfold sp_timeouts, sp_calls. simpl.
  pose proof (sp_calls_found now (it_calls i)
    (mkSst c1 (filter (fun k => negb (sk_timed_out now k)) (ss_searches p)) (ss_open p)) [] []) as H3f.
  pose proof (sp_calls_cache now (it_calls i)
    (mkSst c1 (filter (fun k => negb (sk_timed_out now k)) (ss_searches p)) (ss_open p)) [] []) as H3c.
  destruct (fold_left _ (it_calls i) _) as [[p3 e3] q3]. simpl in H3f, H3c.
  unfold sp_sends, sp_refresh, sp_evict, sp_closed, evict_all. simpl.
  pose proof (refresh_all_good D' prev now (map res_of (map (sk_fire now) (ss_searches p3))) (ss_cache p3) []) as H5.
  unfold refresh_all.
  destruct (fold_left (refresh_one now) _ (ss_cache p3, [])) as [c5 q5]. simpl in *.
  rewrite H3c in H5. specialize (H5 H1).
  split.
  - eapply evict_good. exact H5.
  - intros ch sp A Hin.
    repeat (apply in_app_or in Hin as [Hin|Hin]).
    + (* response phase *)
      destruct (H1e _ Hin) as [c' [host [Hc' Hf]]].
      destruct (found_events_spec _ _ _ _ _ Hf) as [r [sp' [A' [Hr [Hch [He _]]]]]]. inversion He; subst sp' A'.
      unfold found_events in Hf. rewrite Hr in Hf. apply in_map_iff in Hf as [[sp2 A2] [E2 Hin2]].
      inversion E2; subst. destruct (good_bucket_justified D' prev c' host sp A Hc' Hin2) as [Hl Hj].
      split; [exact Hj|]. left. unfold res_view in Hr. rewrite find_res_view in Hr.
      destruct (find_search (lower host) (ss_searches p)) as [k|] eqn:Ek; [|discriminate].
      inversion Hr; subst. exists k. simpl. repeat split.
      * clear -Ek. induction (ss_searches p) as [|y t IH]; simpl in *; [discriminate|].
        destruct (beq (lower host) (sk_key y)); [inversion Ek; left; reflexivity|right; apply IH; exact Ek].
      * assert (sk_key k = lower host).
        { clear -Ek. induction (ss_searches p) as [|y t IH]; simpl in *; [discriminate|].
          destruct (beq (lower host) (sk_key y)) eqn:E; [inversion Ek; subst; apply beq_eq in E; auto|apply IH; exact Ek]. }
        congruence.
    + (* deadlines phase: no AddressesFound *)
      exfalso. apply in_flat_map in Hin as [k [_ Hin]]. simpl in Hin. destruct Hin as [H|[H|[]]]; discriminate.
    + (* command phase: replay *)
      destruct (H3f ch sp A Hin) as [[]|[host [to [Hcall Hsp]]]].
      destruct (good_bucket_justified D' prev c1 host sp A H1 Hsp) as [Hl Hj].
      split; [exact Hj|]. right. exists host, to. auto.
    + exfalso. apply in_map_iff in Hin as [k [E _]]. discriminate.
    + exfalso. apply in_flat_map in Hin as [g [_ Hin]]. unfold removed_events in Hin.
      destruct (find_res _ _); [destruct Hin as [H|[]]; discriminate|destruct Hin].
    + exfalso. apply in_map_iff in Hin as [k [E _]]. discriminate.
Qed.

(* over histories *)
Lemma deliveries_app h1 h2 : deliveries (h1 ++ h2) = deliveries h1 ++ deliveries h2.
Proof. unfold deliveries. apply flat_map_app. Qed.

Lemma sp_cache_good h : forall p prev D,
  times_ok prev h = true -> cache_good D prev (ss_cache p) ->
  cache_good (D ++ deliveries h) (last_time prev h) (ss_cache (sp_state_after p h)).
Proof.
  induction h as [|i t IH]; intros p prev D Ht Hc; simpl.
  - unfold deliveries. simpl. rewrite app_nil_r. exact Hc.
  - simpl in Ht. apply andb_true_iff in Ht as [H1 H2]. apply N.leb_le in H1.
    destruct (sp_step_found D prev p i H1 Hc) as [Hg _].
    specialize (IH _ _ _ H2 Hg). unfold deliveries in *. simpl. rewrite app_assoc. exact IH.
Qed.

Lemma sp_state_after_app h1 h2 p : sp_state_after p (h1 ++ h2) = sp_state_after (sp_state_after p h1) h2.
Proof. revert p. induction h1 as [|i t IH]; intros p; simpl; [reflexivity|apply IH]. Qed.

Lemma times_ok_app prev h1 h2 : times_ok prev (h1 ++ h2) = true -> times_ok prev h1 = true /\ times_ok (last_time prev h1) h2 = true.
Proof.
  revert prev. induction h1 as [|i t IH]; intros prev H; simpl in *; [auto|].
  apply andb_true_iff in H as [H1 H2]. destruct (IH _ H2) as [H3 H4]. rewrite H1, H3. auto.
Qed.

(* THE STATEMENT.  For every history (times non-decreasing) and every iteration i of it, with
   h1 the iterations before: every AddressesFound(sp, A) delivered in iteration i
   - goes to a channel whose search (open before the iteration, or started in it) is for the
     name lower(sp);
   - and every (address, interface) in A was received, in iteration i or earlier, in an
     address record owned by exactly the spelling sp, on exactly that interface, whose
     TTL (0 counted as 1 s) had not run out at the time of the previous iteration. *)
Theorem addresses_found_spec : forall h1 i h2 ch sp A,
  times_ok 0 (h1 ++ i :: h2) = true ->
  In (ch, EFound sp A) (o_events (snd (sp_step (sp_state_after sst0 h1) i))) ->
  ((exists k, In k (ss_searches (sp_state_after sst0 h1)) /\ sk_chan k = ch /\ sk_key k = lower sp)
   \/ (exists host to, In (CResolve host to ch) (it_calls i) /\ lower host = lower sp))
  /\ forall a ifx, In (a, ifx) A ->
       exists j m r, In j (h1 ++ [i]) /\ In m (it_msgs j) /\ In r (m_recs m)
                     /\ is_addr_ty (i_ty r) = true /\ i_name r = sp /\ i_data r = a /\ m_if m = ifx
                     /\ last_time 0 h1 < it_now j + wire_ttl (i_ttl r) * 1000.
Proof.
  intros h1 i h2 ch sp A Ht Hin.
  apply times_ok_app in Ht as [Ht1 Ht2]. simpl in Ht2. apply andb_true_iff in Ht2 as [Hle _]. apply N.leb_le in Hle.
  assert (Hg : cache_good ([] ++ deliveries h1) (last_time 0 h1) (ss_cache (sp_state_after sst0 h1))).
  { apply sp_cache_good; [exact Ht1|]. split; [intros x []|intros k b []]. }
  simpl in Hg.
  destruct (sp_step_found _ _ _ i Hle Hg) as [_ Hf]. destruct (Hf ch sp A Hin) as [Hj Hr].
  split; [exact Hr|]. intros a ifx Ha. destruct (Hj a ifx Ha) as [t [r [HD [Hn [Hd Hlt]]]]].
  assert (HD' : In (t, ifx, r) (deliveries (h1 ++ [i]))).
  { rewrite deliveries_app. unfold deliveries at 2. simpl. rewrite app_nil_r. exact HD. }
  unfold deliveries in HD'. apply in_flat_map in HD' as [j [Hj1 Hj2]].
  unfold iter_delivs in Hj2. apply in_flat_map in Hj2 as [m [Hm1 Hm2]].
  unfold msg_delivs in Hm2. apply in_map_iff in Hm2 as [r' [E Hr']]. inversion E; subst.
  apply filter_In in Hr' as [Hr1 Hr2].
  exists j, m, r. repeat split; assumption.
Qed.
