(* A direct invariant of the responder model (no hypothesis on the services): every address record
   handle_query puts into a response is an address of a listed service that lies in a subnet of
   an address of the receiving interface.  Also the destination and interface of the response.
   Used by the history-level theorems of C18 (Proofs/IntfHistoryProofs.v) and C06. *)
From Coq Require Import List NArith Bool Lia.
From Mdns Require Import Res Bytes Rec Intf Responder ResponderSpec ResponderProofs.
Import ListNotations.
Open Scope N_scope.

(* r is not an address record, or the address of a service of `svcs` on the link of `intf` *)
Definition link_rec (svcs : list service) (intf : myintf) (r : rr) : Prop :=
  match r_data r with
  | RAddr o => exists s a, In s svcs /\ In a (s_addrs s) /\ o = ip_octets a /\ addr_on_intf intf a = true
  | _ => True
  end.

Definition og_ok (svcs : list service) (intf : myintf) (og : outgoing) : Prop :=
  Forall (link_rec svcs intf) (og_answers og) /\ Forall (link_rec svcs intf) (og_additionals og).

Section Ok.
Variable svcs : list service.
Variable intf : myintf.
Notation ok := (og_ok svcs intf).
Notation lr := (link_rec svcs intf).

Lemma ok_add_answer og m r : ok og -> lr r -> ok (fst (add_answer og m r)).
Proof.
  intros [H1 H2] Hr. unfold add_answer. destruct (suppressed_by r m); simpl; split; auto.
  apply Forall_app. split; [exact H1|constructor; [exact Hr|constructor]].
Qed.

Lemma ok_add_additional og r : ok og -> lr r -> ok (add_additional og r).
Proof.
  intros [H1 H2] Hr. unfold add_additional. split; simpl; auto.
  apply Forall_app. split; [exact H2|constructor; [exact Hr|constructor]].
Qed.

Lemma ok_fold {A} (step : outgoing -> A -> outgoing) (l : list A) :
  (forall og x, In x l -> ok og -> ok (step og x)) -> forall og, ok og -> ok (fold_left step l og).
Proof.
  induction l as [|x l IH]; simpl; intros H og Hok; [exact Hok|].
  apply IH; [intros og' y Hy; apply H; right; exact Hy|]. apply H; [left; reflexivity|exact Hok].
Qed.

Lemma lr_addr name s a : In s svcs -> In a (s_addrs s) -> addr_on_intf intf a = true -> lr (addr_record name s a).
Proof. intros Hs Ha Hon. unfold link_rec, addr_record, mk_record. simpl. exists s, a. auto. Qed.

Lemma in_intf_addrs v4 s a : In a (intf_addrs_of v4 s intf) -> In a (s_addrs s) /\ addr_on_intf intf a = true.
Proof.
  unfold intf_addrs_of, addrs_on_intf_v4, addrs_on_intf_v6. destruct v4; intros H;
    apply filter_In in H as [H1 H2]; apply andb_true_iff in H2; tauto.
Qed.

Lemma ok_awa og m s nc v4 : In s svcs -> ok og -> ok (add_answer_with_additionals og m s intf nc v4).
Proof.
  intros Hs Hok. unfold add_answer_with_additionals.
  destruct (is_nil (intf_addrs_of v4 s intf)); [exact Hok|].
  pose proof (ok_add_answer og m (ptr_record (s_ty s) (s_other_ttl s) (resolve_name nc (s_fullname s))) Hok I) as H1.
  destruct (add_answer og m _) as [og1 added]. simpl in H1.
  destruct added; simpl; [|exact H1].
  apply ok_fold.
  - intros og' a Ha Hok'. apply ok_add_additional; [exact Hok'|].
    apply in_intf_addrs in Ha as [Ha1 Ha2]. apply lr_addr; assumption.
  - apply ok_add_additional; [|exact I]. apply ok_add_additional; [|exact I].
    destruct (s_sub s); [apply ok_add_additional; [exact H1|exact I]|exact H1].
Qed.

Lemma ok_aaos og m name s host qtype ia : In s svcs ->
  (forall a, In a ia -> In a (s_addrs s) /\ addr_on_intf intf a = true) ->
  ok og -> ok (add_answer_of_service_as og m name s host qtype ia).
Proof.
  intros Hs Hia Hok. unfold add_answer_of_service_as.
  set (pr := if (qtype =? TY_SRV) || (qtype =? TY_ANY) then add_answer og m (srv_record name s host) else (og, false)).
  assert (H1 : ok (fst pr)).
  { subst pr. destruct ((qtype =? TY_SRV) || (qtype =? TY_ANY)); [apply ok_add_answer; [exact Hok|exact I]|exact Hok]. }
  destruct pr as [og1 added]. simpl in H1.
  set (og2 := if (qtype =? TY_TXT) || (qtype =? TY_ANY) then _ else og1).
  assert (H2 : ok og2).
  { subst og2. destruct ((qtype =? TY_TXT) || (qtype =? TY_ANY)); [apply ok_add_answer; [exact H1|exact I]|exact H1]. }
  destruct ((qtype =? TY_SRV) && added); [|exact H2].
  apply ok_fold; [|exact H2]. intros og' a Ha Hok'. apply ok_add_additional; [exact Hok'|].
  destruct (Hia a Ha). apply lr_addr; assumption.
Qed.
End Ok.

Lemma ok_question_step inp v4 og q :
  og_ok (map e_svc (h_services inp)) (h_intf inp) og ->
  og_ok (map e_svc (h_services inp)) (h_intf inp) (question_step inp v4 og q).
Proof.
  set (svcs := map e_svc (h_services inp)). set (intf := h_intf inp).
  intros Hok. unfold question_step.
  assert (Hin : forall e, In e (h_services inp) -> In (e_svc e) svcs) by (intros e He; apply in_map; exact He).
  destruct (q_type q =? TY_PTR).
  - (* PTR arm *)
    assert (G : forall l (st : outgoing * list bytes), (forall e, In e l -> In e (h_services inp)) -> og_ok svcs intf (fst st) ->
                og_ok svcs intf (fst (fold_left (ptr_step inp q v4) l st))).
    { induction l as [|e l IH]; intros [og' seen] Hl Hok'; simpl; [exact Hok'|].
      apply IH; [intros e' He'; apply Hl; right; exact He'|].
      unfold ptr_step. destruct (negb (is_announced (e_status e))); [exact Hok'|].
      destruct (matches_type_or_subtype (e_svc e) (q_name q)); simpl.
      - apply ok_awa; [apply Hin, Hl; left; reflexivity|exact Hok'].
      - destruct (beq (q_name q) META_QUERY); [|exact Hok'].
        destruct (mem (s_ty (e_svc e)) seen); [exact Hok'|]. simpl.
        apply ok_add_answer; [exact Hok'|exact I]. }
    apply G; [auto|exact Hok].
  - set (og1 := if (q_type q =? TY_A) || (q_type q =? TY_AAAA) || (q_type q =? TY_ANY)
                then fold_left (addr_step inp q) (h_services inp) og else og).
    assert (H1 : og_ok svcs intf og1).
    { subst og1. destruct ((q_type q =? TY_A) || (q_type q =? TY_AAAA) || (q_type q =? TY_ANY)); [|exact Hok].
      apply ok_fold; [|exact Hok]. intros og' e He Hok'. unfold addr_step.
      destruct (negb (is_announced (e_status e))); [exact Hok'|].
      destruct (beq _ _); [|exact Hok'].
      apply ok_fold; [|exact Hok']. intros og'' a Ha Hok''. apply ok_add_answer; [exact Hok''|].
      apply lr_addr; [apply Hin; exact He| |].
      + apply in_app_or in Ha as [Ha|Ha].
        * destruct (_ || _); [|destruct Ha]. apply filter_In in Ha. tauto.
        * destruct (_ || _); [|destruct Ha]. apply filter_In in Ha. tauto.
      + apply in_app_or in Ha as [Ha|Ha].
        * destruct (_ || _); [|destruct Ha]. apply filter_In in Ha as [_ Ha]. apply andb_true_iff in Ha. tauto.
        * destruct (_ || _); [|destruct Ha]. apply filter_In in Ha as [_ Ha]. apply andb_true_iff in Ha. tauto. }
    destruct (find _ (h_services inp)) as [e|] eqn:Ef; [|exact H1].
    apply find_some in Ef as [He _].
    destruct (negb (is_announced (e_status e))); [exact H1|].
    cbv zeta. destruct (is_nil (intf_addrs_of v4 (e_svc e) (h_intf inp))); [exact H1|].
    apply ok_aaos; [apply Hin; exact He| |exact H1].
    intros a Ha. eapply in_intf_addrs. exact Ha.
Qed.

Lemma link_rec_clear_flush svcs intf r : link_rec svcs intf r -> link_rec svcs intf (clear_flush r).
Proof. unfold link_rec, clear_flush. simpl. auto. Qed.

Lemma ok_loop inp v4 qs : forall og,
  og_ok (map e_svc (h_services inp)) (h_intf inp) og ->
  og_ok (map e_svc (h_services inp)) (h_intf inp) (fold_left (question_step inp v4) qs og).
Proof. induction qs as [|q qs IH]; intros og Hok; simpl; [exact Hok|]. apply IH. apply ok_question_step. exact Hok. Qed.

Definition dest_v4 (d : dest) : bool := match d with DMulticast v4 => v4 | DUnicast x _ => is_v4 x end.

(* what a response looks like, whatever the services are *)
Theorem handle_query_packet inp p : handle_query inp = Some p ->
  Forall (link_rec (map e_svc (h_services inp)) (h_intf inp)) (p_answers p ++ p_additionals p) /\
  p_if p = mi_index (h_intf inp) /\
  (exists a, In a (mi_addrs (h_intf inp)) /\ is_v4 (ia_ip a) = dest_v4 (p_dest p)) /\
  dest_v4 (p_dest p) = is_v4 (h_src_ip inp).
Proof.
  unfold handle_query.
  set (svcs := map e_svc (h_services inp)). set (intf := h_intf inp).
  set (out := fold_left _ (m_questions (h_msg inp)) _).
  assert (Hout : og_ok svcs intf out).
  { subst out. apply ok_loop. split; constructor. }
  destruct (ParamsResponder.respond_guard _); [|discriminate].
  set (out1 := set_id out (m_id (h_msg inp))).
  set (ud := if ParamsResponder.legacy_unicast_test (h_src_port inp) then Some (h_src_ip inp, h_src_port inp) else None).
  set (out2 := match ud with Some _ => _ | None => out1 end).
  assert (Hout2 : og_ok svcs intf out2).
  { subst out2. destruct ud.
    - pose proof (fold_add_question (m_questions (h_msg inp)) out1) as Hf. cbv zeta in Hf.
      destruct Hf as (_ & _ & _ & _ & K5 & K6).
      unfold og_ok, set_multicast, clear_cache_flush_bits. simpl. rewrite K5, K6. simpl.
      destruct Hout as [H1 H2]. split; apply Forall_forall; intros r Hr; apply in_map_iff in Hr as [r0 [<- Hr]];
        apply link_rec_clear_flush; [eapply Forall_forall in H1|eapply Forall_forall in H2]; eauto.
    - exact Hout. }
  unfold send_response.
  set (ifa := match find (valid_ip_on_intf (h_src_ip inp)) (mi_addrs intf) with
              | Some a => Some a
              | None => find (fun x => Bool.eqb (is_v4 (ia_ip x)) (is_v4 (h_src_ip inp))) (mi_addrs intf) end).
  assert (Hifa : forall a, ifa = Some a -> In a (mi_addrs intf) /\ is_v4 (ia_ip a) = is_v4 (h_src_ip inp)).
  { intros a Ha. subst ifa.
    destruct (find (valid_ip_on_intf (h_src_ip inp)) (mi_addrs intf)) as [a0|] eqn:Em.
    - assert (E0 : a0 = a) by congruence. rewrite <- E0. apply find_some in Em as [Hin Hv]. split; [exact Hin|apply valid_family; exact Hv].
    - apply find_some in Ha as [Hin Hv]. apply eqb_prop in Hv. auto. }
  destruct ifa as [a|]; [|intros H; discriminate H].
  destruct (Hifa a eq_refl) as [Hin Hfam].
  destruct (is_nil (og_answers out2) && is_nil (og_additionals out2)); [intros H; discriminate H|].
  intros H. inversion H; subst p; clear H. cbn [p_answers p_additionals p_if p_dest].
  destruct Hout2 as [H1 H2].
  split; [apply Forall_app; split; assumption|]. split; [reflexivity|].
  assert (Hd : dest_v4 (match ud with Some (d, p0) => DUnicast d p0 | None => DMulticast (is_v4 (ia_ip a)) end)
               = is_v4 (h_src_ip inp)).
  { subst ud. destruct (ParamsResponder.legacy_unicast_test (h_src_port inp)); simpl; [reflexivity|exact Hfam]. }
  split; [exists a; split; [exact Hin|rewrite Hd; exact Hfam]|exact Hd].
Qed.
