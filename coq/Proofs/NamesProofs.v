(* What name_change / hostname_change (Model/Names.v) do, on all byte strings. *)
From Coq Require Import List NArith Bool Lia.
From Mdns Require Import Bytes ParamsRegistry Names RegistryParamsPinned.
Import ListNotations.
Open Scope N_scope.

(* ---- splitting at the first dot ---------------------------------------------------------------- *)

Definition no_byte (c : N) (s : bytes) : Prop := Forall (fun x => x <> c) s.
Definition starts_dot_or_empty (r : bytes) : Prop := r = [] \/ exists t, r = C_DOT :: t.

Lemma split_first_app x rest :
  no_byte C_DOT x -> starts_dot_or_empty rest -> split_first (x ++ rest) = (x, rest).
Proof.
  intros Hx Hr. induction x as [|c x IH]; simpl.
  - destruct Hr as [->|[t ->]]; reflexivity.
  - inversion Hx; subst. destruct (c =? C_DOT) eqn:E; [apply N.eqb_eq in E; contradiction|].
    rewrite IH by assumption. reflexivity.
Qed.

(* ---- rfind / find ---------------------------------------------------------------------------------- *)

Lemma rsplit2_last a b x q :
  rsplit2 a b (b :: q) = None -> rsplit2 a b (x ++ a :: b :: q) = Some (x, q).
Proof.
  intros H. induction x as [|c x IH]; simpl.
  - simpl in H. rewrite H. rewrite !N.eqb_refl. reflexivity.
  - rewrite IH. reflexivity.
Qed.

Lemma rsplit2_none a b s : Forall (fun x => x <> a) s -> rsplit2 a b s = None.
Proof.
  induction s as [|c s IH]; simpl; intros H; [reflexivity|].
  inversion H; subst. rewrite IH by assumption.
  destruct s; [reflexivity|].
  destruct (c =? a) eqn:E; [apply N.eqb_eq in E; contradiction|]. reflexivity.
Qed.

Lemma rsplit2_none_cons a b c s :
  c <> a -> rsplit2 a b s = None -> rsplit2 a b (c :: s) = None.
Proof.
  intros Hc H. simpl. rewrite H. destruct s; [reflexivity|].
  destruct (c =? a) eqn:E; [apply N.eqb_eq in E; contradiction|]. reflexivity.
Qed.

Lemma rsplit1_last a x q : no_byte a q -> rsplit1 a (x ++ a :: q) = Some (x, q).
Proof.
  intros H. induction x as [|c x IH]; simpl.
  - assert (rsplit1 a q = None) as ->.
    { clear -H. induction q as [|d q IH]; simpl; [reflexivity|]. inversion H; subst.
      rewrite IH by assumption. destruct (d =? a) eqn:E; [apply N.eqb_eq in E; contradiction|reflexivity]. }
    rewrite N.eqb_refl. reflexivity.
  - rewrite IH. reflexivity.
Qed.

Lemma rsplit1_none a s : no_byte a s -> rsplit1 a s = None.
Proof.
  induction s as [|d q IH]; simpl; intros H; [reflexivity|]. inversion H; subst.
  rewrite IH by assumption. destruct (d =? a) eqn:E; [apply N.eqb_eq in E; contradiction|reflexivity].
Qed.

Lemma find1_end a s : no_byte a s -> find1 a (s ++ [a]) = Some (s, []).
Proof.
  induction s as [|d q IH]; simpl; intros H.
  - rewrite N.eqb_refl. reflexivity.
  - inversion H; subst. destruct (d =? a) eqn:E; [apply N.eqb_eq in E; contradiction|].
    rewrite IH by assumption. reflexivity.
Qed.

(* ---- digits -------------------------------------------------------------------------------------------- *)

Definition all_digits (ds : bytes) : Prop := forallb is_digit ds = true.

Lemma is_digit_range c : is_digit c = true <-> 48 <= c <= 57.
Proof. unfold is_digit. rewrite andb_true_iff, !N.leb_le. tauto. Qed.

Lemma digits_no_byte c ds : all_digits ds -> (c < 48 \/ 57 < c) -> no_byte c ds.
Proof.
  unfold all_digits, no_byte. intros H Hc. rewrite forallb_forall in H. apply Forall_forall.
  intros x Hx E. subst. apply H in Hx. apply is_digit_range in Hx. lia.
Qed.

Lemma digits_val_snoc l d : digits_val (l ++ [d]) = digits_val l * 10 + (d - 48).
Proof. unfold digits_val. rewrite fold_left_app. reflexivity. Qed.

Lemma parse_u32_digits ds :
  ds <> [] -> all_digits ds -> digits_val ds <= 4294967295 -> parse_u32 ds = Some (digits_val ds).
Proof.
  intros Hne Hd Hv. unfold parse_u32. destruct ds as [|c t]; [contradiction|].
  assert (c =? C_PLUS = false) as ->.
  { apply N.eqb_neq. unfold all_digits in Hd. simpl in Hd. apply andb_true_iff in Hd as [Hc _].
    apply is_digit_range in Hc. unfold C_PLUS. lia. }
  unfold all_digits in Hd. rewrite Hd. apply N.leb_le in Hv. rewrite Hv. reflexivity.
Qed.

Lemma parse_u32_overflow ds :
  ds <> [] -> all_digits ds -> 4294967295 < digits_val ds -> parse_u32 ds = None.
Proof.
  intros Hne Hd Hv. unfold parse_u32. destruct ds as [|c t]; [contradiction|].
  assert (c =? C_PLUS = false) as ->.
  { apply N.eqb_neq. unfold all_digits in Hd. simpl in Hd. apply andb_true_iff in Hd as [Hc _].
    apply is_digit_range in Hc. unfold C_PLUS. lia. }
  unfold all_digits in Hd. rewrite Hd. apply N.leb_gt in Hv. rewrite Hv. reflexivity.
Qed.

Lemma single_digit n : n < 10 -> all_digits [48 + n].
Proof. intros H. unfold all_digits. cbn [forallb]. rewrite andb_true_r. apply is_digit_range. lia. Qed.

Lemma single_digit_val n : digits_val [48 + n] = n.
Proof. unfold digits_val. cbn [fold_left]. lia. Qed.

(* decimal printing: digits, at least one, and reading them back gives the number *)
Lemma dec_fuel_spec f : forall n acc,
  n < 10 ^ N.of_nat (S f) ->
  exists ds, dec_fuel (S f) n acc = ds ++ acc /\ all_digits ds /\ ds <> [] /\ digits_val ds = n.
Proof.
  induction f as [|f IH]; intros n acc Hn.
  - assert (Hn10 : n < 10) by (change (10 ^ N.of_nat 1) with 10 in Hn; exact Hn).
    cbn [dec_fuel]. apply N.ltb_lt in Hn10 as Hb. rewrite Hb.
    exists [48 + n mod 10]. rewrite N.mod_small by assumption. repeat split.
    + apply single_digit. assumption.
    + discriminate.
    + apply single_digit_val.
  - change (dec_fuel (S (S f)) n acc) with
      (let acc' := (48 + n mod 10) :: acc in if n <? 10 then acc' else dec_fuel (S f) (n / 10) acc').
    cbv zeta. destruct (n <? 10) eqn:E.
    + apply N.ltb_lt in E. exists [48 + n mod 10]. rewrite N.mod_small by assumption. repeat split.
      * apply single_digit. assumption.
      * discriminate.
      * apply single_digit_val.
    + apply N.ltb_ge in E.
      assert (Hdiv : n / 10 < 10 ^ N.of_nat (S f)).
      { apply N.div_lt_upper_bound; [lia|].
        replace (N.of_nat (S (S f))) with (N.succ (N.of_nat (S f))) in Hn by lia.
        rewrite N.pow_succ_r' in Hn. exact Hn. }
      destruct (IH (n / 10) ((48 + n mod 10) :: acc) Hdiv) as (ds & Hds & Hdig & Hne & Hval).
      exists (ds ++ [48 + n mod 10]). rewrite Hds, <- app_assoc. repeat split.
      * unfold all_digits in *. rewrite forallb_app, Hdig.
        apply (single_digit (n mod 10)). apply N.mod_upper_bound. discriminate.
      * destruct ds; discriminate.
      * rewrite digits_val_snoc, Hval. pose proof (N.div_mod n 10 ltac:(lia)) as Hdm.
        clear -Hdm. generalize dependent (n mod 10). generalize dependent (n / 10). intros. lia.
Qed.

Lemma dec_spec n :
  n <= 4294967296 -> exists ds, dec n = ds /\ all_digits ds /\ ds <> [] /\ digits_val ds = n.
Proof.
  intros Hn. unfold dec.
  assert (H : n < 10 ^ N.of_nat 40).
  { assert (E : 10 ^ N.of_nat 40 = 10000000000000000000000000000000000000000) by (vm_compute; reflexivity).
    rewrite E. lia. }
  destruct (dec_fuel_spec 39 n [] H) as (ds & Hds & Hd & Hne & Hv).
  exists ds. rewrite Hds, app_nil_r. auto.
Qed.

Lemma parse_dec n : n <= 4294967295 -> parse_u32 (dec n) = Some n.
Proof.
  intros Hn. destruct (dec_spec n) as (ds & -> & Hd & Hne & Hv); [lia|].
  rewrite parse_u32_digits; auto; rewrite Hv; auto.
Qed.

(* ---- name_change ------------------------------------------------------------------------------------------- *)

Ltac norm_app := repeat (rewrite <- app_assoc); cbn [app]; repeat (rewrite <- app_assoc); cbn [app]; reflexivity.

Definition SUFFIX2 : bytes := [C_SP; C_LP; 50; C_RP].      (* " (2)" *)

(* a first label without " (" gets " (2)" appended *)
Lemma name_change_fresh x rest :
  no_byte C_DOT x -> starts_dot_or_empty rest -> rsplit2 C_SP C_LP x = None ->
  name_change (x ++ rest) = x ++ SUFFIX2 ++ rest.
Proof.
  intros Hx Hr Hp. unfold name_change. rewrite split_first_app by assumption.
  rewrite Hp. rewrite <- app_assoc. reflexivity.
Qed.

Lemma paren_tail_none ds : all_digits ds -> rsplit2 C_SP C_LP (C_LP :: ds ++ [C_RP]) = None.
Proof.
  intros Hd. apply rsplit2_none. constructor; [unfold C_LP, C_SP; lia|].
  apply Forall_app. split.
  - apply (digits_no_byte C_SP ds Hd). unfold C_SP. lia.
  - constructor; [unfold C_RP, C_SP; lia|constructor].
Qed.

(* "x (n)" counts up to "x (n+1)", whatever x is (it may itself contain " (") *)
Lemma name_change_increment x ds rest :
  no_byte C_DOT x -> starts_dot_or_empty rest ->
  ds <> [] -> all_digits ds -> digits_val ds < 4294967295 ->
  name_change (x ++ [C_SP; C_LP] ++ ds ++ [C_RP] ++ rest)
  = x ++ [C_SP; C_LP] ++ dec (digits_val ds + 1) ++ [C_RP] ++ rest.
Proof.
  intros Hx Hr Hne Hd Hv. unfold name_change.
  replace (x ++ [C_SP; C_LP] ++ ds ++ [C_RP] ++ rest) with ((x ++ [C_SP; C_LP] ++ ds ++ [C_RP]) ++ rest)
    by (rewrite <- !app_assoc; reflexivity).
  rewrite split_first_app; [| |assumption].
  2:{ apply Forall_app. split; [assumption|]. constructor; [unfold C_SP, C_DOT; lia|].
      constructor; [unfold C_LP, C_DOT; lia|]. apply Forall_app. split.
      - apply (digits_no_byte C_DOT ds Hd). unfold C_DOT. lia.
      - constructor; [unfold C_RP, C_DOT; lia|constructor]. }
  change (x ++ [C_SP; C_LP] ++ ds ++ [C_RP]) with (x ++ C_SP :: C_LP :: (ds ++ [C_RP])).
  rewrite rsplit2_last by (apply paren_tail_none; assumption).
  rewrite find1_end by (apply (digits_no_byte C_RP ds Hd); unfold C_RP; lia).
  rewrite parse_u32_digits by (auto; lia).
  unfold name_suffix_can_increment. destruct suffix_step_pinned as [-> _].
  assert (digits_val ds + 1 <=? 4294967295 = true) as -> by (apply N.leb_le; lia).
  rewrite <- !app_assoc. reflexivity.
Qed.

(* at u32::MAX the number is left alone and " (2)" is appended (checked_add fails) *)
Lemma name_change_at_max x ds rest :
  no_byte C_DOT x -> starts_dot_or_empty rest ->
  ds <> [] -> all_digits ds -> digits_val ds = 4294967295 ->
  name_change (x ++ [C_SP; C_LP] ++ ds ++ [C_RP] ++ rest)
  = x ++ [C_SP; C_LP] ++ ds ++ [C_RP] ++ SUFFIX2 ++ rest.
Proof.
  intros Hx Hr Hne Hd Hv. unfold name_change.
  replace (x ++ [C_SP; C_LP] ++ ds ++ [C_RP] ++ rest) with ((x ++ [C_SP; C_LP] ++ ds ++ [C_RP]) ++ rest)
    by (rewrite <- !app_assoc; reflexivity).
  rewrite split_first_app; [| |assumption].
  2:{ apply Forall_app. split; [assumption|]. constructor; [unfold C_SP, C_DOT; lia|].
      constructor; [unfold C_LP, C_DOT; lia|]. apply Forall_app. split.
      - apply (digits_no_byte C_DOT ds Hd). unfold C_DOT. lia.
      - constructor; [unfold C_RP, C_DOT; lia|constructor]. }
  change (x ++ [C_SP; C_LP] ++ ds ++ [C_RP]) with (x ++ C_SP :: C_LP :: (ds ++ [C_RP])).
  rewrite rsplit2_last by (apply paren_tail_none; assumption).
  rewrite find1_end by (apply (digits_no_byte C_RP ds Hd); unfold C_RP; lia).
  rewrite parse_u32_digits by (auto; lia).
  unfold name_suffix_can_increment. destruct suffix_step_pinned as [-> _]. rewrite Hv.
  change (4294967295 + 1 <=? 4294967295) with false. cbv iota.
  unfold SUFFIX2. norm_app.
Qed.

(* so renaming twice counts 'x' -> 'x (2)' -> 'x (3)' *)
Lemma name_change_twice x rest :
  no_byte C_DOT x -> starts_dot_or_empty rest -> rsplit2 C_SP C_LP x = None ->
  name_change (name_change (x ++ rest)) = x ++ [C_SP; C_LP; 51; C_RP] ++ rest.
Proof.
  intros Hx Hr Hp. rewrite name_change_fresh by assumption.
  change (x ++ SUFFIX2 ++ rest) with (x ++ [C_SP; C_LP] ++ [50] ++ [C_RP] ++ rest).
  rewrite name_change_increment; try assumption; try discriminate; try reflexivity.
Qed.

(* ---- hostname_change --------------------------------------------------------------------------------------------- *)

Lemma hostname_change_fresh x rest :
  no_byte C_DOT x -> starts_dot_or_empty rest -> no_byte C_HY x ->
  hostname_change (x ++ rest) = x ++ [C_HY; 50] ++ rest.
Proof.
  intros Hx Hr Hh. unfold hostname_change. rewrite split_first_app by assumption.
  rewrite rsplit1_none by assumption. rewrite <- app_assoc. reflexivity.
Qed.

Lemma hostname_change_increment x ds rest :
  no_byte C_DOT x -> starts_dot_or_empty rest ->
  ds <> [] -> all_digits ds -> digits_val ds < 4294967295 ->
  hostname_change (x ++ [C_HY] ++ ds ++ rest) = x ++ [C_HY] ++ dec (digits_val ds + 1) ++ rest.
Proof.
  intros Hx Hr Hne Hd Hv. unfold hostname_change.
  replace (x ++ [C_HY] ++ ds ++ rest) with ((x ++ [C_HY] ++ ds) ++ rest) by (rewrite <- !app_assoc; reflexivity).
  rewrite split_first_app; [| |assumption].
  2:{ apply Forall_app. split; [assumption|]. constructor; [unfold C_HY, C_DOT; lia|].
      apply (digits_no_byte C_DOT ds Hd). unfold C_DOT. lia. }
  change (x ++ [C_HY] ++ ds) with (x ++ C_HY :: ds).
  rewrite rsplit1_last by (apply (digits_no_byte C_HY ds Hd); unfold C_HY; lia).
  rewrite parse_u32_digits by (auto; lia).
  unfold host_suffix_can_increment. destruct suffix_step_pinned as [_ ->].
  assert (digits_val ds + 1 <=? 4294967295 = true) as -> by (apply N.leb_le; lia).
  rewrite <- !app_assoc. reflexivity.
Qed.

Lemma hostname_change_at_max x ds rest :
  no_byte C_DOT x -> starts_dot_or_empty rest ->
  ds <> [] -> all_digits ds -> digits_val ds = 4294967295 ->
  hostname_change (x ++ [C_HY] ++ ds ++ rest) = x ++ [C_HY] ++ ds ++ [C_HY; 50] ++ rest.
Proof.
  intros Hx Hr Hne Hd Hv. unfold hostname_change.
  replace (x ++ [C_HY] ++ ds ++ rest) with ((x ++ [C_HY] ++ ds) ++ rest) by (rewrite <- !app_assoc; reflexivity).
  rewrite split_first_app; [| |assumption].
  2:{ apply Forall_app. split; [assumption|]. constructor; [unfold C_HY, C_DOT; lia|].
      apply (digits_no_byte C_DOT ds Hd). unfold C_DOT. lia. }
  change (x ++ [C_HY] ++ ds) with (x ++ C_HY :: ds).
  rewrite rsplit1_last by (apply (digits_no_byte C_HY ds Hd); unfold C_HY; lia).
  rewrite parse_u32_digits by (auto; lia).
  unfold host_suffix_can_increment. destruct suffix_step_pinned as [_ ->]. rewrite Hv.
  change (4294967295 + 1 <=? 4294967295) with false. cbv iota.
  norm_app.
Qed.

Lemma hostname_change_twice x rest :
  no_byte C_DOT x -> starts_dot_or_empty rest -> no_byte C_HY x ->
  hostname_change (hostname_change (x ++ rest)) = x ++ [C_HY; 51] ++ rest.
Proof.
  intros Hx Hr Hh. rewrite hostname_change_fresh by assumption.
  change (x ++ [C_HY; 50] ++ rest) with (x ++ [C_HY] ++ [50] ++ rest).
  rewrite hostname_change_increment; try assumption; try discriminate; try reflexivity.
Qed.

(* ---- the rest of the name is kept; the first label can outgrow 63 bytes -------------------------------------------------- *)

(* without a backslash in front of the first dot, "first label" and "first piece" coincide *)
Lemma split_first_label_plain s :
  no_byte C_BSL (fst (split_first s)) -> split_first_label s = split_first s.
Proof.
  induction s as [|c s IH]; simpl; [reflexivity|].
  destruct (c =? C_DOT) eqn:E; [reflexivity|].
  destruct (split_first s) as [a r] eqn:Es. simpl. intros H. inversion H; subst.
  destruct (c =? C_BSL) eqn:Eb; [apply N.eqb_eq in Eb; contradiction|].
  rewrite IH by assumption. reflexivity.
Qed.

Lemma split_first_rest_shape s : starts_dot_or_empty (snd (split_first s)) /\ no_byte C_DOT (fst (split_first s)).
Proof.
  induction s as [|c s IH]; simpl.
  - split; [left; reflexivity|constructor].
  - destruct (c =? C_DOT) eqn:E.
    + apply N.eqb_eq in E. subst c. simpl. split; [right; exists s; reflexivity|constructor].
    + destruct (split_first s) as [a r]. simpl in *. destruct IH as [I1 I2]. split; [assumption|].
      constructor; [apply N.eqb_neq; assumption|assumption].
Qed.

Lemma split_first_join s : fst (split_first s) ++ snd (split_first s) = s.
Proof.
  induction s as [|c s IH]; simpl; [reflexivity|].
  destruct (c =? C_DOT); [reflexivity|]. destruct (split_first s) as [a r]. simpl in *. congruence.
Qed.

(* name_change only ever rewrites the first piece *)
Lemma name_change_shape s : exists nf, name_change s = nf ++ snd (split_first s).
Proof.
  unfold name_change. destruct (split_first s) as [first rest]. simpl.
  eexists. reflexivity.
Qed.

Lemma hostname_change_shape s : exists nf, hostname_change s = nf ++ snd (split_first s).
Proof.
  unfold hostname_change. destruct (split_first s) as [first rest]. simpl.
  eexists. reflexivity.
Qed.

(* A 60-byte instance label becomes a 64-byte label: no longer encodable. *)
Lemma name_change_overflow_refuted :
  exists s, first_label_encodable s = true /\ first_label_encodable (name_change s) = false.
Proof.
  exists (repeat 110 60 ++ [46; 95; 116; 46; 108; 111; 99; 97; 108; 46]). split; vm_compute; reflexivity.
Qed.

Lemma hostname_change_overflow_refuted :
  exists s, first_label_encodable s = true /\ first_label_encodable (hostname_change s) = false.
Proof.
  exists (repeat 104 62 ++ [46; 108; 111; 99; 97; 108; 46]). split; vm_compute; reflexivity.
Qed.

(* An escaped dot in the instance label is taken for a label boundary:
   "My\.Svc._t._tcp.local." becomes "My\ (2).Svc._t._tcp.local." *)
Lemma name_change_escaped_dot_refuted :
  exists s, rename_keeps_rest s (name_change s) = false /\
            name_change s = [77;121;92;32;40;50;41;46;83;118;99;46;95;116;46;95;116;99;112;46;108;111;99;97;108;46].
Proof.
  exists [77;121;92;46;83;118;99;46;95;116;46;95;116;99;112;46;108;111;99;97;108;46].
  split; vm_compute; reflexivity.
Qed.

Lemma rename_shape_both s :
  (exists nf, name_change s = nf ++ snd (split_first s)) /\
  (exists nf, hostname_change s = nf ++ snd (split_first s)).
Proof. split; [apply name_change_shape|apply hostname_change_shape]. Qed.

Lemma rename_overflow_both :
  (exists s, first_label_encodable s = true /\ first_label_encodable (name_change s) = false) /\
  (exists s, first_label_encodable s = true /\ first_label_encodable (hostname_change s) = false).
Proof. exact (conj name_change_overflow_refuted hostname_change_overflow_refuted). Qed.
