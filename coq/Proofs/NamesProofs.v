(* What name_change / hostname_change (Model/Names.v) do, on all byte strings. *)
From Coq Require Import List NArith Bool Lia Arith PeanoNat.
From Mdns Require Import Bytes ParamsRegistry Names RegistryParamsPinned.
Import ListNotations.
Open Scope N_scope.

(* ---- splitting at the first dot ---------------------------------------------------------------- *)

Definition no_byte (c : N) (s : bytes) : Prop := Forall (fun x => x <> c) s.
Definition starts_dot_or_empty (r : bytes) : Prop := r = [] \/ exists t, r = C_DOT :: t.

Lemma split_first_app x rest :
  no_byte C_DOT x -> starts_dot_or_empty rest -> split_first (x ++ rest) = (x, rest).
Proof.
  intros Hx Hr. induction x as [|c x IH]; simpl.
  - destruct Hr as [->|[t ->]]; reflexivity.
  - inversion Hx; subst. destruct (c =? C_DOT) eqn:E; [apply N.eqb_eq in E; contradiction|].
    rewrite IH by assumption. reflexivity.
Qed.

(* ---- rfind / find ---------------------------------------------------------------------------------- *)

Lemma rsplit2_last a b x q :
  rsplit2 a b (b :: q) = None -> rsplit2 a b (x ++ a :: b :: q) = Some (x, q).
Proof.
  intros H. induction x as [|c x IH]; simpl.
  - simpl in H. rewrite H. rewrite !N.eqb_refl. reflexivity.
  - rewrite IH. reflexivity.
Qed.

Lemma rsplit2_none a b s : Forall (fun x => x <> a) s -> rsplit2 a b s = None.
Proof.
  induction s as [|c s IH]; simpl; intros H; [reflexivity|].
  inversion H; subst. rewrite IH by assumption.
  destruct s; [reflexivity|].
  destruct (c =? a) eqn:E; [apply N.eqb_eq in E; contradiction|]. reflexivity.
Qed.

Lemma rsplit2_none_cons a b c s :
  c <> a -> rsplit2 a b s = None -> rsplit2 a b (c :: s) = None.
Proof.
  intros Hc H. simpl. rewrite H. destruct s; [reflexivity|].
  destruct (c =? a) eqn:E; [apply N.eqb_eq in E; contradiction|]. reflexivity.
Qed.

Lemma rsplit1_last a x q : no_byte a q -> rsplit1 a (x ++ a :: q) = Some (x, q).
Proof.
  intros H. induction x as [|c x IH]; simpl.
  - assert (rsplit1 a q = None) as ->.
    { clear -H. induction q as [|d q IH]; simpl; [reflexivity|]. inversion H; subst.
      rewrite IH by assumption. destruct (d =? a) eqn:E; [apply N.eqb_eq in E; contradiction|reflexivity]. }
    rewrite N.eqb_refl. reflexivity.
  - rewrite IH. reflexivity.
Qed.

Lemma rsplit1_none a s : no_byte a s -> rsplit1 a s = None.
Proof.
  induction s as [|d q IH]; simpl; intros H; [reflexivity|]. inversion H; subst.
  rewrite IH by assumption. destruct (d =? a) eqn:E; [apply N.eqb_eq in E; contradiction|reflexivity].
Qed.

Lemma find1_end a s : no_byte a s -> find1 a (s ++ [a]) = Some (s, []).
Proof.
  induction s as [|d q IH]; simpl; intros H.
  - rewrite N.eqb_refl. reflexivity.
  - inversion H; subst. destruct (d =? a) eqn:E; [apply N.eqb_eq in E; contradiction|].
    rewrite IH by assumption. reflexivity.
Qed.

(* ---- digits -------------------------------------------------------------------------------------------- *)

Definition all_digits (ds : bytes) : Prop := forallb is_digit ds = true.

Lemma is_digit_range c : is_digit c = true <-> 48 <= c <= 57.
Proof. unfold is_digit. rewrite andb_true_iff, !N.leb_le. tauto. Qed.

Lemma digits_no_byte c ds : all_digits ds -> (c < 48 \/ 57 < c) -> no_byte c ds.
Proof.
  unfold all_digits, no_byte. intros H Hc. rewrite forallb_forall in H. apply Forall_forall.
  intros x Hx E. subst. apply H in Hx. apply is_digit_range in Hx. lia.
Qed.

Lemma digits_val_snoc l d : digits_val (l ++ [d]) = digits_val l * 10 + (d - 48).
Proof. unfold digits_val. rewrite fold_left_app. reflexivity. Qed.

Lemma parse_u32_digits ds :
  ds <> [] -> all_digits ds -> digits_val ds <= 4294967295 -> parse_u32 ds = Some (digits_val ds).
Proof.
  intros Hne Hd Hv. unfold parse_u32. destruct ds as [|c t]; [contradiction|].
  assert (c =? C_PLUS = false) as ->.
  { apply N.eqb_neq. unfold all_digits in Hd. simpl in Hd. apply andb_true_iff in Hd as [Hc _].
    apply is_digit_range in Hc. unfold C_PLUS. lia. }
  unfold all_digits in Hd. rewrite Hd. apply N.leb_le in Hv. rewrite Hv. reflexivity.
Qed.

Lemma parse_u32_overflow ds :
  ds <> [] -> all_digits ds -> 4294967295 < digits_val ds -> parse_u32 ds = None.
Proof.
  intros Hne Hd Hv. unfold parse_u32. destruct ds as [|c t]; [contradiction|].
  assert (c =? C_PLUS = false) as ->.
  { apply N.eqb_neq. unfold all_digits in Hd. simpl in Hd. apply andb_true_iff in Hd as [Hc _].
    apply is_digit_range in Hc. unfold C_PLUS. lia. }
  unfold all_digits in Hd. rewrite Hd. apply N.leb_gt in Hv. rewrite Hv. reflexivity.
Qed.

Lemma single_digit n : n < 10 -> all_digits [48 + n].
Proof. intros H. unfold all_digits. cbn [forallb]. rewrite andb_true_r. apply is_digit_range. lia. Qed.

Lemma single_digit_val n : digits_val [48 + n] = n.
Proof. unfold digits_val. cbn [fold_left]. lia. Qed.

(* decimal printing: digits, at least one, and reading them back gives the number *)
Lemma dec_fuel_spec f : forall n acc,
  n < 10 ^ N.of_nat (S f) ->
  exists ds, dec_fuel (S f) n acc = ds ++ acc /\ all_digits ds /\ ds <> [] /\ digits_val ds = n.
Proof.
  induction f as [|f IH]; intros n acc Hn.
  - assert (Hn10 : n < 10) by (change (10 ^ N.of_nat 1) with 10 in Hn; exact Hn).
    cbn [dec_fuel]. apply N.ltb_lt in Hn10 as Hb. rewrite Hb.
    exists [48 + n mod 10]. rewrite N.mod_small by assumption. repeat split.
    + apply single_digit. assumption.
    + discriminate.
    + apply single_digit_val.
  - change (dec_fuel (S (S f)) n acc) with
      (let acc' := (48 + n mod 10) :: acc in if n <? 10 then acc' else dec_fuel (S f) (n / 10) acc').
    cbv zeta. destruct (n <? 10) eqn:E.
    + apply N.ltb_lt in E. exists [48 + n mod 10]. rewrite N.mod_small by assumption. repeat split.
      * apply single_digit. assumption.
      * discriminate.
      * apply single_digit_val.
    + apply N.ltb_ge in E.
      assert (Hdiv : n / 10 < 10 ^ N.of_nat (S f)).
      { apply N.div_lt_upper_bound; [lia|].
        replace (N.of_nat (S (S f))) with (N.succ (N.of_nat (S f))) in Hn by lia.
        rewrite N.pow_succ_r' in Hn. exact Hn. }
      destruct (IH (n / 10) ((48 + n mod 10) :: acc) Hdiv) as (ds & Hds & Hdig & Hne & Hval).
      exists (ds ++ [48 + n mod 10]). rewrite Hds, <- app_assoc. repeat split.
      * unfold all_digits in *. rewrite forallb_app, Hdig.
        apply (single_digit (n mod 10)). apply N.mod_upper_bound. discriminate.
      * destruct ds; discriminate.
      * rewrite digits_val_snoc, Hval. pose proof (N.div_mod n 10 ltac:(lia)) as Hdm.
        clear -Hdm. generalize dependent (n mod 10). generalize dependent (n / 10). intros. lia.
Qed.

Lemma dec_spec n :
  n <= 4294967296 -> exists ds, dec n = ds /\ all_digits ds /\ ds <> [] /\ digits_val ds = n.
Proof.
  intros Hn. unfold dec.
  assert (H : n < 10 ^ N.of_nat 40).
  { assert (E : 10 ^ N.of_nat 40 = 10000000000000000000000000000000000000000) by (vm_compute; reflexivity).
    rewrite E. lia. }
  destruct (dec_fuel_spec 39 n [] H) as (ds & Hds & Hd & Hne & Hv).
  exists ds. rewrite Hds, app_nil_r. auto.
Qed.

Lemma parse_dec n : n <= 4294967295 -> parse_u32 (dec n) = Some n.
Proof.
  intros Hn. destruct (dec_spec n) as (ds & -> & Hd & Hne & Hv); [lia|].
  rewrite parse_u32_digits; auto; rewrite Hv; auto.
Qed.

(* ---- the first label ------------------------------------------------------------------------------------ *)

(* a label text without dots and backslashes *)
Definition plain (x : bytes) : Prop := no_byte C_DOT x /\ no_byte C_BSL x.

Lemma split_first_label_app x rest :
  plain x -> starts_dot_or_empty rest -> split_first_label (x ++ rest) = (x, rest).
Proof.
  intros [Hd Hb] Hr. induction x as [|c x IH]; simpl.
  - destruct Hr as [->|[t ->]]; reflexivity.
  - inversion Hd; subst. inversion Hb; subst.
    destruct (c =? C_DOT) eqn:E; [apply N.eqb_eq in E; contradiction|].
    destruct (c =? C_BSL) eqn:E2; [apply N.eqb_eq in E2; contradiction|].
    rewrite IH by assumption. reflexivity.
Qed.

(* ---- label_with_suffix ------------------------------------------------------------------------------------ *)

Lemma back_boundary_le f base : forall e, (back_boundary f base e <= e)%nat.
Proof.
  induction f as [|f IH]; intros e; simpl; [lia|].
  destruct (Nat.eqb e (length base)); [lia|]. destruct e as [|e']; [lia|].
  destruct (nth_error base (S e')); [|lia]. destruct (is_cont n); [|lia].
  specialize (IH e'). lia.
Qed.

Lemma removelast_length {A} (l : list A) : (length (removelast l) <= length l)%nat.
Proof. induction l as [|a [|b t] IH]; simpl in *; lia. Qed.

(* the result always fits a DNS label *)
Lemma label_with_suffix_len base suffix :
  (length suffix <= 63)%nat -> (length (label_with_suffix base suffix) <= 63)%nat.
Proof.
  intros Hs. unfold label_with_suffix.
  set (e0 := Nat.min (length base) (63 - length suffix)).
  pose proof (back_boundary_le e0 base e0) as Hb.
  set (e := back_boundary e0 base e0) in *.
  assert (Hk : (length (firstn e base) <= e)%nat) by apply firstn_le_length.
  rewrite app_length.
  destruct (Nat.ltb e (length base) && Nat.odd (lead_bsl (rev (firstn e base)))).
  - pose proof (removelast_length (firstn e base)). unfold e0 in *. lia.
  - unfold e0 in *. lia.
Qed.

(* nothing is cut when base and suffix fit together *)
Lemma label_with_suffix_fits base suffix :
  (length base + length suffix <= 63)%nat -> label_with_suffix base suffix = base ++ suffix.
Proof.
  intros H. unfold label_with_suffix.
  assert (E : Nat.min (length base) (63 - length suffix) = length base) by lia. rewrite E.
  assert (B : forall f, back_boundary f base (length base) = length base).
  { intros f. destruct f; simpl; [reflexivity|]. rewrite Nat.eqb_refl. reflexivity. }
  rewrite B, firstn_all, Nat.ltb_irrefl. reflexivity.
Qed.

Lemma dec_fuel_length f : forall n acc, (length (dec_fuel f n acc) <= f + length acc)%nat.
Proof.
  induction f as [|f IH]; intros n acc; simpl; [lia|].
  destruct (n <? 10); simpl; [lia|]. specialize (IH (n / 10) ((48 + n mod 10) :: acc)). simpl in IH. lia.
Qed.

Lemma dec_length n : (length (dec n) <= 40)%nat.
Proof. unfold dec. pose proof (dec_fuel_length 40 n []) as H. cbn [length] in H. lia. Qed.

(* ---- name_change ------------------------------------------------------------------------------------------- *)

Ltac norm_app := repeat (rewrite <- app_assoc); cbn [app]; repeat (rewrite <- app_assoc); cbn [app]; reflexivity.

Definition SUFFIX2 : bytes := [C_SP; C_LP; 50; C_RP].      (* " (2)" *)
Definition HSUFFIX2 : bytes := [C_HY; 50].                 (* "-2" *)

(* a first label without " (" gets " (2)" appended *)
Lemma name_change_fresh x rest :
  plain x -> starts_dot_or_empty rest -> rsplit2 C_SP C_LP x = None -> (length x + 4 <= 63)%nat ->
  name_change (x ++ rest) = x ++ SUFFIX2 ++ rest.
Proof.
  intros Hx Hr Hp Hl. unfold name_change. rewrite split_first_label_app by assumption.
  rewrite Hp. rewrite label_with_suffix_fits by (simpl; lia). unfold SUFFIX2. norm_app.
Qed.

Lemma paren_tail_none ds : all_digits ds -> rsplit2 C_SP C_LP (C_LP :: ds ++ [C_RP]) = None.
Proof.
  intros Hd. apply rsplit2_none. constructor; [unfold C_LP, C_SP; lia|].
  apply Forall_app. split.
  - apply (digits_no_byte C_SP ds Hd). unfold C_SP. lia.
  - constructor; [unfold C_RP, C_SP; lia|constructor].
Qed.

Lemma plain_with_paren x ds : plain x -> all_digits ds -> plain (x ++ [C_SP; C_LP] ++ ds ++ [C_RP]).
Proof.
  intros [Hd Hb] Hds. split; apply Forall_app; split; try assumption.
  - constructor; [unfold C_SP, C_DOT; lia|]. constructor; [unfold C_LP, C_DOT; lia|]. apply Forall_app. split.
    + apply (digits_no_byte C_DOT ds Hds). unfold C_DOT. lia.
    + constructor; [unfold C_RP, C_DOT; lia|constructor].
  - constructor; [unfold C_SP, C_BSL; lia|]. constructor; [unfold C_LP, C_BSL; lia|]. apply Forall_app. split.
    + apply (digits_no_byte C_BSL ds Hds). unfold C_BSL. lia.
    + constructor; [unfold C_RP, C_BSL; lia|constructor].
Qed.

(* "x (n)" counts up to "x (n+1)", whatever x is (it may itself contain " (") *)
Lemma name_change_increment x ds rest :
  plain x -> starts_dot_or_empty rest ->
  ds <> [] -> all_digits ds -> digits_val ds < 4294967295 -> (length x <= 20)%nat ->
  name_change (x ++ [C_SP; C_LP] ++ ds ++ [C_RP] ++ rest)
  = x ++ [C_SP; C_LP] ++ dec (digits_val ds + 1) ++ [C_RP] ++ rest.
Proof.
  intros Hx Hr Hne Hd Hv Hl. unfold name_change.
  replace (x ++ [C_SP; C_LP] ++ ds ++ [C_RP] ++ rest) with ((x ++ [C_SP; C_LP] ++ ds ++ [C_RP]) ++ rest)
    by (rewrite <- !app_assoc; reflexivity).
  rewrite split_first_label_app; [|apply plain_with_paren; assumption|assumption].
  change (x ++ [C_SP; C_LP] ++ ds ++ [C_RP]) with (x ++ C_SP :: C_LP :: (ds ++ [C_RP])).
  rewrite rsplit2_last by (apply paren_tail_none; assumption).
  rewrite find1_end by (apply (digits_no_byte C_RP ds Hd); unfold C_RP; lia).
  rewrite parse_u32_digits by (auto; lia).
  unfold name_suffix_can_increment. destruct suffix_step_pinned as [-> _].
  assert (digits_val ds + 1 <=? 4294967295 = true) as -> by (apply N.leb_le; lia).
  rewrite label_with_suffix_fits.
  - norm_app.
  - pose proof (dec_length (digits_val ds + 1)). rewrite !app_length. cbn [length]. lia.
Qed.

(* at 4294967295 the number cannot grow: ' (2)' is appended instead (no overflow) *)
Lemma name_change_at_max x ds rest :
  plain x -> starts_dot_or_empty rest ->
  ds <> [] -> all_digits ds -> digits_val ds = 4294967295 -> (length x + length ds + 7 <= 63)%nat ->
  name_change (x ++ [C_SP; C_LP] ++ ds ++ [C_RP] ++ rest)
  = x ++ [C_SP; C_LP] ++ ds ++ [C_RP] ++ SUFFIX2 ++ rest.
Proof.
  intros Hx Hr Hne Hd Hv Hl. unfold name_change.
  replace (x ++ [C_SP; C_LP] ++ ds ++ [C_RP] ++ rest) with ((x ++ [C_SP; C_LP] ++ ds ++ [C_RP]) ++ rest)
    by (rewrite <- !app_assoc; reflexivity).
  rewrite split_first_label_app; [|apply plain_with_paren; assumption|assumption].
  change (x ++ [C_SP; C_LP] ++ ds ++ [C_RP]) with (x ++ C_SP :: C_LP :: (ds ++ [C_RP])).
  rewrite rsplit2_last by (apply paren_tail_none; assumption).
  rewrite find1_end by (apply (digits_no_byte C_RP ds Hd); unfold C_RP; lia).
  rewrite parse_u32_digits by (auto; lia).
  unfold name_suffix_can_increment. destruct suffix_step_pinned as [-> _]. rewrite Hv.
  change (4294967295 + 1 <=? 4294967295) with false. cbv iota.
  rewrite label_with_suffix_fits.
  - unfold SUFFIX2. norm_app.
  - rewrite !app_length. simpl. rewrite app_length. simpl. lia.
Qed.

(* so renaming twice counts 'x' -> 'x (2)' -> 'x (3)' *)
Lemma name_change_twice x rest :
  plain x -> starts_dot_or_empty rest -> rsplit2 C_SP C_LP x = None -> (length x <= 20)%nat ->
  name_change (name_change (x ++ rest)) = x ++ [C_SP; C_LP; 51; C_RP] ++ rest.
Proof.
  intros Hx Hr Hp Hl. rewrite name_change_fresh by (try assumption; lia).
  change (x ++ SUFFIX2 ++ rest) with (x ++ [C_SP; C_LP] ++ [50] ++ [C_RP] ++ rest).
  rewrite name_change_increment; try assumption; try discriminate; try reflexivity.
Qed.

(* ---- hostname_change --------------------------------------------------------------------------------------------- *)

Lemma hostname_change_fresh x rest :
  plain x -> starts_dot_or_empty rest -> no_byte C_HY x -> (length x + 2 <= 63)%nat ->
  hostname_change (x ++ rest) = x ++ [C_HY; 50] ++ rest.
Proof.
  intros Hx Hr Hh Hl. unfold hostname_change. rewrite split_first_label_app by assumption.
  rewrite rsplit1_none by assumption. rewrite label_with_suffix_fits by (simpl; lia). norm_app.
Qed.

Lemma plain_with_hyphen x ds : plain x -> all_digits ds -> plain (x ++ [C_HY] ++ ds).
Proof.
  intros [Hd Hb] Hds. split; apply Forall_app; split; try assumption.
  - constructor; [unfold C_HY, C_DOT; lia|]. apply (digits_no_byte C_DOT ds Hds). unfold C_DOT. lia.
  - constructor; [unfold C_HY, C_BSL; lia|]. apply (digits_no_byte C_BSL ds Hds). unfold C_BSL. lia.
Qed.

Lemma hostname_change_increment x ds rest :
  plain x -> starts_dot_or_empty rest ->
  ds <> [] -> all_digits ds -> digits_val ds < 4294967295 -> (length x <= 20)%nat ->
  hostname_change (x ++ [C_HY] ++ ds ++ rest) = x ++ [C_HY] ++ dec (digits_val ds + 1) ++ rest.
Proof.
  intros Hx Hr Hne Hd Hv Hl. unfold hostname_change.
  replace (x ++ [C_HY] ++ ds ++ rest) with ((x ++ [C_HY] ++ ds) ++ rest) by (rewrite <- !app_assoc; reflexivity).
  rewrite split_first_label_app; [|apply plain_with_hyphen; assumption|assumption].
  change (x ++ [C_HY] ++ ds) with (x ++ C_HY :: ds).
  rewrite rsplit1_last by (apply (digits_no_byte C_HY ds Hd); unfold C_HY; lia).
  rewrite parse_u32_digits by (auto; lia).
  unfold host_suffix_can_increment. destruct suffix_step_pinned as [_ ->].
  assert (digits_val ds + 1 <=? 4294967295 = true) as -> by (apply N.leb_le; lia).
  rewrite label_with_suffix_fits.
  - norm_app.
  - pose proof (dec_length (digits_val ds + 1)). rewrite !app_length. cbn [length]. lia.
Qed.

Lemma hostname_change_at_max x ds rest :
  plain x -> starts_dot_or_empty rest ->
  ds <> [] -> all_digits ds -> digits_val ds = 4294967295 -> (length x + length ds + 3 <= 63)%nat ->
  hostname_change (x ++ [C_HY] ++ ds ++ rest) = x ++ [C_HY] ++ ds ++ [C_HY; 50] ++ rest.
Proof.
  intros Hx Hr Hne Hd Hv Hl. unfold hostname_change.
  replace (x ++ [C_HY] ++ ds ++ rest) with ((x ++ [C_HY] ++ ds) ++ rest) by (rewrite <- !app_assoc; reflexivity).
  rewrite split_first_label_app; [|apply plain_with_hyphen; assumption|assumption].
  change (x ++ [C_HY] ++ ds) with (x ++ C_HY :: ds).
  rewrite rsplit1_last by (apply (digits_no_byte C_HY ds Hd); unfold C_HY; lia).
  rewrite parse_u32_digits by (auto; lia).
  unfold host_suffix_can_increment. destruct suffix_step_pinned as [_ ->]. rewrite Hv.
  change (4294967295 + 1 <=? 4294967295) with false. cbv iota.
  rewrite label_with_suffix_fits.
  - norm_app.
  - rewrite !app_length. simpl. lia.
Qed.

Lemma hostname_change_twice x rest :
  plain x -> starts_dot_or_empty rest -> no_byte C_HY x -> (length x <= 20)%nat ->
  hostname_change (hostname_change (x ++ rest)) = x ++ [C_HY; 51] ++ rest.
Proof.
  intros Hx Hr Hh Hl. rewrite hostname_change_fresh by (try assumption; lia).
  change (x ++ [C_HY; 50] ++ rest) with (x ++ [C_HY] ++ [50] ++ rest).
  rewrite hostname_change_increment; try assumption; try discriminate; try reflexivity.
Qed.

(* ---- for EVERY input: only the first label changes, and the new first label fits 63 bytes ------------------------- *)

Lemma name_change_fits s :
  exists nf, name_change s = nf ++ snd (split_first_label s) /\ (length nf <= 63)%nat.
Proof.
  unfold name_change. destruct (split_first_label s) as [first rest]. simpl.
  assert (D : (length (label_with_suffix first SUFFIX2) <= 63)%nat)
    by (apply label_with_suffix_len; unfold SUFFIX2; cbn [length]; lia).
  unfold SUFFIX2 in D.
  destruct (rsplit2 C_SP C_LP first) as [[base q]|]; [|eexists; split; [reflexivity|exact D]].
  destruct (find1 C_RP q) as [[num [|a t]]|]; try (eexists; split; [reflexivity|exact D]).
  destruct (parse_u32 num) as [n|]; [|eexists; split; [reflexivity|exact D]].
  destruct (name_suffix_can_increment n); [|eexists; split; [reflexivity|exact D]].
  eexists. split; [reflexivity|]. apply label_with_suffix_len.
  pose proof (dec_length (n + name_suffix_step)). cbn [app length]. rewrite app_length. cbn [length]. lia.
Qed.

Lemma hostname_change_fits s :
  exists nf, hostname_change s = nf ++ snd (split_first_label s) /\ (length nf <= 63)%nat.
Proof.
  unfold hostname_change. destruct (split_first_label s) as [first rest]. simpl.
  assert (D : (length (label_with_suffix first HSUFFIX2) <= 63)%nat)
    by (apply label_with_suffix_len; unfold HSUFFIX2; cbn [length]; lia).
  unfold HSUFFIX2 in D.
  destruct (rsplit1 C_HY first) as [[base num]|]; [|eexists; split; [reflexivity|exact D]].
  destruct (parse_u32 num) as [n|]; [|eexists; split; [reflexivity|exact D]].
  destruct (host_suffix_can_increment n); [|eexists; split; [reflexivity|exact D]].
  eexists. split; [reflexivity|]. apply label_with_suffix_len.
  pose proof (dec_length (n + host_suffix_step)). cbn [app length]. lia.
Qed.

Lemma rename_fits_both s :
  (exists nf, name_change s = nf ++ snd (split_first_label s) /\ (length nf <= 63)%nat) /\
  (exists nf, hostname_change s = nf ++ snd (split_first_label s) /\ (length nf <= 63)%nat).
Proof. split; [apply name_change_fits|apply hostname_change_fits]. Qed.

(* the cases that used to break the name *)
Lemma rename_former_witnesses :
  (* 60-byte instance label: the base is shortened, the label stays at 63 bytes *)
  first_label_encodable (name_change (repeat 110 60 ++ [46; 95; 116; 46; 108; 111; 99; 97; 108; 46])) = true /\
  rename_keeps_rest (repeat 110 60 ++ [46; 95; 116; 46; 108; 111; 99; 97; 108; 46])
                    (name_change (repeat 110 60 ++ [46; 95; 116; 46; 108; 111; 99; 97; 108; 46])) = true /\
  first_label_encodable (hostname_change (repeat 104 62 ++ [46; 108; 111; 99; 97; 108; 46])) = true /\
  (* "My\.Svc._t._tcp.local." -> "My\.Svc (2)._t._tcp.local." *)
  name_change [77;121;92;46;83;118;99;46;95;116;46;95;116;99;112;46;108;111;99;97;108;46]
  = [77;121;92;46;83;118;99;32;40;50;41;46;95;116;46;95;116;99;112;46;108;111;99;97;108;46].
Proof. repeat split; vm_compute; reflexivity. Qed.

(* ---- the renamed name's first label, for EVERY input ------------------------------------------------------ *)

(* no unescaped dot in l (an escape may be left open at the end) *)
Fixpoint nud (l : bytes) : bool :=
  match l with
  | [] => true
  | c :: t => if c =? C_DOT then false
              else if c =? C_BSL then match t with _ :: t' => nud t' | [] => true end
              else nud t
  end.
(* no unescaped dot in l and no escape left open at its end: l is a whole label text *)
Fixpoint closed (l : bytes) : bool :=
  match l with
  | [] => true
  | c :: t => if c =? C_DOT then false
              else if c =? C_BSL then match t with _ :: t' => closed t' | [] => false end
              else closed t
  end.

(* induction two bytes at a time *)
Lemma bytes_ind2 (P : list N -> Prop) :
  P [] -> (forall c, P [c]) ->
  (forall c n t, P t -> P (n :: t) -> P (c :: n :: t)) -> forall l : list N, P l.
Proof.
  intros H0 H1 H2 l. assert (H : P l /\ forall c, P (c :: l)).
  { induction l as [|a l [IH1 IH2]]; [split; [exact H0|exact H1]|].
    split; [apply IH2|]. intros c. apply H2; [exact IH1|apply IH2]. }
  apply H.
Qed.

Lemma nud_first s : nud (fst (split_first_label s)) = true.
Proof.
  induction s as [| c | c n t IHt IHn] using bytes_ind2; try reflexivity.
  - cbn [split_first_label]. destruct (c =? C_DOT) eqn:D; [reflexivity|].
    destruct (c =? C_BSL) eqn:B; cbn [fst nud]; rewrite ?D, ?B; reflexivity.
  - change (split_first_label (c :: n :: t)) with
      (if c =? C_DOT then ([], c :: n :: t)
       else if c =? C_BSL then let (a, r) := split_first_label t in (c :: n :: a, r)
       else let (a, r) := split_first_label (n :: t) in (c :: a, r)).
    destruct (c =? C_DOT) eqn:D; [reflexivity|]. destruct (c =? C_BSL) eqn:B.
    + destruct (split_first_label t) as [a r]. cbn [fst] in *. cbn [nud]. rewrite D, B. exact IHt.
    + destruct (split_first_label (n :: t)) as [a r]. cbn [fst] in *. cbn [nud]. rewrite D, B. exact IHn.
Qed.

Lemma nud_prefix a : forall b, nud (a ++ b) = true -> nud a = true.
Proof.
  induction a as [| c | c n t IHt IHn] using bytes_ind2; intros b H; try reflexivity.
  - cbn [app nud] in *. destruct (c =? C_DOT); [discriminate|]. destruct (c =? C_BSL); reflexivity.
  - change ((c :: n :: t) ++ b) with (c :: n :: (t ++ b)) in H.
    cbn [nud] in H |- *. destruct (c =? C_DOT); [discriminate|]. destruct (c =? C_BSL).
    + apply (IHt b). exact H.
    + apply (IHn b). exact H.
Qed.

Lemma nud_firstn e l : nud l = true -> nud (firstn e l) = true.
Proof. intros H. apply (nud_prefix _ (skipn e l)). rewrite firstn_skipn. exact H. Qed.

Lemma nud_removelast l : nud l = true -> nud (removelast l) = true.
Proof.
  intros H. destruct l as [|a l]; [reflexivity|].
  apply (nud_prefix _ [last (a :: l) 0]). rewrite <- app_removelast_last by discriminate. exact H.
Qed.

Lemma closed_plain s : plain s -> closed s = true.
Proof.
  intros [Hd Hb]. induction s as [|c t IH]; [reflexivity|].
  inversion Hd; inversion Hb; subst. cbn [closed].
  destruct (c =? C_DOT) eqn:D; [apply N.eqb_eq in D; contradiction|].
  destruct (c =? C_BSL) eqn:B; [apply N.eqb_eq in B; contradiction|]. apply IH; assumption.
Qed.

(* a text without unescaped dot, followed by a non-empty plain suffix, is a whole label text *)
Lemma closed_with_suffix a : forall suf, nud a = true -> plain suf -> suf <> [] -> closed (a ++ suf) = true.
Proof.
  induction a as [| c | c n t IHt IHn] using bytes_ind2; intros suf Ha Hs Hne.
  - apply closed_plain. exact Hs.
  - cbn [app]. cbn [nud] in Ha. cbn [closed]. destruct (c =? C_DOT); [discriminate|].
    destruct suf as [|x suf']; [contradiction|].
    assert (Hs' : plain suf') by (destruct Hs as [A B]; inversion A; inversion B; split; assumption).
    destruct (c =? C_BSL); [apply closed_plain; exact Hs'|apply closed_plain; exact Hs].
  - change ((c :: n :: t) ++ suf) with (c :: n :: (t ++ suf)).
    cbn [nud] in Ha. cbn [closed]. destruct (c =? C_DOT); [discriminate|]. destruct (c =? C_BSL).
    + apply IHt; assumption.
    + apply IHn; assumption.
Qed.

(* a whole label text followed by nothing or by a dot IS the first label *)
Lemma split_closed a : forall rest,
  closed a = true -> starts_dot_or_empty rest -> split_first_label (a ++ rest) = (a, rest).
Proof.
  induction a as [| c | c n t IHt IHn] using bytes_ind2; intros rest Ha Hr.
  - destruct Hr as [->|[t ->]]; reflexivity.
  - cbn [closed] in Ha. destruct (c =? C_DOT) eqn:D; [discriminate|]. destruct (c =? C_BSL) eqn:B; [discriminate|].
    cbn [app split_first_label]. rewrite D, B.
    destruct Hr as [->|[t ->]]; cbn [split_first_label]; [reflexivity|]. rewrite N.eqb_refl. reflexivity.
  - change ((c :: n :: t) ++ rest) with (c :: n :: (t ++ rest)).
    change (split_first_label (c :: n :: (t ++ rest))) with
      (if c =? C_DOT then ([], c :: n :: (t ++ rest))
       else if c =? C_BSL then let (a, r) := split_first_label (t ++ rest) in (c :: n :: a, r)
       else let (a, r) := split_first_label (n :: (t ++ rest)) in (c :: a, r)).
    cbn [closed] in Ha. destruct (c =? C_DOT); [discriminate|]. destruct (c =? C_BSL).
    + rewrite (IHt rest Ha Hr). reflexivity.
    + change (n :: (t ++ rest)) with ((n :: t) ++ rest). rewrite (IHn rest Ha Hr). reflexivity.
Qed.

Lemma split_rest_shape s : starts_dot_or_empty (snd (split_first_label s)).
Proof.
  induction s as [| c | c n t IHt IHn] using bytes_ind2.
  - left. reflexivity.
  - cbn [split_first_label]. destruct (c =? C_DOT) eqn:D.
    + right. apply N.eqb_eq in D. subst. exists []. reflexivity.
    + destruct (c =? C_BSL); left; reflexivity.
  - change (split_first_label (c :: n :: t)) with
      (if c =? C_DOT then ([], c :: n :: t)
       else if c =? C_BSL then let (a, r) := split_first_label t in (c :: n :: a, r)
       else let (a, r) := split_first_label (n :: t) in (c :: a, r)).
    destruct (c =? C_DOT) eqn:D.
    + right. apply N.eqb_eq in D. subst. eexists. reflexivity.
    + destruct (c =? C_BSL).
      * destruct (split_first_label t). exact IHt.
      * destruct (split_first_label (n :: t)). exact IHn.
Qed.

Lemma unescaped_len_le l : unescaped_len l <= N.of_nat (length l).
Proof.
  induction l as [| c | c n t IHt IHn] using bytes_ind2.
  - reflexivity.
  - cbn [unescaped_len length]. destruct (c =? C_BSL); cbn [unescaped_len]; lia.
  - change (unescaped_len (c :: n :: t)) with
      (if c =? C_BSL then (if (n =? C_DOT) || (n =? C_BSL) then 1 + unescaped_len t else 1 + unescaped_len (n :: t))
       else 1 + unescaped_len (n :: t)).
    cbn [length] in *. destruct (c =? C_BSL); [destruct ((n =? C_DOT) || (n =? C_BSL))|]; lia.
Qed.

Lemma rsplit2_sound a b s : forall p q, rsplit2 a b s = Some (p, q) -> s = p ++ a :: b :: q.
Proof.
  induction s as [|x t IH]; intros p q H; [discriminate|].
  cbn [rsplit2] in H. destruct (rsplit2 a b t) as [[p' q']|].
  - inversion H; subst. rewrite (IH p' q eq_refl). reflexivity.
  - destruct t as [|y t']; [discriminate|]. destruct ((x =? a) && (y =? b)) eqn:E; [|discriminate].
    apply andb_true_iff in E as [E1 E2]. apply N.eqb_eq in E1, E2. inversion H; subst. reflexivity.
Qed.

Lemma rsplit1_sound a s : forall p q, rsplit1 a s = Some (p, q) -> s = p ++ a :: q.
Proof.
  induction s as [|x t IH]; intros p q H; [discriminate|].
  cbn [rsplit1] in H. destruct (rsplit1 a t) as [[p' q']|].
  - inversion H; subst. rewrite (IH p' q eq_refl). reflexivity.
  - destruct (x =? a) eqn:E; [|discriminate]. apply N.eqb_eq in E. inversion H; subst. reflexivity.
Qed.

Lemma label_with_suffix_closed base suf :
  nud base = true -> plain suf -> suf <> [] -> closed (label_with_suffix base suf) = true.
Proof.
  intros Hb Hs Hne. unfold label_with_suffix. cbv zeta.
  apply closed_with_suffix; [|assumption|assumption].
  match goal with |- nud (if ?c then _ else _) = true => destruct c end;
    [apply nud_removelast|]; apply nud_firstn; exact Hb.
Qed.

Lemma digits_plain ds : all_digits ds -> plain ds.
Proof. intros H. split; apply (digits_no_byte _ ds H); unfold C_DOT, C_BSL; lia. Qed.

Lemma plain_app a b : plain a -> plain b -> plain (a ++ b).
Proof. intros [A1 A2] [B1 B2]. split; apply Forall_app; split; assumption. Qed.

Lemma plain_of_list l : forallb (fun c => negb (c =? C_DOT) && negb (c =? C_BSL)) l = true -> plain l.
Proof.
  induction l as [|c t IH]; intros H; [split; constructor|].
  cbn [forallb] in H. apply andb_true_iff in H as [H1 H2]. apply andb_true_iff in H1 as [Hd Hb].
  apply negb_true_iff in Hd, Hb. apply N.eqb_neq in Hd, Hb.
  destruct (IH H2) as [A B]. split; constructor; assumption.
Qed.

(* what a rename yields is (label text) ++ rest with the label text whole and at most 63 bytes *)
Lemma rename_shape_ok s nf :
  closed nf = true -> (length nf <= 63)%nat ->
  rename_keeps_rest s (nf ++ snd (split_first_label s)) = true /\
  first_label_encodable (nf ++ snd (split_first_label s)) = true.
Proof.
  intros Hc Hl. unfold rename_keeps_rest, first_label_encodable.
  rewrite (split_closed nf _ Hc (split_rest_shape s)). cbn [fst snd]. split.
  - apply beq_refl.
  - apply N.ltb_lt. pose proof (unescaped_len_le nf). lia.
Qed.

Theorem name_change_encodable s :
  rename_keeps_rest s (name_change s) = true /\ first_label_encodable (name_change s) = true.
Proof.
  pose proof (nud_first s) as Hf. pose proof (split_rest_shape s) as Hr.
  unfold name_change. destruct (split_first_label s) as [first rest] eqn:E.
  replace rest with (snd (split_first_label s)) by (rewrite E; reflexivity).
  cbn [fst] in Hf.
  assert (P2 : plain [C_SP; C_LP; 50; C_RP]) by (apply plain_of_list; reflexivity).
  assert (D : rename_keeps_rest s (label_with_suffix first [C_SP; C_LP; 50; C_RP] ++ snd (split_first_label s)) = true /\
              first_label_encodable (label_with_suffix first [C_SP; C_LP; 50; C_RP] ++ snd (split_first_label s)) = true).
  { apply rename_shape_ok.
    - apply label_with_suffix_closed; [exact Hf|exact P2|discriminate].
    - apply label_with_suffix_len. cbn [length]. lia. }
  destruct (rsplit2 C_SP C_LP first) as [[base q]|] eqn:R; [|exact D].
  destruct (find1 C_RP q) as [[num [|a t]]|]; try exact D.
  destruct (parse_u32 num) as [n|]; [|exact D].
  destruct (name_suffix_can_increment n) eqn:CI; [|exact D].
  unfold name_suffix_can_increment in CI. apply N.leb_le in CI.
  destruct (dec_spec (n + name_suffix_step)) as (ds & Eds & Hd & Hne & _); [lia|].
  apply rename_shape_ok.
  - apply label_with_suffix_closed.
    + apply rsplit2_sound in R. subst first. apply (nud_prefix _ _ Hf).
    + rewrite Eds. change ([C_SP; C_LP] ++ ds ++ [C_RP]) with ([C_SP; C_LP] ++ (ds ++ [C_RP])).
      apply plain_app; [apply plain_of_list; reflexivity|].
      apply plain_app; [apply digits_plain; exact Hd|apply plain_of_list; reflexivity].
    + discriminate.
  - apply label_with_suffix_len.
    pose proof (dec_length (n + name_suffix_step)). cbn [app length]. rewrite app_length. cbn [length]. lia.
Qed.

Theorem hostname_change_encodable s :
  rename_keeps_rest s (hostname_change s) = true /\ first_label_encodable (hostname_change s) = true.
Proof.
  pose proof (nud_first s) as Hf.
  unfold hostname_change. destruct (split_first_label s) as [first rest] eqn:E.
  replace rest with (snd (split_first_label s)) by (rewrite E; reflexivity).
  cbn [fst] in Hf.
  assert (D : rename_keeps_rest s (label_with_suffix first [C_HY; 50] ++ snd (split_first_label s)) = true /\
              first_label_encodable (label_with_suffix first [C_HY; 50] ++ snd (split_first_label s)) = true).
  { apply rename_shape_ok.
    - apply label_with_suffix_closed; [exact Hf|apply plain_of_list; reflexivity|discriminate].
    - apply label_with_suffix_len. cbn [length]. lia. }
  destruct (rsplit1 C_HY first) as [[base num]|] eqn:R; [|exact D].
  destruct (parse_u32 num) as [n|]; [|exact D].
  destruct (host_suffix_can_increment n) eqn:CI; [|exact D].
  unfold host_suffix_can_increment in CI. apply N.leb_le in CI.
  destruct (dec_spec (n + host_suffix_step)) as (ds & Eds & Hd & Hne & _); [lia|].
  apply rename_shape_ok.
  - apply label_with_suffix_closed.
    + apply rsplit1_sound in R. subst first. apply (nud_prefix _ _ Hf).
    + rewrite Eds. apply plain_app; [apply plain_of_list; reflexivity|apply digits_plain; exact Hd].
    + discriminate.
  - apply label_with_suffix_len.
    pose proof (dec_length (n + host_suffix_step)). cbn [app length]. lia.
Qed.

(* STILL ENCODABLE, every input: only the first label changes and it fits a DNS label *)
Theorem rename_encodable_all s :
  rename_keeps_rest s (name_change s) = true /\ first_label_encodable (name_change s) = true /\
  rename_keeps_rest s (hostname_change s) = true /\ first_label_encodable (hostname_change s) = true.
Proof.
  destruct (name_change_encodable s), (hostname_change_encodable s). auto.
Qed.
