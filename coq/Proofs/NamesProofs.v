(* What name_change / hostname_change (Model/Names.v) do, on all byte strings. *)
From Coq Require Import List NArith Bool Lia Arith PeanoNat.
From Mdns Require Import Bytes ParamsRegistry Names RegistryParamsPinned.
Import ListNotations.
Open Scope N_scope.

(* ---- splitting at the first dot ---------------------------------------------------------------- *)

Definition no_byte (c : N) (s : bytes) : Prop := Forall (fun x => x <> c) s.
Definition starts_dot_or_empty (r : bytes) : Prop := r = [] \/ exists t, r = C_DOT :: t.

Lemma split_first_app x rest :
  no_byte C_DOT x -> starts_dot_or_empty rest -> split_first (x ++ rest) = (x, rest).
Proof.
  intros Hx Hr. induction x as [|c x IH]; simpl.
  - destruct Hr as [->|[t ->]]; reflexivity.
  - inversion Hx; subst. destruct (c =? C_DOT) eqn:E; [apply N.eqb_eq in E; contradiction|].
    rewrite IH by assumption. reflexivity.
Qed.

(* ---- rfind / find ---------------------------------------------------------------------------------- *)

Lemma rsplit2_last a b x q :
  rsplit2 a b (b :: q) = None -> rsplit2 a b (x ++ a :: b :: q) = Some (x, q).
Proof.
  intros H. induction x as [|c x IH]; simpl.
  - simpl in H. rewrite H. rewrite !N.eqb_refl. reflexivity.
  - rewrite IH. reflexivity.
Qed.

Lemma rsplit2_none a b s : Forall (fun x => x <> a) s -> rsplit2 a b s = None.
Proof.
  induction s as [|c s IH]; simpl; intros H; [reflexivity|].
  inversion H; subst. rewrite IH by assumption.
  destruct s; [reflexivity|].
  destruct (c =? a) eqn:E; [apply N.eqb_eq in E; contradiction|]. reflexivity.
Qed.

Lemma rsplit2_none_cons a b c s :
  c <> a -> rsplit2 a b s = None -> rsplit2 a b (c :: s) = None.
Proof.
  intros Hc H. simpl. rewrite H. destruct s; [reflexivity|].
  destruct (c =? a) eqn:E; [apply N.eqb_eq in E; contradiction|]. reflexivity.
Qed.

Lemma rsplit1_last a x q : no_byte a q -> rsplit1 a (x ++ a :: q) = Some (x, q).
Proof.
  intros H. induction x as [|c x IH]; simpl.
  - assert (rsplit1 a q = None) as ->.
    { clear -H. induction q as [|d q IH]; simpl; [reflexivity|]. inversion H; subst.
      rewrite IH by assumption. destruct (d =? a) eqn:E; [apply N.eqb_eq in E; contradiction|reflexivity]. }
    rewrite N.eqb_refl. reflexivity.
  - rewrite IH. reflexivity.
Qed.

Lemma rsplit1_none a s : no_byte a s -> rsplit1 a s = None.
Proof.
  induction s as [|d q IH]; simpl; intros H; [reflexivity|]. inversion H; subst.
  rewrite IH by assumption. destruct (d =? a) eqn:E; [apply N.eqb_eq in E; contradiction|reflexivity].
Qed.

Lemma find1_end a s : no_byte a s -> find1 a (s ++ [a]) = Some (s, []).
Proof.
  induction s as [|d q IH]; simpl; intros H.
  - rewrite N.eqb_refl. reflexivity.
  - inversion H; subst. destruct (d =? a) eqn:E; [apply N.eqb_eq in E; contradiction|].
    rewrite IH by assumption. reflexivity.
Qed.

(* ---- digits -------------------------------------------------------------------------------------------- *)

Definition all_digits (ds : bytes) : Prop := forallb is_digit ds = true.

Lemma is_digit_range c : is_digit c = true <-> 48 <= c <= 57.
Proof. unfold is_digit. rewrite andb_true_iff, !N.leb_le. tauto. Qed.

Lemma digits_no_byte c ds : all_digits ds -> (c < 48 \/ 57 < c) -> no_byte c ds.
Proof.
  unfold all_digits, no_byte. intros H Hc. rewrite forallb_forall in H. apply Forall_forall.
  intros x Hx E. subst. apply H in Hx. apply is_digit_range in Hx. lia.
Qed.

Lemma digits_val_snoc l d : digits_val (l ++ [d]) = digits_val l * 10 + (d - 48).
Proof. unfold digits_val. rewrite fold_left_app. reflexivity. Qed.

Lemma parse_u32_digits ds :
  ds <> [] -> all_digits ds -> digits_val ds <= 4294967295 -> parse_u32 ds = Some (digits_val ds).
Proof.
  intros Hne Hd Hv. unfold parse_u32. destruct ds as [|c t]; [contradiction|].
  assert (c =? C_PLUS = false) as ->.
  { apply N.eqb_neq. unfold all_digits in Hd. simpl in Hd. apply andb_true_iff in Hd as [Hc _].
    apply is_digit_range in Hc. unfold C_PLUS. lia. }
  unfold all_digits in Hd. rewrite Hd. apply N.leb_le in Hv. rewrite Hv. reflexivity.
Qed.

Lemma parse_u32_overflow ds :
  ds <> [] -> all_digits ds -> 4294967295 < digits_val ds -> parse_u32 ds = None.
Proof.
  intros Hne Hd Hv. unfold parse_u32. destruct ds as [|c t]; [contradiction|].
  assert (c =? C_PLUS = false) as ->.
  { apply N.eqb_neq. unfold all_digits in Hd. simpl in Hd. apply andb_true_iff in Hd as [Hc _].
    apply is_digit_range in Hc. unfold C_PLUS. lia. }
  unfold all_digits in Hd. rewrite Hd. apply N.leb_gt in Hv. rewrite Hv. reflexivity.
Qed.

Lemma single_digit n : n < 10 -> all_digits [48 + n].
Proof. intros H. unfold all_digits. cbn [forallb]. rewrite andb_true_r. apply is_digit_range. lia. Qed.

Lemma single_digit_val n : digits_val [48 + n] = n.
Proof. unfold digits_val. cbn [fold_left]. lia. Qed.

(* decimal printing: digits, at least one, and reading them back gives the number *)
Lemma dec_fuel_spec f : forall n acc,
  n < 10 ^ N.of_nat (S f) ->
  exists ds, dec_fuel (S f) n acc = ds ++ acc /\ all_digits ds /\ ds <> [] /\ digits_val ds = n.
Proof.
  induction f as [|f IH]; intros n acc Hn.
  - assert (Hn10 : n < 10) by (change (10 ^ N.of_nat 1) with 10 in Hn; exact Hn).
    cbn [dec_fuel]. apply N.ltb_lt in Hn10 as Hb. rewrite Hb.
    exists [48 + n mod 10]. rewrite N.mod_small by assumption. repeat split.
    + apply single_digit. assumption.
    + discriminate.
    + apply single_digit_val.
  - change (dec_fuel (S (S f)) n acc) with
      (let acc' := (48 + n mod 10) :: acc in if n <? 10 then acc' else dec_fuel (S f) (n / 10) acc').
    cbv zeta. destruct (n <? 10) eqn:E.
    + apply N.ltb_lt in E. exists [48 + n mod 10]. rewrite N.mod_small by assumption. repeat split.
      * apply single_digit. assumption.
      * discriminate.
      * apply single_digit_val.
    + apply N.ltb_ge in E.
      assert (Hdiv : n / 10 < 10 ^ N.of_nat (S f)).
      { apply N.div_lt_upper_bound; [lia|].
        replace (N.of_nat (S (S f))) with (N.succ (N.of_nat (S f))) in Hn by lia.
        rewrite N.pow_succ_r' in Hn. exact Hn. }
      destruct (IH (n / 10) ((48 + n mod 10) :: acc) Hdiv) as (ds & Hds & Hdig & Hne & Hval).
      exists (ds ++ [48 + n mod 10]). rewrite Hds, <- app_assoc. repeat split.
      * unfold all_digits in *. rewrite forallb_app, Hdig.
        apply (single_digit (n mod 10)). apply N.mod_upper_bound. discriminate.
      * destruct ds; discriminate.
      * rewrite digits_val_snoc, Hval. pose proof (N.div_mod n 10 ltac:(lia)) as Hdm.
        clear -Hdm. generalize dependent (n mod 10). generalize dependent (n / 10). intros. lia.
Qed.

Lemma dec_spec n :
  n <= 4294967296 -> exists ds, dec n = ds /\ all_digits ds /\ ds <> [] /\ digits_val ds = n.
Proof.
  intros Hn. unfold dec.
  assert (H : n < 10 ^ N.of_nat 40).
  { assert (E : 10 ^ N.of_nat 40 = 10000000000000000000000000000000000000000) by (vm_compute; reflexivity).
    rewrite E. lia. }
  destruct (dec_fuel_spec 39 n [] H) as (ds & Hds & Hd & Hne & Hv).
  exists ds. rewrite Hds, app_nil_r. auto.
Qed.

Lemma parse_dec n : n <= 4294967295 -> parse_u32 (dec n) = Some n.
Proof.
  intros Hn. destruct (dec_spec n) as (ds & -> & Hd & Hne & Hv); [lia|].
  rewrite parse_u32_digits; auto; rewrite Hv; auto.
Qed.

(* ---- the first label ------------------------------------------------------------------------------------ *)

(* a label text without dots and backslashes *)
Definition plain (x : bytes) : Prop := no_byte C_DOT x /\ no_byte C_BSL x.

Lemma split_first_label_app x rest :
  plain x -> starts_dot_or_empty rest -> split_first_label (x ++ rest) = (x, rest).
Proof.
  intros [Hd Hb] Hr. induction x as [|c x IH]; simpl.
  - destruct Hr as [->|[t ->]]; reflexivity.
  - inversion Hd; subst. inversion Hb; subst.
    destruct (c =? C_DOT) eqn:E; [apply N.eqb_eq in E; contradiction|].
    destruct (c =? C_BSL) eqn:E2; [apply N.eqb_eq in E2; contradiction|].
    rewrite IH by assumption. reflexivity.
Qed.

(* ---- label_with_suffix ------------------------------------------------------------------------------------ *)

Lemma back_boundary_le f base : forall e, (back_boundary f base e <= e)%nat.
Proof.
  induction f as [|f IH]; intros e; simpl; [lia|].
  destruct (Nat.eqb e (length base)); [lia|]. destruct e as [|e']; [lia|].
  destruct (nth_error base (S e')); [|lia]. destruct (is_cont n); [|lia].
  specialize (IH e'). lia.
Qed.

Lemma removelast_length {A} (l : list A) : (length (removelast l) <= length l)%nat.
Proof. induction l as [|a [|b t] IH]; simpl in *; lia. Qed.

(* the result always fits a DNS label *)
Lemma label_with_suffix_len base suffix :
  (length suffix <= 63)%nat -> (length (label_with_suffix base suffix) <= 63)%nat.
Proof.
  intros Hs. unfold label_with_suffix.
  set (e0 := Nat.min (length base) (63 - length suffix)).
  pose proof (back_boundary_le e0 base e0) as Hb.
  set (e := back_boundary e0 base e0) in *.
  assert (Hk : (length (firstn e base) <= e)%nat) by apply firstn_le_length.
  rewrite app_length.
  destruct (Nat.ltb e (length base) && Nat.odd (lead_bsl (rev (firstn e base)))).
  - pose proof (removelast_length (firstn e base)). unfold e0 in *. lia.
  - unfold e0 in *. lia.
Qed.

(* nothing is cut when base and suffix fit together *)
Lemma label_with_suffix_fits base suffix :
  (length base + length suffix <= 63)%nat -> label_with_suffix base suffix = base ++ suffix.
Proof.
  intros H. unfold label_with_suffix.
  assert (E : Nat.min (length base) (63 - length suffix) = length base) by lia. rewrite E.
  assert (B : forall f, back_boundary f base (length base) = length base).
  { intros f. destruct f; simpl; [reflexivity|]. rewrite Nat.eqb_refl. reflexivity. }
  rewrite B, firstn_all, Nat.ltb_irrefl. reflexivity.
Qed.

Lemma dec_fuel_length f : forall n acc, (length (dec_fuel f n acc) <= f + length acc)%nat.
Proof.
  induction f as [|f IH]; intros n acc; simpl; [lia|].
  destruct (n <? 10); simpl; [lia|]. specialize (IH (n / 10) ((48 + n mod 10) :: acc)). simpl in IH. lia.
Qed.

Lemma dec_length n : (length (dec n) <= 40)%nat.
Proof. unfold dec. pose proof (dec_fuel_length 40 n []) as H. cbn [length] in H. lia. Qed.

(* ---- name_change ------------------------------------------------------------------------------------------- *)

Ltac norm_app := repeat (rewrite <- app_assoc); cbn [app]; repeat (rewrite <- app_assoc); cbn [app]; reflexivity.

Definition SUFFIX2 : bytes := [C_SP; C_LP; 50; C_RP].      (* " (2)" *)
Definition HSUFFIX2 : bytes := [C_HY; 50].                 (* "-2" *)

(* a first label without " (" gets " (2)" appended *)
Lemma name_change_fresh x rest :
  plain x -> starts_dot_or_empty rest -> rsplit2 C_SP C_LP x = None -> (length x + 4 <= 63)%nat ->
  name_change (x ++ rest) = x ++ SUFFIX2 ++ rest.
Proof.
  intros Hx Hr Hp Hl. unfold name_change. rewrite split_first_label_app by assumption.
  rewrite Hp. rewrite label_with_suffix_fits by (simpl; lia). unfold SUFFIX2. norm_app.
Qed.

Lemma paren_tail_none ds : all_digits ds -> rsplit2 C_SP C_LP (C_LP :: ds ++ [C_RP]) = None.
Proof.
  intros Hd. apply rsplit2_none. constructor; [unfold C_LP, C_SP; lia|].
  apply Forall_app. split.
  - apply (digits_no_byte C_SP ds Hd). unfold C_SP. lia.
  - constructor; [unfold C_RP, C_SP; lia|constructor].
Qed.

Lemma plain_with_paren x ds : plain x -> all_digits ds -> plain (x ++ [C_SP; C_LP] ++ ds ++ [C_RP]).
Proof.
  intros [Hd Hb] Hds. split; apply Forall_app; split; try assumption.
  - constructor; [unfold C_SP, C_DOT; lia|]. constructor; [unfold C_LP, C_DOT; lia|]. apply Forall_app. split.
    + apply (digits_no_byte C_DOT ds Hds). unfold C_DOT. lia.
    + constructor; [unfold C_RP, C_DOT; lia|constructor].
  - constructor; [unfold C_SP, C_BSL; lia|]. constructor; [unfold C_LP, C_BSL; lia|]. apply Forall_app. split.
    + apply (digits_no_byte C_BSL ds Hds). unfold C_BSL. lia.
    + constructor; [unfold C_RP, C_BSL; lia|constructor].
Qed.

(* "x (n)" counts up to "x (n+1)", whatever x is (it may itself contain " (") *)
Lemma name_change_increment x ds rest :
  plain x -> starts_dot_or_empty rest ->
  ds <> [] -> all_digits ds -> digits_val ds < 4294967295 -> (length x <= 20)%nat ->
  name_change (x ++ [C_SP; C_LP] ++ ds ++ [C_RP] ++ rest)
  = x ++ [C_SP; C_LP] ++ dec (digits_val ds + 1) ++ [C_RP] ++ rest.
Proof.
  intros Hx Hr Hne Hd Hv Hl. unfold name_change.
  replace (x ++ [C_SP; C_LP] ++ ds ++ [C_RP] ++ rest) with ((x ++ [C_SP; C_LP] ++ ds ++ [C_RP]) ++ rest)
    by (rewrite <- !app_assoc; reflexivity).
  rewrite split_first_label_app; [|apply plain_with_paren; assumption|assumption].
  change (x ++ [C_SP; C_LP] ++ ds ++ [C_RP]) with (x ++ C_SP :: C_LP :: (ds ++ [C_RP])).
  rewrite rsplit2_last by (apply paren_tail_none; assumption).
  rewrite find1_end by (apply (digits_no_byte C_RP ds Hd); unfold C_RP; lia).
  rewrite parse_u32_digits by (auto; lia).
  unfold name_suffix_can_increment. destruct suffix_step_pinned as [-> _].
  assert (digits_val ds + 1 <=? 4294967295 = true) as -> by (apply N.leb_le; lia).
  rewrite label_with_suffix_fits.
  - norm_app.
  - pose proof (dec_length (digits_val ds + 1)). rewrite !app_length. cbn [length]. lia.
Qed.

(* at 4294967295 the number cannot grow: ' (2)' is appended instead (no overflow) *)
Lemma name_change_at_max x ds rest :
  plain x -> starts_dot_or_empty rest ->
  ds <> [] -> all_digits ds -> digits_val ds = 4294967295 -> (length x + length ds + 7 <= 63)%nat ->
  name_change (x ++ [C_SP; C_LP] ++ ds ++ [C_RP] ++ rest)
  = x ++ [C_SP; C_LP] ++ ds ++ [C_RP] ++ SUFFIX2 ++ rest.
Proof.
  intros Hx Hr Hne Hd Hv Hl. unfold name_change.
  replace (x ++ [C_SP; C_LP] ++ ds ++ [C_RP] ++ rest) with ((x ++ [C_SP; C_LP] ++ ds ++ [C_RP]) ++ rest)
    by (rewrite <- !app_assoc; reflexivity).
  rewrite split_first_label_app; [|apply plain_with_paren; assumption|assumption].
  change (x ++ [C_SP; C_LP] ++ ds ++ [C_RP]) with (x ++ C_SP :: C_LP :: (ds ++ [C_RP])).
  rewrite rsplit2_last by (apply paren_tail_none; assumption).
  rewrite find1_end by (apply (digits_no_byte C_RP ds Hd); unfold C_RP; lia).
  rewrite parse_u32_digits by (auto; lia).
  unfold name_suffix_can_increment. destruct suffix_step_pinned as [-> _]. rewrite Hv.
  change (4294967295 + 1 <=? 4294967295) with false. cbv iota.
  rewrite label_with_suffix_fits.
  - unfold SUFFIX2. norm_app.
  - rewrite !app_length. simpl. rewrite app_length. simpl. lia.
Qed.

(* so renaming twice counts 'x' -> 'x (2)' -> 'x (3)' *)
Lemma name_change_twice x rest :
  plain x -> starts_dot_or_empty rest -> rsplit2 C_SP C_LP x = None -> (length x <= 20)%nat ->
  name_change (name_change (x ++ rest)) = x ++ [C_SP; C_LP; 51; C_RP] ++ rest.
Proof.
  intros Hx Hr Hp Hl. rewrite name_change_fresh by (try assumption; lia).
  change (x ++ SUFFIX2 ++ rest) with (x ++ [C_SP; C_LP] ++ [50] ++ [C_RP] ++ rest).
  rewrite name_change_increment; try assumption; try discriminate; try reflexivity.
Qed.

(* ---- hostname_change --------------------------------------------------------------------------------------------- *)

Lemma hostname_change_fresh x rest :
  plain x -> starts_dot_or_empty rest -> no_byte C_HY x -> (length x + 2 <= 63)%nat ->
  hostname_change (x ++ rest) = x ++ [C_HY; 50] ++ rest.
Proof.
  intros Hx Hr Hh Hl. unfold hostname_change. rewrite split_first_label_app by assumption.
  rewrite rsplit1_none by assumption. rewrite label_with_suffix_fits by (simpl; lia). norm_app.
Qed.

Lemma plain_with_hyphen x ds : plain x -> all_digits ds -> plain (x ++ [C_HY] ++ ds).
Proof.
  intros [Hd Hb] Hds. split; apply Forall_app; split; try assumption.
  - constructor; [unfold C_HY, C_DOT; lia|]. apply (digits_no_byte C_DOT ds Hds). unfold C_DOT. lia.
  - constructor; [unfold C_HY, C_BSL; lia|]. apply (digits_no_byte C_BSL ds Hds). unfold C_BSL. lia.
Qed.

Lemma hostname_change_increment x ds rest :
  plain x -> starts_dot_or_empty rest ->
  ds <> [] -> all_digits ds -> digits_val ds < 4294967295 -> (length x <= 20)%nat ->
  hostname_change (x ++ [C_HY] ++ ds ++ rest) = x ++ [C_HY] ++ dec (digits_val ds + 1) ++ rest.
Proof.
  intros Hx Hr Hne Hd Hv Hl. unfold hostname_change.
  replace (x ++ [C_HY] ++ ds ++ rest) with ((x ++ [C_HY] ++ ds) ++ rest) by (rewrite <- !app_assoc; reflexivity).
  rewrite split_first_label_app; [|apply plain_with_hyphen; assumption|assumption].
  change (x ++ [C_HY] ++ ds) with (x ++ C_HY :: ds).
  rewrite rsplit1_last by (apply (digits_no_byte C_HY ds Hd); unfold C_HY; lia).
  rewrite parse_u32_digits by (auto; lia).
  unfold host_suffix_can_increment. destruct suffix_step_pinned as [_ ->].
  assert (digits_val ds + 1 <=? 4294967295 = true) as -> by (apply N.leb_le; lia).
  rewrite label_with_suffix_fits.
  - norm_app.
  - pose proof (dec_length (digits_val ds + 1)). rewrite !app_length. cbn [length]. lia.
Qed.

Lemma hostname_change_at_max x ds rest :
  plain x -> starts_dot_or_empty rest ->
  ds <> [] -> all_digits ds -> digits_val ds = 4294967295 -> (length x + length ds + 3 <= 63)%nat ->
  hostname_change (x ++ [C_HY] ++ ds ++ rest) = x ++ [C_HY] ++ ds ++ [C_HY; 50] ++ rest.
Proof.
  intros Hx Hr Hne Hd Hv Hl. unfold hostname_change.
  replace (x ++ [C_HY] ++ ds ++ rest) with ((x ++ [C_HY] ++ ds) ++ rest) by (rewrite <- !app_assoc; reflexivity).
  rewrite split_first_label_app; [|apply plain_with_hyphen; assumption|assumption].
  change (x ++ [C_HY] ++ ds) with (x ++ C_HY :: ds).
  rewrite rsplit1_last by (apply (digits_no_byte C_HY ds Hd); unfold C_HY; lia).
  rewrite parse_u32_digits by (auto; lia).
  unfold host_suffix_can_increment. destruct suffix_step_pinned as [_ ->]. rewrite Hv.
  change (4294967295 + 1 <=? 4294967295) with false. cbv iota.
  rewrite label_with_suffix_fits.
  - norm_app.
  - rewrite !app_length. simpl. lia.
Qed.

Lemma hostname_change_twice x rest :
  plain x -> starts_dot_or_empty rest -> no_byte C_HY x -> (length x <= 20)%nat ->
  hostname_change (hostname_change (x ++ rest)) = x ++ [C_HY; 51] ++ rest.
Proof.
  intros Hx Hr Hh Hl. rewrite hostname_change_fresh by (try assumption; lia).
  change (x ++ [C_HY; 50] ++ rest) with (x ++ [C_HY] ++ [50] ++ rest).
  rewrite hostname_change_increment; try assumption; try discriminate; try reflexivity.
Qed.

(* ---- for EVERY input: only the first label changes, and the new first label fits 63 bytes ------------------------- *)

Lemma name_change_fits s :
  exists nf, name_change s = nf ++ snd (split_first_label s) /\ (length nf <= 63)%nat.
Proof.
  unfold name_change. destruct (split_first_label s) as [first rest]. simpl.
  assert (D : (length (label_with_suffix first SUFFIX2) <= 63)%nat)
    by (apply label_with_suffix_len; unfold SUFFIX2; cbn [length]; lia).
  unfold SUFFIX2 in D.
  destruct (rsplit2 C_SP C_LP first) as [[base q]|]; [|eexists; split; [reflexivity|exact D]].
  destruct (find1 C_RP q) as [[num [|a t]]|]; try (eexists; split; [reflexivity|exact D]).
  destruct (parse_u32 num) as [n|]; [|eexists; split; [reflexivity|exact D]].
  destruct (name_suffix_can_increment n); [|eexists; split; [reflexivity|exact D]].
  eexists. split; [reflexivity|]. apply label_with_suffix_len.
  pose proof (dec_length (n + name_suffix_step)). cbn [app length]. rewrite app_length. cbn [length]. lia.
Qed.

Lemma hostname_change_fits s :
  exists nf, hostname_change s = nf ++ snd (split_first_label s) /\ (length nf <= 63)%nat.
Proof.
  unfold hostname_change. destruct (split_first_label s) as [first rest]. simpl.
  assert (D : (length (label_with_suffix first HSUFFIX2) <= 63)%nat)
    by (apply label_with_suffix_len; unfold HSUFFIX2; cbn [length]; lia).
  unfold HSUFFIX2 in D.
  destruct (rsplit1 C_HY first) as [[base num]|]; [|eexists; split; [reflexivity|exact D]].
  destruct (parse_u32 num) as [n|]; [|eexists; split; [reflexivity|exact D]].
  destruct (host_suffix_can_increment n); [|eexists; split; [reflexivity|exact D]].
  eexists. split; [reflexivity|]. apply label_with_suffix_len.
  pose proof (dec_length (n + host_suffix_step)). cbn [app length]. lia.
Qed.

Lemma rename_fits_both s :
  (exists nf, name_change s = nf ++ snd (split_first_label s) /\ (length nf <= 63)%nat) /\
  (exists nf, hostname_change s = nf ++ snd (split_first_label s) /\ (length nf <= 63)%nat).
Proof. split; [apply name_change_fits|apply hostname_change_fits]. Qed.

(* the cases that used to break the name *)
Lemma rename_former_witnesses :
  (* 60-byte instance label: the base is shortened, the label stays at 63 bytes *)
  first_label_encodable (name_change (repeat 110 60 ++ [46; 95; 116; 46; 108; 111; 99; 97; 108; 46])) = true /\
  rename_keeps_rest (repeat 110 60 ++ [46; 95; 116; 46; 108; 111; 99; 97; 108; 46])
                    (name_change (repeat 110 60 ++ [46; 95; 116; 46; 108; 111; 99; 97; 108; 46])) = true /\
  first_label_encodable (hostname_change (repeat 104 62 ++ [46; 108; 111; 99; 97; 108; 46])) = true /\
  (* "My\.Svc._t._tcp.local." -> "My\.Svc (2)._t._tcp.local." *)
  name_change [77;121;92;46;83;118;99;46;95;116;46;95;116;99;112;46;108;111;99;97;108;46]
  = [77;121;92;46;83;118;99;32;40;50;41;46;95;116;46;95;116;99;112;46;108;111;99;97;108;46].
Proof. repeat split; vm_compute; reflexivity. Qed.
