(* Invariants of the scheduling model over ALL histories (no hypothesis on the schedule):
   every pending retransmission, resolver deadline and the interface check has its timer
   (C12 wake_covers_work), added timers lie in the future (C12 no_spin), at most one
   retransmission chain per search (C19 "browsing again replaces"). *)
From Coq Require Import List NArith Bool Lia.
From Mdns Require Import Bytes ParamsSched Sched SchedSpec SchedParamsProofs.
Import ListNotations.
Open Scope N_scope.

(* ------------------------------------------------------------------ keys, lookups *)
Lemma okey_eqb_eq a b : okey_eqb a b = true <-> a = b.
Proof.
  destruct a as [h1 n1], b as [h2 n2]. unfold okey_eqb. simpl.
  rewrite andb_true_iff, eqb_true_iff, beq_eq. split.
  - intros [-> ->]. reflexivity.
  - intros H. inversion H. auto.
Qed.

Lemma okey_eqb_refl a : okey_eqb a a = true.
Proof. apply okey_eqb_eq. reflexivity. Qed.

Lemma okey_eqb_neq a b : okey_eqb a b = false <-> a <> b.
Proof.
  split.
  - intros H E. apply okey_eqb_eq in E. congruence.
  - intros H. destruct (okey_eqb a b) eqn:E; [apply okey_eqb_eq in E; contradiction | reflexivity].
Qed.

Lemma okey_eqb_sym a b : okey_eqb a b = okey_eqb b a.
Proof.
  destruct (okey_eqb a b) eqn:E.
  - apply okey_eqb_eq in E. subst. symmetry. apply okey_eqb_refl.
  - apply okey_eqb_neq in E. symmetry. apply okey_eqb_neq. congruence.
Qed.

Lemma lookup_In k l o : lookup k l = Some o -> In (k, o) l.
Proof.
  induction l as [|[k' o'] t IH]; simpl; [discriminate|].
  destruct (okey_eqb k k') eqn:E.
  - intros H. inversion H; subst. apply okey_eqb_eq in E. subst. left. reflexivity.
  - intros H. right. auto.
Qed.

Lemma lookup_None k l : lookup k l = None <-> ~ In k (map fst l).
Proof.
  induction l as [|[k' o'] t IH]; simpl.
  - split; auto.
  - destruct (okey_eqb k k') eqn:E.
    + apply okey_eqb_eq in E. subst. split; [discriminate | intros H; exfalso; apply H; left; reflexivity].
    + apply okey_eqb_neq in E. rewrite IH. split.
      * intros H [H1|H1]; [congruence | contradiction].
      * intros H H1. apply H. right. exact H1.
Qed.

Lemma In_lookup k o l : NoDup (map fst l) -> In (k, o) l -> lookup k l = Some o.
Proof.
  induction l as [|[k' o'] t IH]; simpl; [tauto|].
  intros ND [H|H].
  - inversion H; subst. rewrite okey_eqb_refl. reflexivity.
  - inversion ND as [|x xs Hn ND']; subst.
    destruct (okey_eqb k k') eqn:E.
    + apply okey_eqb_eq in E. subst. exfalso. apply Hn. apply (in_map fst) in H. exact H.
    + auto.
Qed.

Lemma lookup_remove_same k l : lookup k (remove_key k l) = None.
Proof.
  apply lookup_None. unfold remove_key. intros H. apply in_map_iff in H as [[k' o] [H1 H2]].
  simpl in H1. subst k'. apply filter_In in H2 as [_ H2]. simpl in H2. rewrite okey_eqb_refl in H2. discriminate.
Qed.

Lemma lookup_filter_other (P : okey * owner -> bool) k l :
  (forall e, okey_eqb k (fst e) = true -> P e = true) -> lookup k (filter P l) = lookup k l.
Proof.
  intros HP. induction l as [|e t IH]; simpl; [reflexivity|].
  destruct (P e) eqn:EP; simpl.
  - rewrite IH. reflexivity.
  - destruct (okey_eqb k (fst e)) eqn:E; [rewrite HP in EP by exact E; discriminate | exact IH].
Qed.

Lemma lookup_remove_other k k' l : k <> k' -> lookup k (remove_key k' l) = lookup k l.
Proof.
  intros H. apply lookup_filter_other. intros e E. apply okey_eqb_eq in E. subst.
  apply negb_true_iff. apply okey_eqb_neq. congruence.
Qed.

Lemma lookup_filter_keep (P : okey * owner -> bool) k l o :
  lookup k l = Some o -> P (k, o) = true -> lookup k (filter P l) = Some o.
Proof.
  induction l as [|[k' o'] t IH]; simpl; [discriminate|].
  destruct (okey_eqb k k') eqn:E.
  - intros H HP. inversion H; subst. apply okey_eqb_eq in E. subst. rewrite HP. simpl.
    rewrite okey_eqb_refl. reflexivity.
  - intros H HP. destruct (P (k', o')); simpl; [rewrite E|]; auto.
Qed.

Lemma lookup_filter_some (P : okey * owner -> bool) k l o :
  lookup k (filter P l) = Some o -> NoDup (map fst l) -> lookup k l = Some o.
Proof.
  intros H ND. apply lookup_In in H. apply filter_In in H as [H _]. apply In_lookup; assumption.
Qed.

Lemma NoDup_map_filter {A B} (f : A -> B) (P : A -> bool) l :
  NoDup (map f l) -> NoDup (map f (filter P l)).
Proof.
  induction l as [|x t IH]; simpl; [auto|].
  intros ND. inversion ND as [|y ys Hn ND']; subst.
  destruct (P x); simpl; [|auto].
  constructor; [|auto]. intros H. apply Hn. apply in_map_iff in H as [z [H1 H2]].
  apply filter_In in H2 as [H2 _]. apply in_map_iff. eauto.
Qed.

Lemma NoDup_snoc {A} (l : list A) x : NoDup l -> ~ In x l -> NoDup (l ++ [x]).
Proof.
  intros ND Hn. apply (NoDup_Add (a := x) (l := l)).
  - rewrite <- (app_nil_r l) at 1. apply Add_app.
  - split; assumption.
Qed.

(* ------------------------------------------------------------------ min_list, deadlines *)
Lemma min_list_le l w t : min_list l = Some w -> In t l -> w <= t.
Proof.
  revert w. induction l as [|x l IH]; simpl; [tauto|].
  intros w H [Ht|Ht].
  - subst. destruct (min_list l); inversion H; subst; lia.
  - destruct (min_list l) as [m|] eqn:E.
    + inversion H; subst. specialize (IH m eq_refl Ht). lia.
    + destruct l; [contradiction | simpl in E; destruct (min_list l); discriminate].
Qed.

Lemma min_list_In l w : min_list l = Some w -> In w l.
Proof.
  revert w. induction l as [|x l IH]; simpl; [discriminate|].
  intros w H. destruct (min_list l) as [m|] eqn:E.
  - inversion H; subst. destruct (N.min_spec x m) as [[_ ->]|[_ ->]]; auto.
  - inversion H; subst. auto.
Qed.

Lemma min_list_None l : min_list l = None -> l = [].
Proof. destruct l; simpl; [reflexivity|]. destruct (min_list l); discriminate. Qed.

Lemma in_deadlines d l :
  In d (deadlines l) <-> exists e, In e l /\ ow_deadline (snd e) = Some d.
Proof.
  unfold deadlines. rewrite in_flat_map. split.
  - intros [e [H1 H2]]. exists e. split; [exact H1|]. destruct (ow_deadline (snd e)); simpl in H2; [|contradiction].
    destruct H2 as [->|[]]. reflexivity.
  - intros [e [H1 H2]]. exists e. split; [exact H1|]. rewrite H2. left. reflexivity.
Qed.

(* ------------------------------------------------------------------ the invariants *)
Definition retr_inv (clock : N) (timers : list N) (r : rerun) : Prop :=
  1 <= r_delay r /\ clock < r_time r /\ In (r_time r) timers.

(* between iterations *)
Record Inv (s : state) : Prop := mkInv {
  inv_ret : forall r, In r (st_retrans s) -> retr_inv (st_clock s) (st_timers s) r;
  inv_dead : forall d, In d (deadlines (st_owners s)) -> In d (st_timers s);
  inv_ip : (st_ip_ival s = 0 -> st_next_ip s = 0)
           /\ (st_ip_ival s <> 0 -> st_clock s < st_next_ip s /\ In (st_next_ip s) (st_timers s));
  inv_own : NoDup (map fst (st_owners s));
  inv_one : NoDup (map rkey (st_retrans s)) }.

(* inside the iteration at `now`, after the timers were popped and the deadlines handled;
   z = a search with timeout 0 was started in this iteration *)
Record Mid (now : N) (z : bool) (s : state) : Prop := mkMid {
  mid_clock : st_clock s = now;
  mid_ret : forall r, In r (st_retrans s) ->
                      1 <= r_delay r /\ (now < r_time r -> In (r_time r) (st_timers s));
  mid_dead : forall d, In d (deadlines (st_owners s)) -> In d (st_timers s);
  mid_ip : st_next_ip s = 0 \/ st_next_ip s <= now \/ In (st_next_ip s) (st_timers s);
  mid_own : NoDup (map fst (st_owners s));
  mid_one : NoDup (map rkey (st_retrans s));
  mid_tim : forall t, In t (st_timers s) -> now < t \/ (z = true /\ t = now) }.

Lemma Mid_weaken now z s : Mid now z s -> Mid now true s.
Proof.
  intros [H1 H2 H3 H4 H5 H6 H7]. constructor; auto.
  intros t Ht. destruct (H7 t Ht) as [H|[_ H]]; auto.
Qed.

Lemma inv_init t0 : Inv (init t0).
Proof.
  rewrite init_spec. constructor; simpl.
  - intros r [].
  - intros d [].
  - split; [discriminate|]. intros _. split; [lia | left; reflexivity].
  - constructor.
  - constructor.
Qed.

Lemma inv_mid s now : Inv s -> Mid now false (timeout_phase now s).
Proof.
  intros [Hr Hd [Hi0 Hi1] Ho H1]. unfold timeout_phase. constructor; simpl.
  - reflexivity.
  - intros r Hin. destruct (Hr r Hin) as [A [B C]]. split; [exact A|].
    intros Hlt. apply filter_In. split; [exact C|]. rewrite timer_kept_pinned. apply N.ltb_lt. exact Hlt.
  - intros d Hin. apply in_deadlines in Hin as [e [He Hdl]]. apply filter_In in He as [He Hne].
    apply filter_In. split.
    + apply Hd. apply in_deadlines. eauto.
    + unfold expired in Hne. rewrite Hdl in Hne. rewrite resolver_expired_pinned in Hne.
      rewrite timer_kept_pinned. apply negb_true_iff in Hne. apply N.leb_gt in Hne. apply N.ltb_lt. exact Hne.
  - destruct (N.eq_dec (st_ip_ival s) 0) as [E|E].
    + left. auto.
    + destruct (Hi1 E) as [A B]. destruct (N.le_gt_cases (st_next_ip s) now) as [L|L].
      * right. left. exact L.
      * right. right. apply filter_In. split; [exact B|]. rewrite timer_kept_pinned. apply N.ltb_lt. exact L.
  - apply NoDup_map_filter. exact Ho.
  - exact H1.
  - intros t Ht. apply filter_In in Ht as [_ Ht]. rewrite timer_kept_pinned in Ht. apply N.ltb_lt in Ht. left. exact Ht.
Qed.

(* ------------------------------------------------------------------ single steps *)
Lemma in_requeue now owners host nm d ch r :
  In r (requeue now owners host nm d ch) ->
  r = mkRerun (now + d * 1000) host nm (spec_next_delay d) ch
  /\ requeue_ok (okey_of host nm) owners (now + d * 1000) = true.
Proof.
  unfold requeue. rewrite next_time_spec, next_delay_spec.
  destruct (requeue_ok _ _ _) eqn:E; simpl; [|tauto].
  intros [H|[]]. subst. auto.
Qed.

Lemma requeue_shape now owners host nm d ch :
  requeue now owners host nm d ch =
  if requeue_ok (okey_of host nm) owners (now + d * 1000)
  then [mkRerun (now + d * 1000) host nm (spec_next_delay d) ch] else [].
Proof. unfold requeue. rewrite next_time_spec, next_delay_spec. reflexivity. Qed.

Lemma in_purge k l r : In r (purge k l) <-> In r l /\ rkey r <> k.
Proof.
  unfold purge. rewrite filter_In. rewrite negb_true_iff, okey_eqb_neq. tauto.
Qed.

Lemma in_remove_key k l e : In e (remove_key k l) <-> In e l /\ fst e <> k.
Proof.
  unfold remove_key. rewrite filter_In, negb_true_iff, okey_eqb_neq. split; intros [A B]; split; auto.
Qed.

Lemma sat_add_ge now t : now <= u64_max -> now <= sat_add now t.
Proof. unfold sat_add. intros H. apply N.min_glb; lia. Qed.

Lemma sat_add_eq now t : now < u64_max -> sat_add now t = now -> t = 0.
Proof.
  unfold sat_add. intros H E.
  destruct (N.min_spec (now + t) u64_max) as [[_ E1]|[_ E1]]; rewrite E1 in E; lia.
Qed.

Lemma nodup_keys_purge_new k l (new : list rerun) :
  NoDup (map rkey l) -> (new = [] \/ exists r, new = [r] /\ rkey r = k) ->
  NoDup (map rkey (purge k l ++ new)).
Proof.
  intros ND [->|[r [-> Hk]]].
  - rewrite app_nil_r. apply NoDup_map_filter. exact ND.
  - rewrite map_app. simpl. apply NoDup_snoc.
    + apply NoDup_map_filter. exact ND.
    + intros H. apply in_map_iff in H as [r' [H1 H2]]. apply in_purge in H2 as [_ H2]. congruence.
Qed.

Lemma mid_start now z s host nm cache timeout ch :
  now < u64_max -> Mid now z s ->
  Mid now (z || match timeout with Some t => t =? 0 | None => false end)
      (fst (fst (exec_start now host nm cache timeout ch s))).
Proof.
  intros Hnow [Hc Hr Hd Hi Ho H1 Ht].
  set (k := okey_of host nm).
  set (dl := option_map (sat_add now) timeout).
  set (timers1 := match dl with Some d => d :: st_timers s | None => st_timers s end).
  assert (Hsub : forall t, In t (st_timers s) -> In t timers1).
  { intros t H. unfold timers1. destruct dl; [right|]; exact H. }
  assert (Htim1 : forall t, In t timers1 ->
             now < t \/ ((z || match timeout with Some t => t =? 0 | None => false end) = true /\ t = now)).
  { intros t H. unfold timers1, dl in H. destruct timeout as [t0|]; simpl in H.
    - destruct H as [H|H].
      + subst t. destruct (N.eq_dec (sat_add now t0) now) as [E|E].
        * right. split; [|exact E]. apply sat_add_eq in E; [|exact Hnow]. subst. rewrite orb_true_r. reflexivity.
        * left. pose proof (sat_add_ge now t0). lia.
      + destruct (Ht t H) as [A|[A B]]; [left; exact A | right; rewrite A; auto].
    - destruct (Ht t H) as [A|[A B]]; [left; exact A | right; rewrite A; auto]. }
  assert (Hdead1 : forall d, In d (deadlines ((k, mkOwner ch dl) :: remove_key k (st_owners s))) -> In d timers1).
  { intros d H. apply in_deadlines in H as [e [[He|He] Hdl]].
    - subst e. simpl in Hdl. unfold timers1. rewrite Hdl. left. reflexivity.
    - apply Hsub. apply Hd. apply in_deadlines. exists e. apply in_remove_key in He as [He _]. auto. }
  assert (Hown1 : NoDup (map fst ((k, mkOwner ch dl) :: remove_key k (st_owners s)))).
  { simpl. constructor.
    - intros H. apply in_map_iff in H as [e [H2 H3]]. apply in_remove_key in H3 as [_ H3]. congruence.
    - apply NoDup_map_filter. exact Ho. }
  unfold exec_start. fold k. fold dl. fold timers1.
  destruct cache; simpl.
  - constructor; simpl; auto.
    + intros r H. apply in_purge in H as [H _]. destruct (Hr r H) as [A B]. split; auto.
    + destruct Hi as [A|[A|A]]; auto.
    + apply NoDup_map_filter. exact H1.
  - set (new := requeue now ((k, mkOwner ch dl) :: remove_key k (st_owners s)) host nm (first_delay host false) ch).
    constructor; simpl; auto.
    + intros r H. apply in_app_or in H as [H|H].
      * apply in_purge in H as [H _]. destruct (Hr r H) as [A B]. split; [exact A|].
        intros L. apply in_or_app. right. apply Hsub. auto.
      * pose proof H as Hin. apply in_requeue in H as [-> _]. simpl. rewrite first_delay_spec. split.
        { apply spec_next_delay_pos. lia. }
        { intros _. apply in_or_app. left. apply in_map_iff. eexists. split; [|exact Hin].
          simpl. rewrite first_delay_spec. reflexivity. }
    + intros d H. apply in_or_app. right. apply Hdead1. exact H.
    + destruct Hi as [A|[A|A]]; auto. right. right. apply in_or_app. right. apply Hsub. exact A.
    + apply nodup_keys_purge_new; [exact H1|]. unfold new. rewrite requeue_shape.
      destruct (requeue_ok _ _ _); [right; eexists; split; [reflexivity|reflexivity] | left; reflexivity].
    + intros t H. apply in_app_or in H as [H|H].
      * apply in_map_iff in H as [r [H2 H3]]. apply in_requeue in H3 as [-> _]. simpl in H2. subst t.
        rewrite first_delay_spec. left. lia.
      * apply Htim1. exact H.
Qed.

Lemma mid_stop now z s host nm : Mid now z s -> Mid now z (fst (fst (exec_stop host nm s))).
Proof.
  intros M. unfold exec_stop. destruct (lookup _ _); [|exact M].
  destruct M as [Hc Hr Hd Hi Ho H1 Ht]. constructor; simpl; auto.
  - intros r H. apply in_purge in H as [H _]. auto.
  - intros d H. apply Hd. apply in_deadlines in H as [e [He Hdl]]. apply in_remove_key in He as [He _].
    apply in_deadlines. eauto.
  - apply NoDup_map_filter. exact Ho.
  - apply NoDup_map_filter. exact H1.
Qed.

Lemma mid_set_ip now z s secs : Mid now z s -> Mid now z (fst (fst (exec_set_ip secs s))).
Proof. intros [Hc Hr Hd Hi Ho H1 Ht]. constructor; simpl; auto. Qed.

Definition cmd_zero (c : cmd) : bool :=
  match c with CStart _ _ _ (Some t) _ => t =? 0 | _ => false end.

Lemma mid_cmd now z s c :
  now < u64_max -> Mid now z s -> c <> CShutdown ->
  Mid now (z || cmd_zero c) (fst (fst (exec_cmd now c s))).
Proof.
  intros Hnow M Hc. destruct c as [host nm cache timeout ch|host nm|secs|]; simpl.
  - apply (mid_start now z s host nm cache timeout ch Hnow M).
  - rewrite orb_false_r. apply mid_stop. exact M.
  - rewrite orb_false_r. apply mid_set_ip. exact M.
  - congruence.
Qed.

Lemma alive_exec_cmd now c s :
  st_alive (fst (fst (exec_cmd now c s))) = match c with CShutdown => false | _ => st_alive s end.
Proof.
  destruct c as [host nm cache timeout ch|host nm|secs|]; simpl; try reflexivity.
  - unfold exec_start. destruct cache; reflexivity.
  - unfold exec_stop. destruct (lookup _ _); reflexivity.
Qed.

Lemma zero_timeout_cons c cmds : zero_timeout (c :: cmds) = cmd_zero c || zero_timeout cmds.
Proof. unfold zero_timeout. simpl. destruct c as [? ? ? [t|] ?| | |]; reflexivity. Qed.

Lemma mid_cmds now cmds : forall z s s2 p e,
  (cmds = [] \/ now < u64_max) -> Mid now z s -> st_alive s = true ->
  run_cmds now cmds s = (s2, p, e) -> st_alive s2 = true ->
  Mid now (z || zero_timeout cmds) s2 /\ has_shutdown cmds = false.
Proof.
  induction cmds as [|c rest IH]; intros z s s2 p e Hnow M Ha Hrun Ha2; simpl in Hrun.
  - inversion Hrun; subst. unfold zero_timeout. simpl. rewrite orb_false_r. auto.
  - destruct Hnow as [Hnow|Hnow]; [discriminate|].
    destruct (exec_cmd now c s) as [[s1 p1] e1] eqn:E1.
    assert (Hc : c <> CShutdown).
    { intros ->. simpl in E1. inversion E1; subst. inversion Hrun; subst. simpl in Ha2. discriminate. }
    pose proof (mid_cmd now z s c Hnow M Hc) as M1. rewrite E1 in M1. simpl in M1.
    pose proof (alive_exec_cmd now c s) as A1. rewrite E1 in A1. simpl in A1.
    destruct (run_cmds now rest s1) as [[s2' p2] e2] eqn:E2.
    assert (Hrun' : (s2', p1 ++ p2, e1 ++ e2) = (s2, p, e)).
    { destruct c; try exact Hrun. congruence. }
    inversion Hrun'; subst.
    assert (A1' : st_alive s1 = true). { destruct c; try (rewrite A1; exact Ha). congruence. }
    destruct (IH (z || cmd_zero c) s1 s2 p2 e2 (or_intror Hnow) M1 A1' E2 Ha2) as [M2 Hs].
    split.
    + rewrite zero_timeout_cons. rewrite orb_assoc. exact M2.
    + unfold has_shutdown. simpl. destruct c; try exact Hs. congruence.
Qed.

(* ------------------------------------------------------------------ re-run and interface check *)
Lemma in_rerun_one now owners r0 r :
  In r (rerun_one now owners r0) ->
  r = mkRerun (now + r_delay r0 * 1000) (r_host r0) (r_name r0) (spec_next_delay (r_delay r0)) (r_ch r0)
  /\ requeue_ok (rkey r0) owners (now + r_delay r0 * 1000) = true.
Proof. unfold rerun_one. intros H. apply in_requeue in H. exact H. Qed.

Lemma rkey_rerun_one now owners r0 r : In r (rerun_one now owners r0) -> rkey r = rkey r0.
Proof. intros H. apply in_rerun_one in H as [-> _]. reflexivity. Qed.

Lemma nodup_partition_map {A B} (f : A -> B) (P : A -> bool) (g : A -> list A) (l : list A) :
  (forall x y, In y (g x) -> f y = f x) ->
  (forall x, g x = [] \/ exists y, g x = [y]) ->
  NoDup (map f l) ->
  NoDup (map f (filter (fun x => negb (P x)) l ++ flat_map g (filter P l)))
  /\ (forall b, In b (map f (filter (fun x => negb (P x)) l ++ flat_map g (filter P l))) -> In b (map f l)).
Proof.
  intros Hf Hg. induction l as [|x t IH]; simpl; intros ND.
  - split; [constructor | tauto].
  - inversion ND as [|y ys Hn ND']; subst. destruct (IH ND') as [IH1 IH2].
    destruct (P x) eqn:EP; simpl.
    + destruct (Hg x) as [E|[y E]]; rewrite E; simpl.
      * split; [exact IH1 | intros b Hb; right; apply IH2; exact Hb].
      * assert (Hy : f y = f x) by (apply Hf; rewrite E; left; reflexivity).
        rewrite map_app in *. simpl.
        split.
        { apply (NoDup_Add (a := f y) (l := map f (filter (fun x0 => negb (P x0)) t) ++ map f (flat_map g (filter P t)))).
          - apply Add_app.
          - split; [exact IH1|]. rewrite Hy. intros Hb. apply Hn. apply IH2. exact Hb. }
        { intros b Hb. apply in_app_or in Hb as [Hb|[Hb|Hb]].
          - right. apply IH2. apply in_or_app. left. exact Hb.
          - left. congruence.
          - right. apply IH2. apply in_or_app. right. exact Hb. }
    + split.
      * constructor; [|exact IH1]. intros Hb. apply Hn. apply IH2. exact Hb.
      * intros b [Hb|Hb]; [left; exact Hb | right; apply IH2; exact Hb].
Qed.

Lemma flat_map_filter {A B} (g : A -> list B) (Q : A -> bool) l :
  flat_map g (filter Q l) = flat_map (fun x => if Q x then g x else []) l.
Proof.
  induction l as [|x t IH]; simpl; [reflexivity|]. destruct (Q x); simpl; rewrite IH; reflexivity.
Qed.

Lemma in_rerun_new now owners l r :
  In r (flat_map (rerun_one now owners) (filter (rerun_live owners) (filter (due now) l))) ->
  exists r0, In r0 l /\ due now r0 = true /\ rerun_live owners r0 = true /\ In r (rerun_one now owners r0).
Proof.
  intros H. apply in_flat_map in H as [r0 [H0 H]]. apply filter_In in H0 as [H0 HL].
  apply filter_In in H0 as [H0 HD]. exists r0. auto.
Qed.

Lemma rerun_one_shape now owners r0 :
  rerun_one now owners r0 = [] \/ exists y, rerun_one now owners r0 = [y].
Proof.
  unfold rerun_one. rewrite requeue_shape. destruct (requeue_ok _ _ _); [right; eexists; reflexivity | left; reflexivity].
Qed.

Lemma ip_phase_frame now s :
  st_clock (ip_phase now s) = st_clock s /\ st_retrans (ip_phase now s) = st_retrans s
  /\ st_owners (ip_phase now s) = st_owners s /\ st_alive (ip_phase now s) = st_alive s
  /\ st_ip_ival (ip_phase now s) = st_ip_ival s
  /\ (forall t, In t (st_timers s) -> In t (st_timers (ip_phase now s))).
Proof.
  unfold ip_phase. destruct (ip_check_disabled _); [simpl; auto 10|].
  destruct (ip_check_unarmed _); [simpl; auto 10|].
  destruct (ip_check_due _ _); simpl; auto 10.
Qed.

Lemma mid_inv now z s2 s3 p e :
  Mid now z s2 -> rerun_phase now s2 = (s3, p, e) -> Inv (ip_phase now s3).
Proof.
  intros [Hc Hr Hd Hi Ho H1 Ht] E. unfold rerun_phase in E. injection E as E1 E2 E3. subst s3 p e.
  set (new := flat_map (rerun_one now (st_owners s2))
                       (filter (rerun_live (st_owners s2)) (filter (due now) (st_retrans s2)))).
  set (s3 := set_sched s2 _ _ _).
  destruct (ip_phase_frame now s3) as [F1 [F2 [F3 [F4 [F5 F6]]]]].
  assert (Hnew : forall r, In r new -> 1 <= r_delay r /\ now < r_time r /\ In (r_time r) (map r_time new)).
  { intros r H. pose proof H as Hin. unfold new in H. apply in_rerun_new in H as [r0 [H0 [_ [_ H]]]].
    apply in_rerun_one in H as [-> _]. simpl.
    destruct (Hr r0 H0) as [A _]. split; [apply spec_next_delay_pos; exact A|]. split; [lia|].
    apply in_map_iff. eexists. split; [|exact Hin]. reflexivity. }
  constructor.
  - rewrite F1, F2. simpl. rewrite Hc. intros r H. apply in_app_or in H as [H|H].
    + apply filter_In in H as [H Hnd]. unfold due in Hnd. apply negb_true_iff, N.leb_gt in Hnd.
      destruct (Hr r H) as [A B]. split; [exact A|]. split; [exact Hnd|]. apply F6. simpl.
      apply in_or_app. right. auto.
    + destruct (Hnew r H) as [A [B C]]. split; [exact A|]. split; [exact B|]. apply F6. simpl.
      apply in_or_app. left. exact C.
  - rewrite F3. simpl. intros d H. apply F6. simpl. apply in_or_app. right. auto.
  - unfold ip_phase. unfold ip_check_disabled, ip_check_unarmed, ip_check_due,
      ip_check_rearm_time, ip_check_next_time.
    simpl. destruct (st_ip_ival s2 =? 0) eqn:E0.
    + simpl. apply N.eqb_eq in E0. split; [reflexivity | intros H; contradiction].
    + apply N.eqb_neq in E0. destruct (st_next_ip s2 =? 0) eqn:E1; simpl.
      * split; [intros H; contradiction | intros _; split; [lia | left; reflexivity]].
      * apply N.eqb_neq in E1. destruct (st_next_ip s2 <=? now) eqn:E2; simpl.
        { split; [intros H; contradiction | intros _; split; [lia | left; reflexivity]]. }
        { apply N.leb_gt in E2. split; [intros H; contradiction|]. intros _. rewrite Hc. split; [exact E2|].
          apply in_or_app. right. destruct Hi as [A|[A|A]]; [contradiction | lia | exact A]. }
  - rewrite F3. simpl. exact Ho.
  - rewrite F2. simpl. unfold new. rewrite flat_map_filter.
    apply (nodup_partition_map rkey (due now)
             (fun x => if rerun_live (st_owners s2) x then rerun_one now (st_owners s2) x else []) (st_retrans s2)).
    + intros x y H. destruct (rerun_live (st_owners s2) x); [|contradiction]. apply rkey_rerun_one in H. exact H.
    + intros x. destruct (rerun_live (st_owners s2) x); [apply rerun_one_shape | left; reflexivity].
    + exact H1.
Qed.

(* timers after the iteration lie in the future (no_spin) *)
Lemma mid_timers_future now z s2 s3 p e :
  Mid now z s2 -> rerun_phase now s2 = (s3, p, e) ->
  forall t, In t (st_timers (ip_phase now s3)) -> now < t \/ (z = true /\ t = now).
Proof.
  intros [Hc Hr Hd Hi Ho H1 Ht] E. unfold rerun_phase in E. injection E as E1 E2 E3. subst s3 p e.
  assert (Hbase : forall t,
     In t (map r_time (flat_map (rerun_one now (st_owners s2))
                         (filter (rerun_live (st_owners s2)) (filter (due now) (st_retrans s2)))) ++ st_timers s2) ->
     now < t \/ (z = true /\ t = now)).
  { intros t H. apply in_app_or in H as [H|H]; [|auto].
    apply in_map_iff in H as [r [H2 H]]. apply in_rerun_new in H as [r0 [H0 [_ [_ H]]]].
    apply in_rerun_one in H as [-> _]. simpl in H2. subst t.
    destruct (Hr r0 H0) as [A _]. left. lia. }
  unfold ip_phase. unfold ip_check_disabled, ip_check_unarmed, ip_check_due,
      ip_check_rearm_time, ip_check_next_time. simpl.
  destruct (st_ip_ival s2 =? 0) eqn:E0; simpl; [exact Hbase|].
  apply N.eqb_neq in E0.
  destruct (st_next_ip s2 =? 0); simpl.
  - intros t [H|H]; [left; lia | auto].
  - destruct (st_next_ip s2 <=? now); simpl; [|exact Hbase].
    intros t [H|H]; [left; lia | auto].
Qed.

(* ------------------------------------------------------------------ whole iterations, histories *)
Definition in_range (h : list iter) : Prop := Forall (fun it => i_now it < u64_max) h.

Lemma timeout_phase_alive now s : st_alive (timeout_phase now s) = true.
Proof. reflexivity. Qed.

Lemma iterate_inv s it :
  Inv s -> (i_cmds it = [] \/ i_now it < u64_max) ->
  st_alive (fst (iterate s it)) = true -> Inv (fst (iterate s it)).
Proof.
  intros I Hnow. unfold iterate.
  destruct (run_cmds (i_now it) (i_cmds it) (timeout_phase (i_now it) s)) as [[s2 p_c] ev_c] eqn:E.
  destruct (st_alive s2) eqn:A.
  - destruct (rerun_phase (i_now it) s2) as [[s3 p_r] ev_r] eqn:E3. simpl. intros _.
    destruct (mid_cmds (i_now it) (i_cmds it) false _ s2 p_c ev_c Hnow (inv_mid s (i_now it) I)
                (timeout_phase_alive _ _) E A) as [M _].
    eapply mid_inv; eassumption.
  - simpl. congruence.
Qed.

Lemma iterate_timers s it :
  Inv s -> (i_cmds it = [] \/ i_now it < u64_max) -> st_alive (fst (iterate s it)) = true ->
  st_clock (fst (iterate s it)) = i_now it
  /\ forall t, In t (st_timers (fst (iterate s it))) ->
               i_now it < t \/ (zero_timeout (i_cmds it) = true /\ t = i_now it).
Proof.
  intros I Hnow. unfold iterate.
  destruct (run_cmds (i_now it) (i_cmds it) (timeout_phase (i_now it) s)) as [[s2 p_c] ev_c] eqn:E.
  destruct (st_alive s2) eqn:A.
  - destruct (rerun_phase (i_now it) s2) as [[s3 p_r] ev_r] eqn:E3. simpl. intros _.
    destruct (mid_cmds (i_now it) (i_cmds it) false _ s2 p_c ev_c Hnow (inv_mid s (i_now it) I)
                (timeout_phase_alive _ _) E A) as [M _].
    simpl in M. split.
    + destruct (ip_phase_frame (i_now it) s3) as [F1 _]. rewrite F1.
      unfold rerun_phase in E3. injection E3 as <- _ _. simpl. apply (mid_clock _ _ _ M).
    + exact (mid_timers_future _ _ _ _ _ _ M E3).
  - simpl. congruence.
Qed.

Lemma iterate_wake s it :
  Inv s -> (i_cmds it = [] \/ i_now it < u64_max) ->
  forall w, o_wake (snd (iterate s it)) = Some w ->
            i_now it < w \/ (zero_timeout (i_cmds it) = true /\ w = i_now it).
Proof.
  intros I Hnow w. unfold iterate.
  destruct (run_cmds (i_now it) (i_cmds it) (timeout_phase (i_now it) s)) as [[s2 p_c] ev_c] eqn:E.
  destruct (st_alive s2) eqn:A.
  - destruct (rerun_phase (i_now it) s2) as [[s3 p_r] ev_r] eqn:E3. simpl. intros Hw.
    destruct (mid_cmds (i_now it) (i_cmds it) false _ s2 p_c ev_c Hnow (inv_mid s (i_now it) I)
                (timeout_phase_alive _ _) E A) as [M _].
    apply min_list_In in Hw. simpl in M.
    exact (mid_timers_future _ _ _ _ _ _ M E3 w Hw).
  - simpl. discriminate.
Qed.

Lemma final_dead s h : st_alive s = false -> final s h = s.
Proof. destruct h; simpl; [reflexivity|]. intros ->. reflexivity. Qed.

Lemma inv_final h : forall s,
  Inv s -> in_range h -> st_alive (final s h) = true -> Inv (final s h).
Proof.
  induction h as [|it h IH]; intros s I R A; simpl in *; [exact I|].
  destruct (st_alive s) eqn:As; [|exact I].
  inversion R as [|x xs R1 R2]; subst.
  destruct (st_alive (fst (iterate s it))) eqn:A1.
  - apply IH; [apply iterate_inv; auto | exact R2 | exact A].
  - rewrite final_dead in A by exact A1. congruence.
Qed.

(* C12 wake_covers_work, on states: every pending piece of time-driven work has a timer at
   its due time, so the requested wake-up (the earliest timer) is no later than any of them *)
Lemma due_work_has_timer s : Inv s -> forall d, In d (due_work s) -> In d (st_timers s).
Proof.
  intros [Hr Hd [Hi0 Hi1] Ho H1] d H. unfold due_work in H.
  apply in_app_or in H as [H|H]; [|apply in_app_or in H as [H|H]].
  - apply in_map_iff in H as [r [E H]]. subst d. apply (Hr r H).
  - auto.
  - unfold ip_check_disabled in H. destruct (st_ip_ival s =? 0) eqn:E; [contradiction|].
    destruct H as [H|[]]. subst d. apply N.eqb_neq in E. apply (Hi1 E).
Qed.

Lemma wake_covers_state s :
  Inv s -> forall d, In d (due_work s) ->
  exists w, min_list (st_timers s) = Some w /\ w <= d.
Proof.
  intros I d H. pose proof (due_work_has_timer s I d H) as Ht.
  destruct (min_list (st_timers s)) as [w|] eqn:E.
  - exists w. split; [reflexivity|]. eapply min_list_le; eassumption.
  - apply min_list_None in E. rewrite E in Ht. contradiction.
Qed.

Lemma reachable_inv t0 h :
  in_range h -> st_alive (final (init t0) h) = true -> Inv (final (init t0) h).
Proof. intros R A. apply inv_final; [apply inv_init | exact R | exact A]. Qed.
