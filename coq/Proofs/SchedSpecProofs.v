(* Refinement of the scheduling model to the per-question and per-channel specifications of
   Model/SchedSpec.v: on EVERY well-formed history the model's trace satisfies chk_C19, chk_C13
   and chk_C12.  Also: closed form of the back-off ladder on the timer-exact silent schedule. *)
From Coq Require Import List NArith Bool Lia PeanoNat.
From Mdns Require Import Bytes ParamsSched Sched SchedSpec SchedParamsProofs SchedProofs.
Import ListNotations.
Open Scope N_scope.

(* ------------------------------------------------------------------ list helpers *)
Lemma beq_sym a b : beq a b = beq b a.
Proof.
  destruct (beq a b) eqn:E.
  - apply beq_eq in E. subst. symmetry. apply beq_refl.
  - destruct (beq b a) eqn:E'; [|reflexivity]. apply beq_eq in E'. subst. rewrite beq_refl in E. discriminate.
Qed.

Lemma beq_neq a b : beq a b = false <-> a <> b.
Proof.
  split.
  - intros H E. subst. rewrite beq_refl in H. discriminate.
  - intros H. destruct (beq a b) eqn:E; [apply beq_eq in E; contradiction | reflexivity].
Qed.

Lemma filter_comm {A} (P Q : A -> bool) l : filter P (filter Q l) = filter Q (filter P l).
Proof.
  induction l as [|x t IH]; simpl; [reflexivity|].
  destruct (Q x) eqn:EQ, (P x) eqn:EP; simpl; rewrite ?EQ, ?EP, IH; reflexivity.
Qed.

Lemma filter_all {A} (Q : A -> bool) (b : bool) l :
  (forall y, In y l -> Q y = b) -> filter Q l = if b then l else [].
Proof.
  induction l as [|x t IH]; simpl; intros H.
  - destruct b; reflexivity.
  - rewrite (H x (or_introl eq_refl)). rewrite IH by (intros y Hy; apply H; right; exact Hy).
    destruct b; reflexivity.
Qed.

Lemma filter_flat_map {A} (Q : A -> bool) (g : A -> list A) l :
  (forall x y, In y (g x) -> Q y = Q x) -> filter Q (flat_map g l) = flat_map g (filter Q l).
Proof.
  intros H. induction l as [|x t IH]; simpl; [reflexivity|].
  rewrite filter_app, IH. rewrite (filter_all Q (Q x) (g x)) by (intros y Hy; apply H; exact Hy).
  destruct (Q x); reflexivity.
Qed.

Lemma filter_nil_iff {A} (Q : A -> bool) l : filter Q l = [] <-> forall x, In x l -> Q x = false.
Proof.
  induction l as [|x t IH]; simpl.
  - split; [intros _ y [] | reflexivity].
  - destruct (Q x) eqn:E.
    + split; [discriminate|]. intros H. rewrite (H x (or_introl eq_refl)) in E. discriminate.
    + rewrite IH. split.
      * intros H y [->|Hy]; auto.
      * intros H y Hy. apply H. right. exact Hy.
Qed.

Lemma length_filter_map {A B} (Q : B -> bool) (f : A -> B) l :
  length (filter Q (map f l)) = length (filter (fun x => Q (f x)) l).
Proof. induction l as [|x t IH]; simpl; [reflexivity|]. destruct (Q (f x)); simpl; rewrite IH; reflexivity. Qed.

(* ------------------------------------------------------------------ questions and retransmissions *)
Definition same_q (k : wkey) (host : bool) (nm : name) : bool := Bool.eqb (fst k) host && beq (snd k) nm.
Definition is_k (k : wkey) (r : rerun) : bool := same_q k (r_host r) (r_name r).
Definition pend (k : wkey) (l : list rerun) : list rerun := filter (is_k k) l.

Lemma same_q_true k host nm : same_q k host nm = true <-> fst k = host /\ snd k = nm.
Proof. unfold same_q. rewrite andb_true_iff, eqb_true_iff, beq_eq. tauto. Qed.

Lemma same_q_okey k host nm : same_q k host nm = true -> okey_of host nm = wkey_okey k.
Proof. intros H. apply same_q_true in H as [<- <-]. reflexivity. Qed.

Lemma is_k_rkey k r : is_k k r = true -> rkey r = wkey_okey k.
Proof. apply same_q_okey. Qed.

Lemma pkt_eqb_same k host nm : pkt_eqb (pkt (fst k) (snd k)) (pkt host nm) = same_q k host nm.
Proof.
  destruct k as [kh kn]. unfold same_q, pkt. simpl.
  destruct kh, host; simpl; unfold q_eqb; simpl; try reflexivity; destruct (beq kn nm); reflexivity.
Qed.

Lemma count_pkt_app k a b : count_pkt k (a ++ b) = (count_pkt k a + count_pkt k b)%nat.
Proof. unfold count_pkt. rewrite filter_app, app_length. reflexivity. Qed.

Lemma count_pkt_one k host nm : count_pkt k [pkt host nm] = if same_q k host nm then 1%nat else 0%nat.
Proof. unfold count_pkt. simpl. rewrite pkt_eqb_same. destruct (same_q k host nm); reflexivity. Qed.

Lemma count_pkt_reruns k (l : list rerun) :
  count_pkt k (map (fun r => pkt (r_host r) (r_name r)) l) = length (pend k l).
Proof.
  unfold count_pkt, pend. rewrite length_filter_map. f_equal.
  apply filter_ext. intros r. apply pkt_eqb_same.
Qed.

Lemma pend_purge_same k key l : key = wkey_okey k -> pend k (purge key l) = [].
Proof.
  intros ->. unfold pend. apply filter_nil_iff. intros r H. apply in_purge in H as [_ H].
  destruct (is_k k r) eqn:E; [|reflexivity]. apply is_k_rkey in E. contradiction.
Qed.

Lemma pend_purge_other k key l : key <> wkey_okey k -> pend k (purge key l) = pend k l.
Proof.
  intros Hne. unfold pend, purge. rewrite filter_comm.
  induction l as [|r t IH]; simpl; [reflexivity|].
  destruct (is_k k r) eqn:E; simpl.
  - apply is_k_rkey in E. replace (okey_eqb (rkey r) key) with false; [simpl; f_equal; exact IH|].
    symmetry. apply okey_eqb_neq. congruence.
  - exact IH.
Qed.

Lemma pend_app k a b : pend k (a ++ b) = pend k a ++ pend k b.
Proof. apply filter_app. Qed.

Lemma is_k_rerun_one k now owners r0 r : In r (rerun_one now owners r0) -> is_k k r = is_k k r0.
Proof. intros H. apply in_rerun_one in H as [-> _]. reflexivity. Qed.

Lemma lookup_cons_same k o l : lookup k ((k, o) :: l) = Some o.
Proof. simpl. rewrite okey_eqb_refl. reflexivity. Qed.

Lemma lookup_cons_other k k' o l : k <> k' -> lookup k ((k', o) :: l) = lookup k l.
Proof. intros H. simpl. apply okey_eqb_neq in H. rewrite H. reflexivity. Qed.

Ltac sstep := unfold set_sched; cbn [st_owners st_retrans st_timers st_clock st_next_ip st_ip_ival st_alive fst snd].

(* ------------------------------------------------------------------ chain => owner *)
(* every queued retransmission belongs to the current search of its key: same channel, and
   its time lies before the search's deadline (holds between iterations) *)
Definition InvH (s : state) : Prop :=
  forall r, In r (st_retrans s) ->
  exists o, lookup (rkey r) (st_owners s) = Some o /\ ow_ch o = r_ch r
            /\ (forall d, ow_deadline o = Some d -> r_time r < d).

(* a browse owner never has a deadline (the API offers none: wf_cmd) *)
Definition InvB (s : state) : Prop :=
  forall e, In e (st_owners s) -> fst (fst e) = false -> ow_deadline (snd e) = None.

(* ---- the retransmission of a timed-out search.  The deadline block of run leaves it in the
   list; it is due in the same iteration and the re-run drops it (early return of
   exec_command_resolve_hostname).  For the proofs the iteration is rewritten into an
   equivalent one (iterate_p) that drops such entries right after the deadline block. *)
Definition purge_dead (s : state) : state :=
  set_sched s (st_timers s) (filter (rerun_live (st_owners s)) (st_retrans s)) (st_owners s).
Definition timeout_phase_p (now : N) (s : state) : state := purge_dead (timeout_phase now s).

Lemma live_of_lookup owners r o : lookup (rkey r) owners = Some o -> rerun_live owners r = true.
Proof. intros L. unfold rerun_live. rewrite L. apply orb_true_r. Qed.

Lemma invh_all_live s : InvH s -> forall r, In r (st_retrans s) -> rerun_live (st_owners s) r = true.
Proof. intros H r Hr. destruct (H r Hr) as [o [L _]]. eapply live_of_lookup. exact L. Qed.

Lemma filter_true {A} (Q : A -> bool) l : (forall x, In x l -> Q x = true) -> filter Q l = l.
Proof.
  induction l as [|x t IH]; simpl; intros H; [reflexivity|].
  rewrite (H x (or_introl eq_refl)). f_equal. apply IH. intros y Hy. apply H. right. exact Hy.
Qed.

(* no surviving retransmission belongs to a search whose deadline has just passed *)
Lemma purged_not_expired now s e r :
  InvB s -> NoDup (map fst (st_owners s)) -> In e (st_owners s) -> expired now e = true ->
  In r (st_retrans (timeout_phase_p now s)) -> rkey r <> fst e.
Proof.
  intros B ND He Hx Hr E. unfold timeout_phase_p, purge_dead in Hr. simpl in Hr.
  apply filter_In in Hr as [Hr HL]. unfold rerun_live in HL.
  assert (LN : lookup (rkey r) (filter (fun e0 => negb (expired now e0)) (st_owners s)) = None).
  { apply lookup_None. intros Hin. apply in_map_iff in Hin as [e' [Ek He']].
    apply filter_In in He' as [He' Hne].
    assert (e' = e).
    { destruct e as [k o], e' as [k' o']. simpl in *. subst k'. rewrite E in *. simpl in *.
      pose proof (In_lookup k o _ ND He) as L1. pose proof (In_lookup k o' _ ND He') as L2. congruence. }
    subst e'. rewrite Hx in Hne. discriminate. }
  rewrite LN in HL. rewrite orb_false_r in HL. apply negb_true_iff in HL.
  assert (Hb : fst (fst e) = false). { rewrite <- E. unfold rkey, okey_of. simpl. exact HL. }
  unfold expired in Hx. rewrite (B e He Hb) in Hx. discriminate.
Qed.

Lemma invh_timeout now s :
  InvH s -> InvB s -> NoDup (map fst (st_owners s)) -> InvH (timeout_phase_p now s).
Proof.
  intros H B ND r Hr. pose proof Hr as Hr0. unfold timeout_phase_p, purge_dead in Hr. simpl in Hr.
  apply filter_In in Hr as [Hr _]. destruct (H r Hr) as [o [L [C D]]].
  exists o. split; [|auto]. simpl. apply lookup_filter_keep; [exact L|].
  apply negb_true_iff. destruct (expired now (rkey r, o)) eqn:E; [|reflexivity].
  exfalso. apply (purged_not_expired now s (rkey r, o) r B ND); [apply lookup_In; exact L | exact E | exact Hr0 | reflexivity].
Qed.

Lemma invb_timeout now s : InvB s -> InvB (timeout_phase_p now s).
Proof. intros B e He. simpl in He. apply filter_In in He as [He _]. auto. Qed.

Lemma invb_cmd now c s : InvB s -> wf_cmd c = true -> InvB (fst (fst (exec_cmd now c s))).
Proof.
  intros B W. destruct c as [host nm cache timeout ch|host nm|secs|]; simpl.
  - unfold exec_start.
    assert (Hown : forall e, In e ((okey_of host nm, mkOwner ch (option_map (sat_add now) timeout))
                                   :: remove_key (okey_of host nm) (st_owners s)) ->
                   fst (fst e) = false -> ow_deadline (snd e) = None).
    { intros e [<-|He] Hb.
      - simpl in Hb. subst host. simpl in W. destruct timeout; [discriminate | reflexivity].
      - apply in_remove_key in He as [He _]. auto. }
    destruct cache; exact Hown.
  - unfold exec_stop. destruct (lookup _ _); [|exact B]. intros e He. simpl in He.
    apply in_remove_key in He as [He _]. auto.
  - exact B.
  - intros e [].
Qed.

Lemma requeue_ok_lookup key owners nt ch dd :
  lookup key owners = Some (mkOwner ch dd) ->
  requeue_ok key owners nt = match dd with Some d => nt <? d | None => true end.
Proof. intros L. unfold requeue_ok. rewrite L. simpl. destruct dd; reflexivity. Qed.

Lemma invh_start now s host nm cache timeout ch :
  InvH s -> InvH (fst (fst (exec_start now host nm cache timeout ch s))).
Proof.
  intros H. unfold exec_start.
  set (k := okey_of host nm). set (dl := option_map (sat_add now) timeout).
  assert (Hold : forall r, In r (purge k (st_retrans s)) ->
            exists o, lookup (rkey r) ((k, mkOwner ch dl) :: remove_key k (st_owners s)) = Some o
                      /\ ow_ch o = r_ch r /\ (forall d, ow_deadline o = Some d -> r_time r < d)).
  { intros r Hr. apply in_purge in Hr as [Hr Hk]. destruct (H r Hr) as [o [L CD]].
    exists o. split; [|exact CD]. rewrite lookup_cons_other by exact Hk. rewrite lookup_remove_other by exact Hk. exact L. }
  destruct cache; unfold InvH; sstep.
  - exact Hold.
  - intros r Hr. apply in_app_or in Hr as [Hr|Hr]; [apply Hold; exact Hr|].
    apply in_requeue in Hr as [-> Hok]. unfold rkey. cbn [r_host r_name]. fold k.
    exists (mkOwner ch dl). rewrite lookup_cons_same. split; [reflexivity|]. split; [reflexivity|].
    cbn [ow_deadline r_time]. intros d Hd. fold k in Hok. unfold requeue_ok in Hok. rewrite lookup_cons_same in Hok. simpl in Hok.
    rewrite Hd in Hok. unfold resolve_requeue_guard in Hok. apply N.ltb_lt in Hok. exact Hok.
Qed.

Lemma invh_stop s host nm : InvH s -> InvH (fst (fst (exec_stop host nm s))).
Proof.
  intros H. unfold exec_stop. destruct (lookup _ _) as [o0|]; [|exact H]. unfold InvH. sstep.
  intros r Hr. apply in_purge in Hr as [Hr Hk]. destruct (H r Hr) as [o [L CD]].
  exists o. split; [|exact CD]. rewrite lookup_remove_other by exact Hk. exact L.
Qed.

Lemma invh_cmd now c s : InvH s -> c <> CShutdown -> InvH (fst (fst (exec_cmd now c s))).
Proof.
  intros H Hc. destruct c; simpl.
  - apply invh_start. exact H.
  - apply invh_stop. exact H.
  - exact H.
  - congruence.
Qed.

(* the re-run as it is when every queued retransmission still has its search *)
Definition rerun_phase0 (now : N) (s : state) : result :=
  let d := filter (due now) (st_retrans s) in
  let keep := filter (fun r => negb (due now r)) (st_retrans s) in
  let new := flat_map (rerun_one now (st_owners s)) d in
  (set_sched s (map r_time new ++ st_timers s) (keep ++ new) (st_owners s),
   map (fun r => pkt (r_host r) (r_name r)) d,
   map (fun r => (r_ch r, EStarted (r_name r))) d).

Lemma rerun_phase_live now s : InvH s -> rerun_phase now s = rerun_phase0 now s.
Proof.
  intros H. unfold rerun_phase, rerun_phase0.
  rewrite (filter_true (rerun_live (st_owners s)) (filter (due now) (st_retrans s))); [reflexivity|].
  intros r Hr. apply filter_In in Hr as [Hr _]. apply invh_all_live; assumption.
Qed.

Lemma invh_rerun now s s3 p e : InvH s -> rerun_phase0 now s = (s3, p, e) -> InvH s3.
Proof.
  intros H E. unfold rerun_phase0 in E. injection E as E1 E2 E3. subst s3 p e. unfold InvH. simpl.
  intros r Hr. apply in_app_or in Hr as [Hr|Hr].
  - apply filter_In in Hr as [Hr _]. exact (H r Hr).
  - apply in_flat_map in Hr as [r0 [H0 Hr]]. apply filter_In in H0 as [H0 _].
    destruct (H r0 H0) as [o [L [C D]]].
    apply in_rerun_one in Hr as [-> Hok]. unfold rkey at 1. simpl. fold (rkey r0).
    exists o. split; [exact L|]. split; [exact C|]. simpl. intros d Hd.
    unfold requeue_ok in Hok. rewrite L, Hd in Hok. unfold resolve_requeue_guard in Hok.
    apply N.ltb_lt in Hok. exact Hok.
Qed.

Lemma invh_ip now s : InvH s -> InvH (ip_phase now s).
Proof.
  intros H. destruct (ip_phase_frame now s) as [_ [F2 [F3 _]]]. unfold InvH. rewrite F2, F3. exact H.
Qed.

(* ------------------------------------------------------------------ per-question relation *)
Definition chain_rerun (k : wkey) (c : chain) (ch : chan) : rerun :=
  mkRerun (chain_due c) (fst k) (snd k) (spec_next_delay (c_delay c)) ch.

Definition Rk (k : wkey) (s : state) (st : kstate) : Prop :=
  match st with
  | None => pend k (st_retrans s) = []
  | Some c =>
      1 <= c_delay c
      /\ exists ch, lookup (wkey_okey k) (st_owners s) = Some (mkOwner ch (c_deadline c))
                    /\ pend k (st_retrans s) = if chain_goes_on c then [chain_rerun k c ch] else []
  end.

Lemma is_k_chain_rerun k c ch : is_k k (chain_rerun k c ch) = true.
Proof. unfold is_k, chain_rerun. simpl. apply same_q_true. auto. Qed.

Lemma pend_purge_dead k s :
  pend k (st_retrans (purge_dead s)) = filter (rerun_live (st_owners s)) (pend k (st_retrans s)).
Proof. unfold purge_dead, pend. simpl. apply filter_comm. Qed.

Lemma rk_timeout k now s st :
  Rk k s st -> InvB s -> NoDup (map fst (st_owners s)) ->
  Rk k (timeout_phase_p now s) (k_timeout now st).
Proof.
  intros R B ND. destruct st as [c|].
  2:{ unfold k_timeout, Rk, timeout_phase_p. rewrite pend_purge_dead.
      change (st_retrans (timeout_phase now s)) with (st_retrans s). unfold Rk in R. rewrite R. reflexivity. }
  destruct R as [Hd [ch [L P]]].
  assert (Hkeep : expired now (wkey_okey k, mkOwner ch (c_deadline c)) = false ->
                  Rk k (timeout_phase_p now s) (Some c)).
  { intros Hx. split; [exact Hd|]. exists ch.
    assert (L1 : lookup (wkey_okey k) (st_owners (timeout_phase_p now s)) = Some (mkOwner ch (c_deadline c))).
    { simpl. apply lookup_filter_keep; [exact L|]. rewrite Hx. reflexivity. }
    split; [exact L1|]. unfold timeout_phase_p. rewrite pend_purge_dead.
    change (st_retrans (timeout_phase now s)) with (st_retrans s). rewrite P.
    destruct (chain_goes_on c); [|reflexivity]. simpl.
    rewrite (live_of_lookup _ (chain_rerun k c ch) (mkOwner ch (c_deadline c))); [reflexivity|].
    simpl in L1. rewrite (is_k_rkey k _ (is_k_chain_rerun k c ch)). exact L1. }
  simpl. destruct (c_deadline c) as [d|] eqn:Ed.
  - destruct (d <=? now) eqn:E.
    + unfold Rk. apply filter_nil_iff. intros r Hr. destruct (is_k k r) eqn:Ek; [|reflexivity]. exfalso.
      apply (purged_not_expired now s (wkey_okey k, mkOwner ch (Some d)) r B ND).
      * apply lookup_In. exact L.
      * unfold expired. simpl. rewrite resolver_expired_pinned. exact E.
      * exact Hr.
      * simpl. apply is_k_rkey. exact Ek.
    + apply Hkeep. unfold expired. simpl. rewrite ?Ed, resolver_expired_pinned. exact E.
  - apply Hkeep. unfold expired. simpl. rewrite ?Ed. reflexivity.
Qed.

Lemma rk_start k now s st host nm cache timeout ch :
  Rk k s st ->
  Rk k (fst (fst (exec_start now host nm cache timeout ch s)))
       (fst (k_cmd now k (CStart host nm cache timeout ch) st))
  /\ count_pkt k (snd (fst (exec_start now host nm cache timeout ch s)))
     = snd (k_cmd now k (CStart host nm cache timeout ch) st).
Proof.
  intros R. unfold exec_start, k_cmd.
  set (key := okey_of host nm). set (dl := option_map (sat_add now) timeout).
  set (owners' := (key, mkOwner ch dl) :: remove_key key (st_owners s)).
  set (new := requeue now owners' host nm (first_delay host cache) ch).
  assert (Hnewshape : new = if match dl with Some d => now + 1 * 1000 <? d | None => true end
                            then [mkRerun (now + 1 * 1000) host nm (spec_next_delay 1) ch] else []).
  { unfold new. rewrite requeue_shape, first_delay_spec. fold key.
    rewrite (requeue_ok_lookup key owners' _ ch dl) by apply lookup_cons_same. reflexivity. }
  destruct (okey_eqb key (wkey_okey k)) eqn:EK.
  - apply okey_eqb_eq in EK.
    assert (Hh : host = fst k). { unfold key, wkey_okey, okey_of in EK. inversion EK. reflexivity. }
    destruct cache.
    + rewrite andb_false_r. sstep. split; [|reflexivity]. unfold Rk. sstep. apply pend_purge_same. exact EK.
    + rewrite andb_true_r. sstep. destruct (beq nm (snd k)) eqn:EN.
      * apply beq_eq in EN. subst nm host.
        assert (Hsq : same_q k (fst k) (snd k) = true) by (apply same_q_true; auto).
        split; [|sstep; rewrite count_pkt_one, Hsq; reflexivity].
        unfold Rk. sstep. cbn [c_delay c_deadline]. split; [lia|]. exists ch. split.
        { unfold owners'. rewrite <- EK. apply lookup_cons_same. }
        { rewrite pend_app, pend_purge_same by exact EK. rewrite app_nil_l, Hnewshape.
          unfold chain_goes_on, chain_due. cbn [c_delay c_deadline c_last].
          destruct (match dl with Some d => now + 1 * 1000 <? d | None => true end); [|reflexivity].
          unfold pend. cbn [filter]. unfold is_k at 1. cbn [r_host r_name]. rewrite Hsq. reflexivity. }
      * apply beq_neq in EN.
        assert (Hsq : same_q k host nm = false).
        { destruct (same_q k host nm) eqn:E; [|reflexivity]. apply same_q_true in E as [_ E]. congruence. }
        split; [|sstep; rewrite count_pkt_one, Hsq; reflexivity].
        unfold Rk. sstep. rewrite pend_app, pend_purge_same by exact EK. rewrite app_nil_l.
        apply filter_nil_iff. intros r Hr. unfold new in Hr. apply in_requeue in Hr as [-> _].
        unfold is_k. cbn [r_host r_name]. exact Hsq.
  - apply okey_eqb_neq in EK.
    assert (Hsq : same_q k host nm = false).
    { destruct (same_q k host nm) eqn:E; [|reflexivity]. apply same_q_okey in E. contradiction. }
    assert (Hlk : lookup (wkey_okey k) owners' = lookup (wkey_okey k) (st_owners s)).
    { unfold owners'. rewrite lookup_cons_other by congruence. apply lookup_remove_other. congruence. }
    assert (Hpn : pend k new = []).
    { apply filter_nil_iff. intros r Hr. unfold new in Hr. apply in_requeue in Hr as [-> _].
      unfold is_k. cbn [r_host r_name]. exact Hsq. }
    assert (Hgoal : forall retr, pend k retr = pend k (st_retrans s) ->
                    forall timers, Rk k (set_sched s timers retr owners') st).
    { intros retr Hp timers. unfold Rk. sstep. rewrite Hp, Hlk. exact R. }
    destruct cache; sstep.
    + split; [|reflexivity]. apply Hgoal. apply pend_purge_other. exact EK.
    + split; [|rewrite count_pkt_one, Hsq; reflexivity]. apply Hgoal.
      rewrite pend_app, Hpn, app_nil_r. apply pend_purge_other. exact EK.
Qed.

Lemma rk_frame k s s' st :
  st_retrans s' = st_retrans s -> st_owners s' = st_owners s -> Rk k s st -> Rk k s' st.
Proof. intros E1 E2 R. unfold Rk. rewrite E1, E2. exact R. Qed.

Lemma rk_stop k now s st host nm :
  Rk k s st -> InvH s ->
  Rk k (fst (fst (exec_stop host nm s))) (fst (k_cmd now k (CStop host nm) st))
  /\ count_pkt k (snd (fst (exec_stop host nm s))) = snd (k_cmd now k (CStop host nm) st).
Proof.
  intros R H. unfold exec_stop, k_cmd. set (key := okey_of host nm).
  destruct (okey_eqb key (wkey_okey k)) eqn:EK.
  - apply okey_eqb_eq in EK. destruct (lookup key (st_owners s)) as [o|] eqn:L; sstep.
    + split; [|reflexivity]. unfold Rk. sstep. apply pend_purge_same. exact EK.
    + split; [|reflexivity]. unfold Rk. apply filter_nil_iff. intros r Hr.
      destruct (is_k k r) eqn:E; [|reflexivity]. exfalso. apply is_k_rkey in E.
      destruct (H r Hr) as [o [L' _]]. rewrite E, <- EK, L in L'. discriminate.
  - apply okey_eqb_neq in EK. destruct (lookup key (st_owners s)) as [o|] eqn:L; sstep.
    + split; [|reflexivity]. unfold Rk. sstep. rewrite pend_purge_other by exact EK.
      rewrite lookup_remove_other by congruence. exact R.
    + split; [exact R | reflexivity].
Qed.

Lemma rk_cmd k now c s st :
  c <> CShutdown -> Rk k s st -> InvH s ->
  Rk k (fst (fst (exec_cmd now c s))) (fst (k_cmd now k c st))
  /\ count_pkt k (snd (fst (exec_cmd now c s))) = snd (k_cmd now k c st).
Proof.
  intros Hc R H. destruct c as [host nm cache timeout ch|host nm|secs|].
  - apply rk_start. exact R.
  - apply rk_stop; assumption.
  - simpl. split; [|reflexivity]. eapply rk_frame; [| |exact R]; reflexivity.
  - congruence.
Qed.

Lemma rk_cmds k now cmds : forall s st s2 p e,
  Rk k s st -> InvH s -> run_cmds now cmds s = (s2, p, e) ->
  count_pkt k p = snd (fst (k_cmds now k cmds st))
  /\ snd (k_cmds now k cmds st) = has_shutdown cmds
  /\ (has_shutdown cmds = false -> Rk k s2 (fst (fst (k_cmds now k cmds st))) /\ InvH s2).
Proof.
  induction cmds as [|c rest IH]; intros s st s2 p e R H E; simpl in E.
  - injection E as <- <- <-. simpl. auto.
  - destruct (exec_cmd now c s) as [[s1 p1] e1] eqn:E1.
    destruct (run_cmds now rest s1) as [[s2' p2] e2] eqn:E2.
    assert (Hcase : c = CShutdown \/ (c <> CShutdown /\ (s2', p1 ++ p2, e1 ++ e2) = (s2, p, e))).
    { destruct c; [right | right | right | left]; try (split; [discriminate | exact E]). reflexivity. }
    destruct Hcase as [->|[Hc Heq]].
    + simpl in E1. injection E1 as <- <- <-. injection E as <- <- <-. simpl.
      split; [reflexivity|]. split; [reflexivity|]. discriminate.
    + injection Heq as <- <- <-.
      destruct (rk_cmd k now c s st Hc R H) as [R1 C1]. rewrite E1 in R1, C1. simpl in R1, C1.
      pose proof (invh_cmd now c s H Hc) as H1. rewrite E1 in H1. simpl in H1.
      destruct (IH s1 (fst (k_cmd now k c st)) s2' p2 e2 R1 H1 E2) as [C2 [S2 RH]].
      assert (Hk : k_cmds now k (c :: rest) st =
                   (let '(st1, n1) := k_cmd now k c st in
                    let '(st2, n2, halted) := k_cmds now k rest st1 in (st2, (n1 + n2)%nat, halted))).
      { destruct c; try reflexivity. congruence. }
      assert (Hs : has_shutdown (c :: rest) = has_shutdown rest).
      { unfold has_shutdown. simpl. destruct c; try reflexivity. congruence. }
      rewrite Hk, Hs. destruct (k_cmd now k c st) as [st1 n1]. cbn [fst snd] in *.
      destruct (k_cmds now k rest st1) as [[st2 n2] halted]. cbn [fst snd] in *.
      split; [rewrite count_pkt_app; congruence|]. split; [exact S2 | exact RH].
Qed.

Lemma rk_rerun k now s st s3 p e :
  Rk k s st -> rerun_phase0 now s = (s3, p, e) ->
  Rk k s3 (fst (k_rerun now st)) /\ count_pkt k p = snd (k_rerun now st).
Proof.
  intros R E. unfold rerun_phase0 in E. injection E as <- <- <-.
  set (l := st_retrans s) in *. set (g := rerun_one now (st_owners s)).
  assert (Hp : pend k (filter (fun r => negb (due now r)) l ++ flat_map g (filter (due now) l))
               = filter (fun r => negb (due now r)) (pend k l) ++ flat_map g (filter (due now) (pend k l))).
  { rewrite pend_app. unfold pend. f_equal.
    - apply filter_comm.
    - rewrite filter_flat_map by (intros x y Hy; eapply is_k_rerun_one; exact Hy).
      f_equal. apply filter_comm. }
  assert (Hc : count_pkt k (map (fun r => pkt (r_host r) (r_name r)) (filter (due now) l))
               = length (filter (due now) (pend k l))).
  { rewrite count_pkt_reruns. unfold pend. rewrite filter_comm. reflexivity. }
  unfold Rk. sstep. rewrite Hp, Hc.
  destruct st as [c|]; simpl.
  - destruct R as [Hd [ch [L P]]]. fold l in P. rewrite P.
    destruct (chain_goes_on c) eqn:G.
    + assert (Hdue : due now (chain_rerun k c ch) = (chain_due c <=? now)) by reflexivity.
      cbn [filter]. rewrite !Hdue.
      destruct (chain_due c <=? now) eqn:D; simpl.
      * split; [|reflexivity]. split; [apply spec_next_delay_pos; exact Hd|]. exists ch. split; [exact L|].
        rewrite app_nil_r. unfold g, rerun_one, chain_rerun. cbn [r_host r_name r_delay r_ch].
        rewrite requeue_shape.
        rewrite (requeue_ok_lookup _ _ _ ch (c_deadline c)) by exact L.
        unfold chain_goes_on, chain_due. cbn [c_last c_delay c_deadline]. reflexivity.
      * split; [|reflexivity]. split; [exact Hd|]. exists ch. split; [exact L|]. rewrite G. reflexivity.
    + simpl. rewrite andb_false_r. simpl. split; [|reflexivity]. split; [exact Hd|]. exists ch.
      split; [exact L|]. rewrite G. reflexivity.
  - unfold Rk in R. fold l in R. rewrite R. simpl. auto.
Qed.

(* ------------------------------------------------------------------ one iteration, per question *)
Lemma alive_run_cmds now cmds : forall s,
  st_alive s = true -> st_alive (fst (fst (run_cmds now cmds s))) = negb (has_shutdown cmds).
Proof.
  induction cmds as [|c rest IH]; intros s A; simpl; [exact A|].
  destruct (exec_cmd now c s) as [[s1 p1] e1] eqn:E1.
  pose proof (alive_exec_cmd now c s) as A1. rewrite E1 in A1. simpl in A1.
  destruct c; try (destruct (run_cmds now rest s1) as [[s2 p2] e2] eqn:E2; simpl;
                   specialize (IH s1); rewrite E2 in IH; simpl in IH; unfold has_shutdown in *; simpl;
                   apply IH; rewrite A1; exact A).
  simpl. exact A1.
Qed.

(* ---- the iteration is equal to one that drops dead retransmissions right after the deadline
        block (they are all due, so the re-run would drop them anyway) ---- *)
Definition dead_due (now : N) (s : state) : Prop :=
  forall r, In r (st_retrans s) -> rerun_live (st_owners s) r = false -> r_time r <= now.

Lemma live_agree owners owners' k r :
  (forall k', k' <> k -> lookup k' owners' = lookup k' owners) -> rkey r <> k ->
  rerun_live owners' r = rerun_live owners r.
Proof. intros A Hk. unfold rerun_live. rewrite (A (rkey r) Hk). reflexivity. Qed.

Lemma filter_live_purge owners owners' k R :
  (forall k', k' <> k -> lookup k' owners' = lookup k' owners) ->
  filter (rerun_live owners') (purge k R) = purge k (filter (rerun_live owners) R).
Proof.
  intros A. unfold purge at 2. rewrite filter_comm. fold (purge k R).
  apply filter_ext_in. intros r Hr. apply in_purge in Hr as [_ Hr]. eapply live_agree; eassumption.
Qed.

Lemma agree_cons_remove k o owners :
  forall k', k' <> k -> lookup k' ((k, o) :: remove_key k owners) = lookup k' owners.
Proof. intros k' H. rewrite lookup_cons_other by exact H. apply lookup_remove_other. exact H. Qed.

Lemma agree_remove k owners : forall k', k' <> k -> lookup k' (remove_key k owners) = lookup k' owners.
Proof. intros k' H. apply lookup_remove_other. exact H. Qed.

Lemma dead_due_purge now k owners owners' R new timers s :
  (forall k', k' <> k -> lookup k' owners' = lookup k' owners) ->
  (forall r, In r R -> rerun_live owners r = false -> r_time r <= now) ->
  (forall r, In r new -> rerun_live owners' r = true) ->
  dead_due now (set_sched s timers (purge k R ++ new) owners').
Proof.
  intros A D N r Hr HL. simpl in Hr, HL. apply in_app_or in Hr as [Hr|Hr].
  - apply in_purge in Hr as [Hr Hk]. apply D; [exact Hr|]. rewrite <- (live_agree owners owners' k r A Hk). exact HL.
  - rewrite (N r Hr) in HL. discriminate.
Qed.

Lemma purge_dead_cmd now c s :
  dead_due now s ->
  exec_cmd now c (purge_dead s)
  = (purge_dead (fst (fst (exec_cmd now c s))), snd (fst (exec_cmd now c s)), snd (exec_cmd now c s))
  /\ dead_due now (fst (fst (exec_cmd now c s))).
Proof.
  intros D. destruct c as [host nm cache timeout ch|host nm|secs|]; simpl.
  - unfold exec_start. change (st_owners (purge_dead s)) with (st_owners s).
    change (st_timers (purge_dead s)) with (st_timers s).
    change (st_retrans (purge_dead s)) with (filter (rerun_live (st_owners s)) (st_retrans s)).
    set (k := okey_of host nm). set (dl := option_map (sat_add now) timeout).
    set (owners' := (k, mkOwner ch dl) :: remove_key k (st_owners s)).
    pose proof (agree_cons_remove k (mkOwner ch dl) (st_owners s)) as A. fold owners' in A.
    assert (Hnew : forall r, In r (requeue now owners' host nm (first_delay host cache) ch) ->
                             rerun_live owners' r = true).
    { intros r Hr. apply in_requeue in Hr as [-> _]. apply (live_of_lookup _ _ (mkOwner ch dl)).
      unfold rkey. simpl. fold k. apply lookup_cons_same. }
    destruct cache; cbn [fst snd].
    + split.
      * unfold purge_dead, set_sched. simpl. rewrite (filter_live_purge (st_owners s) owners' k _ A). reflexivity.
      * rewrite <- (app_nil_r (purge k (st_retrans s))).
        apply (dead_due_purge now k (st_owners s) owners' _ [] _ s A D). intros r [].
    + split.
      * unfold purge_dead, set_sched. simpl. rewrite filter_app.
        rewrite (filter_live_purge (st_owners s) owners' k _ A).
        rewrite (filter_true _ _ Hnew). reflexivity.
      * apply (dead_due_purge now k (st_owners s) owners' _ _ _ s A D Hnew).
  - unfold exec_stop. change (st_owners (purge_dead s)) with (st_owners s).
    destruct (lookup (okey_of host nm) (st_owners s)) as [o|]; cbn [fst snd].
    + change (st_timers (purge_dead s)) with (st_timers s).
      change (st_retrans (purge_dead s)) with (filter (rerun_live (st_owners s)) (st_retrans s)).
      pose proof (agree_remove (okey_of host nm) (st_owners s)) as A. split.
      * unfold purge_dead, set_sched. simpl. rewrite (filter_live_purge (st_owners s) _ _ _ A). reflexivity.
      * rewrite <- (app_nil_r (purge _ (st_retrans s))).
        apply (dead_due_purge now _ (st_owners s) _ _ [] _ s A D). intros r [].
    + auto.
  - split; [reflexivity | exact D].
  - split; [reflexivity|]. intros r [].
Qed.

Lemma purge_dead_cmds now cmds : forall s,
  dead_due now s ->
  run_cmds now cmds (purge_dead s)
  = (purge_dead (fst (fst (run_cmds now cmds s))), snd (fst (run_cmds now cmds s)), snd (run_cmds now cmds s))
  /\ dead_due now (fst (fst (run_cmds now cmds s))).
Proof.
  induction cmds as [|c rest IH]; intros s D; simpl; [auto|].
  destruct (purge_dead_cmd now c s D) as [E1 D1]. rewrite E1.
  destruct (exec_cmd now c s) as [[s1 p1] e1]. cbn [fst snd] in *.
  destruct (IH s1 D1) as [E2 D2]. rewrite E2.
  destruct (run_cmds now rest s1) as [[s2 p2] e2]. cbn [fst snd] in *.
  destruct c; cbn [fst snd]; auto.
Qed.

Lemma filter_notdue_live now owners R :
  (forall r, In r R -> rerun_live owners r = false -> r_time r <= now) ->
  filter (fun r => negb (due now r)) (filter (rerun_live owners) R) = filter (fun r => negb (due now r)) R.
Proof.
  intros D. rewrite filter_comm. apply filter_true. intros r Hr. apply filter_In in Hr as [Hr Hn].
  destruct (rerun_live owners r) eqn:E; [reflexivity|]. exfalso.
  unfold due in Hn. apply negb_true_iff, N.leb_gt in Hn. specialize (D r Hr E). lia.
Qed.

Lemma filter_idem {A} (Q : A -> bool) l : filter Q (filter Q l) = filter Q l.
Proof. apply filter_true. intros x Hx. apply filter_In in Hx as [_ Hx]. exact Hx. Qed.

Lemma purge_dead_rerun now s : dead_due now s -> rerun_phase now (purge_dead s) = rerun_phase now s.
Proof.
  intros D. unfold rerun_phase.
  change (st_owners (purge_dead s)) with (st_owners s).
  change (st_timers (purge_dead s)) with (st_timers s).
  change (st_retrans (purge_dead s)) with (filter (rerun_live (st_owners s)) (st_retrans s)).
  rewrite (filter_notdue_live now _ _ D).
  rewrite (filter_comm (due now) (rerun_live (st_owners s))), filter_idem. reflexivity.
Qed.

Definition iterate_p (s : state) (it : iter) : state * out :=
  let now := i_now it in
  let ev_t := timeout_events now (st_owners s) in
  let '(s2, p_c, ev_c) := run_cmds now (i_cmds it) (timeout_phase_p now s) in
  if st_alive s2 then
    let '(s3, p_r, ev_r) := rerun_phase0 now s2 in
    let s4 := ip_phase now s3 in
    (s4, mkOut now (p_c ++ p_r) (ev_t ++ ev_c ++ ev_r ++ closed_events s (i_cmds it) s4)
               (min_list (st_timers s4)) false)
  else
    (s2, mkOut now p_c (ev_t ++ ev_c ++ closed_events s (i_cmds it) s2) None true).

Lemma dead_due_timeout now s : InvH s -> dead_due now (timeout_phase now s).
Proof.
  intros H r Hr HL. simpl in Hr, HL. destruct (H r Hr) as [o [L [_ D]]].
  unfold rerun_live in HL. apply orb_false_iff in HL as [_ HL].
  destruct (expired now (rkey r, o)) eqn:E.
  - unfold expired in E. simpl in E. destruct (ow_deadline o) as [d|]; [|discriminate].
    rewrite resolver_expired_pinned in E. apply N.leb_le in E. specialize (D d eq_refl). lia.
  - rewrite (lookup_filter_keep _ _ _ o L) in HL; [discriminate|]. rewrite E. reflexivity.
Qed.

Lemma refs_purge_dead_alive s : st_alive (purge_dead s) = st_alive s.
Proof. reflexivity. Qed.

Lemma run_cmds_dead now cmds : forall s,
  st_alive s = true -> st_alive (fst (fst (run_cmds now cmds s))) = false ->
  st_retrans (fst (fst (run_cmds now cmds s))) = [] /\ st_owners (fst (fst (run_cmds now cmds s))) = [].
Proof.
  induction cmds as [|c rest IH]; intros s A D; simpl in *; [congruence|].
  pose proof (alive_exec_cmd now c s) as A1.
  destruct (exec_cmd now c s) as [[s1 p1] e1] eqn:E1. cbn [fst] in A1.
  destruct c; try (specialize (IH s1); destruct (run_cmds now rest s1) as [[s2 p2] e2]; cbn [fst] in *;
                   apply IH; [rewrite A1; exact A | exact D]).
  simpl in E1. injection E1 as <- _ _. simpl. auto.
Qed.

Lemma rerun0_purge_dead now s : rerun_phase0 now (purge_dead s) = rerun_phase now (purge_dead s).
Proof.
  unfold rerun_phase, rerun_phase0.
  rewrite (filter_true (rerun_live (st_owners (purge_dead s))) (filter (due now) (st_retrans (purge_dead s)))); [reflexivity|].
  intros r Hr. apply filter_In in Hr as [Hr _]. simpl in Hr. apply filter_In in Hr as [_ Hr]. exact Hr.
Qed.

Lemma iterate_eq s it : InvH s -> iterate s it = iterate_p s it.
Proof.
  intros H. unfold iterate, iterate_p, timeout_phase_p.
  pose proof (dead_due_timeout (i_now it) s H) as D1.
  destruct (purge_dead_cmds (i_now it) (i_cmds it) _ D1) as [E2 D2]. rewrite E2.
  pose proof (run_cmds_dead (i_now it) (i_cmds it) (timeout_phase (i_now it) s) eq_refl) as RD.
  destruct (run_cmds (i_now it) (i_cmds it) (timeout_phase (i_now it) s)) as [[s2 p_c] ev_c]. cbn [fst snd] in *.
  rewrite refs_purge_dead_alive. destruct (st_alive s2) eqn:A.
  - rewrite rerun0_purge_dead, (purge_dead_rerun _ _ D2). reflexivity.
  - destruct (RD eq_refl) as [R0 O0].
    assert (purge_dead s2 = s2) as ->; [|reflexivity].
    destruct s2. simpl in *. subst. reflexivity.
Qed.

Lemma iterate_shape s it :
  o_now (snd (iterate s it)) = i_now it
  /\ o_exited (snd (iterate s it)) = has_shutdown (i_cmds it)
  /\ st_alive (fst (iterate s it)) = negb (has_shutdown (i_cmds it)).
Proof.
  unfold iterate.
  destruct (run_cmds (i_now it) (i_cmds it) (timeout_phase (i_now it) s)) as [[s2 p_c] ev_c] eqn:E.
  pose proof (alive_run_cmds (i_now it) (i_cmds it) (timeout_phase (i_now it) s) eq_refl) as A.
  rewrite E in A. simpl in A. rewrite A.
  destruct (has_shutdown (i_cmds it)); cbn [negb].
  - simpl. auto.
  - destruct (rerun_phase (i_now it) s2) as [[s3 p_r] ev_r] eqn:E3. cbn [fst snd o_now o_exited].
    destruct (ip_phase_frame (i_now it) s3) as [_ [_ [_ [F4 _]]]]. rewrite F4.
    unfold rerun_phase in E3. injection E3 as <- _ _. simpl. auto.
Qed.

(* the invariants that hold between iterations, together *)
Record Good (s : state) : Prop := mkGood { good_inv : Inv s; good_invh : InvH s; good_invb : InvB s }.

Definition wf_cmds (cmds : list cmd) : Prop := forallb wf_cmd cmds = true.

Lemma invh_cmds now cmds : forall s,
  InvH s -> has_shutdown cmds = false -> InvH (fst (fst (run_cmds now cmds s))).
Proof.
  induction cmds as [|c rest IH]; intros s H HS; simpl; [exact H|].
  assert (Hc : c <> CShutdown). { intros ->. discriminate. }
  pose proof (invh_cmd now c s H Hc) as H1.
  destruct (exec_cmd now c s) as [[s1 p1] e1]. simpl in H1.
  assert (HS' : has_shutdown rest = false). { unfold has_shutdown in *. simpl in HS. destruct c; try exact HS. congruence. }
  specialize (IH s1 H1 HS'). destruct (run_cmds now rest s1) as [[s2 p2] e2]. simpl in IH.
  destruct c; try exact IH. congruence.
Qed.

Lemma invb_cmds now cmds : forall s,
  InvB s -> wf_cmds cmds -> InvB (fst (fst (run_cmds now cmds s))).
Proof.
  induction cmds as [|c rest IH]; intros s B W; simpl; [exact B|].
  unfold wf_cmds in W. simpl in W. apply andb_true_iff in W as [W1 W2].
  pose proof (invb_cmd now c s B W1) as B1.
  destruct (exec_cmd now c s) as [[s1 p1] e1]. simpl in B1.
  specialize (IH s1 B1 W2). destruct (run_cmds now rest s1) as [[s2 p2] e2]. simpl in IH.
  destruct c; try exact IH. exact B1.
Qed.

Lemma good_iterate s it :
  Good s -> (i_cmds it = [] \/ i_now it < u64_max) -> wf_cmds (i_cmds it) ->
  has_shutdown (i_cmds it) = false -> Good (fst (iterate s it)).
Proof.
  intros [I H B] Hnow W HS.
  destruct (iterate_shape s it) as [_ [_ AL]]. rewrite HS in AL. simpl in AL.
  constructor.
  - apply iterate_inv; assumption.
  - rewrite (iterate_eq s it H). unfold iterate_p.
    pose proof (invh_timeout (i_now it) s H B (inv_own s I)) as H1.
    pose proof (invh_cmds (i_now it) (i_cmds it) _ H1 HS) as H2.
    pose proof (alive_run_cmds (i_now it) (i_cmds it) (timeout_phase_p (i_now it) s) eq_refl) as A.
    destruct (run_cmds (i_now it) (i_cmds it) (timeout_phase_p (i_now it) s)) as [[s2 p_c] ev_c].
    cbn [fst snd] in *. rewrite A, HS. cbn [negb].
    destruct (rerun_phase0 (i_now it) s2) as [[s3 p_r] ev_r] eqn:E3. cbn [fst].
    apply invh_ip. eapply invh_rerun; eassumption.
  - rewrite (iterate_eq s it H). unfold iterate_p.
    pose proof (invb_cmds (i_now it) (i_cmds it) _ (invb_timeout (i_now it) s B) W) as B2.
    destruct (run_cmds (i_now it) (i_cmds it) (timeout_phase_p (i_now it) s)) as [[s2 p_c] ev_c].
    cbn [fst snd] in *. destruct (st_alive s2); [|exact B2].
    destruct (rerun_phase0 (i_now it) s2) as [[s3 p_r] ev_r] eqn:E3. cbn [fst].
    unfold rerun_phase0 in E3. injection E3 as <- _ _.
    destruct (ip_phase_frame (i_now it) (set_sched s2 (map r_time (flat_map (rerun_one (i_now it) (st_owners s2)) (filter (due (i_now it)) (st_retrans s2))) ++ st_timers s2) (filter (fun r => negb (due (i_now it) r)) (st_retrans s2) ++ flat_map (rerun_one (i_now it) (st_owners s2)) (filter (due (i_now it)) (st_retrans s2))) (st_owners s2))) as [_ [_ [F3 _]]].
    unfold InvB. rewrite F3. exact B2.
Qed.

Lemma rk_iterate k s it st :
  Good s -> Rk k s st ->
  count_pkt k (o_sent (snd (iterate s it))) = (snd (fst (k_iter k it st)) + snd (k_iter k it st))%nat
  /\ o_exited (snd (iterate s it)) = has_shutdown (i_cmds it)
  /\ o_now (snd (iterate s it)) = i_now it
  /\ st_alive (fst (iterate s it)) = negb (has_shutdown (i_cmds it))
  /\ (has_shutdown (i_cmds it) = false -> Rk k (fst (iterate s it)) (fst (fst (k_iter k it st)))).
Proof.
  intros [I H B] R. rewrite (iterate_eq s it H).
  pose proof (rk_timeout k (i_now it) s st R B (inv_own s I)) as R1.
  pose proof (invh_timeout (i_now it) s H B (inv_own s I)) as H1.
  unfold iterate_p, k_iter.
  destruct (run_cmds (i_now it) (i_cmds it) (timeout_phase_p (i_now it) s)) as [[s2 p_c] ev_c] eqn:E.
  destruct (rk_cmds k (i_now it) (i_cmds it) _ _ s2 p_c ev_c R1 H1 E) as [C [S RH]].
  pose proof (alive_run_cmds (i_now it) (i_cmds it) (timeout_phase_p (i_now it) s) eq_refl) as A.
  rewrite E in A. simpl in A. rewrite A.
  destruct (k_cmds (i_now it) k (i_cmds it) (k_timeout (i_now it) st)) as [[st2 n] halted]. cbn [fst snd] in *.
  subst halted. destruct (has_shutdown (i_cmds it)) eqn:HS; cbn [negb].
  - cbn [fst snd o_sent o_exited o_now]. repeat split; try reflexivity; try discriminate; [lia | exact A].
  - destruct (rerun_phase0 (i_now it) s2) as [[s3 p_r] ev_r] eqn:E3.
    destruct (RH eq_refl) as [R2 H2].
    destruct (rk_rerun k (i_now it) s2 st2 s3 p_r ev_r R2 E3) as [R3 C3].
    destruct (k_rerun (i_now it) st2) as [st3 m]. cbn [fst snd o_sent o_exited o_now] in *.
    repeat split; try reflexivity.
    + rewrite count_pkt_app. congruence.
    + destruct (ip_phase_frame (i_now it) s3) as [_ [_ [_ [F4 _]]]]. rewrite F4.
      unfold rerun_phase0 in E3. injection E3 as <- _ _. simpl.
      pose proof A as A'. exact A'.
    + intros _. destruct (ip_phase_frame (i_now it) s3) as [_ [F2 [F3 _]]]. eapply rk_frame; [exact F2 | exact F3 | exact R3].
Qed.

Lemma k_iter_none k it st :
  fst (fst (k_iter k it st)) = None -> snd (k_iter k it st) = 0%nat.
Proof.
  unfold k_iter. destruct (k_cmds _ _ _ _) as [[st2 n] halted]. destruct halted; [reflexivity|].
  destruct st2 as [c|]; simpl; [|reflexivity].
  destruct (_ && _); simpl; [discriminate | discriminate].
Qed.

(* ------------------------------------------------------------------ histories *)
Definition wf_cmds_hist (h : list iter) : Prop := Forall (fun it => wf_cmds (i_cmds it)) h.

Lemma run_dead s h : st_alive s = false -> run s h = [].
Proof. destruct h; simpl; [reflexivity|]. intros ->. reflexivity. Qed.

Lemma run_cons s it h :
  st_alive s = true -> run s (it :: h) = snd (iterate s it) :: run (fst (iterate s it)) h.
Proof. intros A. simpl. rewrite A. destruct (iterate s it). reflexivity. Qed.

Lemma final_cons s it h : st_alive s = true -> final s (it :: h) = final (fst (iterate s it)) h.
Proof. intros A. simpl. rewrite A. reflexivity. Qed.

Lemma k_check_run k : forall h s st,
  Good s -> Rk k s st -> in_range h -> wf_cmds_hist h ->
  k_check k h (run s h) st = true /\ k_silent k h (run s h) st = true.
Proof.
  induction h as [|it h IH]; intros s st G R Rg W; [simpl; auto|].
  destruct (st_alive s) eqn:A; [|rewrite run_dead by exact A; simpl; auto].
  rewrite run_cons by exact A. cbn [k_check k_silent].
  inversion Rg as [|x xs Rg1 Rg2]; subst. inversion W as [|y ys W1 W2]; subst.
  destruct (rk_iterate k s it st G R) as [C [X [_ [AL RH]]]].
  pose proof (k_iter_none k it st) as KN.
  pose proof (good_iterate s it G (or_intror Rg1) W1) as GI.
  destruct (k_iter k it st) as [[st' n] m]. cbn [fst snd] in *.
  rewrite C, Nat.eqb_refl. simpl.
  assert (Hsil : match st' with None => Nat.eqb (n + m) n | Some _ => true end = true).
  { destruct st'; [reflexivity|]. rewrite (KN eq_refl). rewrite Nat.add_0_r. apply Nat.eqb_refl. }
  rewrite Hsil. simpl.
  rewrite X. destruct (has_shutdown (i_cmds it)); [auto|].
  apply IH; auto.
Qed.

Lemma rk_init k t0 : Rk k (init t0) None.
Proof. rewrite init_spec. reflexivity. Qed.

Lemma invh_init t0 : InvH (init t0).
Proof. rewrite init_spec. intros r []. Qed.

Lemma shape_ok_run : forall h s, st_alive s = true -> shape_ok h (run s h) = true.
Proof.
  induction h as [|it h IH]; intros s A; simpl; [reflexivity|].
  rewrite A. destruct (iterate s it) as [s' o] eqn:E.
  destruct (iterate_shape s it) as [N [X AL]]. rewrite E in N, X, AL. simpl in N, X, AL.
  rewrite N, N.eqb_refl, X, eqb_reflx. simpl.
  destruct (has_shutdown (i_cmds it)); simpl in *.
  - rewrite run_dead by exact AL. reflexivity.
  - apply IH. exact AL.
Qed.

(* every packet the model sends is a PTR question alone or an A+AAAA pair *)
Definition shaped (p : packet) : Prop := exists host nm, p = pkt host nm.

Lemma key_of_pkt_shaped p : shaped p -> exists k, key_of_pkt p = Some k.
Proof.
  intros [host [nm ->]]. destruct host; simpl.
  - rewrite beq_refl. eauto.
  - eauto.
Qed.

Lemma shaped_cmd now c s : Forall shaped (snd (fst (exec_cmd now c s))).
Proof.
  destruct c as [host nm cache timeout ch|host nm|secs|]; simpl; try constructor.
  - unfold exec_start. destruct cache; simpl; constructor; [|constructor]. exists host, nm. reflexivity.
  - unfold exec_stop. destruct (lookup _ _); simpl; constructor.
Qed.

Lemma shaped_cmds now cmds : forall s, Forall shaped (snd (fst (run_cmds now cmds s))).
Proof.
  induction cmds as [|c rest IH]; intros s; simpl; [constructor|].
  pose proof (shaped_cmd now c s) as H1.
  destruct (exec_cmd now c s) as [[s1 p1] e1]. simpl in H1.
  specialize (IH s1). destruct (run_cmds now rest s1) as [[s2 p2] e2]. simpl in IH.
  destruct c; simpl; try (apply Forall_app; split; assumption). exact H1.
Qed.

Lemma shaped_iterate s it : Forall shaped (o_sent (snd (iterate s it))).
Proof.
  unfold iterate.
  pose proof (shaped_cmds (i_now it) (i_cmds it) (timeout_phase (i_now it) s)) as H1.
  destruct (run_cmds _ _ _) as [[s2 p_c] ev_c]. simpl in H1.
  destruct (st_alive s2); [|exact H1].
  destruct (rerun_phase (i_now it) s2) as [[s3 p_r] ev_r] eqn:E3. simpl.
  apply Forall_app. split; [exact H1|].
  unfold rerun_phase in E3. injection E3 as _ <- _.
  apply Forall_forall. intros p Hp. apply in_map_iff in Hp as [r [<- _]]. exists (r_host r), (r_name r). reflexivity.
Qed.

Lemma pkts_shaped_run : forall h s, pkts_shaped (run s h) = true.
Proof.
  induction h as [|it h IH]; intros s; simpl; [reflexivity|].
  destruct (st_alive s); [|reflexivity].
  pose proof (shaped_iterate s it) as HS.
  destruct (iterate s it) as [s' o]. simpl in *. rewrite IH, andb_true_r.
  apply forallb_forall. intros p Hp. rewrite Forall_forall in HS.
  destruct (key_of_pkt_shaped p (HS p Hp)) as [k ->]. reflexivity.
Qed.

Lemma invb_init t0 : InvB (init t0).
Proof. rewrite init_spec. intros e []. Qed.

Lemma good_init t0 : Good (init t0).
Proof. constructor; [apply inv_init | apply invh_init | apply invb_init]. Qed.

Lemma wf_hist_in_range t0 h : wf_hist t0 h = true -> in_range h.
Proof.
  unfold wf_hist. intros H. apply andb_true_iff in H as [_ H]. rewrite forallb_forall in H.
  apply Forall_forall. intros it Hit. specialize (H it Hit). apply andb_true_iff in H as [H _].
  apply N.ltb_lt in H. unfold u64_max. lia.
Qed.

Lemma wf_hist_cmds t0 h : wf_hist t0 h = true -> wf_cmds_hist h.
Proof.
  unfold wf_hist. intros H. apply andb_true_iff in H as [_ H]. rewrite forallb_forall in H.
  apply Forall_forall. intros it Hit. specialize (H it Hit). apply andb_true_iff in H as [_ H].
  unfold wf_cmds. apply forallb_forall. intros c Hc. rewrite forallb_forall in H.
  specialize (H c Hc). apply andb_true_iff in H as [H _]. exact H.
Qed.

(* C19: the conclusion of the theorem in Props/C19.v *)
Lemma chk_C19_model t0 h : wf_hist t0 h = true -> chk_C19 t0 h (model_run t0 h) = true.
Proof.
  intros W. unfold chk_C19, model_run. cbn [o_sent init_out].
  rewrite shape_ok_run by (rewrite init_spec; reflexivity). rewrite pkts_shaped_run. simpl.
  apply forallb_forall. intros k _.
  apply (k_check_run k h (init t0) None (good_init t0) (rk_init k t0)
           (wf_hist_in_range t0 h W) (wf_hist_cmds t0 h W)).
Qed.

(* ------------------------------------------------------------------ the back-off ladder *)
Lemma dly_pos j : 1 <= dly j.
Proof. induction j; simpl; [lia | apply spec_next_delay_pos; exact IHj]. Qed.

Lemma dly_closed j : dly j = N.min (2 ^ N.of_nat j) 3600.
Proof.
  induction j as [|j IH].
  - reflexivity.
  - cbn [dly]. rewrite IH. unfold spec_next_delay. rewrite Nat2N.inj_succ, N.pow_succ_r'. lia.
Qed.

Record Lad (k : wkey) (s : state) (c : chain) : Prop := mkLad {
  lad_good : Good s;
  lad_alive : st_alive s = true;
  lad_rk : Rk k s (Some c);
  lad_nodl : c_deadline c = None;
  lad_clock : st_clock s < chain_due c;
  lad_tim : forall t, In t (st_timers s) -> st_clock s < t }.

Lemma lad_step k s c :
  Lad k s c ->
  exists w, min_list (st_timers s) = Some w /\ st_clock s < w /\ w <= chain_due c
    /\ o_now (snd (iterate s (mkIter w []))) = w
    /\ if w =? chain_due c
       then count_pkt k (o_sent (snd (iterate s (mkIter w [])))) = 1%nat
            /\ Lad k (fst (iterate s (mkIter w []))) (mkChain w (spec_next_delay (c_delay c)) None)
       else count_pkt k (o_sent (snd (iterate s (mkIter w [])))) = 0%nat
            /\ Lad k (fst (iterate s (mkIter w []))) c.
Proof.
  intros [G A R ND CL TM]. pose proof (good_inv s G) as I.
  destruct c as [last dl dd]. simpl in ND. subst dd.
  pose proof R as R0. destruct R0 as [Hd [ch [L P]]]. unfold chain_goes_on in P. cbn [c_deadline] in P.
  assert (Hin : In (chain_rerun k (mkChain last dl None) ch) (st_retrans s)).
  { assert (Hp : In (chain_rerun k (mkChain last dl None) ch) (pend k (st_retrans s))) by (rewrite P; left; reflexivity).
    apply filter_In in Hp as [Hp _]. exact Hp. }
  destruct (inv_ret s I _ Hin) as [_ [_ Ht]]. cbn [chain_rerun r_time] in Ht.
  destruct (min_list (st_timers s)) as [w|] eqn:Em;
    [|apply min_list_None in Em; rewrite Em in Ht; contradiction].
  exists w. split; [reflexivity|].
  pose proof (min_list_le _ _ _ Em Ht) as Hle.
  pose proof (TM w (min_list_In _ _ Em)) as Hgt.
  split; [exact Hgt|]. split; [exact Hle|].
  set (it := mkIter w []).
  destruct (rk_iterate k s it _ G R) as [C [_ [Nw [AL RH]]]].
  pose proof (RH eq_refl) as R'.
  assert (GI : Good (fst (iterate s it))).
  { apply good_iterate; [exact G | left; reflexivity | reflexivity | reflexivity]. }
  destruct (iterate_timers s it I (or_introl eq_refl)) as [CK TF]; [rewrite AL; reflexivity|].
  split; [exact Nw|].
  assert (Hki : k_iter k it (Some (mkChain last dl None)) =
                if (chain_due (mkChain last dl None) <=? w)
                then (Some (mkChain w (spec_next_delay dl) None), 0%nat, 1%nat)
                else (Some (mkChain last dl None), 0%nat, 0%nat)).
  { unfold k_iter. simpl. unfold chain_goes_on. simpl. rewrite andb_true_r.
    destruct (chain_due (mkChain last dl None) <=? w); reflexivity. }
  rewrite Hki in C, R'.
  assert (TF' : forall t, In t (st_timers (fst (iterate s it))) -> st_clock (fst (iterate s it)) < t).
  { intros t Hti. rewrite CK. destruct (TF t Hti) as [Hl|[Hf _]]; [exact Hl | discriminate]. }
  destruct (w =? chain_due (mkChain last dl None)) eqn:Ew.
  - apply N.eqb_eq in Ew.
    replace (chain_due (mkChain last dl None) <=? w) with true in C, R' by (symmetry; apply N.leb_le; lia).
    cbn [fst snd] in C, R'. split; [exact C|]. simpl in AL.
    constructor; auto.
    rewrite CK. unfold chain_due. simpl. pose proof (spec_next_delay_pos dl Hd). simpl. lia.
  - apply N.eqb_neq in Ew.
    replace (chain_due (mkChain last dl None) <=? w) with false in C, R' by (symmetry; apply N.leb_gt; lia).
    cbn [fst snd] in C, R'. split; [exact C|]. simpl in AL.
    constructor; auto.
    rewrite CK. simpl. lia.
Qed.

Lemma run_app : forall h1 h2 s, run s (h1 ++ h2) = run s h1 ++ run (final s h1) h2.
Proof.
  induction h1 as [|it h1 IH]; intros h2 s; simpl; [reflexivity|].
  destruct (st_alive s) eqn:A.
  - destruct (iterate s it) as [s' o] eqn:E. simpl. rewrite IH. reflexivity.
  - rewrite run_dead by exact A. reflexivity.
Qed.

Lemma final_app : forall h1 h2 s, final s (h1 ++ h2) = final (final s h1) h2.
Proof.
  induction h1 as [|it h1 IH]; intros h2 s; simpl; [reflexivity|].
  destruct (st_alive s) eqn:A; [apply IH|]. rewrite final_dead by exact A. reflexivity.
Qed.

Lemma silent_hist_app : forall n1 n2 s,
  silent_hist s (n1 + n2) = silent_hist s n1 ++ silent_hist (final s (silent_hist s n1)) n2.
Proof.
  induction n1 as [|n1 IH]; intros n2 s; simpl; [reflexivity|].
  destruct (st_alive s) eqn:A.
  - destruct (min_list (st_timers s)) as [w|] eqn:Em.
    + simpl. rewrite A, IH. reflexivity.
    + simpl. destruct n2; simpl; [reflexivity|]. rewrite A, Em. reflexivity.
  - simpl. destruct n2; simpl; [reflexivity|]. rewrite A. reflexivity.
Qed.

Lemma ktimes_app k a b : ktimes k (a ++ b) = ktimes k a ++ ktimes k b.
Proof. apply flat_map_app. Qed.

Lemma silent_hist_S s n w :
  st_alive s = true -> min_list (st_timers s) = Some w ->
  silent_hist s (S n) = mkIter w [] :: silent_hist (fst (iterate s (mkIter w []))) n.
Proof. intros A E. simpl. rewrite A, E. reflexivity. Qed.

Lemma ktimes_cons k o tr : ktimes k (o :: tr) = repeat (o_now o) (count_pkt k (o_sent o)) ++ ktimes k tr.
Proof. reflexivity. Qed.

(* from a running search whose next query is due at `chain_due c`, the silent timer-exact
   schedule sends exactly that query, exactly then *)
Lemma lad_reach k : forall fuel s c,
  Lad k s c -> (N.to_nat (chain_due c - st_clock s) <= fuel)%nat ->
  exists n, ktimes k (run s (silent_hist s n)) = [chain_due c]
            /\ Lad k (final s (silent_hist s n)) (mkChain (chain_due c) (spec_next_delay (c_delay c)) None).
Proof.
  induction fuel as [|fuel IH]; intros s c L F.
  - pose proof (lad_clock k s c L). lia.
  - destruct (lad_step k s c L) as [w [Em [Hgt [Hle [Nw Hcase]]]]].
    pose proof (lad_alive k s c L) as A.
    destruct (w =? chain_due c) eqn:Ew.
    + apply N.eqb_eq in Ew. destruct Hcase as [C L'].
      exists 1%nat. rewrite (silent_hist_S s 0 w A Em). cbn [silent_hist].
      rewrite run_cons, final_cons by exact A. cbn [run final].
      rewrite ktimes_cons, C, Nw. cbn [repeat ktimes flat_map app]. split; [congruence|].
      rewrite <- Ew. exact L'.
    + apply N.eqb_neq in Ew. destruct Hcase as [C L'].
      destruct (iterate_timers s (mkIter w []) (good_inv s (lad_good k s c L)) (or_introl eq_refl)) as [CK _].
      { apply (lad_alive _ _ _ L'). }
      destruct (IH (fst (iterate s (mkIter w []))) c L') as [n [KT LF]].
      { rewrite CK. cbn [i_now]. lia. }
      exists (S n). rewrite (silent_hist_S s n w A Em).
      rewrite run_cons, final_cons by exact A.
      rewrite ktimes_cons, C. cbn [repeat app]. split; [exact KT | exact LF].
Qed.

Lemma seq_snoc a j : seq a (S j) = seq a j ++ [(a + j)%nat].
Proof. rewrite seq_S. reflexivity. Qed.

(* C19 backoff_sequence: after j further queries the search sits at t1 + ladder j with delay dly j *)
Lemma lad_ladder k s t1 : forall j,
  Lad k s (mkChain t1 1 None) ->
  exists n, ktimes k (run s (silent_hist s n)) = map (fun i => t1 + ladder i) (seq 1 j)
            /\ Lad k (final s (silent_hist s n)) (mkChain (t1 + ladder j) (dly j) None).
Proof.
  induction j as [|j IH]; intros L.
  - exists 0%nat. simpl. rewrite N.add_0_r. auto.
  - destruct (IH L) as [n [KT Lj]].
    destruct (lad_reach k _ _ _ Lj (le_n _)) as [n' [KT' Lj']].
    exists (n + n')%nat. rewrite silent_hist_app, run_app, ktimes_app, final_app, KT, KT'.
    rewrite seq_snoc, map_app. simpl.
    unfold chain_due in *. cbn [c_last c_delay] in *.
    replace (t1 + (ladder j + dly j * 1000)) with (t1 + ladder j + dly j * 1000) by lia.
    auto.
Qed.

(* a reachable live state is Good and related to SOME specification state of every question *)
Lemma rk_final k : forall h s st,
  Good s -> Rk k s st -> in_range h -> wf_cmds_hist h -> st_alive (final s h) = true ->
  Good (final s h) /\ exists st', Rk k (final s h) st'.
Proof.
  induction h as [|it h IH]; intros s st G R Rg W A.
  - simpl. eauto.
  - destruct (st_alive s) eqn:As; [|rewrite final_dead in A by exact As; congruence].
    rewrite final_cons in * by exact As.
    inversion Rg as [|x xs Rg1 Rg2]; subst. inversion W as [|y ys W1 W2]; subst.
    destruct (rk_iterate k s it st G R) as [_ [_ [_ [AL RH]]]].
    pose proof (good_iterate s it G (or_intror Rg1) W1) as GI.
    destruct (has_shutdown (i_cmds it)).
    + simpl in AL. rewrite final_dead in A by exact AL. congruence.
    + eapply IH; eauto.
Qed.

Lemma lad_start host nm ch t1 s st :
  Good s -> Rk (host, nm) s st -> t1 < u64_max -> wf_cmd (CStart host nm false None ch) = true ->
  count_pkt (host, nm) (o_sent (snd (iterate s (mkIter t1 [CStart host nm false None ch])))) = 1%nat
  /\ Lad (host, nm) (fst (iterate s (mkIter t1 [CStart host nm false None ch]))) (mkChain t1 1 None).
Proof.
  intros G R Ht Wc. set (it := mkIter t1 [CStart host nm false None ch]).
  pose proof (good_inv s G) as I.
  destruct (rk_iterate (host, nm) s it st G R) as [C [_ [_ [AL RH]]]].
  pose proof (RH eq_refl) as R'.
  assert (Hk : k_iter (host, nm) it st = (Some (mkChain t1 1 None), 1%nat, 0%nat)).
  { unfold k_iter, it. cbn [i_now i_cmds k_cmds k_cmd]. unfold wkey_okey. cbn [fst snd].
    rewrite okey_eqb_refl, beq_refl. cbn [negb andb option_map].
    unfold k_rerun, chain_due. cbn [c_last c_delay].
    replace (t1 + 1 * 1000 <=? t1) with false by (symmetry; apply N.leb_gt; lia). reflexivity. }
  rewrite Hk in C, R'. cbn [fst snd] in C, R'. split; [exact C|].
  assert (AL' : st_alive (fst (iterate s it)) = true) by exact AL.
  destruct (iterate_timers s it I (or_intror Ht) AL') as [CK TF].
  constructor; auto.
  - apply good_iterate; [exact G | right; exact Ht | | reflexivity].
    unfold wf_cmds, it. cbn [i_cmds forallb]. rewrite Wc. reflexivity.
  - rewrite CK. unfold chain_due. simpl. lia.
  - intros t Hti. rewrite CK. destruct (TF t Hti) as [Hl|[Hf _]]; [exact Hl | discriminate].
Qed.

(* C19 backoff_sequence, model level *)
Lemma backoff_sequence_model t0 h host nm ch t1 j :
  let it := mkIter t1 [CStart host nm false None ch] in
  wf_hist t0 (h ++ [it]) = true ->
  st_alive (final (init t0) h) = true ->
  let s1 := final (init t0) (h ++ [it]) in
  ktimes (host, nm) (run (final (init t0) h) [it]) = [t1]
  /\ exists n, ktimes (host, nm) (run s1 (silent_hist s1 n)) = map (fun i => t1 + ladder i) (seq 1 j).
Proof.
  intros it W A s1. subst s1 it.
  pose proof (wf_hist_in_range _ _ W) as R. pose proof (wf_hist_cmds _ _ W) as WC.
  apply Forall_app in R as [R1 R2]. inversion R2 as [|x xs Rt _]; subst. cbn [i_now] in Rt.
  apply Forall_app in WC as [WC1 WC2]. inversion WC2 as [|y ys Wt _]; subst.
  unfold wf_cmds in Wt. cbn [i_cmds forallb] in Wt. rewrite andb_true_r in Wt.
  destruct (rk_final (host, nm) h (init t0) None (good_init t0) (rk_init _ t0) R1 WC1 A) as [G [st R]].
  destruct (lad_start host nm ch t1 _ st G R Rt Wt) as [C L].
  split.
  - rewrite run_cons by exact A. cbn [run]. rewrite ktimes_cons, C.
    destruct (iterate_shape (final (init t0) h) (mkIter t1 [CStart host nm false None ch])) as [Nw _].
    rewrite Nw. reflexivity.
  - rewrite final_app, final_cons by exact A. cbn [final].
    destruct (lad_ladder (host, nm) _ t1 j L) as [n [KT _]]. exists n. exact KT.
Qed.

(* ------------------------------------------------------------------ statements used by Props/C19.v *)
(* a scheduled (non-start) query leaves only when the gap since the previous query of the
   search has reached the scheduled delay *)
Lemma k_rerun_gap now c st' :
  k_rerun now (Some c) = (st', 1%nat) ->
  c_last c + c_delay c * 1000 <= now
  /\ st' = Some (mkChain now (N.min (2 * c_delay c) 3600) (c_deadline c)).
Proof.
  unfold k_rerun. destruct ((chain_due c <=? now) && chain_goes_on c) eqn:E; [|discriminate].
  apply andb_true_iff in E as [E _]. apply N.leb_le in E. intros H. injection H as <-. auto.
Qed.

Lemma single_chain t0 h :
  wf_hist t0 h = true -> st_alive (final (init t0) h) = true ->
  NoDup (map rkey (st_retrans (final (init t0) h))).
Proof.
  intros W A. apply inv_one. apply reachable_inv; [eapply wf_hist_in_range; exact W | exact A].
Qed.

(* ================================================================== C13: channels *)
Lemma events_on_app ch a b : events_on ch (a ++ b) = events_on ch a ++ events_on ch b.
Proof. apply flat_map_app. Qed.

Lemma events_on_closed ch (l : list chan) : events_on ch (map (fun c => (c, EClosed)) l) = [].
Proof. induction l as [|c l IH]; simpl; [reflexivity|]. destruct (c =? ch); exact IH. Qed.

Lemma events_on_other ch evs : (forall ce, In ce evs -> fst ce <> ch) -> events_on ch evs = [].
Proof.
  induction evs as [|[c e] evs IH]; intros H; [reflexivity|].
  simpl. destruct (c =? ch) eqn:E.
  - apply N.eqb_eq in E. exfalso. apply (H (c, e)); [left; reflexivity | exact E].
  - apply IH. intros x Hx. apply H. right. exact Hx.
Qed.

Lemma ev_eqb_refl e : ev_eqb e e = true.
Proof. destruct e; simpl; try apply beq_refl; reflexivity. Qed.

Lemma evs_eqb_refl l : evs_eqb l l = true.
Proof. induction l as [|e l IH]; simpl; [reflexivity|]. rewrite ev_eqb_refl, IH. reflexivity. Qed.

Lemma flat_map_nil {A B} (f : A -> list B) l : (forall x, In x l -> f x = []) -> flat_map f l = [].
Proof.
  induction l as [|x l IH]; intros H; simpl; [reflexivity|].
  rewrite (H x (or_introl eq_refl)). apply IH. intros y Hy. apply H. right. exact Hy.
Qed.

(* a list with distinct keys in which only the entry e0 can satisfy Q *)
Lemma flat_map_unique {B} (Q : okey * owner -> bool) (g : okey * owner -> list B) l e0 :
  NoDup (map fst l) -> In e0 l -> (forall e, In e l -> Q e = true -> fst e = fst e0) ->
  flat_map (fun e => if Q e then g e else []) l = if Q e0 then g e0 else [].
Proof.
  induction l as [|x l IH]; intros ND Hin HQ; [contradiction|].
  inversion ND as [|y ys Hn ND']; subst. simpl. destruct Hin as [->|Hin].
  - rewrite flat_map_nil; [apply app_nil_r|].
    intros e He. destruct (Q e) eqn:E; [|reflexivity]. exfalso. apply Hn.
    rewrite <- (HQ e (or_intror He) E). apply in_map. exact He.
  - replace (Q x) with false.
    + simpl. apply IH; [exact ND' | exact Hin|]. intros e He. apply HQ. right. exact He.
    + symmetry. destruct (Q x) eqn:E; [|reflexivity]. exfalso. apply Hn.
      rewrite (HQ x (or_introl eq_refl) E). apply in_map. exact Hin.
Qed.

Lemma events_on_timeouts ch now owners :
  events_on ch (timeout_events now owners)
  = flat_map (fun e : okey * owner => if (ow_ch (snd e) =? ch) && expired now e
                       then [ETimeout (snd (fst e)); EStopped (snd (fst e))] else []) owners.
Proof.
  unfold timeout_events. induction owners as [|e l IH]; simpl; [reflexivity|].
  rewrite events_on_app, IH. f_equal.
  destruct (expired now e); simpl; [|rewrite andb_false_r; reflexivity].
  rewrite andb_true_r. destruct (ow_ch (snd e) =? ch); reflexivity.
Qed.

Lemma events_on_shutdown ch owners :
  events_on ch (map (fun e : okey * owner => (ow_ch (snd e), EStopped (snd (fst e)))) owners)
  = flat_map (fun e : okey * owner => if ow_ch (snd e) =? ch then [EStopped (snd (fst e))] else []) owners.
Proof.
  induction owners as [|e l IH]; simpl; [reflexivity|]. rewrite IH.
  destruct (ow_ch (snd e) =? ch); reflexivity.
Qed.

Lemma events_on_reruns ch (l : list rerun) :
  events_on ch (map (fun r => (r_ch r, EStarted (r_name r))) l)
  = map (fun r => EStarted (r_name r)) (filter (fun r => r_ch r =? ch) l).
Proof.
  induction l as [|r l IH]; simpl; [reflexivity|]. rewrite IH. destruct (r_ch r =? ch); reflexivity.
Qed.

Lemma filter_at_most_one {A B} (f : A -> B) (Q : A -> bool) (a : B) l :
  NoDup (map f l) -> (forall x, In x l -> Q x = true -> f x = a) ->
  filter Q l = [] \/ exists x, filter Q l = [x].
Proof.
  induction l as [|x l IH]; intros ND H; simpl; [left; reflexivity|].
  inversion ND as [|y ys Hn ND']; subst.
  destruct (Q x) eqn:E.
  - right. exists x. f_equal. apply filter_nil_iff. intros z Hz.
    destruct (Q z) eqn:Ez; [|reflexivity]. exfalso. apply Hn.
    rewrite (H x (or_introl eq_refl) E), <- (H z (or_intror Hz) Ez). apply in_map. exact Hz.
  - apply IH; [exact ND'|]. intros z Hz. apply H. right. exact Hz.
Qed.

(* ------------------------------------------------------------------ per-channel relation *)
Definition Rc (ch : chan) (s : state) (cs : cstate) : Prop :=
  match cs with
  | CCurrent k nm cache dd =>
      lookup k (st_owners s) = Some (mkOwner ch dd)
      /\ (forall e, In e (st_owners s) -> ow_ch (snd e) = ch -> fst e = k)
      /\ (forall r, In r (st_retrans s) -> r_ch r = ch -> rkey r = k /\ r_name r = nm /\ cache = false)
  | _ => ~ In ch (refs s)
  end.

Lemma not_in_refs ch s :
  ~ In ch (refs s) <->
  (forall e, In e (st_owners s) -> ow_ch (snd e) <> ch) /\ (forall r, In r (st_retrans s) -> r_ch r <> ch).
Proof.
  unfold refs. split.
  - intros H. split.
    + intros e He E. apply H. apply in_or_app. left. apply in_map_iff. exists e. auto.
    + intros r Hr E. apply H. apply in_or_app. right. apply in_map_iff. exists r. auto.
  - intros [H1 H2] H. apply in_app_or in H as [H|H]; apply in_map_iff in H as [x [E Hx]].
    + exact (H1 x Hx E).
    + exact (H2 x Hx E).
Qed.

Lemma owner_entry_unique k o (l : list (okey * owner)) e :
  NoDup (map fst l) -> lookup k l = Some o -> In e l -> fst e = k -> e = (k, o).
Proof.
  intros ND L He Ek. destruct e as [k' o']. simpl in Ek. subst k'.
  rewrite (In_lookup k o' l ND He) in L. congruence.
Qed.

Lemma rc_timeout ch now s cs :
  Rc ch s cs -> InvB s -> NoDup (map fst (st_owners s)) ->
  Rc ch (timeout_phase_p now s) (fst (c_timeout now cs))
  /\ events_on ch (timeout_events now (st_owners s)) = snd (c_timeout now cs).
Proof.
  intros R B ND. rewrite events_on_timeouts.
  assert (Hsubr : forall r, In r (st_retrans (timeout_phase_p now s)) -> In r (st_retrans s)).
  { intros r Hr. simpl in Hr. apply filter_In in Hr as [Hr _]. exact Hr. }
  assert (Hother : ~ In ch (refs s) ->
     ~ In ch (refs (timeout_phase_p now s))
     /\ flat_map (fun e : okey * owner => if (ow_ch (snd e) =? ch) && expired now e
                          then [ETimeout (snd (fst e)); EStopped (snd (fst e))] else []) (st_owners s) = []).
  { intros Hn. apply not_in_refs in Hn as [N1 N2]. split.
    - apply not_in_refs. split; [|intros r Hr; apply N2; apply Hsubr; exact Hr].
      intros e He. simpl in He. apply filter_In in He as [He _]. auto.
    - apply flat_map_nil. intros e He. replace (ow_ch (snd e) =? ch) with false; [reflexivity|].
      symmetry. apply N.eqb_neq. auto. }
  destruct cs as [|k nm cache dd|]; try (simpl; apply Hother; exact R).
  destruct R as [L [C2 C3]].
  set (e0 := (k, mkOwner ch dd)).
  assert (He0 : In e0 (st_owners s)) by (apply lookup_In; exact L).
  rewrite (flat_map_unique _ _ (st_owners s) e0 ND He0).
  2:{ intros e He Q. apply andb_true_iff in Q as [Q _]. apply N.eqb_eq in Q. simpl. auto. }
  assert (Hkeep : expired now e0 = false -> Rc ch (timeout_phase_p now s) (CCurrent k nm cache dd)).
  { intros Hx. split; [|split].
    - simpl. apply lookup_filter_keep; [exact L|]. fold e0. rewrite Hx. reflexivity.
    - intros e He. simpl in He. apply filter_In in He as [He _]. auto.
    - intros r Hr. apply C3. apply Hsubr. exact Hr. }
  simpl. rewrite N.eqb_refl. simpl. unfold expired in *. simpl in *.
  destruct dd as [d|]; simpl.
  - rewrite resolver_expired_pinned in *. destruct (d <=? now) eqn:E; simpl.
    + split; [|reflexivity]. apply not_in_refs. split.
      * intros e He Ech. simpl in He. apply filter_In in He as [He Hne].
        pose proof (owner_entry_unique k _ _ e ND L He (C2 e He Ech)) as ->.
        unfold expired in Hne. simpl in Hne. rewrite ?resolver_expired_pinned, E in Hne. discriminate.
      * intros r Hr Ech. destruct (C3 r (Hsubr r Hr) Ech) as [Hk _].
        apply (purged_not_expired now s e0 r B ND He0); [|exact Hr | exact Hk].
        unfold expired. simpl. rewrite resolver_expired_pinned. exact E.
    + split; [|reflexivity]. apply Hkeep. reflexivity.
  - split; [|reflexivity]. apply Hkeep. reflexivity.
Qed.

Lemma rc_start ch now s cs host nm cache timeout ch' :
  Rc ch s cs -> (ch' = ch -> cs = CNotYet) ->
  Rc ch (fst (fst (exec_start now host nm cache timeout ch' s)))
        (fst (c_cmd now ch (CStart host nm cache timeout ch') cs))
  /\ events_on ch (snd (exec_start now host nm cache timeout ch' s))
     = snd (c_cmd now ch (CStart host nm cache timeout ch') cs).
Proof.
  intros R F. unfold exec_start, c_cmd.
  set (key := okey_of host nm). set (dl := option_map (sat_add now) timeout).
  set (owners' := (key, mkOwner ch' dl) :: remove_key key (st_owners s)).
  set (new := requeue now owners' host nm (first_delay host cache) ch').
  assert (Hnew : forall r, In r new -> rkey r = key /\ r_name r = nm /\ r_ch r = ch').
  { intros r Hr. unfold new in Hr. apply in_requeue in Hr as [-> _]. auto. }
  destruct (ch' =? ch) eqn:Ech.
  - apply N.eqb_eq in Ech. subst ch'. rewrite (F eq_refl) in *. simpl in R.
    apply not_in_refs in R as [N1 N2].
    assert (Hown : forall e, In e owners' -> ow_ch (snd e) = ch -> fst e = key).
    { intros e [<-|He] Ee; [reflexivity|]. apply in_remove_key in He as [He _]. exfalso. exact (N1 e He Ee). }
    destruct cache; sstep.
    + split.
      * split; [apply lookup_cons_same|]. split; [exact Hown|].
        intros r Hr Er. apply in_purge in Hr as [Hr _]. exfalso. exact (N2 r Hr Er).
      * simpl. rewrite N.eqb_refl. reflexivity.
    + split.
      * split; [apply lookup_cons_same|]. split; [exact Hown|].
        intros r Hr Er. apply in_app_or in Hr as [Hr|Hr].
        { apply in_purge in Hr as [Hr _]. exfalso. exact (N2 r Hr Er). }
        { destruct (Hnew r Hr) as [A [B _]]. auto. }
      * simpl. rewrite N.eqb_refl. reflexivity.
  - apply N.eqb_neq in Ech.
    assert (Hev : forall evs, (forall ce, In ce evs -> fst ce = ch') -> events_on ch evs = []).
    { intros evs H. apply events_on_other. intros ce Hce E. rewrite (H ce Hce) in E. contradiction. }
    assert (Hgone : (forall e, In e (st_owners s) -> ow_ch (snd e) = ch -> fst e = key) ->
                    (forall r, In r (st_retrans s) -> r_ch r = ch -> rkey r = key) ->
                    forall timers retr, (retr = purge key (st_retrans s) \/ retr = purge key (st_retrans s) ++ new) ->
                    ~ In ch (refs (set_sched s timers retr owners'))).
    { intros H1 H2 timers retr Hretr. apply not_in_refs. sstep. split.
      - intros e [<-|He] Ee; [simpl in Ee; congruence|]. apply in_remove_key in He as [He Hk]. apply Hk. auto.
      - intros r Hr Er.
        assert (Hr' : In r (purge key (st_retrans s)) \/ In r new).
        { destruct Hretr as [->| ->]; [left; exact Hr | apply in_app_or; exact Hr]. }
        destruct Hr' as [Hr'|Hr'].
        + apply in_purge in Hr' as [Hr' Hk]. apply Hk. auto.
        + destruct (Hnew r Hr') as [_ [_ C]]. congruence. }
    assert (Hkeep : forall k nm' cache' dd, cs = CCurrent k nm' cache' dd -> key <> k ->
                    forall timers retr, (retr = purge key (st_retrans s) \/ retr = purge key (st_retrans s) ++ new) ->
                    Rc ch (set_sched s timers retr owners') cs).
    { intros k nm' cache' dd -> Hk timers retr Hretr. destruct R as [L [C2 C3]]. unfold Rc. sstep. split; [|split].
      - unfold owners'. rewrite lookup_cons_other by congruence. rewrite lookup_remove_other by congruence. exact L.
      - intros e [<-|He] Ee; [simpl in Ee; congruence|]. apply in_remove_key in He as [He _]. auto.
      - intros r Hr Er.
        assert (Hr' : In r (purge key (st_retrans s)) \/ In r new).
        { destruct Hretr as [->| ->]; [left; exact Hr | apply in_app_or; exact Hr]. }
        destruct Hr' as [Hr'|Hr'].
        + apply in_purge in Hr' as [Hr' _]. auto.
        + destruct (Hnew r Hr') as [_ [_ C]]. congruence. }
    assert (Hrhs : snd (match cs with
                        | CCurrent k _ _ _ => if okey_eqb key k then (CGone, []) else (cs, [])
                        | _ => (cs, [])
                        end) = @nil event).
    { destruct cs as [|k ? ? ?|]; try reflexivity. destruct (okey_eqb key k); reflexivity. }
    assert (Hstate : forall timers retr, (retr = purge key (st_retrans s) \/ retr = purge key (st_retrans s) ++ new) ->
               Rc ch (set_sched s timers retr owners')
                  (fst (match cs with
                        | CCurrent k _ _ _ => if okey_eqb key k then (CGone, []) else (cs, @nil event)
                        | _ => (cs, [])
                        end))).
    { intros timers retr Hretr. destruct cs as [|k nm' cache' dd|].
      - simpl in R. apply not_in_refs in R as [N1 N2]. unfold Rc; cbn [fst].
        apply Hgone; auto; intros x Hx Ex; exfalso; [exact (N1 x Hx Ex) | exact (N2 x Hx Ex)].
      - destruct (okey_eqb key k) eqn:EK.
        + apply okey_eqb_eq in EK. subst k. destruct R as [L [C2 C3]]. unfold Rc; cbn [fst].
          apply Hgone; auto. intros r Hr Er. apply (C3 r Hr Er).
        + apply okey_eqb_neq in EK. cbn [fst]. eapply Hkeep; eauto.
      - simpl in R. apply not_in_refs in R as [N1 N2]. unfold Rc; cbn [fst].
        apply Hgone; auto; intros x Hx Ex; exfalso; [exact (N1 x Hx Ex) | exact (N2 x Hx Ex)]. }
    destruct cache; sstep; (split; [apply Hstate; auto|]); rewrite Hrhs; apply Hev.
    + intros ce [<-|[<-|[]]]; reflexivity.
    + intros ce [<-|[]]. reflexivity.
Qed.

Lemma rc_stop ch now s cs host nm :
  Rc ch s cs -> NoDup (map fst (st_owners s)) ->
  Rc ch (fst (fst (exec_stop host nm s))) (fst (c_cmd now ch (CStop host nm) cs))
  /\ events_on ch (snd (exec_stop host nm s)) = snd (c_cmd now ch (CStop host nm) cs).
Proof.
  intros R ND. unfold exec_stop, c_cmd. set (key := okey_of host nm).
  assert (Hsub : ~ In ch (refs s) -> forall timers,
            ~ In ch (refs (set_sched s timers (purge key (st_retrans s)) (remove_key key (st_owners s))))).
  { intros Hn timers. apply not_in_refs in Hn as [N1 N2]. apply not_in_refs. sstep. split.
    - intros e He. apply in_remove_key in He as [He _]. auto.
    - intros r Hr. apply in_purge in Hr as [Hr _]. auto. }
  assert (Hnoev : ~ In ch (refs s) -> forall o, lookup key (st_owners s) = Some o ->
            events_on ch [(ow_ch o, EStopped (snd key))] = []).
  { intros Hn o L. apply not_in_refs in Hn as [N1 _]. apply events_on_other.
    intros ce [<-|[]]. simpl. apply lookup_In in L. exact (N1 _ L). }
  destruct cs as [|k nm' cache' dd|].
  - simpl in R. destruct (lookup key (st_owners s)) as [o|] eqn:L; sstep; cbn [snd].
    + split; [apply Hsub; exact R | apply Hnoev; auto].
    + split; [exact R | reflexivity].
  - destruct R as [Lk [C2 C3]]. destruct (okey_eqb key k) eqn:EK.
    + apply okey_eqb_eq in EK. subst k. rewrite Lk. sstep. cbn [snd]. split.
      * unfold Rc. apply not_in_refs. sstep. split.
        { intros e He Ee. apply in_remove_key in He as [He Hk]. apply Hk. auto. }
        { intros r Hr Er. apply in_purge in Hr as [Hr Hk]. apply Hk. apply (C3 r Hr Er). }
      * simpl. rewrite N.eqb_refl. reflexivity.
    + apply okey_eqb_neq in EK. destruct (lookup key (st_owners s)) as [o|] eqn:L; sstep; cbn [snd].
      * split.
        { unfold Rc. sstep. split; [|split].
          - rewrite lookup_remove_other by congruence. exact Lk.
          - intros e He. apply in_remove_key in He as [He _]. auto.
          - intros r Hr. apply in_purge in Hr as [Hr _]. auto. }
        { apply events_on_other. intros ce [<-|[]]. simpl. intros Eo. apply EK.
          apply lookup_In in L. apply (C2 _ L Eo). }
      * split; [split; auto | reflexivity].
  - simpl in R. destruct (lookup key (st_owners s)) as [o|] eqn:L; sstep; cbn [snd].
    + split; [apply Hsub; exact R | apply Hnoev; auto].
    + split; [exact R | reflexivity].
Qed.

Lemma rc_frame ch s s' cs :
  st_retrans s' = st_retrans s -> st_owners s' = st_owners s -> Rc ch s cs -> Rc ch s' cs.
Proof. intros E1 E2 R. unfold Rc, refs in *. rewrite E1, E2. exact R. Qed.

Lemma rc_cmd ch now c s cs :
  c <> CShutdown -> Rc ch s cs -> NoDup (map fst (st_owners s)) ->
  (In ch (intro_chans [c]) -> cs = CNotYet) ->
  Rc ch (fst (fst (exec_cmd now c s))) (fst (c_cmd now ch c cs))
  /\ events_on ch (snd (exec_cmd now c s)) = snd (c_cmd now ch c cs).
Proof.
  intros Hc R ND F. destruct c as [host nm cache timeout ch'|host nm|secs|].
  - apply rc_start; [exact R|]. intros ->. apply F. simpl. left. reflexivity.
  - apply rc_stop; assumption.
  - simpl. split; [|reflexivity]. eapply rc_frame; [| |exact R]; reflexivity.
  - congruence.
Qed.

Lemma c_cmd_notyet now ch c :
  ~ In ch (intro_chans [c]) -> c_cmd now ch c CNotYet = (CNotYet, []).
Proof.
  destruct c as [host nm cache timeout ch'|host nm|secs|]; simpl; try reflexivity.
  intros H. destruct (ch' =? ch) eqn:E; [|reflexivity]. apply N.eqb_eq in E. exfalso. apply H. auto.
Qed.

Lemma rc_shutdown ch s cs :
  Rc ch s cs -> NoDup (map fst (st_owners s)) ->
  events_on ch (snd (exec_shutdown s)) = snd (c_cmd 0 ch CShutdown cs).
Proof.
  intros R ND. unfold exec_shutdown. cbn [snd]. rewrite events_on_shutdown.
  destruct cs as [|k nm' cache' dd|]; simpl.
  - apply not_in_refs in R as [N1 _]. apply flat_map_nil. intros e He.
    replace (ow_ch (snd e) =? ch) with false; [reflexivity|]. symmetry. apply N.eqb_neq. auto.
  - destruct R as [L [C2 _]].
    rewrite (flat_map_unique (fun e => ow_ch (snd e) =? ch) (fun e => [EStopped (snd (fst e))])
               (st_owners s) (k, mkOwner ch dd) ND (lookup_In _ _ _ L)).
    + simpl. rewrite N.eqb_refl. reflexivity.
    + intros e He Q. apply N.eqb_eq in Q. simpl. auto.
  - apply not_in_refs in R as [N1 _]. apply flat_map_nil. intros e He.
    replace (ow_ch (snd e) =? ch) with false; [reflexivity|]. symmetry. apply N.eqb_neq. auto.
Qed.

Lemma c_cmd_shutdown_now now ch cs : c_cmd now ch CShutdown cs = c_cmd 0 ch CShutdown cs.
Proof. reflexivity. Qed.

Lemma NoDup_app_inv {A} (a b : list A) :
  NoDup (a ++ b) -> NoDup b /\ (forall x, In x a -> ~ In x b).
Proof.
  induction a as [|y a IH]; simpl; intros H; [split; [exact H | tauto]|].
  inversion H as [|z zs Hn ND]; subst. destruct (IH ND) as [N1 N2]. split; [exact N1|].
  intros x [->|Hx]; [|auto]. intros Hb. apply Hn. apply in_or_app. right. exact Hb.
Qed.

Lemma rc_cmds ch now cmds : forall z s cs s2 p e,
  now < u64_max -> Mid now z s -> Rc ch s cs ->
  NoDup (intro_chans cmds) -> (In ch (intro_chans cmds) -> cs = CNotYet) ->
  run_cmds now cmds s = (s2, p, e) ->
  events_on ch e = snd (c_cmds now ch cmds cs)
  /\ (has_shutdown cmds = false -> Rc ch s2 (fst (c_cmds now ch cmds cs)) /\ exists z', Mid now z' s2).
Proof.
  induction cmds as [|c rest IH]; intros z s cs s2 p e Hnow M R ND F E; simpl in E.
  - injection E as <- <- <-. simpl. split; [reflexivity|]. intros _. split; [exact R | eauto].
  - destruct (exec_cmd now c s) as [[s1 p1] e1] eqn:E1.
    destruct (run_cmds now rest s1) as [[s2' p2] e2] eqn:E2.
    assert (Hcase : c = CShutdown \/ (c <> CShutdown /\ (s2', p1 ++ p2, e1 ++ e2) = (s2, p, e))).
    { destruct c; [right | right | right | left]; try (split; [discriminate | exact E]). reflexivity. }
    destruct Hcase as [->|[Hc Heq]].
    + simpl in E1. injection E1 as <- <- <-. injection E as <- <- <-.
      split; [|discriminate].
      pose proof (rc_shutdown ch s cs R (mid_own _ _ _ M)) as Hs. unfold exec_shutdown in Hs. cbn [snd] in Hs.
      rewrite Hs. simpl. destruct cs; reflexivity.
    + injection Heq as <- <- <-.
      assert (Hsplit : intro_chans (c :: rest) = intro_chans [c] ++ intro_chans rest).
      { unfold intro_chans. simpl. rewrite app_nil_r. reflexivity. }
      rewrite Hsplit in ND, F.
      assert (F1 : In ch (intro_chans [c]) -> cs = CNotYet).
      { intros H. apply F. apply in_or_app. left. exact H. }
      destruct (rc_cmd ch now c s cs Hc R (mid_own _ _ _ M) F1) as [R1 Ev1].
      rewrite E1 in R1, Ev1. cbn [fst snd] in R1, Ev1.
      pose proof (mid_cmd now z s c Hnow M Hc) as M1. rewrite E1 in M1. cbn [fst] in M1.
      destruct (NoDup_app_inv _ _ ND) as [ND' Hdis].
      assert (F' : In ch (intro_chans rest) -> fst (c_cmd now ch c cs) = CNotYet).
      { intros H. assert (Hn : ~ In ch (intro_chans [c])).
        { intros H1. exact (Hdis ch H1 H). }
        rewrite (F (in_or_app _ _ _ (or_intror H))). rewrite c_cmd_notyet by exact Hn. reflexivity. }
      destruct (IH _ s1 _ s2' p2 e2 Hnow M1 R1 ND' F' E2) as [Ev2 RH].
      assert (Hk : c_cmds now ch (c :: rest) cs =
                   (let '(cs1, e1') := c_cmd now ch c cs in
                    let '(cs2, e2') := c_cmds now ch rest cs1 in (cs2, e1' ++ e2'))).
      { destruct c; try reflexivity. congruence. }
      assert (Hs : has_shutdown (c :: rest) = has_shutdown rest).
      { unfold has_shutdown. simpl. destruct c; try reflexivity. congruence. }
      rewrite Hk, Hs. destruct (c_cmd now ch c cs) as [cs1 e1']. cbn [fst snd] in *.
      destruct (c_cmds now ch rest cs1) as [cs2 e2']. cbn [fst snd] in *.
      split; [rewrite events_on_app; congruence | exact RH].
Qed.

Lemma rc_rerun ch now s cs s3 p e :
  Rc ch s cs -> NoDup (map rkey (st_retrans s)) -> rerun_phase0 now s = (s3, p, e) ->
  Rc ch s3 cs
  /\ (events_on ch e = []
      \/ exists k nm dd, cs = CCurrent k nm false dd /\ events_on ch e = [EStarted nm]).
Proof.
  intros R ND E. unfold rerun_phase0 in E. injection E as <- <- <-.
  rewrite events_on_reruns.
  assert (Hnew : forall r, In r (flat_map (rerun_one now (st_owners s)) (filter (due now) (st_retrans s))) ->
                 exists r0, In r0 (st_retrans s) /\ rkey r = rkey r0 /\ r_name r = r_name r0 /\ r_ch r = r_ch r0).
  { intros r Hr. apply in_flat_map in Hr as [r0 [H0 Hr]]. apply filter_In in H0 as [H0 _].
    exists r0. split; [exact H0|]. apply in_rerun_one in Hr as [-> _]. auto. }
  destruct cs as [|k nm cache dd|].
  - simpl in R. apply not_in_refs in R as [N1 N2]. split.
    + unfold Rc. apply not_in_refs. sstep. split; [exact N1|].
      intros r Hr. apply in_app_or in Hr as [Hr|Hr].
      * apply filter_In in Hr as [Hr _]. auto.
      * destruct (Hnew r Hr) as [r0 [H0 [_ [_ Ec]]]]. rewrite Ec. auto.
    + left. replace (filter (fun r => r_ch r =? ch) (filter (due now) (st_retrans s))) with (@nil rerun); [reflexivity|].
      symmetry. apply filter_nil_iff. intros r Hr. apply filter_In in Hr as [Hr _]. apply N.eqb_neq. auto.
  - destruct R as [L [C2 C3]]. split.
    + unfold Rc. sstep. split; [exact L|]. split; [exact C2|].
      intros r Hr Er. apply in_app_or in Hr as [Hr|Hr].
      * apply filter_In in Hr as [Hr _]. auto.
      * destruct (Hnew r Hr) as [r0 [H0 [Ek [En Ec]]]]. rewrite Ek, En. apply (C3 r0 H0). congruence.
    + rewrite filter_comm.
      destruct (filter_at_most_one rkey (fun r => r_ch r =? ch) k (st_retrans s) ND) as [E|[x E]].
      * intros r Hr Q. apply N.eqb_eq in Q. apply (C3 r Hr Q).
      * left. rewrite E. reflexivity.
      * assert (Hx : In x (filter (fun r => r_ch r =? ch) (st_retrans s))) by (rewrite E; left; reflexivity).
        apply filter_In in Hx as [Hx Q]. apply N.eqb_eq in Q. destruct (C3 x Hx Q) as [_ [En Ec]]. subst cache.
        rewrite E. simpl. destruct (due now x); simpl; [right | left; reflexivity].
        exists k, nm, dd. rewrite En. auto.
  - simpl in R. apply not_in_refs in R as [N1 N2]. split.
    + unfold Rc. apply not_in_refs. sstep. split; [exact N1|].
      intros r Hr. apply in_app_or in Hr as [Hr|Hr].
      * apply filter_In in Hr as [Hr _]. auto.
      * destruct (Hnew r Hr) as [r0 [H0 [_ [_ Ec]]]]. rewrite Ec. auto.
    + left. replace (filter (fun r => r_ch r =? ch) (filter (due now) (st_retrans s))) with (@nil rerun); [reflexivity|].
      symmetry. apply filter_nil_iff. intros r Hr. apply filter_In in Hr as [Hr _]. apply N.eqb_neq. auto.
Qed.

Lemma events_on_closed_events ch s cmds s' : events_on ch (closed_events s cmds s') = [].
Proof. unfold closed_events. apply events_on_closed. Qed.

Lemma c_timeout_notyet now : c_timeout now CNotYet = (CNotYet, []).
Proof. reflexivity. Qed.

Lemma mid_purge_dead now z s : Mid now z s -> Mid now z (purge_dead s).
Proof.
  intros [Hc Hr Hd Hi Ho H1 Ht]. constructor; simpl; auto.
  - intros r Hr0. apply filter_In in Hr0 as [Hr0 _]. auto.
  - apply NoDup_map_filter. exact H1.
Qed.

(* one iteration, per channel *)
Lemma rc_iterate ch s it cs :
  Good s -> Rc ch s cs -> i_now it < u64_max ->
  NoDup (intro_chans (i_cmds it)) -> (In ch (intro_chans (i_cmds it)) -> cs = CNotYet) ->
  c_obs_ok (fst (c_iter ch it cs)) (snd (c_iter ch it cs)) (events_on ch (o_events (snd (iterate s it)))) = true
  /\ (has_shutdown (i_cmds it) = false -> Rc ch (fst (iterate s it)) (fst (c_iter ch it cs))).
Proof.
  intros [I H B] R Hnow ND F. rewrite (iterate_eq s it H).
  destruct (rc_timeout ch (i_now it) s cs R B (inv_own s I)) as [R1 Ev1].
  pose proof (mid_purge_dead _ _ _ (inv_mid s (i_now it) I)) as M1. fold (timeout_phase_p (i_now it) s) in M1.
  assert (F1 : In ch (intro_chans (i_cmds it)) -> fst (c_timeout (i_now it) cs) = CNotYet).
  { intros Hin. rewrite (F Hin). reflexivity. }
  unfold iterate_p, c_iter.
  destruct (run_cmds (i_now it) (i_cmds it) (timeout_phase_p (i_now it) s)) as [[s2 p_c] ev_c] eqn:E.
  destruct (rc_cmds ch (i_now it) (i_cmds it) false _ _ s2 p_c ev_c Hnow M1 R1 ND F1 E) as [Ev2 RH].
  pose proof (alive_run_cmds (i_now it) (i_cmds it) (timeout_phase_p (i_now it) s) eq_refl) as A.
  rewrite E in A. cbn [fst] in A. rewrite A.
  destruct (c_timeout (i_now it) cs) as [cs1 e1]. cbn [fst snd] in *.
  destruct (c_cmds (i_now it) ch (i_cmds it) cs1) as [cs2 e2]. cbn [fst snd] in *.
  destruct (has_shutdown (i_cmds it)) eqn:HS; cbn [negb].
  - cbn [fst snd o_events]. split; [|discriminate].
    rewrite !events_on_app, events_on_closed_events, app_nil_r, Ev1, Ev2.
    unfold c_obs_ok. rewrite evs_eqb_refl. reflexivity.
  - destruct (RH eq_refl) as [R2 [z' M2]].
    destruct (rerun_phase0 (i_now it) s2) as [[s3 p_r] ev_r] eqn:E3.
    destruct (rc_rerun ch (i_now it) s2 cs2 s3 p_r ev_r R2 (mid_one _ _ _ M2) E3) as [R3 Ev3].
    cbn [fst snd o_events]. split.
    + rewrite !events_on_app, events_on_closed_events, app_nil_r, Ev1, Ev2.
      unfold c_obs_ok. destruct Ev3 as [->|[k [nm [dd [-> ->]]]]].
      * rewrite app_nil_r, evs_eqb_refl. reflexivity.
      * rewrite app_assoc, evs_eqb_refl. apply orb_true_r.
    + intros _. destruct (ip_phase_frame (i_now it) s3) as [_ [F2 [F3 _]]].
      eapply rc_frame; [exact F2 | exact F3 | exact R3].
Qed.

Lemma c_iter_notyet ch it :
  ~ In ch (intro_chans (i_cmds it)) -> fst (c_iter ch it CNotYet) = CNotYet.
Proof.
  unfold c_iter. simpl. generalize (i_now it). intros now.
  induction (i_cmds it) as [|c rest IH]; intros H; [reflexivity|].
  assert (Hsplit : intro_chans (c :: rest) = intro_chans [c] ++ intro_chans rest).
  { unfold intro_chans. simpl. rewrite app_nil_r. reflexivity. }
  rewrite Hsplit in H.
  assert (H1 : ~ In ch (intro_chans [c])) by (intros X; apply H; apply in_or_app; left; exact X).
  assert (H2 : ~ In ch (intro_chans rest)) by (intros X; apply H; apply in_or_app; right; exact X).
  simpl. rewrite c_cmd_notyet by exact H1.
  specialize (IH H2). destruct (c_cmds now ch rest CNotYet) as [cs2 e2]. simpl in *.
  destruct c; simpl; try exact IH. reflexivity.
Qed.

Lemma c_check_run ch : forall h s cs,
  Good s -> Rc ch s cs -> in_range h -> wf_cmds_hist h -> NoDup (hist_chans h) ->
  (In ch (hist_chans h) -> cs = CNotYet) -> c_check ch h (run s h) cs = true.
Proof.
  induction h as [|it h IH]; intros s cs G R Rg W ND F; [reflexivity|].
  destruct (st_alive s) eqn:A; [|rewrite run_dead by exact A; reflexivity].
  rewrite run_cons in * by exact A. cbn [c_check].
  inversion Rg as [|x xs Rg1 Rg2]; subst. inversion W as [|y ys W1 W2]; subst.
  unfold hist_chans in ND, F. cbn [flat_map] in ND, F. fold (hist_chans h) in ND, F.
  destruct (NoDup_app_inv _ _ ND) as [ND2 Hdis].
  assert (ND1 : NoDup (intro_chans (i_cmds it))).
  { clear - ND. induction (intro_chans (i_cmds it)) as [|y l IHl]; [constructor|].
    simpl in ND. inversion ND as [|z zs Hn ND']; subst. constructor; [|apply IHl; exact ND'].
    intros H. apply Hn. apply in_or_app. left. exact H. }
  assert (F1 : In ch (intro_chans (i_cmds it)) -> cs = CNotYet).
  { intros H. apply F. apply in_or_app. left. exact H. }
  destruct (rc_iterate ch s it cs G R Rg1 ND1 F1) as [OK RH].
  destruct (iterate_shape s it) as [_ [X AL]].
  destruct (c_iter ch it cs) as [cs' expected] eqn:EC. cbn [fst snd] in *.
  rewrite OK, X. simpl.
  destruct (has_shutdown (i_cmds it)) eqn:HS; [reflexivity|].
  apply IH; auto.
  - apply good_iterate; auto.
  - intros H. assert (Hn : ~ In ch (intro_chans (i_cmds it))) by (intros H1; exact (Hdis ch H1 H)).
    assert (cs = CNotYet) by (apply F; apply in_or_app; right; exact H). subst cs.
    pose proof (c_iter_notyet ch it Hn) as E. rewrite EC in E. exact E.
Qed.

Lemma rc_init ch t0 : Rc ch (init t0) CNotYet.
Proof. rewrite init_spec. simpl. tauto. Qed.

Lemma nodupN_NoDup l : nodupN l = true -> NoDup l.
Proof.
  induction l as [|x l IH]; simpl; intros H; [constructor|].
  apply andb_true_iff in H as [H1 H2]. constructor; [|auto].
  intros Hin. apply negb_true_iff in H1.
  assert (memN x l = true).
  { clear - Hin. induction l as [|y l IHl]; [contradiction|]. simpl. destruct Hin as [->|Hin].
    - rewrite N.eqb_refl. reflexivity.
    - rewrite IHl by exact Hin. apply orb_true_r. }
  congruence.
Qed.

Lemma wf_hist_nodup t0 h : wf_hist t0 h = true -> NoDup (hist_chans h).
Proof.
  unfold wf_hist. intros H. apply andb_true_iff in H as [H _]. apply andb_true_iff in H as [_ H].
  apply nodupN_NoDup. exact H.
Qed.

(* C13: the conclusion of the theorem in Props/C13.v *)
Lemma chk_C13_model t0 h : wf_hist t0 h = true -> chk_C13 t0 h (model_run t0 h) = true.
Proof.
  intros W. unfold chk_C13, model_run. cbn [o_sent o_events init_out].
  rewrite shape_ok_run by (rewrite init_spec; reflexivity). rewrite pkts_shaped_run. simpl.
  apply andb_true_iff. split.
  - apply forallb_forall. intros ch _.
    apply (c_check_run ch h (init t0) CNotYet (good_init t0) (rc_init ch t0)
             (wf_hist_in_range t0 h W) (wf_hist_cmds t0 h W) (wf_hist_nodup t0 h W) (fun _ => eq_refl)).
  - apply forallb_forall. intros k _.
    apply (k_check_run k h (init t0) None (good_init t0) (rk_init k t0)
             (wf_hist_in_range t0 h W) (wf_hist_cmds t0 h W)).
Qed.

(* ================================================================== C12: wake-ups *)
Lemma chain_dues_due_work k s st :
  Rk k s st -> forall d, In d (chain_dues st) -> In d (due_work s).
Proof.
  intros R d Hd. destruct st as [c|]; [|contradiction]. destruct R as [_ [ch [L P]]].
  unfold chain_dues in Hd. unfold due_work. apply in_app_or in Hd as [Hd|Hd].
  - destruct (chain_goes_on c); [|contradiction]. destruct Hd as [<-|[]].
    apply in_or_app. left.
    assert (In (chain_rerun k c ch) (pend k (st_retrans s))) by (rewrite P; left; reflexivity).
    apply filter_In in H as [H _]. apply in_map_iff. exists (chain_rerun k c ch). split; [reflexivity | exact H].
  - destruct (c_deadline c) as [d'|] eqn:E; [|contradiction]. destruct Hd as [<-|[]].
    apply in_or_app. right. apply in_or_app. left. apply in_deadlines.
    exists (wkey_okey k, mkOwner ch (Some d')). split; [apply lookup_In; exact L | reflexivity].
Qed.

Lemma run_cmds_ip now cmds : forall s,
  st_next_ip (fst (fst (run_cmds now cmds s))) = st_next_ip s
  /\ (has_shutdown cmds = false -> st_ip_ival (fst (fst (run_cmds now cmds s))) = ip_cmds cmds (st_ip_ival s)).
Proof.
  induction cmds as [|c rest IH]; intros s; simpl; [auto|].
  destruct (exec_cmd now c s) as [[s1 p1] e1] eqn:E1.
  assert (H1 : st_next_ip s1 = st_next_ip s
               /\ st_ip_ival s1 = match c with CSetIp secs => secs * 1000 | _ => st_ip_ival s end).
  { destruct c as [host nm cache timeout ch|host nm|secs|]; simpl in E1.
    - unfold exec_start in E1. destruct cache; injection E1 as <- _ _; auto.
    - unfold exec_stop in E1. destruct (lookup _ _); injection E1 as <- _ _; auto.
    - injection E1 as <- _ _. simpl. rewrite ip_check_interval_of_secs_pinned. auto.
    - injection E1 as <- _ _. auto. }
  destruct H1 as [N1 V1]. specialize (IH s1).
  destruct (run_cmds now rest s1) as [[s2 p2] e2]. cbn [fst] in IH. destruct IH as [N2 V2].
  destruct c; cbn [fst]; unfold has_shutdown in *; simpl;
    try (split; [congruence | intros HS; rewrite (V2 HS), V1; reflexivity]).
  split; [exact N1 | discriminate].
Qed.

Lemma iterate_ip s it :
  has_shutdown (i_cmds it) = false ->
  (st_next_ip (fst (iterate s it)), st_ip_ival (fst (iterate s it)))
  = ip_step (i_now it) (i_cmds it) (st_next_ip s, st_ip_ival s).
Proof.
  intros HS. unfold iterate.
  destruct (run_cmds_ip (i_now it) (i_cmds it) (timeout_phase (i_now it) s)) as [N2 V2].
  pose proof (alive_run_cmds (i_now it) (i_cmds it) (timeout_phase (i_now it) s) eq_refl) as A.
  destruct (run_cmds (i_now it) (i_cmds it) (timeout_phase (i_now it) s)) as [[s2 p_c] ev_c] eqn:E.
  cbn [fst] in *. rewrite A, HS. cbn [negb].
  destruct (rerun_phase (i_now it) s2) as [[s3 p_r] ev_r] eqn:E3. cbn [fst].
  unfold rerun_phase in E3. injection E3 as <- _ _.
  specialize (V2 HS). simpl in N2, V2.
  unfold ip_step, ip_phase. cbn [fst snd]. unfold set_sched. cbn [st_ip_ival st_next_ip].
  unfold ip_check_disabled, ip_check_unarmed, ip_check_due, ip_check_rearm_time, ip_check_next_time.
  rewrite N2, V2.
  destruct (ip_cmds (i_cmds it) (st_ip_ival s) =? 0); [reflexivity|].
  destruct (st_next_ip s =? 0); [reflexivity|].
  destruct (st_next_ip s <=? i_now it); reflexivity.
Qed.

Definition Rks (ks : list wkey) (s : state) (sts : list kstate) : Prop :=
  Forall2 (fun k st => Rk k s st) ks sts.

Lemma wake_covers_ok s dues :
  Inv s -> (forall d, In d dues -> In d (due_work s)) ->
  wake_covers (min_list (st_timers s)) dues = true.
Proof.
  intros I H. unfold wake_covers. destruct (min_list (st_timers s)) as [w|] eqn:E.
  - apply forallb_forall. intros d Hd. apply N.leb_le.
    eapply min_list_le; [exact E|]. apply due_work_has_timer; auto.
  - destruct dues as [|d dues]; [reflexivity|]. exfalso.
    pose proof (due_work_has_timer s I d (H d (or_introl eq_refl))) as Ht.
    apply min_list_None in E. rewrite E in Ht. contradiction.
Qed.

Lemma o_wake_iterate s it :
  has_shutdown (i_cmds it) = false -> o_wake (snd (iterate s it)) = min_list (st_timers (fst (iterate s it))).
Proof.
  intros HS. unfold iterate.
  pose proof (alive_run_cmds (i_now it) (i_cmds it) (timeout_phase (i_now it) s) eq_refl) as A.
  destruct (run_cmds (i_now it) (i_cmds it) (timeout_phase (i_now it) s)) as [[s2 p_c] ev_c].
  cbn [fst] in A. rewrite A, HS. cbn [negb].
  destruct (rerun_phase (i_now it) s2) as [[s3 p_r] ev_r]. reflexivity.
Qed.

Lemma w_check_run ks : forall h s sts,
  Good s -> Rks ks s sts -> in_range h -> wf_cmds_hist h ->
  w_check ks h (run s h) sts (st_next_ip s, st_ip_ival s) = true.
Proof.
  induction h as [|it h IH]; intros s sts G RK Rg W; [reflexivity|].
  destruct (st_alive s) eqn:A; [|rewrite run_dead by exact A; reflexivity].
  rewrite run_cons in * by exact A. cbn [w_check].
  inversion Rg as [|x xs Rg1 Rg2]; subst. inversion W as [|y ys W1 W2]; subst.
  pose proof (good_inv s G) as I.
  destruct (iterate_shape s it) as [_ [X AL]]. rewrite X.
  destruct (has_shutdown (i_cmds it)) eqn:HS; [reflexivity|].
  pose proof (good_iterate s it G (or_intror Rg1) W1 HS) as G'.
  pose proof (good_inv _ G') as I'.
  assert (RK' : Rks ks (fst (iterate s it)) (k_states ks it sts)).
  { clear - RK G HS. induction RK as [|k st ks sts R RK IHk]; simpl; [constructor|].
    constructor; [|exact IHk].
    destruct (rk_iterate k s it st G R) as [_ [_ [_ [_ RH]]]]. apply RH. exact HS. }
  rewrite <- (iterate_ip s it HS). cbn [fst snd].
  rewrite (o_wake_iterate s it HS).
  apply andb_true_iff. split; [apply andb_true_iff; split|].
  - apply wake_covers_ok; [exact I'|]. intros d Hd. apply in_app_or in Hd as [Hd|Hd].
    + apply in_flat_map in Hd as [st [Hst Hd]].
      clear - RK' Hst Hd. induction RK' as [|k st' ks sts' R RK IHk]; [contradiction|].
      destruct Hst as [->|Hst]; [eapply chain_dues_due_work; eassumption | auto].
    + unfold due_work. apply in_or_app. right. apply in_or_app. right.
      unfold ip_check_disabled. destruct (st_ip_ival (fst (iterate s it)) =? 0); exact Hd.
  - unfold moves_on. rewrite <- (o_wake_iterate s it HS).
    destruct (o_wake (snd (iterate s it))) as [w|] eqn:Ew; [|reflexivity].
    destruct (iterate_wake s it I (or_intror Rg1) w Ew) as [Hl|[Hzt ->]].
    + apply N.ltb_lt in Hl. rewrite Hl. reflexivity.
    + rewrite N.eqb_refl, Hzt. apply orb_true_r.
  - apply IH; auto.
Qed.

Lemma rks_init ks t0 : Rks ks (init t0) (map (fun _ => None) ks).
Proof. induction ks as [|k ks IH]; simpl; constructor; [apply rk_init | exact IH]. Qed.

Lemma chk_C12_model t0 h : wf_hist t0 h = true -> chk_C12 t0 h (model_run t0 h) = true.
Proof.
  intros W. unfold chk_C12, model_run.
  rewrite shape_ok_run by (rewrite init_spec; reflexivity).
  assert (E0 : o_wake (init_out t0) = Some (t0 + 5000)) by reflexivity.
  rewrite E0. cbn [wake_covers moves_on forallb].
  rewrite N.leb_refl. replace (t0 <? t0 + 5000) with true by (symmetry; apply N.ltb_lt; lia).
  cbn [andb orb].
  change (t0 + 5000, 5000) with (st_next_ip (init t0), st_ip_ival (init t0)).
  apply w_check_run.
  - apply good_init.
  - apply rks_init.
  - eapply wf_hist_in_range. exact W.
  - eapply wf_hist_cmds. exact W.
Qed.

(* state-level statements over all well-formed histories *)
Lemma wake_covers_work_all t0 h :
  wf_hist t0 h = true -> st_alive (final (init t0) h) = true ->
  forall d, In d (due_work (final (init t0) h)) ->
  In d (st_timers (final (init t0) h))
  /\ exists w, min_list (st_timers (final (init t0) h)) = Some w /\ w <= d.
Proof.
  intros W A d Hd. pose proof (reachable_inv t0 h (wf_hist_in_range t0 h W) A) as I.
  split; [apply due_work_has_timer; assumption | apply wake_covers_state; assumption].
Qed.

Lemma no_spin_all t0 h it :
  wf_hist t0 (h ++ [it]) = true -> st_alive (final (init t0) h) = true ->
  forall w, o_wake (snd (iterate (final (init t0) h) it)) = Some w ->
  i_now it < w \/ (zero_timeout (i_cmds it) = true /\ w = i_now it).
Proof.
  intros W A. pose proof (wf_hist_in_range _ _ W) as Rg. apply Forall_app in Rg as [R1 R2].
  inversion R2 as [|x xs Rt _]; subst.
  apply iterate_wake; [apply reachable_inv; assumption | right; exact Rt].
Qed.

(* ================================================================== direct state-level facts for C13 *)
(* after StopBrowse ty / StopResolveHostname h the state holds no retransmission and no listener
   for that search; for host names the key is the lower-cased name, so any spelling stops it *)
Lemma stop_clears s host nm :
  InvH s ->
  let s' := fst (fst (exec_stop host nm s)) in
  lookup (okey_of host nm) (st_owners s') = None
  /\ forall r, In r (st_retrans s') -> rkey r <> okey_of host nm.
Proof.
  intros H. unfold exec_stop. destruct (lookup (okey_of host nm) (st_owners s)) as [o|] eqn:L; sstep.
  - split; [apply lookup_remove_same|]. intros r Hr. apply in_purge in Hr as [_ Hr]. exact Hr.
  - split; [exact L|]. intros r Hr E. destruct (H r Hr) as [o [L' _]]. rewrite E, L in L'. discriminate.
Qed.

Lemma stop_any_spelling h1 h2 : lower h1 = lower h2 -> okey_of true h1 = okey_of true h2.
Proof. intros E. unfold okey_of. rewrite E. reflexivity. Qed.

(* a cache-only browse sends nothing and queues nothing *)
Lemma cache_browse_silent now ty ch s :
  snd (fst (exec_start now false ty true None ch s)) = []
  /\ forall r, In r (st_retrans (fst (fst (exec_start now false ty true None ch s)))) -> In r (st_retrans s).
Proof.
  unfold exec_start. sstep. split; [reflexivity|]. intros r Hr. apply in_purge in Hr as [Hr _]. exact Hr.
Qed.

(* shutdown: every search is told SearchStopped, nothing remains queued *)
Lemma shutdown_clears s :
  st_retrans (fst (fst (exec_shutdown s))) = [] /\ st_owners (fst (fst (exec_shutdown s))) = []
  /\ snd (exec_shutdown s) = map (fun e => (ow_ch (snd e), EStopped (snd (fst e)))) (st_owners s).
Proof. unfold exec_shutdown. simpl. auto. Qed.

Lemma no_spin_idle t0 h now :
  wf_hist t0 (h ++ [mkIter now []]) = true -> st_alive (final (init t0) h) = true ->
  forall w, o_wake (snd (iterate (final (init t0) h) (mkIter now []))) = Some w -> now < w.
Proof.
  intros W A w Hw. destruct (no_spin_all t0 h (mkIter now []) W A w Hw) as [H|[H _]]; [exact H|].
  discriminate.
Qed.

(* every reachable live state is Good; in particular (InvH) every queued retransmission
   belongs to a search that is still current - same channel, time before its deadline *)
Lemma good_final : forall h s,
  Good s -> in_range h -> wf_cmds_hist h -> st_alive (final s h) = true -> Good (final s h).
Proof.
  induction h as [|it h IH]; intros s G Rg W A; [exact G|].
  destruct (st_alive s) eqn:As; [|rewrite final_dead in A by exact As; congruence].
  rewrite final_cons in * by exact As.
  inversion Rg as [|x xs Rg1 Rg2]; subst. inversion W as [|y ys W1 W2]; subst.
  destruct (iterate_shape s it) as [_ [_ AL]].
  destruct (has_shutdown (i_cmds it)) eqn:HS.
  - simpl in AL. rewrite final_dead in A by exact AL. congruence.
  - apply IH; auto. apply good_iterate; auto.
Qed.

Lemma no_chain_without_search t0 h :
  wf_hist t0 h = true -> st_alive (final (init t0) h) = true ->
  forall r, In r (st_retrans (final (init t0) h)) ->
  exists o, lookup (rkey r) (st_owners (final (init t0) h)) = Some o /\ ow_ch o = r_ch r
            /\ (forall d, ow_deadline o = Some d -> r_time r < d).
Proof.
  intros W A. apply good_invh. apply good_final;
    [apply good_init | eapply wf_hist_in_range; exact W | eapply wf_hist_cmds; exact W | exact A].
Qed.

(* a retransmission whose search is gone is dropped by the re-run: no query, no event, nothing queued *)
Lemma dead_rerun_dropped now s r :
  rerun_live (st_owners s) r = false ->
  ~ In r (filter (rerun_live (st_owners s)) (filter (due now) (st_retrans s))).
Proof. intros HL Hin. apply filter_In in Hin as [_ Hin]. congruence. Qed.
