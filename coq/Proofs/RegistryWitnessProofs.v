(* The model on the concrete histories of Proofs/RegistryWitnesses.v (generated from runs of the
   real daemon): the executable statements chk_C07 / chk_C08 / chk_C09 evaluated on the model's
   own observation.  Empty list = accepted; VKnown k = the deviation of class k. *)
From Coq Require Import List NArith Bool.
From Mdns Require Import Bytes Rec ParamsRegistry Names WireOut Registry RegistryDaemon RegistrySpec RegistryWitnesses
     RegistryHistoryProofs.
Import ListNotations.
Open Scope N_scope.

Definition self7 (ifs : list intf) (its : list iter) : list verdict :=
  chk_C07 g7_init (d_init ifs) its (model_obs (d_init ifs) its).
Definition self8 (ifs : list intf) (its : list iter) : list verdict :=
  chk_C08 [] (d_init ifs) its (model_obs (d_init ifs) its).
Definition self9 (ifs : list intf) (its : list iter) : list verdict :=
  chk_C09 (d_init ifs) its (model_obs (d_init ifs) its).

(* per iteration: (time, a probe query was sent, an announcement was sent, a goodbye was sent) *)
Definition timeline (ifs : list intf) (its : list iter) : list (N * bool * bool * bool) :=
  map (fun io => let '(it, o) := io in
         (it_now it,
          existsb (fun s => is_probe (snd s)) (sends_of (ob_outs o)),
          existsb (fun s => is_announcement (snd s)) (sends_of (ob_outs o)),
          existsb (fun s => is_goodbye (snd s)) (sends_of (ob_outs o))))
      (combine its (model_obs (d_init ifs) its)).

Definition busy (tl : list (N * bool * bool * bool)) : list (N * bool * bool * bool) :=
  filter (fun e => let '(_, p, a, g) := e in p || a || g) tl.

(* all verdicts are the known deviation k, and there is at least one *)
Definition only_known (k : N) (vs : list verdict) : Prop :=
  vs <> [] /\ forallb (fun v => match v with VKnown c => c =? k | VFail _ => false end) vs = true.

(* "inst._t._tcp.local." *)
Definition n_inst : bytes := [105;110;115;116;46;95;116;46;95;116;99;112;46;108;111;99;97;108;46].

(* jitter 145: probes at T = t0 + 145, T + 250, T + 500, announcements at T + 750 and T + 1750 *)
Lemma w_exact_timeline :
  busy (timeline w_exact_ifs w_exact_its) =
  [ (1000145, true, false, false); (1000395, true, false, false); (1000645, true, false, false);
    (1000895, false, true, false); (1001895, false, true, false) ] /\
  self7 w_exact_ifs w_exact_its = [] /\ self8 w_exact_ifs w_exact_its = [] /\ self9 w_exact_ifs w_exact_its = [].
Proof. repeat split; vm_compute; reflexivity. Qed.

Lemma w_unregister_accepted :
  self9 w_unregister_ifs w_unregister_its = [] /\ self7 w_unregister_ifs w_unregister_its = [] /\
  busy (timeline w_unregister_ifs w_unregister_its) =
  [ (1000145, true, false, false); (1000395, true, false, false); (1000645, true, false, false);
    (1000895, false, true, false); (1001895, false, true, false);
    (1002500, false, false, true); (1002620, false, false, true) ].
Proof. repeat split; vm_compute; reflexivity. Qed.

(* C07: what stays refuted *)
Lemma w_late_refutes :
  busy (timeline w_late_ifs w_late_its) = [ (1000145, true, false, false); (1000900, false, true, false) ] /\
  only_known 42 (self7 w_late_ifs w_late_its).
Proof. split; [vm_compute; reflexivity|split; [vm_compute; discriminate|vm_compute; reflexivity]]. Qed.
Lemma w_join_known : only_known 44 (self7 w_join_ifs w_join_its).
Proof. split; [vm_compute; discriminate|vm_compute; reflexivity]. Qed.

(* C07: after a lost tie-break followed by a host rename the instance name is probed again
   (three more probe queries) before it is announced *)
Lemma w_skipreprobe_fixed :
  self7 w_skipreprobe_ifs w_skipreprobe_its = [] /\
  wire_probe_times 2 [100;101;118;45;49;46;95;116;46;95;116;99;112;46;108;111;99;97;108;46]
                   (d_init w_skipreprobe_ifs) w_skipreprobe_its = [1000222; 1000696; 1000946; 1001196].
Proof. split; vm_compute; reflexivity. Qed.

(* ... but the restart comes before the second the lost tie-break asks for *)
Lemma w_skipreprobe_known8 : only_known 30 (self8 w_skipreprobe_ifs w_skipreprobe_its).
Proof. split; [vm_compute; discriminate|vm_compute; reflexivity]. Qed.

(* C07: the interface goes away during probing and comes back: three new probes, then two announcements *)
Lemma w_toggle_accepted :
  self7 w_toggle_ifs w_toggle_its = [] /\
  busy (timeline w_toggle_ifs w_toggle_its) =
  [ (1000145, true, false, false); (1000395, true, false, false);
    (1001098, true, false, false); (1001348, true, false, false); (1001598, true, false, false);
    (1001848, false, true, false); (1002848, false, true, false) ].
Proof. split; vm_compute; reflexivity. Qed.

(* C08: the former deviations are gone: renamed by a conflict, the goodbye, the direct answers and
   the lookup use the current names; a 62-byte label no longer kills the daemon thread *)
Lemma w_former_c08_accepted :
  self8 w_renamed_ifs w_renamed_its = [] /\ self8 w_hostrenamed_ifs w_hostrenamed_its = [] /\
  self8 w_longlabel_ifs w_longlabel_its = [] /\ self8 w_mixedcase_ifs w_mixedcase_its = [].
Proof. repeat split; vm_compute; reflexivity. Qed.

(* C08: a competing probe whose record list extends the daemon's own wins by the length rule: the
   daemon's next probe for the name comes a second later (probes at +145, then from +1300) *)
Lemma w_prefix_lost_defers :
  self8 w_prefix_lost_ifs w_prefix_lost_its = [] /\
  wire_probe_times 2 n_inst (d_init w_prefix_lost_ifs) w_prefix_lost_its = [1000145; 1001300; 1001550; 1001800].
Proof. split; vm_compute; reflexivity. Qed.

(* C09: the former deviations are gone *)
Lemma w_former_c09_accepted :
  self9 w_renamed_ifs w_renamed_its = [] /\ self9 w_probing_goodbye_ifs w_probing_goodbye_its = [] /\
  self9 w_resend_if_ifs w_resend_if_its = [].
Proof. repeat split; vm_compute; reflexivity. Qed.

(* round 3: an announcement made by add_interface is repeated one second later (fix 4b0055d) *)
Lemma w_added_twice_accepted :
  self7 w_added_twice_ifs w_added_twice_its = [] /\
  busy (timeline w_added_twice_ifs w_added_twice_its) =
  [ (1000000, false, true, false); (1001000, false, true, false);
    (1002600, false, true, false); (1003600, false, true, false) ].
Proof. split; vm_compute; reflexivity. Qed.

(* round 3: probes started by a pending second announcement on a re-created registry are due work
   and are sent 250 ms apart (fix 2ff6a49 gives them their timers) *)
Lemma w_resend_probes_accepted :
  self7 w_resend_probes_ifs w_resend_probes_its = [] /\
  busy (timeline w_resend_probes_ifs w_resend_probes_its) =
  [ (1000145, true, false, false); (1000395, true, false, false); (1000645, true, false, false);
    (1000895, false, true, false);
    (1001993, true, false, false); (1002243, true, false, false); (1002493, true, false, false) ].
Proof. split; vm_compute; reflexivity. Qed.

(* ---- round 4: the history invariants on witness runs (non-vacuity) and one refutation ---------------- *)

Definition state_after (ifs : list intf) (its : list iter) (k : nat) : dstate := run_state (d_init ifs) (firstn k its).
Definition queue_times (st : dstate) : list N := map fst (d_retrans st).
Definition has_goodbye_repeat (st : dstate) : bool :=
  existsb (fun e => match snd e with UnregisterResend m _ _ => is_goodbye m | _ => false end) (d_retrans st).
Definition next_sends (st : dstate) : list (list N) :=
  map (fun kr => map (fun np => pb_next (snd np)) (rg_probing (snd kr))) (d_regs st).

(* w_unregister: after the first announcement (+895) its repeat is queued for +1895; after the
   unregister at +2500 the repeat of the goodbye - a goodbye message - is queued for +2620; after
   that iteration the queue is empty *)
Lemma w_unregister_queue :
  queue_times (state_after w_unregister_ifs w_unregister_its 5) = [1001895] /\
  queue_times (state_after w_unregister_ifs w_unregister_its 7) = [1002620] /\
  has_goodbye_repeat (state_after w_unregister_ifs w_unregister_its 7) = true /\
  queue_times (state_after w_unregister_ifs w_unregister_its 8) = [] /\
  d_svcs (state_after w_unregister_ifs w_unregister_its 8) = [].
Proof. repeat split; vm_compute; reflexivity. Qed.

(* w_unregister: after the iteration at +145 the two probes (instance and host name) are due at +395 *)
Lemma w_unregister_next_sends :
  next_sends (state_after w_unregister_ifs w_unregister_its 2) = [[1000395; 1000395]] /\
  next_sends (state_after w_unregister_ifs w_unregister_its 5) = [[]].
Proof. split; vm_compute; reflexivity. Qed.

(* w_added_twice: the announcement add_interface makes at +2600 is queued again for +3600 *)
Lemma w_added_twice_queue :
  queue_times (state_after w_added_twice_ifs w_added_twice_its 1) = [1001000] /\
  queue_times (state_after w_added_twice_ifs w_added_twice_its 4) = [1003600] /\
  queue_times (state_after w_added_twice_ifs w_added_twice_its 5) = [].
Proof. repeat split; vm_compute; reflexivity. Qed.

(* formerly a refutation (round 4), now holding (fix d685fcf): the service is unregistered (OK) after its
   second probe; the registry forgets the instance name at once - only the host-name probe is left
   (n_host), the third probe query at +645 ms is for the host name only, at +895 ms the host name
   alone becomes active; the re-registration at +3000 ms is probed three times anew and announced
   twice *)
Definition n_host : bytes := [104; 46; 108; 111; 99; 97; 108; 46].        (* "h.local." *)
Definition reg_shape (st : dstate) : list (list bytes * list bytes * list (bytes * bytes)) :=
  map (fun kr => (map fst (rg_probing (snd kr)), map fst (rg_active (snd kr)), rg_changes (snd kr))) (d_regs st).
Lemma w_unreg_probing_forgets :
  reg_shape (state_after w_unreg_probing_ifs w_unreg_probing_its 3) = [([n_inst; n_host], [], [])] /\
  d_svcs (state_after w_unreg_probing_ifs w_unreg_probing_its 4) = [] /\
  reg_shape (state_after w_unreg_probing_ifs w_unreg_probing_its 4) = [([n_host], [], [])] /\
  reg_shape (state_after w_unreg_probing_ifs w_unreg_probing_its 6) = [([], [n_host], [])] /\
  wire_probe_times 2 n_inst (d_init w_unreg_probing_ifs) w_unreg_probing_its
  = [1000145; 1000395; 1003079; 1003329; 1003579] /\
  wire_probe_times 2 n_host (d_init w_unreg_probing_ifs) w_unreg_probing_its = [1000145; 1000395; 1000645] /\
  busy (timeline w_unreg_probing_ifs w_unreg_probing_its) =
  [ (1000145, true, false, false); (1000395, true, false, false); (1000645, true, false, false);
    (1003079, true, false, false); (1003329, true, false, false); (1003579, true, false, false);
    (1003829, false, true, false); (1004829, false, true, false) ] /\
  self9 w_unreg_probing_ifs w_unreg_probing_its = [] /\ self7 w_unreg_probing_ifs w_unreg_probing_its = [].
Proof. repeat split; vm_compute; reflexivity. Qed.

(* ---- round 5: live responses on the unregister witness -------------------------------------------------- *)

Definition live_resp (o : out) : bool :=
  match o with OSend _ _ _ m => o_resp m && negb (is_goodbye m) | _ => false end.
Definition outs_of (ifs : list intf) (its : list iter) (k : nat) : list out :=
  match nth_error its k with
  | Some it => snd (fst (fst (iterate (state_after ifs its k) it)))
  | None => []
  end.

(* the announcement at +895 ms is a live response while the service is registered (one key in the
   map, three micro-states in that iteration: the probing pass announces); after the unregister at
   +2500 ms the map is empty and neither the repeat iteration nor the PTR question at +3000 ms
   produces a live response *)
Lemma w_unregister_live :
  existsb live_resp (outs_of w_unregister_ifs w_unregister_its 4) = true /\
  length (d_svcs (state_after w_unregister_ifs w_unregister_its 4)) = 1%nat /\
  d_svcs (state_after w_unregister_ifs w_unregister_its 7) = [] /\
  existsb live_resp (outs_of w_unregister_ifs w_unregister_its 7) = false /\
  existsb live_resp (outs_of w_unregister_ifs w_unregister_its 8) = false /\
  outs_of w_unregister_ifs w_unregister_its 7 <> [].
Proof. repeat split; try (vm_compute; reflexivity). vm_compute. discriminate. Qed.

(* w_exact: the first announcement at +895 ms queues its repeat for +1895 ms; the entry is still queued
   when that iteration starts and the iteration sends an announcement *)
Definition sends_announcement (os : list out) : bool :=
  existsb (fun o => match o with OSend _ _ _ m => is_announcement m | _ => false end) os.
Lemma w_exact_second_sent :
  sends_announcement (outs_of w_exact_ifs w_exact_its 4) = true /\
  queue_times (state_after w_exact_ifs w_exact_its 5) = [1001895] /\
  option_map it_now (nth_error w_exact_its 5) = Some 1001895 /\
  sends_announcement (outs_of w_exact_ifs w_exact_its 5) = true /\
  queue_times (state_after w_exact_ifs w_exact_its 6) = [].
Proof. repeat split; vm_compute; reflexivity. Qed.

(* ---- round 7: the deferral after a lost tie-break, on w_prefix_lost ------------------------------------------
   after the competing probe at +300 ms the probe for the instance name is due at +1300 ms; empty
   iterations at +500, +1000, +1299 ms send no probe query for it, the iteration at +1300 ms does *)
Definition idle (t : N) : iter := mkIter t [] [] [].
Lemma w_prefix_lost_deferral :
  option_map pb_next (aget n_inst (rg_probing (get_reg (state_after w_prefix_lost_ifs w_prefix_lost_its 3) 2))) = Some 1001300 /\
  wire_probe_times 2 n_inst (state_after w_prefix_lost_ifs w_prefix_lost_its 3) [idle 1000500; idle 1001000; idle 1001299] = [] /\
  wire_probe_times 2 n_inst (state_after w_prefix_lost_ifs w_prefix_lost_its 3) [idle 1000500; idle 1001300] = [1001300].
Proof. repeat split; vm_compute; reflexivity. Qed.

(* w_exact: the probing pass at +895 ms completes the probes; the service is announced in that pass,
   is Announced afterwards and its second announcement is queued *)
Lemma w_exact_completion :
  sends_announcement (outs_of w_exact_ifs w_exact_its 4) = true /\
  map (fun ks => s_status (snd ks)) (d_svcs (state_after w_exact_ifs w_exact_its 4)) = [[(2, SProbing)]] /\
  map (fun ks => s_status (snd ks)) (d_svcs (state_after w_exact_ifs w_exact_its 5)) = [[(2, SAnnounced)]] /\
  queue_times (state_after w_exact_ifs w_exact_its 5) = [1001895].
Proof. repeat split; vm_compute; reflexivity. Qed.

(* ---- round 9: w_exact as an instance of the liveness theorem ---------------------------------------------------
   the registration at t0 (jitter 145) leaves both probes in their initial state with T = t0 + 145; the
   iterations come at T, T + 250, T + 500, T + 750 (never late); after the one at T + 750 the service
   is Announced *)
Lemma w_exact_liveness_shape :
  map (fun kr => map (fun np => (pb_start (snd np), pb_next (snd np))) (rg_probing (snd kr))) (d_regs (state_after w_exact_ifs w_exact_its 1))
  = [[(1000145, 1000145); (1000145, 1000145)]] /\
  map it_now (firstn 5 w_exact_its) = [1000000; 1000145; 1000395; 1000645; 1000895] /\
  map (fun ks => s_status (snd ks)) (d_svcs (state_after w_exact_ifs w_exact_its 5)) = [[(2, SAnnounced)]].
Proof. repeat split; vm_compute; reflexivity. Qed.

(* ---- round 10: w_exact before and after the announcing iteration ---------------------------------------------
   before T + 750 (= +895 ms): status Probing, nothing active on the interface; afterwards the four
   records are active under the two names and the second announcement is queued for T + 1750 and sent *)
Lemma w_exact_before_after :
  map (fun kr => map fst (rg_active (snd kr))) (d_regs (state_after w_exact_ifs w_exact_its 4)) = [[]] /\
  map (fun ks => s_status (snd ks)) (d_svcs (state_after w_exact_ifs w_exact_its 4)) = [[(2, SProbing)]] /\
  map (fun kr => map (fun np => (fst np, length (snd np))) (rg_active (snd kr))) (d_regs (state_after w_exact_ifs w_exact_its 5))
  = [[(n_inst, 2%nat); (n_host, 1%nat)]] /\
  queue_times (state_after w_exact_ifs w_exact_its 5) = [1001895] /\
  sends_announcement (outs_of w_exact_ifs w_exact_its 5) = true.
Proof. repeat split; vm_compute; reflexivity. Qed.
