(* Concrete inputs for C06: witnesses of the deviations of the code from the text (those that stay
   and those repaired since; each is also replayed on the implementation, corpus/C06.cases), and a
   non-vacuity example. *)
From Coq Require Import List NArith Bool String Ascii.
From Mdns Require Import Res Bytes Rec Intf Responder ResponderSpec.
Import ListNotations.
Open Scope N_scope.

Definition b (s : string) : bytes := map (fun c => N.of_nat (nat_of_ascii c)) (list_ascii_of_string s).

(* eth0 (index 2): 192.168.1.10/24 and fd00:1::10/64 *)
Definition ip4 (a b c d : N) : ip := V4 (((a * 256 + b) * 256 + c) * 256 + d).
Definition w_v6 : ip := V6 (N.shiftl 64768 112 + N.shiftl 1 96 + 16).        (* fd00:1::10 *)
Definition w_intf : myintf :=
  mkMyIntf (b "eth0") 2
    [mkIfAddr (ip4 192 168 1 10) (N.shiftl (N.ones 24) 8); mkIfAddr w_v6 (N.shiftl (N.ones 64) 64)].

Definition w_svc (ty : string) (sub : option string) (inst host : string) (addrs : list ip) (port : N) : entry :=
  let full := b (inst ++ "." ++ ty)%string in
  mkEntry (lower full)
    (mkService (b ty) (option_map b sub) full (b host) addrs port 120 4500 0 0 [0])
    Announced.

Definition w_query (id : N) (qs : list (string * N)) (known : list rr) : msg :=
  mkMsg id 0 (N.of_nat (List.length qs)) (N.of_nat (List.length known)) 0 0
        (map (fun q => mkQ (b (fst q)) (snd q) 1 false) qs) known [] [].

Definition peer4 : ip := ip4 192 168 1 99.

Definition http := "_http._tcp.local."%string.
Definition svc1 := w_svc http None "MyInst" "MyHost.local." [ip4 192 168 1 10] 8080.
Definition svc2 := w_svc http None "Other" "host2.local." [ip4 192 168 1 10] 81.

(* 1. two services of one type, meta query: the PTR "_services._dns-sd._udp.local. -> _http._tcp.local."
      is sent twice *)
Definition w_meta_dup : hq_input :=
  mkHq [svc1; svc2] [] w_intf (w_query 0 [("_services._dns-sd._udp.local."%string, 12)] []) peer4 5353.

(* 2. subtype question: answered with the type PTR; the subtype PTR is only an additional *)
Definition svc_sub := w_svc http (Some "_printer._sub._http._tcp.local."%string) "MyInst" "MyHost.local."
                            [ip4 192 168 1 10] 8080.
Definition w_sub_answer : hq_input :=
  mkHq [svc_sub] [] w_intf (w_query 0 [("_printer._sub._http._tcp.local."%string, 12)] []) peer4 5353.

(* 3. dual-stack service asked over IPv4: the AAAA record of the same link is not among the additionals *)
Definition svc_dual := w_svc http None "MyInst" "MyHost.local." [ip4 192 168 1 10; w_v6] 8080.
Definition w_family : hq_input :=
  mkHq [svc_dual] [] w_intf (w_query 0 [(http, 12)] []) peer4 5353.

(* 3b. IPv6-only service asked over IPv4 on a dual-stack interface: silence *)
Definition svc_v6only := w_svc http None "MyInst" "MyHost.local." [w_v6] 8080.
Definition w_family_silent : hq_input :=
  mkHq [svc_v6only] [] w_intf (w_query 0 [(http, 12)] []) peer4 5353.

(* 4. host renamed after a conflict: the direct SRV answer still points to the lost host name *)
Definition w_srv_old_host : hq_input :=
  mkHq [svc1] [(b "MyHost.local.", b "MyHost-2.local.")] w_intf
       (w_query 0 [("MyInst._http._tcp.local."%string, 33)] []) peer4 5353.

(* 5. mixed-case instance renamed after a conflict: a question for the new name gets no answer ... *)
Definition w_nc_inst := [(b "MyInst._http._tcp.local.", b "MyInst (2)._http._tcp.local.")].
Definition w_lookup_lower : hq_input :=
  mkHq [svc1] w_nc_inst w_intf (w_query 0 [("MyInst (2)._http._tcp.local."%string, 33)] []) peer4 5353.
(* ... and a question for the name the daemon lost is answered *)
Definition w_lookup_lower_old : hq_input :=
  mkHq [svc1] w_nc_inst w_intf (w_query 0 [("MyInst._http._tcp.local."%string, 16)] []) peer4 5353.

(* 6. legacy unicast: the response carries id 0, not the id of the query *)
Definition w_legacy_id : hq_input :=
  mkHq [svc1] [] w_intf (w_query 4660 [("myhost.local."%string, 1)] []) peer4 40000.

Definition only (n : nat) : quirks := mkQuirks (Nat.eqb n 1) (Nat.eqb n 2).

Definition refutes (n : nat) (w : hq_input) : bool :=
  wf_input w && negb (chk_C06 w (handle_query w)) && explained_by (only n) w (handle_query w).

(* the two deviations that stay *)
Lemma w_sub_answer_ok : refutes 1 w_sub_answer = true.        Proof. vm_compute. reflexivity. Qed.
Lemma w_family_ok : refutes 2 w_family = true.                Proof. vm_compute. reflexivity. Qed.
Lemma w_family_silent_ok : refutes 2 w_family_silent = true /\ handle_query w_family_silent = None.
Proof. split; vm_compute; reflexivity. Qed.

(* the witnesses of the deviations repaired in /repo (7c97a89, 76fe236, fbfe50b): the checker
   now accepts the model's reaction to them *)
Definition passes (w : hq_input) : bool := wf_input w && chk_C06 w (handle_query w).

Lemma w_meta_dup_passes : passes w_meta_dup = true /\
  match handle_query w_meta_dup with Some p => List.length (p_answers p) = 1%nat | None => False end.
Proof. split; vm_compute; reflexivity. Qed.
Lemma w_srv_old_host_passes : passes w_srv_old_host = true /\
  match handle_query w_srv_old_host with
  | Some p => map r_data (p_answers p) = [RSrv 0 0 8080 (b "MyHost-2.local.")]
  | None => False end.
Proof. split; vm_compute; reflexivity. Qed.
Lemma w_lookup_lower_passes : passes w_lookup_lower = true /\ handle_query w_lookup_lower <> None.
Proof. split; [vm_compute; reflexivity|vm_compute; discriminate]. Qed.
Lemma w_lookup_lower_old_passes : passes w_lookup_lower_old = true /\ handle_query w_lookup_lower_old = None.
Proof. split; vm_compute; reflexivity. Qed.
Lemma w_legacy_id_passes : passes w_legacy_id = true /\
  match handle_query w_legacy_id with Some p => p_id p = 4660 | None => False end.
Proof. split; vm_compute; reflexivity. Qed.

(* non-vacuity: two services (one with a subtype, both with mixed-case names), a query with four
   questions in other spellings and two known answers at exactly half the TTL (not suppressing),
   from port 5353 over IPv4: well-formed, outside every deviation class, and answered. *)
Definition svc_a := w_svc "_ipp._tcp.local." (Some "_S1._sub._ipp._tcp.local."%string) "Printer One" "SRV-box.local."
                          [ip4 192 168 1 10; ip4 203 0 113 5] 631.
Definition w_clean : hq_input :=
  mkHq [svc1; svc_a] [] w_intf
       (w_query 0 [(http, 12); ("printer one._IPP._tcp.LOCAL."%string, 255); ("srv-BOX.local."%string, 255);
                   ("_services._dns-sd._udp.local."%string, 12)]
                [mkRR (b http) 12 1 false 2250 (RPtr (b "MyInst._http._tcp.local.")); mkRR (b "SRV-box.local.") 1 1 true 60 (RAddr [192;168;1;10])])
       peer4 5353.

Lemma w_clean_ok :
  wf_input w_clean = true /\ clean w_clean = true /\
  match handle_query w_clean with
  | Some p => (List.length (p_answers p), List.length (p_additionals p)) = (6%nat, 3%nat)
  | None => False
  end.
Proof. repeat split; vm_compute; reflexivity. Qed.
