(* Daemon-level refinement for C11: the cache / refresh / evict layer of Model/LifeCache.v is one
   Gallina text, parametric in the record operations.  If two instances have related record
   operations (ops_rel), every history of loop iterations yields the same observations
   (refresh queries with their questions, ServiceRemoved / AddressesRemoved), answer sections
   of the queries aside.  Instantiated with the code's operations (trec_ops) and the property's
   literal ones (astate_ops) this is the monitor theorem of the simulated-daemon level. *)
From Coq Require Import List NArith Bool Lia.
From Mdns Require Import Res Bytes Rec ParamsLife Life LifeSpec LifeCache LifeProofs.
Import ListNotations.
Open Scope N_scope.

Local Arguments N.mul : simpl never.
Local Arguments N.add : simpl never.
Local Arguments N.sub : simpl never.
Local Arguments N.div : simpl never.
Local Arguments N.ltb : simpl never.
Local Arguments N.leb : simpl never.
Local Arguments N.eqb : simpl never.

Section Rel.
Variables (T1 T2 : Type) (O1 : ops T1) (O2 : ops T2) (Rt : T1 -> T2 -> Prop).

Record ops_rel : Prop := mkRel {
  rel_new : forall now ttl, now < B63 -> 1 <= ttl -> ttl < U32 ->
    exists t1 t2, op_new O1 now ttl = Ok t1 /\ op_new O2 now ttl = Ok t2 /\ Rt t1 t2;
  rel_expired : forall t1 t2 now, Rt t1 t2 -> op_expired O1 t1 now = op_expired O2 t2 now;
  rel_refresh : forall t1 t2 now, Rt t1 t2 ->
    exists t1' t2' b, op_refresh O1 t1 now = Ok (t1', b) /\ op_refresh O2 t2 now = Ok (t2', b) /\ Rt t1' t2';
  rel_refresh_once : forall t1 t2 now, Rt t1 t2 ->
    exists t1' t2' b, op_refresh_once O1 t1 now = Ok (t1', b) /\ op_refresh_once O2 t2 now = Ok (t2', b) /\ Rt t1' t2';
  rel_reset : forall t1 t2 ttl now, Rt t1 t2 -> now < B63 -> 1 <= ttl -> ttl < U32 ->
    exists t1' t2', op_reset O1 t1 ttl now = Ok t1' /\ op_reset O2 t2 ttl now = Ok t2' /\ Rt t1' t2';
  rel_should_flush : forall inc id t1 t2 now, Rt t1 t2 -> now < B63 ->
    exists b, op_should_flush O1 inc id t1 now = Ok b /\ op_should_flush O2 inc id t2 now = Ok b;
  rel_shorten : forall inc id t1 t2 now, Rt t1 t2 -> now < B63 ->
    op_should_flush O2 inc id t2 now = Ok true ->
    Rt (fst (op_shorten O1 t1 now)) (fst (op_shorten O2 t2 now)) /\
    snd (op_shorten O1 t1 now) = snd (op_shorten O2 t2 now);
  rel_ka : forall t1 t2 now, Rt t1 t2 ->
    (exists k, op_ka_ttl O1 t1 now = Ok k) /\ (exists k, op_ka_ttl O2 t2 now = Ok k);
  rel_ttl : forall t1 t2, Rt t1 t2 -> op_ttl O1 t1 = op_ttl O2 t2 }.

Hypothesis HR : ops_rel.

Definition Re (e1 : centry T1) (e2 : centry T2) : Prop := c_id e1 = c_id e2 /\ Rt (c_t e1) (c_t e2).
Definition Rb (b1 : bucket T1) (b2 : bucket T2) : Prop := Forall2 Re b1 b2.
Definition Rc (c1 : cache T1) (c2 : cache T2) : Prop :=
  Forall2 (fun x y => fst x = fst y /\ Rb (snd x) (snd y)) c1 c2.

Lemma Rb_nil_iff b1 b2 : Rb b1 b2 -> is_nil b1 = is_nil b2.
Proof. intros H. destruct H; reflexivity. Qed.

(* ---- add_or_update ---- *)

Lemma flush_pass_rel inc now : forall b1 b2,
  Rb b1 b2 -> now < B63 ->
  exists b1' b2' ts, flush_pass T1 O1 inc now b1 = Ok (b1', ts) /\ flush_pass T2 O2 inc now b2 = Ok (b2', ts) /\ Rb b1' b2'.
Proof.
  intros b1 b2 H Hn. induction H as [|e1 e2 b1 b2 [Hid Ht] Hb IH].
  - exists [], [], []. repeat split. constructor.
  - destruct IH as (b1' & b2' & ts & E1 & E2 & Hr).
    destruct (rel_should_flush HR inc (c_id e2) _ _ now Ht Hn) as (f & F1 & F2).
    simpl. rewrite Hid, F1, F2, E1, E2. simpl.
    destruct f.
    + destruct (rel_shorten HR inc (c_id e2) _ _ now Ht Hn F2) as [Hs Hts].
      destruct (op_shorten O1 (c_t e1) now) as [t1' tm1]. destruct (op_shorten O2 (c_t e2) now) as [t2' tm2].
      simpl in *. subst tm2. do 3 eexists. repeat split. constructor; [split; [reflexivity | exact Hs] | exact Hr].
    + do 3 eexists. repeat split. constructor; [split; assumption | exact Hr].
Qed.

Definition opt_rel {A B} (R : A -> B -> Prop) (a : option A) (b : option B) : Prop :=
  match a, b with Some x, Some y => R x y | None, None => True | _, _ => False end.

Definition rf_rel (x : bucket T1 * bool) (y : bucket T2 * bool) : Prop := Rb (fst x) (fst y) /\ snd x = snd y.

Lemma reset_first_rel inc ttl now : forall b1 b2,
  Rb b1 b2 -> now < B63 -> 1 <= ttl -> ttl < U32 ->
  exists r1 r2, reset_first T1 O1 inc ttl now b1 = Ok r1 /\ reset_first T2 O2 inc ttl now b2 = Ok r2 /\ opt_rel rf_rel r1 r2.
Proof.
  intros b1 b2 H Hn H1 H2. induction H as [|e1 e2 b1 b2 [Hid Ht] Hb IH].
  - exists None, None. repeat split.
  - simpl. rewrite Hid. destruct (matches (c_id e2) inc).
    + destruct (rel_reset HR _ _ ttl now Ht Hn H1 H2) as (t1' & t2' & E1 & E2 & Hr).
      rewrite E1, E2, (rel_ttl HR _ _ Ht). simpl. do 2 eexists. repeat split. simpl.
      constructor; [split; [reflexivity | assumption] | exact Hb].
    + destruct IH as (r1 & r2 & E1 & E2 & Hr). rewrite E1, E2. simpl.
      do 2 eexists. repeat split. destruct r1 as [[x1 v1]|], r2 as [[x2 v2]|]; simpl in *; try contradiction; auto.
      destruct Hr as [Hx Hv]. simpl in *. split; [|assumption].
      constructor; [split; assumption | exact Hx].
Qed.

Definition aou_rel (x : bucket T1 * list N * bool) (y : bucket T2 * list N * bool) : Prop :=
  Rb (fst (fst x)) (fst (fst y)) /\ snd (fst x) = snd (fst y) /\ snd x = snd y.

Lemma add_or_update_rel b1 b2 inc ttl now ifu :
  Rb b1 b2 -> now < B63 -> 1 <= ttl -> ttl < U32 ->
  exists r1 r2, add_or_update T1 O1 b1 inc ttl now ifu = Ok r1 /\ add_or_update T2 O2 b2 inc ttl now ifu = Ok r2 /\
                opt_rel aou_rel r1 r2.
Proof.
  intros Hb Hn H1 H2. unfold add_or_update.
  destruct (rel_new HR now ttl Hn H1 H2) as (t1 & t2 & N1 & N2 & Hnew). rewrite N1, N2. simpl.
  rewrite (Rb_nil_iff _ _ Hb).
  destruct (is_nil b2 && negb ifu); [exists None, None; repeat split|].
  assert (exists b1' b2' ts,
    (if i_flush inc then flush_pass T1 O1 inc now b1 else Ok (b1, [])) = Ok (b1', ts) /\
    (if i_flush inc then flush_pass T2 O2 inc now b2 else Ok (b2, [])) = Ok (b2', ts) /\ Rb b1' b2')
    as (b1' & b2' & ts & F1 & F2 & Hb').
  { destruct (i_flush inc); [apply flush_pass_rel; assumption | do 3 eexists; repeat split; assumption]. }
  rewrite F1, F2. simpl.
  destruct (reset_first_rel inc ttl now _ _ Hb' Hn H1 H2) as (r1 & r2 & E1 & E2 & Hr). rewrite E1, E2. simpl.
  destruct r1 as [[x1 v1]|], r2 as [[x2 v2]|]; simpl in Hr; try contradiction.
  - destruct Hr as [Hx Hv]. simpl in Hx, Hv. subst v2. do 2 eexists. repeat split. simpl. assumption.
  - do 2 eexists. repeat split. simpl. constructor; [split; [reflexivity | exact Hnew] | exact Hb'].
Qed.

(* ---- eviction / refresh / known answers on a Vec ---- *)

Lemma filter_rel (f1 : centry T1 -> bool) (f2 : centry T2 -> bool) b1 b2 :
  Rb b1 b2 -> (forall e1 e2, Re e1 e2 -> f1 e1 = f2 e2) -> Rb (filter f1 b1) (filter f2 b2).
Proof.
  intros H Hf. induction H as [|e1 e2 b1 b2 He Hb IH]; [constructor|].
  simpl. rewrite (Hf _ _ He). destruct (f2 e2); [constructor; assumption | assumption].
Qed.

Lemma evict_rel b1 b2 now :
  Rb b1 b2 -> Rb (fst (evict T1 O1 b1 now)) (fst (evict T2 O2 b2 now)) /\
              Rb (snd (evict T1 O1 b1 now)) (snd (evict T2 O2 b2 now)).
Proof.
  intros H. unfold evict. simpl. split; apply filter_rel; auto; intros e1 e2 [_ Ht];
    rewrite (rel_expired HR _ _ now Ht); reflexivity.
Qed.

Lemma refresh_bucket_rel now : forall b1 b2,
  Rb b1 b2 ->
  exists b1' b2' any, refresh_bucket T1 O1 b1 now = Ok (b1', any) /\ refresh_bucket T2 O2 b2 now = Ok (b2', any) /\ Rb b1' b2'.
Proof.
  intros b1 b2 H. induction H as [|e1 e2 b1 b2 [Hid Ht] Hb IH].
  - exists [], [], false. repeat split. constructor.
  - destruct IH as (b1' & b2' & any & E1 & E2 & Hr).
    destruct (rel_refresh HR _ _ now Ht) as (t1' & t2' & d & F1 & F2 & Ht').
    simpl. rewrite F1, F2, E1, E2. simpl. do 3 eexists. repeat split.
    constructor; [split; [simpl; assumption | assumption] | exact Hr].
Qed.

Lemma refresh_once_bucket_rel now : forall b1 b2,
  Rb b1 b2 ->
  exists b1' b2' due, refresh_once_bucket T1 O1 b1 now = Ok (b1', due) /\
                      refresh_once_bucket T2 O2 b2 now = Ok (b2', due) /\ Rb b1' b2'.
Proof.
  intros b1 b2 H. induction H as [|e1 e2 b1 b2 [Hid Ht] Hb IH].
  - exists [], [], []. repeat split. constructor.
  - destruct IH as (b1' & b2' & due & E1 & E2 & Hr).
    destruct (rel_refresh_once HR _ _ now Ht) as (t1' & t2' & d & F1 & F2 & Ht').
    simpl. rewrite F1, F2, E1, E2, Hid. simpl. do 3 eexists. repeat split.
    constructor; [split; [simpl; reflexivity | assumption] | exact Hr].
Qed.

Lemma known_answers_total now : forall b1 b2,
  Rb b1 b2 -> (exists l, known_answers T1 O1 b1 now = Ok l) /\ (exists l, known_answers T2 O2 b2 now = Ok l).
Proof.
  intros b1 b2 H. induction H as [|e1 e2 b1 b2 [Hid Ht] Hb [[l1 IH1] [l2 IH2]]].
  - split; eexists; reflexivity.
  - destruct (rel_ka HR _ _ now Ht) as [[k1 K1] [k2 K2]].
    simpl. rewrite IH1, IH2, K1, K2.
    split; destruct (ka_shared_filter _); simpl; eexists; reflexivity.
Qed.

(* ---- the cache ---- *)

Lemma get_bucket_rel k : forall c1 c2, Rc c1 c2 -> Rb (get_bucket T1 c1 k) (get_bucket T2 c2 k).
Proof.
  intros c1 c2 H. induction H as [|[k1 b1] [k2 b2] c1 c2 [Hk Hb] Hc IH]; [constructor|].
  simpl in *. subst k2. destruct (key_eqb k k1); assumption.
Qed.

Lemma set_bucket_rel k b1 b2 : forall c1 c2,
  Rc c1 c2 -> Rb b1 b2 -> Rc (set_bucket T1 c1 k b1) (set_bucket T2 c2 k b2).
Proof.
  intros c1 c2 H Hb. induction H as [|[k1 x1] [k2 x2] c1 c2 [Hk Hx] Hc IH].
  - simpl. rewrite (Rb_nil_iff _ _ Hb). destruct (is_nil b2); constructor; [split; [reflexivity | exact Hb] | constructor].
  - simpl in *. subst k2. destruct (key_eqb k k1).
    + rewrite (Rb_nil_iff _ _ Hb). destruct (is_nil b2); [assumption|].
      constructor; [split; [reflexivity | exact Hb] | exact Hc].
    + constructor; [split; [reflexivity | exact Hx] | exact IH].
Qed.


Lemma stored_ttl_bounds t : t < U32 -> 1 <= stored_ttl true t /\ stored_ttl true t < U32.
Proof. intros H. rewrite stored_ttl_response. unfold U32 in *. lia. Qed.

Lemma ingest_rel now : forall recs c1 c2,
  Rc c1 c2 -> now < B63 -> Forall rec_ok recs ->
  exists c1' c2', ingest T1 O1 c1 now recs = Ok c1' /\ ingest T2 O2 c2 now recs = Ok c2' /\ Rc c1' c2'.
Proof.
  induction recs as [|[id t] recs IH]; intros c1 c2 Hc Hn Hr.
  - do 2 eexists. repeat split. assumption.
  - inversion Hr as [|? ? Hr1 Hr2]; subst. unfold rec_ok in Hr1. simpl in Hr1.
    destruct (stored_ttl_bounds t Hr1) as [Hs1 Hs2].
    simpl. destruct (key_of id) as [k|]; simpl.
    + destruct (add_or_update_rel _ _ id (stored_ttl true t) now true (get_bucket_rel k _ _ Hc) Hn Hs1 Hs2)
        as (r1 & r2 & E1 & E2 & Hrel).
      rewrite E1, E2. simpl.
      destruct r1 as [[[x1 ts1] n1]|], r2 as [[[x2 ts2] n2]|]; simpl in Hrel; try contradiction.
      * destruct Hrel as (Hx & _ & _). simpl in Hx. apply IH; auto. apply set_bucket_rel; assumption.
      * apply IH; auto.
    + apply IH; auto.
Qed.

(* ---- queries ---- *)


Lemma ka_of_total c1 c2 name qtype now :
  Rc c1 c2 -> (exists l, ka_of T1 O1 c1 name qtype now = Ok l) /\ (exists l, ka_of T2 O2 c2 name qtype now = Ok l).
Proof.
  intros Hc. unfold ka_of. destruct (kind_of_type qtype) as [k|].
  - apply known_answers_total. apply get_bucket_rel. assumption.
  - split; eexists; reflexivity.
Qed.

Lemma ka_of_questions_total c1 c2 now : forall qs,
  Rc c1 c2 -> (exists l, ka_of_questions T1 O1 c1 qs now = Ok l) /\ (exists l, ka_of_questions T2 O2 c2 qs now = Ok l).
Proof.
  intros qs Hc. induction qs as [|[n t] qs [[l1 IH1] [l2 IH2]]].
  - split; eexists; reflexivity.
  - destruct (ka_of_total c1 c2 n t now Hc) as [[a1 A1] [a2 A2]].
    simpl. rewrite A1, A2, IH1, IH2. simpl. split; eexists; reflexivity.
Qed.

Lemma mk_query_rel c1 c2 qs now :
  Rc c1 c2 -> exists q1 q2, mk_query T1 O1 c1 qs now = Ok q1 /\ mk_query T2 O2 c2 qs now = Ok q2 /\ qd_eq q1 q2.
Proof.
  intros Hc. unfold mk_query. destruct (ka_of_questions_total c1 c2 now qs Hc) as [[l1 E1] [l2 E2]].
  rewrite E1, E2. simpl. do 2 eexists. repeat split.
Qed.

Lemma mk_queries_rel c1 c2 now : forall qss,
  Rc c1 c2 -> exists q1 q2, mk_queries T1 O1 c1 qss now = Ok q1 /\ mk_queries T2 O2 c2 qss now = Ok q2 /\ Forall2 qd_eq q1 q2.
Proof.
  intros qss Hc. induction qss as [|qs qss (r1 & r2 & E1 & E2 & Hr)].
  - do 2 eexists. repeat split. constructor.
  - destruct (mk_query_rel c1 c2 qs now Hc) as (q1 & q2 & F1 & F2 & Hq).
    simpl. rewrite F1, F2, E1, E2. simpl. do 2 eexists. repeat split. constructor; assumption.
Qed.

Lemma repeat_q_rel n q1 q2 : qd_eq q1 q2 -> Forall2 qd_eq (repeat_q n q1) (repeat_q n q2).
Proof. intros H. induction n; simpl; constructor; auto. Qed.

(* ---- refresh_active_services ---- *)

Lemma refresh_srv_txt_rel now : forall insts c1 c2 acc,
  Rc c1 c2 ->
  exists c1' c2' acc', refresh_srv_txt T1 O1 c1 now insts acc = Ok (c1', acc') /\
                       refresh_srv_txt T2 O2 c2 now insts acc = Ok (c2', acc') /\ Rc c1' c2'.
Proof.
  induction insts as [|inst insts IH]; intros c1 c2 acc Hc.
  - do 3 eexists. repeat split. assumption.
  - simpl.
    destruct (refresh_bucket_rel now _ _ (get_bucket_rel (1, inst) _ _ Hc)) as (bs1 & bs2 & ds & E1 & E2 & Hbs).
    rewrite E1, E2. simpl.
    pose proof (set_bucket_rel (1, inst) _ _ _ _ Hc Hbs) as Hc1.
    destruct (refresh_bucket_rel now _ _ (get_bucket_rel (2, inst) _ _ Hc1)) as (bt1 & bt2 & dt & F1 & F2 & Hbt).
    rewrite F1, F2. simpl.
    apply IH. apply set_bucket_rel; assumption.
Qed.

Lemma refresh_hosts_rel now : forall hosts c1 c2,
  Rc c1 c2 ->
  exists c1' c2' qs, refresh_hosts T1 O1 c1 now hosts = Ok (c1', qs) /\
                     refresh_hosts T2 O2 c2 now hosts = Ok (c2', qs) /\ Rc c1' c2'.
Proof.
  induction hosts as [|h hosts IH]; intros c1 c2 Hc.
  - do 3 eexists. repeat split. assumption.
  - simpl.
    destruct (refresh_bucket_rel now _ _ (get_bucket_rel (3, lower h) _ _ Hc)) as (b1 & b2 & d & E1 & E2 & Hb).
    rewrite E1, E2. simpl.
    destruct (IH _ _ (set_bucket_rel (3, lower h) _ _ _ _ Hc Hb)) as (c1' & c2' & qs & F1 & F2 & Hc').
    rewrite F1, F2. simpl. do 3 eexists. repeat split. assumption.
Qed.

Lemma live_instances_rel now b1 b2 :
  Rb b1 b2 -> live_instances T1 O1 b1 now = live_instances T2 O2 b2 now.
Proof.
  intros H. unfold live_instances. induction H as [|e1 e2 b1 b2 [Hid Ht] Hb IH]; [reflexivity|].
  simpl. rewrite IH, Hid, (rel_expired HR _ _ now Ht). reflexivity.
Qed.

Lemma hosts_of_bucket_rel b1 b2 : Rb b1 b2 -> hosts_of_bucket T1 b1 = hosts_of_bucket T2 b2.
Proof.
  intros H. unfold hosts_of_bucket. induction H as [|e1 e2 b1 b2 [Hid Ht] Hb IH]; [reflexivity|].
  simpl. rewrite IH, Hid. reflexivity.
Qed.

Lemma flat_map_hosts_rel c1 c2 insts :
  Rc c1 c2 ->
  flat_map (fun i => hosts_of_bucket T1 (get_bucket T1 c1 (1, i))) insts =
  flat_map (fun i => hosts_of_bucket T2 (get_bucket T2 c2 (1, i))) insts.
Proof.
  intros Hc. induction insts as [|i insts IH]; [reflexivity|].
  simpl. rewrite IH. f_equal. apply hosts_of_bucket_rel. apply get_bucket_rel. assumption.
Qed.

Lemma Forall2_app_qd a1 a2 b1 b2 : Forall2 qd_eq a1 a2 -> Forall2 qd_eq b1 b2 -> Forall2 qd_eq (a1 ++ b1) (a2 ++ b2).
Proof. intros H1 H2. apply Forall2_app; assumption. Qed.

Lemma refresh_browse_rel c1 c2 now ty :
  Rc c1 c2 ->
  exists c1' c2' q1 q2, refresh_browse T1 O1 c1 now ty = Ok (c1', q1) /\
                        refresh_browse T2 O2 c2 now ty = Ok (c2', q2) /\ Rc c1' c2' /\ Forall2 qd_eq q1 q2.
Proof.
  intros Hc. unfold refresh_browse.
  destruct (refresh_bucket_rel now _ _ (get_bucket_rel (0, ty) _ _ Hc)) as (bp1 & bp2 & dp & E1 & E2 & Hbp).
  rewrite E1, E2. simpl.
  pose proof (set_bucket_rel (0, ty) _ _ _ _ Hc Hbp) as Hc1.
  destruct (mk_queries_rel _ _ now (if dp then [[(ty, TY_PTR)]] else []) Hc1) as (qp1 & qp2 & P1 & P2 & Hqp).
  rewrite P1, P2. simpl.
  rewrite (live_instances_rel now _ _ Hbp).
  destruct (refresh_srv_txt_rel now (live_instances T2 O2 bp2 now) _ _ [] Hc1) as (c21 & c22 & due & S1 & S2 & Hc2).
  rewrite S1, S2. simpl.
  destruct (mk_queries_rel _ _ now (map snd due) Hc2) as (qi1 & qi2 & I1 & I2 & Hqi).
  rewrite I1, I2. simpl.
  rewrite (flat_map_hosts_rel _ _ (live_instances T2 O2 bp2 now) Hc2).
  destruct (refresh_hosts_rel now
              (dedup_bytes (flat_map (fun i => hosts_of_bucket T2 (get_bucket T2 c22 (1, i))) (live_instances T2 O2 bp2 now)))
              _ _ Hc2) as (c31 & c32 & hq & H1 & H2 & Hc3).
  rewrite H1, H2. simpl.
  destruct (mk_queries_rel _ _ now hq Hc3) as (qh1 & qh2 & Q1 & Q2 & Hqh).
  rewrite Q1, Q2. simpl.
  do 4 eexists. repeat split; [assumption|].
  apply Forall2_app_qd; [assumption | apply Forall2_app_qd; assumption].
Qed.

Lemma refresh_host_rel c1 c2 now h :
  Rc c1 c2 ->
  exists c1' c2' q1 q2, refresh_host T1 O1 c1 now h = Ok (c1', q1) /\
                        refresh_host T2 O2 c2 now h = Ok (c2', q2) /\ Rc c1' c2' /\ Forall2 qd_eq q1 q2.
Proof.
  intros Hc. unfold refresh_host.
  destruct (refresh_once_bucket_rel now _ _ (get_bucket_rel (3, lower h) _ _ Hc)) as (b1 & b2 & due & E1 & E2 & Hb).
  rewrite E1, E2. simpl.
  pose proof (set_bucket_rel (3, lower h) _ _ _ _ Hc Hb) as Hc1.
  destruct (mk_queries_rel _ _ now (map (fun id => [(lower h, addr_qtype id)]) (dedup_scoped due)) Hc1)
    as (q1 & q2 & Q1 & Q2 & Hq).
  rewrite Q1, Q2. simpl. do 4 eexists. repeat split; assumption.
Qed.

(* ---- eviction ---- *)

Lemma sweep_srv_rel now : forall c1 c2,
  Rc c1 c2 -> Rc (fst (sweep_srv T1 O1 c1 now)) (fst (sweep_srv T2 O2 c2 now)) /\
              snd (sweep_srv T1 O1 c1 now) = snd (sweep_srv T2 O2 c2 now).
Proof.
  intros c1 c2 H. induction H as [|[k1 b1] [k2 b2] c1 c2 [Hk Hb] Hc [IH1 IH2]]; [split; [constructor | reflexivity]|].
  simpl in Hk. subst k2. simpl.
  destruct (sweep_srv T1 O1 c1 now) as [r1 g1]. destruct (sweep_srv T2 O2 c2 now) as [r2 g2].
  simpl in IH1, IH2. subst g2.
  destruct (fst k1 =? 1).
  - destruct (evict_rel _ _ now Hb) as [Hkept _]. unfold evict in Hkept. simpl in Hkept.
    rewrite (Rb_nil_iff _ _ Hkept). destruct (is_nil _); simpl.
    + split; [assumption | reflexivity].
    + split; [constructor; [split; [reflexivity | assumption] | assumption] | reflexivity].
  - simpl. split; [constructor; [split; [reflexivity | assumption] | assumption] | reflexivity].
Qed.

Lemma evict_instance_rel now gone e1 e2 c1 c2 rm :
  Re e1 e2 -> Rc c1 c2 ->
  Rc (fst (evict_instance T1 O1 now gone (c1, rm) e1)) (fst (evict_instance T2 O2 now gone (c2, rm) e2)) /\
  snd (evict_instance T1 O1 now gone (c1, rm) e1) = snd (evict_instance T2 O2 now gone (c2, rm) e2).
Proof.
  intros [Hid Ht] Hc. unfold evict_instance. rewrite Hid.
  destruct (alias_of (c_id e2)) as [inst|]; [|split; [assumption | reflexivity]].
  pose proof (get_bucket_rel (2, inst) _ _ Hc) as Hbt.
  destruct (evict_rel _ _ now Hbt) as [Hkt _].
  cbn [fst snd]. split; [apply set_bucket_rel; assumption | reflexivity].
Qed.

Lemma fold_evict_instance_rel now gone : forall b1 b2 c1 c2 rm,
  Rb b1 b2 -> Rc c1 c2 ->
  Rc (fst (fold_left (evict_instance T1 O1 now gone) b1 (c1, rm))) (fst (fold_left (evict_instance T2 O2 now gone) b2 (c2, rm))) /\
  snd (fold_left (evict_instance T1 O1 now gone) b1 (c1, rm)) = snd (fold_left (evict_instance T2 O2 now gone) b2 (c2, rm)).
Proof.
  intros b1 b2 c1 c2 rm H. revert c1 c2 rm. induction H as [|e1 e2 b1 b2 He Hb IH]; intros c1 c2 rm Hc.
  - simpl. split; [assumption | reflexivity].
  - simpl. destruct (evict_instance_rel now gone e1 e2 c1 c2 rm He Hc) as [Hc' Hrm].
    destruct (evict_instance T1 O1 now gone (c1, rm) e1) as [x1 r1].
    destruct (evict_instance T2 O2 now gone (c2, rm) e2) as [x2 r2]. simpl in *. subst r2.
    apply IH. assumption.
Qed.

Lemma sweep_rel kinds now : forall c1 c2, Rc c1 c2 -> Rc (sweep T1 O1 kinds c1 now) (sweep T2 O2 kinds c2 now).
Proof.
  intros c1 c2 H. induction H as [|[k1 b1] [k2 b2] c1 c2 [Hk Hb] Hc IH]; [constructor|].
  simpl in *. subst k2. destruct (kinds (fst k1)).
  - destruct (evict_rel _ _ now Hb) as [Hkept _]. unfold evict in Hkept. simpl in Hkept.
    rewrite (Rb_nil_iff _ _ Hkept). destruct (is_nil _); [assumption|].
    constructor; [split; [reflexivity | assumption] | assumption].
  - constructor; [split; [reflexivity | assumption] | assumption].
Qed.

Lemma removed_aliases_rel b1 b2 :
  Rb b1 b2 ->
  flat_map (fun e : centry T1 => match alias_of (c_id e) with Some a => [a] | None => [] end) b1 =
  flat_map (fun e : centry T2 => match alias_of (c_id e) with Some a => [a] | None => [] end) b2.
Proof.
  intros H. induction H as [|e1 e2 b1 b2 [Hid _] Hb IH]; [reflexivity|]. simpl. rewrite IH, Hid. reflexivity.
Qed.

Lemma evict_services_rel c1 c2 now browse :
  Rc c1 c2 ->
  Rc (fst (evict_services T1 O1 c1 now browse)) (fst (evict_services T2 O2 c2 now browse)) /\
  snd (evict_services T1 O1 c1 now browse) = snd (evict_services T2 O2 c2 now browse).
Proof.
  intros Hc. unfold evict_services.
  destruct (sweep_srv_rel now _ _ Hc) as [Hc0 Hg].
  destruct (sweep_srv T1 O1 c1 now) as [d1 g1]. destruct (sweep_srv T2 O2 c2 now) as [d2 g2].
  simpl in Hc0, Hg. subst g2.
  destruct browse as [ty|].
  - pose proof (get_bucket_rel (0, ty) _ _ Hc0) as Hp.
    destruct (fold_evict_instance_rel now g1 _ _ _ _ [] Hp Hc0) as [Hc1 Hrm].
    destruct (fold_left (evict_instance T1 O1 now g1) (get_bucket T1 d1 (0, ty)) (d1, [])) as [x1 r1].
    destruct (fold_left (evict_instance T2 O2 now g1) (get_bucket T2 d2 (0, ty)) (d2, [])) as [x2 r2].
    simpl in Hc1, Hrm. subst r2.
    destruct (evict_rel _ _ now Hp) as [Hkp Hxp].
    destruct (evict T1 O1 (get_bucket T1 d1 (0, ty)) now) as [kp1 xp1].
    destruct (evict T2 O2 (get_bucket T2 d2 (0, ty)) now) as [kp2 xp2]. simpl in Hkp, Hxp.
    simpl. split.
    + apply sweep_rel. apply set_bucket_rel; assumption.
    + rewrite (removed_aliases_rel _ _ Hxp). reflexivity.
  - simpl. split; [apply sweep_rel; assumption | reflexivity].
Qed.

Lemma map_c_id_rel b1 b2 : Rb b1 b2 -> map (@c_id T1) b1 = map (@c_id T2) b2.
Proof. intros H. induction H as [|e1 e2 b1 b2 [Hid _] Hb IH]; [reflexivity|]. simpl. rewrite IH, Hid. reflexivity. Qed.

Lemma evict_addrs_rel c1 c2 now host :
  Rc c1 c2 ->
  Rc (fst (evict_addrs T1 O1 c1 now host)) (fst (evict_addrs T2 O2 c2 now host)) /\
  snd (evict_addrs T1 O1 c1 now host) = snd (evict_addrs T2 O2 c2 now host).
Proof.
  intros Hc. unfold evict_addrs. simpl. split; [apply sweep_rel; assumption|].
  destruct host as [h|]; [|reflexivity].
  destruct (evict_rel _ _ now (get_bucket_rel (3, lower h) _ _ Hc)) as [_ Hx].
  apply map_c_id_rel. assumption.
Qed.

(* ---- one iteration, whole histories ---- *)


Lemma sim_iter_rel cfg c1 c2 now nsb nsh recs :
  Rc c1 c2 -> now < B63 -> Forall rec_ok recs ->
  exists c1' c2' o1 o2, sim_iter T1 O1 cfg c1 now nsb nsh recs = Ok (c1', o1) /\
                        sim_iter T2 O2 cfg c2 now nsb nsh recs = Ok (c2', o2) /\ Rc c1' c2' /\ io_eq o1 o2.
Proof.
  intros Hc Hn Hr. unfold sim_iter.
  destruct (ingest_rel now recs _ _ Hc Hn Hr) as (x1 & x2 & E1 & E2 & Hc0). rewrite E1, E2. simpl.
  assert (exists qb1 qb2,
    match sc_browse cfg with Some ty => let? q := mk_query T1 O1 x1 [(ty, TY_PTR)] now in Ok (repeat_q nsb q) | None => Ok [] end = Ok qb1 /\
    match sc_browse cfg with Some ty => let? q := mk_query T2 O2 x2 [(ty, TY_PTR)] now in Ok (repeat_q nsb q) | None => Ok [] end = Ok qb2 /\
    Forall2 qd_eq qb1 qb2) as (qb1 & qb2 & B1 & B2 & Hqb).
  { destruct (sc_browse cfg) as [ty|].
    - destruct (mk_query_rel _ _ [(ty, TY_PTR)] now Hc0) as (q1 & q2 & Q1 & Q2 & Hq). rewrite Q1, Q2. simpl.
      do 2 eexists. repeat split. apply repeat_q_rel. assumption.
    - do 2 eexists. repeat split. constructor. }
  rewrite B1, B2. simpl.
  assert (exists qh1 qh2,
    match sc_host cfg with Some h => let? q := mk_query T1 O1 x1 [(h, TY_A); (h, TY_AAAA)] now in Ok (repeat_q nsh q) | None => Ok [] end = Ok qh1 /\
    match sc_host cfg with Some h => let? q := mk_query T2 O2 x2 [(h, TY_A); (h, TY_AAAA)] now in Ok (repeat_q nsh q) | None => Ok [] end = Ok qh2 /\
    Forall2 qd_eq qh1 qh2) as (qh1 & qh2 & H1 & H2 & Hqh).
  { destruct (sc_host cfg) as [h|].
    - destruct (mk_query_rel _ _ [(h, TY_A); (h, TY_AAAA)] now Hc0) as (q1 & q2 & Q1 & Q2 & Hq). rewrite Q1, Q2. simpl.
      do 2 eexists. repeat split. apply repeat_q_rel. assumption.
    - do 2 eexists. repeat split. constructor. }
  rewrite H1, H2. simpl.
  assert (exists y1 y2 qr1 qr2,
    match sc_browse cfg with Some ty => refresh_browse T1 O1 x1 now ty | None => Ok (x1, []) end = Ok (y1, qr1) /\
    match sc_browse cfg with Some ty => refresh_browse T2 O2 x2 now ty | None => Ok (x2, []) end = Ok (y2, qr2) /\
    Rc y1 y2 /\ Forall2 qd_eq qr1 qr2) as (y1 & y2 & qr1 & qr2 & R1 & R2 & Hc1 & Hqr).
  { destruct (sc_browse cfg) as [ty|].
    - apply refresh_browse_rel. assumption.
    - do 4 eexists. repeat split; [assumption | constructor]. }
  rewrite R1, R2. simpl.
  assert (exists z1 z2 qa1 qa2,
    match sc_host cfg with Some h => refresh_host T1 O1 y1 now h | None => Ok (y1, []) end = Ok (z1, qa1) /\
    match sc_host cfg with Some h => refresh_host T2 O2 y2 now h | None => Ok (y2, []) end = Ok (z2, qa2) /\
    Rc z1 z2 /\ Forall2 qd_eq qa1 qa2) as (z1 & z2 & qa1 & qa2 & A1 & A2 & Hc2 & Hqa).
  { destruct (sc_host cfg) as [h|].
    - apply refresh_host_rel. assumption.
    - do 4 eexists. repeat split; [assumption | constructor]. }
  rewrite A1, A2. simpl.
  destruct (evict_services_rel _ _ now (sc_browse cfg) Hc2) as [Hc3 Hrs].
  destruct (evict_services T1 O1 z1 now (sc_browse cfg)) as [w1 rs1].
  destruct (evict_services T2 O2 z2 now (sc_browse cfg)) as [w2 rs2]. simpl in Hc3, Hrs. subst rs2.
  destruct (evict_addrs_rel _ _ now (sc_host cfg) Hc3) as [Hc4 Hra].
  unfold evict_addrs in Hc4, Hra. simpl in Hc4, Hra.
  do 4 eexists. split; [reflexivity|]. split; [reflexivity|]. split; [exact Hc4|].
  unfold io_eq. simpl. split; [|split; [reflexivity | exact Hra]].
  repeat apply Forall2_app_qd; assumption.
Qed.


Lemma sim_run_rel cfg : forall steps c1 c2,
  Rc c1 c2 -> Forall step_ok steps ->
  exists os1 os2, sim_run T1 O1 cfg c1 steps = Ok os1 /\ sim_run T2 O2 cfg c2 steps = Ok os2 /\ Forall2 io_eq os1 os2.
Proof.
  induction steps as [|s steps IH]; intros c1 c2 Hc Hs.
  - do 2 eexists. repeat split. constructor.
  - inversion Hs as [|? ? [Hn Hr] Hs']; subst.
    destruct (sim_iter_rel cfg c1 c2 (ss_now s) (ss_nsb s) (ss_nsh s) (ss_recs s) Hc Hn Hr)
      as (c1' & c2' & o1 & o2 & E1 & E2 & Hc' & Ho).
    destruct (IH _ _ Hc' Hs') as (os1 & os2 & F1 & F2 & Hos).
    simpl. rewrite E1, E2. simpl. rewrite F1, F2. simpl.
    do 2 eexists. repeat split. constructor; assumption.
Qed.

End Rel.
