(* C07, safety on calm histories (any schedule): before T + 750 the service is not Announced on the interface
   and its SRV/TXT are not active there; an announcement attempt for it sends nothing. *)
From Coq Require Import List NArith Bool Lia Arith PeanoNat.
From Mdns Require Import Bytes Rec ParamsRegistry Names WireOut Registry RegistryDaemon RegistrySpec RegistryTrace
     RegistryParamsPinned RegistryProofs RegistryDaemonProofs RegistryLiftProofs RegistryHistoryProofs
     RegistrySilenceProofs RegistryLivenessProofs RegistryDeferralProofs RegistryTimingProofs RegistryPersistProofs.
Import ListNotations.
Open Scope N_scope.

(* the probe for the instance name is in progress since T and nothing is active under that name *)
Definition Qp (n : bytes) (T : N) (rg : registry) : Prop :=
  clean rg /\ NoDup (keys (rg_probing rg)) /\ (exists p, aget n (rg_probing rg) = Some p /\ pb_start p = T) /\
  aget n (rg_active rg) = None.

Lemma Qp_ipd n T rg r svc start : p_new r = None -> Qp n T rg -> Qp n T (fst (is_probing_done rg r svc start)).
Proof.
  intros Hn (C & Hnd & (p & G & S) & A). split; [apply ipd_clean; assumption|]. split; [apply (ipd_nodup rg r svc start (N.le_0_l _) Hnd)|].
  split; [|rewrite ipd_active; exact A].
  unfold is_probing_done. destruct (in_active rg r); [exists p; auto|]. cbv zeta. cbn [fst rg_probing].
  destruct (beq n (p_name r)) eqn:B.
  - apply beq_eq in B. subst n. rewrite aget_aset_same, G. eexists. split; [reflexivity|exact S].
  - rewrite aget_aset_other; [exists p; auto|]. intros E. rewrite E, beq_refl in B. discriminate.
Qed.
Lemma Qp_clean n T rg : Qp n T rg -> rg_changes rg = [].
Proof. intros ((C & _) & _). exact C. Qed.

Lemma expire_one_active_other rg m n : n <> m -> aget n (rg_active (fst (fst (expire_one rg m)))) = aget n (rg_active rg).
Proof.
  intros Hne. unfold expire_one. destruct (aget m (rg_probing rg)) as [pb|]; [|reflexivity].
  destruct (pb_records pb); [reflexivity|]. cbn [fst rg_active]. destruct (aget m (rg_active rg)); apply aget_aset_other; exact Hne.
Qed.

Lemma expire_all_active_other n : forall names rg, ~ In n names -> aget n (rg_active (fst (fst (expire_all rg names)))) = aget n (rg_active rg).
Proof.
  induction names as [|m t IH]; intros rg Hn; [reflexivity|]. cbn [expire_all].
  pose proof (expire_one_active_other rg m n (fun E => Hn (or_introl (eq_sym E)))) as E1.
  destruct (expire_one rg m) as [[rg1 ev1] w1]. cbn [fst] in E1.
  pose proof (IH rg1 (fun H => Hn (or_intror H))) as E2. destruct (expire_all rg1 t) as [[rg2 ev2] w2]. cbn [fst] in *. congruence.
Qed.

(* a probing pass before T + 750 leaves the probe in progress and the name inactive *)
Lemma Qp_step n T rg now : now < T + 750 -> Qp n T rg -> Qp n T (fst (fst (fst (probe_step rg now)))).
Proof.
  intros Hlt (C & Hnd & (p & G & S) & A).
  destruct (probe_step_general rg now C Hnd) as (C1 & N1 & _).
  destruct (probe_step rg now) as [[[rg1 qs] evs] waiting] eqn:PS. cbn [fst] in *.
  destruct (probe_step_tick _ _ _ _ _ _ PS) as (ex & TK).
  pose proof (tick_names_aget rg now rg1 (map fst qs) ex n Hnd TK) as TA. rewrite G in TA.
  assert (Hx : expires now p = false).
  { destruct (expires now p) eqn:X; [|reflexivity]. apply expires_iff in X. lia. }
  split; [exact C1|]. split; [exact N1|]. split.
  - destruct (sends now p) eqn:Sd.
    + destruct TA as (_ & _ & TA). exists (tick_probe now p). split; [exact TA|]. rewrite (proj1 (hold_tick_probe now p)). exact S.
    + rewrite Hx in TA. destruct TA as (_ & _ & TA). exists p. auto.
  - assert (Hnex : ~ In n ex) by (destruct (sends now p); [exact (proj1 (proj2 TA))|rewrite Hx in TA; exact (proj1 (proj2 TA))]).
    unfold tick_names in TK. rewrite check_probes_spec in TK.
    match type of TK with context [expire_all ?r ?e] => pose proof (expire_all_active_other n e r) as EA; destruct (expire_all r e) as [[rg' ev'] w'] end.
    inversion TK; subst. cbn [fst rg_active] in EA. rewrite EA; [exact A|exact Hnex].
Qed.

Lemma probe_records_first_inactive s c rg r t :
  s_probe s = true -> in_active rg r = false -> snd (probe_records rg s c (r :: t)) = false.
Proof.
  intros Hp Hi. cbn [probe_records]. rewrite Hp. unfold is_probing_done. rewrite Hi. cbv zeta.
  match goal with |- context [probe_records ?r0 s c t] => destruct (probe_records r0 s c t) as [rg2 ok2] end. reflexivity.
Qed.

(* an announcement attempt for a probing service whose instance name has nothing active: nothing is
   sent, nothing is announced *)
Lemma announce_blocked s itf rg now js :
  s_probe s = true -> rg_changes rg = [] -> aget (s_full s) (rg_active rg) = None ->
  snd (fst (fst (announce_both s itf rg now js))) = [] /\ snd (fst (announce_both s itf rg now js)) = false.
Proof.
  intros Hp C A.
  assert (K : forall rg0 v4 js0, rg_changes rg0 = [] -> aget (s_full s) (rg_active rg0) = None ->
              snd (fst (prepare_announce s itf rg0 v4 now js0)) = None /\
              rg_changes (fst (fst (prepare_announce s itf rg0 v4 now js0))) = [] /\
              aget (s_full s) (rg_active (fst (fst (prepare_announce s itf rg0 v4 now js0)))) = None).
  { intros rg0 v4 js0 C0 A0. pose proof (prepare_announce_stable s itf rg0 v4 now js0) as [PA PC].
    split; [|split; [rewrite PC; exact C0|rewrite PA; exact A0]].
    unfold prepare_announce. destruct (addrs_on_intf s itf v4) as [|b l] eqn:EA; [reflexivity|]. destruct (draw js0) as [j js'].
    assert (Hin : in_active rg0 (srv_rec rg0 s) = false).
    { unfold in_active, srv_rec. rewrite with_change_name by reflexivity. unfold resolve. rewrite C0. cbn [aget]. rewrite A0. reflexivity. }
    pose proof (probe_records_first_inactive s (now + j) rg0 (srv_rec rg0 s) (txt_rec rg0 s :: map (addr_rec rg0 s itf) (addrs_on_intf s itf v4)) Hp Hin) as F.
    unfold announce_records.
    destruct (probe_records rg0 s (now + j) (srv_rec rg0 s :: txt_rec rg0 s :: map (addr_rec rg0 s itf) (addrs_on_intf s itf v4))) as [rg' ok]. cbn [snd] in F. subst ok. reflexivity. }
  unfold announce_both. destruct (K rg true js C A) as (M4 & C4 & A4). destruct (prepare_announce s itf rg true now js) as [[rg1 m4] js1]. cbn [fst snd] in *.
  destruct (K rg1 false js1 C4 A4) as (M6 & _ & _). destruct (prepare_announce s itf rg1 false now js1) as [[rg2 m6] js2]. cbn [fst snd] in *.
  subst m4 m6. split; reflexivity.
Qed.

(* ---- the service stays un-announced on interface k while its instance name is inactive ----------------------- *)

Definition UA (k : N) (key : bytes) (svcs : list (bytes * svc)) : Prop :=
  exists s, aget key svcs = Some s /\ announced_on k s = false.

Lemma UA_sput k key svcs k0 s1 i x :
  UA k key svcs -> aget k0 svcs = Some s1 -> (k0 = key -> i <> k) -> UA k key (sput k0 (set_status i x s1) svcs).
Proof.
  intros (s & G & A) G1 Hc. unfold UA, sput. destruct (beq key k0) eqn:B.
  - apply beq_eq in B. subst k0. rewrite aget_aset_same. eexists. split; [reflexivity|]. rewrite G in G1. inversion G1; subst.
    unfold announced_on, set_status in *. cbn [s_status]. rewrite nget_nset_other by (intros E; apply (Hc eq_refl); symmetry; exact E). exact A.
  - rewrite aget_aset_other; [exists s; auto|]. intros E. rewrite E, beq_refl in B. discriminate.
Qed.

Section Unann.
  Variables (s0 : svc) (itf : intf) (T : N).
  Let k := if_index itf.
  Let key := lower (s_full s0).
  Hypothesis Hprobe : s_probe s0 = true.
  Definition QP := Qp (s_full s0) T.
  Definition KU (st : dstate) : Prop := Kept QP k key s0 itf st /\ UA k key (d_svcs st).

  (* the registry of k blocks every announcement attempt for our service *)
  Lemma blocked_for s itf' rg now js : svc_eqv s0 s -> QP rg ->
    snd (fst (fst (announce_both s itf' rg now js))) = [] /\ snd (fst (announce_both s itf' rg now js)) = false.
  Proof.
    intros [(A & B & C & _) P] (Cl & _ & _ & Ac). apply announce_blocked; [rewrite <- P; exact Hprobe|exact (proj1 Cl)|rewrite <- C; exact Ac].
  Qed.

  Lemma register_resend_UA st full i now js : KU st -> UA k key (d_svcs (fst (fst (register_resend st full i now js)))).
  Proof.
    intros [(D & F & (rg & G & HQ) & (s & GS & QS)) U]. unfold register_resend.
    destruct (aget (lower full) (d_svcs st)) as [s1|] eqn:G1; [|exact U].
    destruct (nget i (d_regs st)) as [rg0|] eqn:G0; [|exact U]. destruct (find_intf st i) as [itf'|]; [|exact U].
    destruct (announce_both s1 itf' rg0 now js) as [[[rg' os] ann] js'] eqn:AB. destruct ann; [|exact U]. cbn [fst d_svcs].
    apply UA_sput; [exact U|exact G1|]. intros Ek Ei. subst i. fold key in GS. rewrite Ek, GS in G1. inversion G1; subst s1.
    rewrite G in G0. inversion G0; subst rg0. destruct (blocked_for s itf' rg now js QS HQ) as [_ Hb]. rewrite AB in Hb. discriminate.
  Qed.

  Lemma run_due_KU now : forall due st js, KU st -> KU (fst (fst (run_due st due now js))).
  Proof.
    induction due as [|[t c] due IH]; intros st js H; [exact H|]. cbn [run_due]. destruct c.
    - assert (H1 : KU (fst (fst (register_resend st full ifidx now js)))).
      { split; [apply (register_resend_Kept QP (Qp_ipd _ T) (Qp_clean _ T)); exact (proj1 H)|apply register_resend_UA; exact H]. }
      destruct (register_resend st full ifidx now js) as [[st1 os1] js1]. specialize (IH st1 js1 H1). destruct (run_due st1 due now js1) as [[st2 os2] js2]. exact IH.
    - specialize (IH st js H). destruct (run_due st due now js) as [[st2 os2] js2]. exact IH.
  Qed.

  Lemma handle_dgrams_svcs now : forall gs st js, d_svcs (fst (fst (handle_dgrams st gs now js))) = d_svcs st.
  Proof.
    induction gs as [|g t IH]; intros st js; [reflexivity|]. cbn [handle_dgrams].
    pose proof (handle_dgram_svcs st g now js) as E. destruct (handle_dgram st g now js) as [[st1 os1] js1]. cbn [fst] in E.
    specialize (IH st1 js1). destruct (handle_dgrams st1 t now js1) as [[st2 os2] js2]. cbn [fst] in *. congruence.
  Qed.

  Lemma exec_calls_UA now : forall cs st js, Forall (calm_call key) cs -> UA k key (d_svcs st) -> UA k key (d_svcs (fst (fst (exec_calls st cs now js)))).
  Proof.
    induction cs as [|c t IH]; intros st js Hc H; [exact H|]. cbn [exec_calls]. apply Forall_cons_iff in Hc as [Hc1 Hc2].
    assert (H1 : UA k key (d_svcs (fst (fst (fst (exec_call st c now js))))) /\ snd (exec_call st c now js) = false).
    { destruct c; cbn [calm_call] in Hc1; try contradiction; cbn [exec_call]; try (split; [exact H|reflexivity]).
      unfold register_service. destruct (register_intfs (d_intfs st) (auto_addrs st s) (d_regs st) now js) as [[[[s' regs] os] anns] js']. cbn [fst snd d_svcs].
      split; [|reflexivity]. destruct H as (s1 & G & A). exists s1. split; [|exact A]. rewrite aget_sput_other; [exact G|]. rewrite auto_addrs_full. intros X. apply Hc1. symmetry. exact X. }
    destruct (exec_call st c now js) as [[[st1 os1] js1] stop]. cbn [fst snd] in H1. destruct H1 as [U1 ->].
    specialize (IH st1 js1 Hc2 U1). destruct (exec_calls st1 t now js1) as [[st2 os2] js2]. exact IH.
  Qed.

  (* announce_waiting on any interface: on k the registry blocks our service, elsewhere the status on k is not touched *)
  Lemma announce_waiting_UA itf' now m : forall waiting rg svcs js,
    (if_index itf' = k -> QP rg) -> svc_at key s0 svcs -> UA k key svcs ->
    UA k key (snd (fst (fst (fst (announce_waiting waiting itf' rg svcs now js m))))).
  Proof.
    induction waiting as [|w t IH]; intros rg svcs js HQ SA U; [exact U|]. cbn [announce_waiting].
    destruct (aget (lower w) svcs) as [s|] eqn:G; [|apply IH; assumption]. destruct (announced_on (if_index itf') s); [apply IH; assumption|].
    assert (HQ1 : if_index itf' = k -> QP (fst (fst (fst (announce_both s itf' rg now js))))).
    { intros E. apply (announce_both_Q QP (Qp_ipd _ T) (Qp_clean _ T)). exact (HQ E). }
    destruct (announce_both s itf' rg now js) as [[[rg1 os] ann] js1] eqn:AB. cbn [fst] in HQ1. destruct ann.
    - assert (U1 : UA k key (sput (lower w) (set_status (if_index itf') SAnnounced s) svcs)).
      { apply UA_sput; [exact U|exact G|]. intros Ek Ei. destruct SA as (s1 & G1 & Q1). rewrite Ek, G1 in G. inversion G; subst s1.
        destruct (blocked_for s itf' rg now js Q1 (HQ Ei)) as [_ Hb]. rewrite AB in Hb. discriminate. }
      specialize (IH rg1 _ js1 HQ1 (svc_at_sput key s0 svcs (lower w) s _ _ SA G) U1).
      destruct (announce_waiting t itf' rg1 _ now js1 m) as [[[[rg2 svcs2] os2] rt2] js2]. exact IH.
    - specialize (IH rg1 svcs js1 HQ1 SA U). destruct (announce_waiting t itf' rg1 svcs now js1 m) as [[[[rg2 svcs2] os2] rt2] js2]. exact IH.
  Qed.

  Lemma probing_intfs_KU now : now < T + 750 -> forall ifs st js, KU st -> KU (fst (fst (probing_intfs ifs st now js))).
  Proof.
    intros Hlt. induction ifs as [|i0 t IH]; intros st js H; [exact H|].
    pose proof (probing_intfs_Kept QP (Qp_ipd _ T) (Qp_clean _ T) (fun n => n < T + 750) (fun rg n Hn HQ => Qp_step _ T rg n Hn HQ) k key s0 itf now Hlt [i0] st js (proj1 H)) as K1.
    rewrite probing_cons_state.
    assert (U1 : UA k key (d_svcs (fst (fst (probing_intfs [i0] st now js))))).
    { cbn [probing_intfs]. destruct (nget (if_index i0) (d_regs st)) as [rg|] eqn:G; [|exact (proj2 H)].
      pose proof (Qp_step (s_full s0) T rg now Hlt) as HS. destruct (probe_step rg now) as [[[rg1 qs] evs] waiting]. cbn [fst] in HS.
      assert (HQ : if_index i0 = k -> QP rg1).
      { intros E. apply HS. destruct H as [(_ & _ & (r0 & G0 & H0) & _) _]. rewrite E in G. rewrite G0 in G. inversion G; subst. exact H0. }
      pose proof (announce_waiting_UA i0 now (d_mon st) waiting rg1 (d_svcs st) js HQ (proj2 (proj2 (proj2 (proj1 H)))) (proj2 H)) as UU.
      destruct (announce_waiting waiting i0 rg1 (d_svcs st) now js (d_mon st)) as [[[[rg2 svcs2] os2] rt2] js2]. exact UU. }
    apply IH. split; assumption.
  Qed.

  (* ONE CALM ITERATION before T + 750, at any time, late or not *)
  Lemma calm_iteration_KU st it st' os js :
    it_now it < T + 750 -> calm_iter key it -> iterate st it = (st', os, Running, js) -> KU st -> KU st'.
  Proof.
    intros Hlt [Hcd Hcc] Hit [HK HU]. unfold iterate in Hit. rewrite (proj1 HK) in Hit. set (now := it_now it) in *.
    set (gs := filter (fun g => g_v4 g) (it_dgrams it) ++ filter (fun g => negb (g_v4 g)) (it_dgrams it)) in *.
    assert (Hg : Forall calm_dgram gs).
    { apply Forall_app. split; apply Forall_forall; intros g Hg; apply filter_In in Hg as [Hg _]; exact (proj1 (Forall_forall _ _) Hcd g Hg). }
    pose proof (handle_dgrams_Kept QP k key s0 itf now gs st (it_jitter it) Hg HK) as K1.
    pose proof (handle_dgrams_svcs now gs st (it_jitter it)) as S1.
    destruct (handle_dgrams st gs now (it_jitter it)) as [[st1 os1] js1]. cbn [fst] in K1, S1.
    pose proof (exec_calls_Kept QP (Qp_ipd _ T) (Qp_clean _ T) k key s0 itf now (it_calls it) st1 js1 Hcc K1) as K2.
    assert (U1 : UA k key (d_svcs st1)) by (rewrite S1; exact HU).
    pose proof (exec_calls_UA now (it_calls it) st1 js1 Hcc U1) as U2.
    destruct (exec_calls st1 (it_calls it) now js1) as [[st2 os2] js2]. cbn [fst] in K2, U2. rewrite (proj1 K2) in Hit.
    assert (KU3 : KU (fst (fst (retransmit st2 now js2)))).
    { unfold retransmit. apply run_due_KU. destruct K2 as (D & F & R & S). split; [repeat split; assumption|exact U2]. }
    destruct (retransmit st2 now js2) as [[st3 os3] js3]. cbn [fst] in KU3.
    pose proof (probing_intfs_KU now Hlt (d_intfs st3) st3 js3 KU3) as KU4. unfold probing_handler in Hit.
    destruct (probing_intfs (d_intfs st3) st3 now js3) as [[st4 os4] js4]. cbn [fst] in KU4.
    destruct (cut_at_panic (os1 ++ os2 ++ os3 ++ os4)) as [o p]. destruct p; [discriminate|]. inversion Hit; subst. exact KU4.
  Qed.

  (* SAFETY over calm histories, whatever the schedule: through every history of calm iterations before
     T + 750 the service is not Announced on the interface and nothing is active under its instance name *)
  Theorem unannounced_before_T750 : forall its st,
    KU st -> Forall (calm_iter key) its -> all_running st its -> Forall (fun it => it_now it < T + 750) its ->
    KU (run_state st its).
  Proof.
    induction its as [|it rest IH]; intros st H Hc Hr Ht; [exact H|].
    apply Forall_cons_iff in Hc as [Hc1 Hc2]. apply Forall_cons_iff in Ht as [Ht1 Ht2]. cbn [all_running] in Hr. destruct Hr as [Hr1 Hr2].
    cbn [run_state]. destruct (iterate st it) as [[[st1 os1] e1] js1] eqn:Hit. cbn [fst snd] in *. subst e1.
    apply IH; try assumption. exact (calm_iteration_KU st it st1 os1 js1 Ht1 Hc1 Hit H).
  Qed.
End Unann.
